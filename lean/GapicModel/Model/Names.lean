import GapicModel.Pinned.Tables
import GapicModel.Pinned.Regexes
import GapicModel.Pinned.CharClass
import GapicModel.Regex.Match
import GapicModel.Model.AddressT
/-
C12 — reserved-word and collision handling.
  gapic/utils/reserved_names.py (RESERVED_NAMES), gapic/schema/wrappers.py (Field.name,
  MessageType.get_field, Method._fields_mapping, FieldHeader.disambiguated, client_method_name,
  transport_safe_name), gapic/utils/uri_conv.py, gapic/schema/api.py (disambiguate_keyword_sanitize_fname),
  gapic/utils/case.py (to_snake_case).
A dotted field path is a list of segments (`"a.b".split(".")`).
-/
namespace GapicModel.Model.Names
open GapicModel.Regex

def isReserved (w : String) : Bool := Pinned.reservedNames.contains w
def isKeyword (w : String) : Bool := Pinned.pyKeywords.contains w
/-- `invalid_module_names = set(keyword.kwlist) | {"metadata","retry","timeout","request"}` -/
def isInvalidModule (w : String) : Bool := Pinned.pyKeywords.contains w || Pinned.invalidModuleExtra.contains w
/-- `TRANSPORT_UNSAFE_NAMES` -/
def isTransportUnsafe (w : String) : Bool := Pinned.transportUnsafeExtra.contains w || Pinned.pyKeywords.contains w

/-- `Field.name` (proto-plus types), `_fix_name_segment`, the lookup key of `get_field` -/
def fieldAttr (n : String) : String := if isReserved n then n ++ "_" else n

abbrev Path := List String

/-- the attribute path Python must evaluate to reach the field: every segment is the proto-plus attribute -/
def attrPath (p : Path) : Path := p.map fieldAttr

/-- `convert_uri_fieldnames` on one variable: `".".join(_fix_name_segment(s) for s in path.split("."))` -/
def uriVar (p : Path) : Path := p.map fieldAttr

/-- `FieldHeader.disambiguated` (since the C12 `fix:` commit a11332b): every segment of the dotted
path is suffixed when reserved. (Before: only the whole dotted string was tested.) -/
def headerAttr (p : Path) : Path := p.map fieldAttr

/-- the key of `Method._fields_mapping` (since the `fix:` commit a0434d5): every segment suffixed when
reserved. (Before: only the terminal segment.) -/
def flattenKey (p : Path) : Path := p.map fieldAttr

/-- `RoutingParameter.disambiguated_field` (added by the `fix:` commit 52dedca): the attribute path
read by `create_metadata` for an explicit routing parameter -/
def routingFieldAttr (p : Path) : Path := p.map fieldAttr

/-- `field.name`, the keyword parameter offered for a flattened field -/
def flattenParam (p : Path) : Option String := p.getLast?.map fieldAttr

/-! ### to_snake_case (four re.sub calls, then lower()) -/

def lowerChar (c : Char) : Char := if 'A' ≤ c ∧ c ≤ 'Z' then Char.ofNat (c.toNat + 32) else c

/-- `to_snake_case` on ASCII input (`str.lower` is modelled for A–Z only) -/
def toSnakeCase (s : List Char) : List Char :=
  let t := Pinned.classTables
  let s := pySub t Pinned.snake1.re Pinned.snake1Repl s
  let s := pySub t Pinned.snake2.re Pinned.snake2Repl s
  let s := pySub t Pinned.snake3.re Pinned.snake3Repl s
  let s := pySub t Pinned.snake4.re Pinned.snake4Repl s
  s.map lowerChar

def lower (s : String) : String := String.ofList (s.toList.map lowerChar)

/-- `Method.client_method_name` (non-internal methods) -/
def clientMethodName (n : String) : String := if isKeyword (lower n) then n ++ "_" else n
/-- `Method.transport_safe_name` -/
def transportSafeName (n : String) : String := if isTransportUnsafe (lower n) then n ++ "_" else n

/-! ### proto file names -/

/-- `disambiguate_keyword_sanitize_fname` on the base name (dots already replaced), within one directory:
`visited` = base names already taken there. -/
def disambFile (visited : List String) : Nat → String → String
  | 0, n => n
  | fuel + 1, n =>
    if isInvalidModule n || visited.contains n then
      let n' := n ++ "_"
      if visited.contains n' then disambFile visited fuel n' else n'
    else n

/-! ### protobuf's ToJsonName (external; validated against descriptor_pool's computed json_name) -/

def upperChar (c : Char) : Char := if 'a' ≤ c ∧ c ≤ 'z' then Char.ofNat (c.toNat - 32) else c

def toJsonNameAux : Bool → List Char → List Char
  | _, [] => []
  | up, c :: cs => if c = '_' then toJsonNameAux true cs
                   else (if up then upperChar c else c) :: toJsonNameAux false cs

def toJsonName (s : List Char) : List Char := toJsonNameAux false s

/-! ### to_camel_case (the `camel_case` filter: key of the REST transport's table of REQUIRED query fields) -/

/-- `re.split(r"[_-]", s)`: never empty; a separator at either end yields an empty item there -/
def splitSep : List Char → List (List Char)
  | [] => [[]]
  | c :: cs =>
    if c = '_' ∨ c = '-' then [] :: splitSep cs
    else match splitSep cs with
      | [] => [[c]]
      | h :: t => (c :: h) :: t

/-- `str.capitalize` on ASCII -/
def capitalize : List Char → List Char
  | [] => []
  | c :: cs => upperChar c :: cs.map lowerChar

/-- `to_camel_case`: `items = re.split(r"[_-]", to_snake_case(s)); items[0].lower() + "".join(x.capitalize() for x in items[1:])` -/
def toCamelCase (s : List Char) : List Char :=
  match splitSep (toSnakeCase s) with
  | [] => []
  | h :: t => h.map lowerChar ++ (t.map capitalize).flatten

/-- `w` has no capital letter (every reserved word but `None`, `True`, `False`) -/
def noUpper (w : String) : Bool := w.toList.all fun c => !('A' ≤ c ∧ c ≤ 'Z')

/-! ### module aliases under a method's context (`Service.with_context`, `Method.with_context`, `Address.module_alias`) -/

/-- `Service.with_context`: every method is rendered under `collisions | set(v.flattened_fields.keys())`: the service-level names plus
the KEYS of `_fields_mapping` (attribute paths, every reserved segment suffixed, joined by "."); `Method.with_context` hands the set
unchanged to its input, output and LRO types -/
def joinDots : List String → String
  | [] => ""
  | [a] => a
  | a :: b :: t => a ++ "." ++ joinDots (b :: t)

def methodCollisions (svcNames : List String) (sigFields : List Path) : List String :=
  svcNames ++ sigFields.map fun p => joinDots (flattenKey p)

/-- `Address.module_alias` is non-empty iff `self.module in self.collisions or self.module in RESERVED_NAMES` -/
def isAliased (collisions : List String) (module : String) : Bool := collisions.contains module || isReserved module

/-! ### `Service.names`: which module names collide (proto modules AND the wrapper modules the service code imports) -/

/-- a referenced type's home: (module, package). `Method.ref_types` holds the proto types (request, response, fields, LRO response/metadata,
page items) and the WRAPPER python types of `client_output(_async)`: `google.api_core`.`operation` / `operation_async` for an LRO,
`google.api_core`.`extended_operation`, `<package>.services.<service>`.`pagers` for a paginated method -/
abbrev Ref := String × String

/-- the wrapper python types one method adds to its `ref_types` -/
def wrapperRefs (isLro isExtendedLro isPaged : Bool) (servicePackage : String) : List Ref :=
  (if isLro then [("operation", "google.api_core"), ("operation_async", "google.api_core")] else []) ++
  (if isExtendedLro then [("extended_operation", "google.api_core")] else []) ++
  (if isPaged then [("pagers", servicePackage)] else [])

/-- module names used from more than one package (`len(packages) > 1`); duplicates are harmless (the code builds a set) -/
def collidingModules (refs : List Ref) : List String :=
  refs.filterMap fun r => if refs.any (fun r' => r'.1 == r.1 && r'.2 != r.2) then some r.1 else none

/-- `Service.names`: the service and client names, the snake-cased method names, the colliding module names -/
def serviceNames (own methods : List String) (refs : List Ref) : List String := own ++ methods ++ collidingModules refs

/-! ### `Address.python_import` against `Address.__str__`: the name an import binds and the name references use -/

/-- the four branches of `Address.python_import`: a python wrapper type (no `api_naming`), a type of the API being generated, a type of a
dependency declared proto-plus (`proto-plus-deps`, `is_proto_plus_type`), any other dependency (`<module>_pb2`) -/
inductive ImportKind where
  | python | own | plusDep | pb2
  deriving DecidableEq, Repr

/-- `imp.Import(package, module, alias)`; `alias = ""` is "no alias" -/
structure PyImport where
  module : String
  alias : String
  deriving DecidableEq, Repr

/-- `Address.python_import`: the first three branches pass `alias=self.module_alias`, the `_pb2` branch passes none.
(`alias` = `Address.module_alias`, "" when the module is in no collision.) -/
def pythonImport (k : ImportKind) (module alias : String) : PyImport :=
  match k with
  | .python => ⟨module, alias⟩
  | .own => ⟨module, alias⟩
  | .plusDep => ⟨module, alias⟩
  | .pb2 => ⟨module ++ "_pb2", ""⟩

/-- `from <package> import <module> [as <alias>]` binds the alias when there is one -/
def PyImport.bound (i : PyImport) : String := if i.alias = "" then i.module else i.alias

/-- `Address.is_proto_plus_type` per branch (a python wrapper type counts: its package starts with the empty `proto_package`) -/
def isProtoPlus : ImportKind → Bool
  | .pb2 => false
  | _ => true

/-- `Address.__str__`, the module part: the module, replaced by the alias when there is one, replaced by `<module>_pb2` when the type is
not a proto-plus type -/
def referenceModule (k : ImportKind) (module alias : String) : String :=
  let name := if alias = "" then module else alias
  if isProtoPlus k then name else module ++ "_pb2"

/-- which branch of `Address.python_import` a (translated-model) address takes: the correspondence under which the hand-written
`pythonImport` / `referenceModule` above are compared with the translation of the current source (Props/C12.lean, `hand_…_is_translated`) -/
def kindOf (a : GapicModel.Model.AddressT.Addr) : ImportKind :=
  if !a.naming.truthy then .python
  else if GapicModel.PyRt.startswith (GapicModel.Model.AddressT.protoPackage a) a.naming.protoPackage then .own
  else if GapicModel.Model.AddressT.isProtoPlus a then .plusDep
  else .pb2

/-! ### the module a library imports for a DEPENDENCY file against the module the dependency ships -/

/-- `API.build` passes EVERY file descriptor of the request (own or dependency) through `disambiguate_keyword_sanitize_fname`; the module
of a dependency type is then imported as such (proto-plus dependency, `proto-plus-deps`) or with `_pb2` appended (`Address.python_import`) -/
def importedDepModule (visited : List String) (n : String) (plusDep : Bool) : String :=
  let m := disambFile visited (visited.length + 2) n
  if plusDep then m else m ++ "_pb2"

/-- what exists on disk: a proto-plus dependency is a library written by this same generator (its own `API.build` run over the same file
name); a plain dependency is written by protoc: `<name>_pb2.py`, whatever the name -/
def shippedDepModule (visited : List String) (n : String) (plusDep : Bool) : String :=
  if plusDep then disambFile visited (visited.length + 2) n else n ++ "_pb2"

end GapicModel.Model.Names
