import GapicModel.Regex.Match
import GapicModel.Pinned.Regexes
import GapicModel.Pinned.CharClass
import GapicModel.Pinned.Tables
import GapicModel.Pinned.Funcs
/-
C11 — `gapic/schema/naming.py: Naming.build` (namespace / name / version inference from the common proto
package, with the two pinned regexes run by the engine) and `gapic/utils/options.py: Options.build`
(permissive parsing of the protoc parameter string).
-/
namespace GapicModel.Model.NamingOptions
open GapicModel.Regex

abbrev Str := List Char

/-! ### Naming -/

/-- renumber capturing groups by `k` (the code concatenates the two pattern STRINGS, so the groups of the
version pattern are numbered after those of the name pattern) -/
def shiftGroups (k : Nat) : Re → Re
  | .seq a b => .seq (shiftGroups k a) (shiftGroups k b)
  | .alt a b => .alt (shiftGroups k a) (shiftGroups k b)
  | .star r g => .star (shiftGroups k r) g
  | .group i r => .group (i + k) (shiftGroups k r)
  | .look a n r => .look a n (shiftGroups k r)
  | r => r

/-- `pattern += version` -/
def fullPattern : Re := .seq Pinned.namingPattern.re (shiftGroups Pinned.namingPattern.ngroups Pinned.namingVersion.re)

structure Inferred where
  ns : Str             -- the raw dotted namespace text ("" if none)
  name : Str
  version : Str
deriving Repr, DecidableEq

/-- the regex part of `Naming.build` on the root package: `none` = no match (Python would raise on `.groupdict()`) -/
def infer (pkg : Str) : Option Inferred :=
  let t := Pinned.classTables
  let hasVersion := (pySearch t Pinned.namingVersion.re pkg).isSome
  let re := if hasVersion then fullPattern else Pinned.namingPattern.re
  match pySearch t re pkg with
  | none => none
  | some m =>
    let g := fun i => (St.group? m.caps i).getD []
    some ⟨g 2, g 3, if hasVersion then g (Pinned.namingPattern.ngroups + 1) else []⟩

def splitOn (sep : Char) : Str → List Str
  | [] => [[]]
  | c :: cs =>
    match splitOn sep cs with
    | [] => [[]]
    | h :: tl => if c = sep then [] :: h :: tl else (c :: h) :: tl

/-- `tuple(i.capitalize() for i in namespace.split(".") if i)` as lower-cased path segments (what
`_get_filename` uses) -/
def nsSegments (i : Inferred) : List Str := (splitOn '.' i.ns).filter (· ≠ [])

/-- `versioned_module_name` (new naming): `<name>_<version>`, or `<name>` alone when unversioned -/
def versionedModule (i : Inferred) : Str := if i.version = [] then i.name else i.name ++ '_' :: i.version

/-- `os.path.commonprefix` of two strings (character-wise) -/
def commonPrefix2 : Str → Str → Str
  | a :: as, b :: bs => if a = b then a :: commonPrefix2 as bs else []
  | _, _ => []

/-- `os.path.commonprefix(tuple(pkgs)).rstrip(".")` -/
def rootPackage : List Str → Str
  | [] => []
  | p :: ps => ((ps.foldl commonPrefix2 p).reverse.dropWhile (· = '.')).reverse

/-- `Naming.build` up to the CLI overrides: `none` where the code raises `ValueError` (no common root; or several
distinct packages and no version in the common root) -/
def build (pkgs : List Str) : Option Inferred :=
  let root := rootPackage pkgs
  if root = [] then none else
  match infer root with
  | none => none
  | some i => if i.version = [] ∧ pkgs.eraseDups.length > 1 then none else some i

/-! ### CLI overrides of the inferred naming (`opts.namespace`, `opts.name`) -/

/-- `".".join(values)` -/
def joinDots : List Str → Str
  | [] => []
  | [a] => a
  | a :: b :: r => a ++ '.' :: joinDots (b :: r)

/-- the `opts.namespace` override: `".".join(opts.namespace).split(".")` — the values of the REPEATABLE key
`python-gapic-namespace`, each of which may itself be in dot notation.  Segments as `_get_filename` uses them
(case aside); unlike the inferred namespace, empty components are not dropped. -/
def nsOverride (vals : List Str) : List Str := splitOn '.' (joinDots vals)

/-- the namespace path segments of `Naming.build(..., opts)`: `if opts.namespace:` (a non-empty tuple) replaces
the inferred namespace -/
def nsWith (i : Inferred) (vals : List Str) : List Str := if vals.isEmpty then nsSegments i else nsOverride vals

/-- the text of the `opts.name` override before `module_name` sanitises it:
`" ".join(i.capitalize() for i in opts.name.replace("_", " ").split(" "))`, case aside (split/join on the same
separator is the identity) -/
def nameOverrideText (v : Str) : Str := v.map (fun c => if c = '_' then ' ' else c)

/-! ### Options -/

def isSpaceChar (c : Char) : Bool := inRanges Pinned.classTables.space c
def strip (s : Str) : Str := ((s.dropWhile isSpaceChar).reverse.dropWhile isSpaceChar).reverse

def prefixGapic : Str := ['p', 'y', 't', 'h', 'o', 'n', '-', 'g', 'a', 'p', 'i', 'c', '-']

/-- `opt, value = opt.split("=", 1)` (value defaults to "true") -/
def keyValue (opt : Str) : Str × Str :=
  let k := opt.takeWhile (· ≠ '=')
  if opt.contains '=' then (k, (opt.dropWhile (· ≠ '=')).drop 1) else (opt, ['t', 'r', 'u', 'e'])

/-- what one option contributes to the `opts` multimap (in order): under its own key if that is a known
flag, and under the stripped key if it carries the `python-gapic-` prefix -/
def contributes (flags : List Str) (opt : Str) : List (Str × Str) :=
  let kv := keyValue (strip opt)
  (if flags.contains kv.1 then [(kv.1, kv.2)] else []) ++
  (if prefixGapic.isPrefixOf kv.1 then [(kv.1.drop prefixGapic.length, kv.2)] else [])

/-- the multimap `Options.build` accumulates before it pops the keys it knows -/
def parseOpts (flags : List Str) (optString : Str) : List (Str × Str) :=
  (splitOn ',' optString).flatMap (contributes flags)

/-- `opts.pop(key, default)` on the multimap: the values under `key`, in order -/
def values (kv : List (Str × Str)) (key : Str) : List Str := (kv.filter (·.1 = key)).map (·.2)

/-! Which occurrence of a REPEATED single-valued key `Options.build` reads.  The code is not uniform, and the model
mirrors it key by key: `name` and `warehouse-package-name` are read with `opts.pop(key, [""]).pop()` — the LAST
occurrence in the option string wins (an option appended after a build rule's default overrides it) — while
`transport`, `autogen-snippets` and `proto-plus-deps` are read with `[0]` — the FIRST occurrence wins. -/

/-- `opts.pop(key, [dflt]).pop()` -/
def lastValue (kv : List (Str × Str)) (key dflt : Str) : Str := (values kv key).getLast?.getD dflt

/-- `opts.pop(key, [dflt])[0]` -/
def firstValue (kv : List (Str × Str)) (key dflt : Str) : Str := (values kv key).head?.getD dflt

def keyName : Str := ['n','a','m','e']
def keyWarehouse : Str := ['w','a','r','e','h','o','u','s','e','-','p','a','c','k','a','g','e','-','n','a','m','e']
def keyTransport : Str := ['t','r','a','n','s','p','o','r','t']

/-- the file-free part of the `Options` instance `Options.build` returns -/
structure Answer where
  name : Str
  nspace : List Str
  warehouse : Str
  autogenSnippets : Bool
  lazyImport : Bool
  oldNaming : Bool
  addIam : Bool
  metadata : Bool
  transport : List Str
  restNumericEnums : Bool
  protoPlusDeps : List Str
  unrecognised : List Str      -- keys left in `opts` (each produces a warning), first-seen order
deriving Repr, DecidableEq

def trueWords : List Str := [['T','r','u','e'], ['t','r','u','e'], ['T'], ['t'], ['T','R','U','E']]

def consumedKeys : List Str := [
  ['t','e','m','p','l','a','t','e','s'], ['r','e','t','r','y','-','c','o','n','f','i','g'], ['s','e','r','v','i','c','e','-','y','a','m','l'],
  ['s','a','m','p','l','e','s'], ['a','u','t','o','g','e','n','-','s','n','i','p','p','e','t','s'], ['o','l','d','-','n','a','m','i','n','g'],
  ['p','r','o','t','o','-','p','l','u','s','-','d','e','p','s'], ['n','a','m','e'], ['n','a','m','e','s','p','a','c','e'],
  ['w','a','r','e','h','o','u','s','e','-','p','a','c','k','a','g','e','-','n','a','m','e'], ['l','a','z','y','-','i','m','p','o','r','t'],
  ['a','d','d','-','i','a','m','-','m','e','t','h','o','d','s'], ['m','e','t','a','d','a','t','a'], ['t','r','a','n','s','p','o','r','t'],
  ['r','e','s','t','-','n','u','m','e','r','i','c','-','e','n','u','m','s']]

def answer (kv : List (Str × Str)) : Answer :=
  let v := values kv
  let oldNaming := !(v ['o','l','d','-','n','a','m','i','n','g']).isEmpty
  { name := lastValue kv keyName []
    nspace := v ['n','a','m','e','s','p','a','c','e']
    warehouse := lastValue kv keyWarehouse []
    autogenSnippets := (match v ['a','u','t','o','g','e','n','-','s','n','i','p','p','e','t','s'] with
                        | [] => true | x :: _ => trueWords.contains x) && !oldNaming
    lazyImport := !(v ['l','a','z','y','-','i','m','p','o','r','t']).isEmpty
    oldNaming := oldNaming
    addIam := !(v ['a','d','d','-','i','a','m','-','m','e','t','h','o','d','s']).isEmpty
    metadata := !(v ['m','e','t','a','d','a','t','a']).isEmpty
    transport := splitOn '+' (firstValue kv keyTransport ['g','r','p','c'])
    restNumericEnums := !(v ['r','e','s','t','-','n','u','m','e','r','i','c','-','e','n','u','m','s']).isEmpty
    protoPlusDeps := (match v ['p','r','o','t','o','-','p','l','u','s','-','d','e','p','s'] with | [] => [] | x :: _ => splitOn '+' x)
    unrecognised := ((kv.map (·.1)).filter (fun k => !consumedKeys.contains k)).eraseDups }

/-! ### The package directory under the parsed overrides -/

/-- `naming.module_name` under the `opts.name` override (`""` = no override) -/
def overriddenModule (i : Inferred) (nameOv : Str) : Str :=
  Pinned.Funcs.to_valid_module_name (if nameOv = [] then i.name else nameOverrideText nameOv)

/-- `naming.versioned_module_name` (new naming) under the `opts.name` override -/
def overriddenVersioned (i : Inferred) (nameOv : Str) : Str :=
  if i.version = [] then overriddenModule i nameOv else overriddenModule i nameOv ++ '_' :: i.version

/-- the directory `<namespace>/<name>_<version>` all library sources are placed under, for the naming inferred
from the proto package and the multimap of parsed options: namespace from ALL `namespace` values (lower-cased
as `_get_filename` does), name from the value of `name` that `Options.build` reads -/
def packageDir (i : Inferred) (kv : List (Str × Str)) : List Str :=
  nsWith i ((answer kv).nspace.map PyRt.lower) ++ [overriddenVersioned i (answer kv).name]

end GapicModel.Model.NamingOptions
