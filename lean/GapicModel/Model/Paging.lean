/-
C07 — pagination (gapic/schema/wrappers.py: Method.paged_result_field, _validate_paged_field_size_type,
Method._client_output; pagers.py.j2: <Method>Pager.__init__/pages/__iter__/__getattr__ and the asyncio
twin; _client_macros.j2 / async_client.py.j2: the branch that wraps the first response).

Modelled
* classification (`pagedField`), every branch of `paged_result_field`;
* the page loop, big-step (`pagesGen`, `run`): one listing consumed to the end;
* the pager as an OBJECT, small-step (`World`, `step`, `exec`): `pager.pages` and `iter(pager)` create
  generator objects that share `pager._request` / `pager._response`; a program is any sequence of
  "create a generator", "advance generator i by one", "read an attribute";  laziness (a page is fetched
  only when a generator is advanced past what it holds), re-iteration, interleaved generators;
* the wrapping branch of the client method (`wrapOf`) and `Method.client_output` (`clientOutput`):
  lro > paged > extended-lro in the template, void > lro > extended-lro > paged in the schema; what the
  pager is built from for streaming methods (`pagerArgs`).

Not modelled (stated, reached by T3 only or not at all)
* object identity: `self._request = Request(request)` is a private copy, so the caller's request object
  is never written (oracle `caller-request-modified` + second listing with the same objects);
* `__repr__`, `get(key)` of map pagers, the item order inside one map page (protobuf's own);
* the import block of pagers.py (C01) and the docstrings;
* a server that never returns an empty token (infinite iteration, by design): when the scripted
  history runs out the model stops, the real pager would call again;
* exceptions raised by the RPC in the middle of an iteration (the generator dies; C09 owns retries).
-/
namespace GapicModel.Model.Paging

/-! ### Classification -/

/-- `Field.type` as far as `paged_result_field` looks at it. `int` = every integer scalar kind
(3,4,5,6,7,13,15,16,17,18), `float` = 1,2; a message is known by its short name only
(`pb_type.message_pb.name`). -/
inductive FType where
  | str | int | float | bool | bytes
  | msg (name : String)
  | enum
deriving Repr, DecidableEq

structure Field where
  name : String
  type : FType
  repeated : Bool          -- label == REPEATED (maps included)
deriving Repr, DecidableEq

/-- `MessageType.fields`: an insertion-ordered dict keyed by field name, in declaration order. -/
abbrev Msg := List Field

def get (m : Msg) (n : String) : Option Field := m.find? (fun f => f.name == n)

/-- `_validate_paged_field_size_type` -/
def sizeOk (f : Field) : Bool :=
  match f.type with
  | .int => true
  | .msg n => n == "UInt32Value" || n == "Int32Value"
  | _ => false

/-- `next((field for field in (max_results, page_size) if field), None)` -/
def sizeField (i : Msg) : Option Field :=
  match get i "max_results" with
  | some f => some f
  | none => get i "page_size"

def firstRepeated (o : Msg) : Option Field := o.find? (fun f => f.repeated)

/-- `Method.paged_result_field` -/
def pagedField (i o : Msg) : Option Field :=
  match get i "page_token" with
  | none => none
  | some pt =>
    if pt.type ≠ .str ∨ pt.repeated then none else
    match get o "next_page_token" with
    | none => none
    | some npt =>
      if npt.type ≠ .str ∨ npt.repeated then none else
      match sizeField i with
      | none => none
      | some sz => if sizeOk sz then firstRepeated o else none

/-! ### The page loop -/

/-- A response page: the items of the paged field and `next_page_token`. -/
structure Page (ι : Type) where
  items : List ι
  token : List Char
deriving Repr, DecidableEq

/-- A request: `page_token` plus everything else (`ρ`: other fields, retry, timeout, metadata). -/
structure Req (ρ : Type) where
  token : List Char
  other : ρ
deriving Repr, DecidableEq

/-- pager state: `self._request`, `self._response`. -/
structure PState (ι ρ : Type) where
  req : Req ρ
  resp : Page ι

/-- The generator `pages`: yield the current response; while its token is non-empty, copy it into
the request, call the method (the server answers with the next page of its history), yield.
Returns (pages yielded, requests sent by the pager, final state).  When the history runs out while
the token is still non-empty the model stops (the real pager would call again): theorems about the
requests assume a history that ends with an empty token. -/
def pagesGen {ι ρ : Type} (st : PState ι ρ) : List (Page ι) → List (Page ι) × List (Req ρ) × PState ι ρ
  | [] => ([st.resp], [], st)
  | q :: srv =>
    if st.resp.token = [] then ([st.resp], [], st)
    else
      let req' : Req ρ := { st.req with token := st.resp.token }
      let r := pagesGen ⟨req', q⟩ srv
      (st.resp :: r.1, req' :: r.2.1, r.2.2)

/-- `__iter__` / `__aiter__`: `for page in self.pages: yield from page.<field>` -/
def iterItems {ι ρ : Type} (st : PState ι ρ) (srv : List (Page ι)) : List ι :=
  (pagesGen st srv).1.flatMap (·.items)

/-- the whole client call: the first request is answered by the head of the history, the pager is
built from (request, first response) and iterated. Returns (items, all requests seen by the server). -/
def run {ι ρ : Type} (r0 : Req ρ) : List (Page ι) → List ι × List (Req ρ)
  | [] => ([], [r0])                       -- (no reply scripted: outside the model)
  | p0 :: srv =>
    let g := pagesGen (ι := ι) ⟨r0, p0⟩ srv
    (g.1.flatMap (·.items), r0 :: g.2.1)

/-- pages up to and including the first one whose token is empty -/
def takeThrough {ι : Type} : List (Page ι) → List (Page ι)
  | [] => []
  | p :: ps => if p.token = [] then [p] else p :: takeThrough ps

/-! ### The pager as an object (small-step): programs over generators sharing `_request`/`_response` -/

/-- state of one Python generator object created by `pager.pages`:
`fresh` = created, not advanced; `running` = suspended at a `yield`; `done` = returned. -/
inductive GenSt where
  | fresh | running | done
deriving Repr, DecidableEq

/-- the pager (`_request`, `_response`), the pages the server has not served yet, the requests the
PAGER has sent so far (oldest first; the client method's own first request is not among them), the
`pages` generators and the item iterators (`__iter__`: a private `pages` generator + what is left
of the page it is walking) created so far. -/
structure World (ι ρ : Type) where
  req : Req ρ
  resp : Page ι
  srv : List (Page ι)
  sent : List (Req ρ)
  gens : List GenSt
  its : List (GenSt × List ι)

/-- `World` of a pager just returned by the client method -/
def World.init {ι ρ : Type} (r0 : Req ρ) (p0 : Page ι) (srv : List (Page ι)) : World ι ρ :=
  ⟨r0, p0, srv, [], [], []⟩

/-- one turn of `while self._response.next_page_token:` — the only place that sends a request.
`none`: the loop ends (empty token), or the scripted history is exhausted (outside the model). -/
def fetch {ι ρ : Type} (w : World ι ρ) : Option (Page ι × World ι ρ) :=
  if w.resp.token = [] then none else
  match w.srv with
  | [] => none
  | q :: rest =>
    let req' : Req ρ := { w.req with token := w.resp.token }
    some (q, { w with req := req', resp := q, srv := rest, sent := w.sent ++ [req'] })

/-- `next(g)` for a `pages` generator in state `g` -/
def genNext {ι ρ : Type} : GenSt → World ι ρ → Option (Page ι) × GenSt × World ι ρ
  | .fresh, w => (some w.resp, .running, w)
  | .running, w =>
    match fetch w with
    | none => (none, .done, w)
    | some (q, w') => (some q, .running, w')
  | .done, w => (none, .done, w)

/-- `next(it)` for an item iterator: serve from the page being walked; when it is used up advance the
private `pages` generator (skipping empty pages).  `fuel` bounds the number of pages looked at;
`w.srv.length + 2` always suffices (`itemNext_fuel`). -/
def itemNext {ι ρ : Type} : Nat → GenSt × List ι → World ι ρ → Option ι × (GenSt × List ι) × World ι ρ
  | _, (g, x :: buf), w => (some x, (g, buf), w)
  | 0, (g, []), w => (none, (g, []), w)
  | fuel + 1, (g, []), w =>
    match genNext g w with
    | (none, g', w') => (none, (g', []), w')
    | (some p, g', w') => itemNext fuel (g', p.items) w'

inductive Op where
  | newPages                 -- `g = pager.pages`
  | nextPage (j : Nat)       -- `next(g_j)`
  | newIter                  -- `it = iter(pager)` / `pager.__aiter__()`
  | nextItem (i : Nat)       -- `next(it_i)`
  | attr                     -- `pager.next_page_token` (any response attribute: `__getattr__`)
deriving Repr, DecidableEq

inductive Obs (ι : Type) where
  | unit
  | page (p : Page ι)
  | item (x : ι)
  | stop                     -- StopIteration / StopAsyncIteration
  | tok (t : List Char)
  | bad                      -- no such generator (ill-formed program)
deriving Repr, DecidableEq

def step {ι ρ : Type} (w : World ι ρ) : Op → Obs ι × World ι ρ
  | .newPages => (.unit, { w with gens := w.gens ++ [.fresh] })
  | .newIter => (.unit, { w with its := w.its ++ [(.fresh, [])] })
  | .attr => (.tok w.resp.token, w)
  | .nextPage j =>
    match w.gens[j]? with
    | none => (.bad, w)
    | some g =>
      let r := genNext g w
      ((match r.1 with | none => .stop | some p => .page p), { r.2.2 with gens := r.2.2.gens.set j r.2.1 })
  | .nextItem i =>
    match w.its[i]? with
    | none => (.bad, w)
    | some it =>
      let r := itemNext (w.srv.length + 2) it w
      ((match r.1 with | none => .stop | some x => .item x), { r.2.2 with its := r.2.2.its.set i r.2.1 })

def exec {ι ρ : Type} (w : World ι ρ) : List Op → List (Obs ι) × World ι ρ
  | [] => ([], w)
  | o :: os =>
    let r := step w o
    let r' := exec r.2 os
    (r.1 :: r'.1, r'.2)

/-- `list(g)` for a `pages` generator (fuel = number of `next` calls) -/
def genDrain {ι ρ : Type} : Nat → GenSt → World ι ρ → List (Page ι) × GenSt × World ι ρ
  | 0, g, w => ([], g, w)
  | n + 1, g, w =>
    match genNext g w with
    | (none, g', w') => ([], g', w')
    | (some p, g', w') => let r := genDrain n g' w'; (p :: r.1, r.2)

/-! ### Wiring: which client methods return a pager -/

/-- what the templates and `Method.client_output` look at besides `paged_result_field` -/
structure MethodKind where
  void : Bool               -- output is google.protobuf.Empty
  lro : Bool                -- google.longrunning.operation_info present
  extLro : Bool             -- extended operation
  clientStreaming : Bool
  serverStreaming : Bool
deriving Repr, DecidableEq

inductive Wrap where
  | operation | pager | extOperation | raw
deriving Repr, DecidableEq

/-- `_client_macros.j2` (sync; `fullExt` = the macro's `full_extended_lro`) and `async_client.py.j2`
(`fullExt = false`: no such branch) after `response = rpc(...)`:
`{% if method.lro %} … {% elif method.paged_result_field %} … {% elif method.extended_lro and full_extended_lro %}` -/
def wrapOf (k : MethodKind) (paged fullExt : Bool) : Wrap :=
  if k.lro then .operation
  else if paged then .pager
  else if k.extLro && fullExt then .extOperation
  else .raw

inductive OutKind where
  | none_ | operation | extOperation | pager | message
deriving Repr, DecidableEq

/-- `Method._client_output`: void, lro, extended_lro, paged, else the output message -/
def clientOutput (k : MethodKind) (paged : Bool) : OutKind :=
  if k.void then .none_
  else if k.lro then .operation
  else if k.extLro then .extOperation
  else if paged then .pager
  else .message

/-- what the wrapping branch hands to the pager's constructor.
`request=request`: the name `request` exists only in methods that are not client-streaming (their
parameter is `requests`) → `NameError`;  `response=response` is a response MESSAGE only for methods
that are not server-streaming (otherwise the stream object, which has no item field). -/
inductive PagerArgs where
  | nameError            -- client-streaming: `request` is not defined
  | streamAsResponse     -- server-streaming: iterating raises AttributeError on the stream object
  | firstResponse        -- unary: the pager of this file
deriving Repr, DecidableEq

def pagerArgs (k : MethodKind) : PagerArgs :=
  if k.clientStreaming then .nameError
  else if k.serverStreaming then .streamAsResponse
  else .firstResponse

end GapicModel.Model.Paging
