/-
C07 — pagination (gapic/schema/wrappers.py: Method.paged_result_field, _validate_paged_field_size_type;
pagers.py.j2: <Method>Pager.pages/__iter__ and the asyncio twin).
-/
namespace GapicModel.Model.Paging

/-! ### Classification -/

/-- `Field.type` as far as `paged_result_field` looks at it. `int` = every integer scalar kind
(3,4,5,6,7,13,15,16,17,18), `float` = 1,2; a message is known by its short name only
(`pb_type.message_pb.name`). -/
inductive FType where
  | str | int | float | bool | bytes
  | msg (name : String)
  | enum
deriving Repr, DecidableEq

structure Field where
  name : String
  type : FType
  repeated : Bool          -- label == REPEATED (maps included)
deriving Repr, DecidableEq

/-- `MessageType.fields`: an insertion-ordered dict keyed by field name, in declaration order. -/
abbrev Msg := List Field

def get (m : Msg) (n : String) : Option Field := m.find? (fun f => f.name == n)

/-- `_validate_paged_field_size_type` -/
def sizeOk (f : Field) : Bool :=
  match f.type with
  | .int => true
  | .msg n => n == "UInt32Value" || n == "Int32Value"
  | _ => false

/-- `next((field for field in (max_results, page_size) if field), None)` -/
def sizeField (i : Msg) : Option Field :=
  match get i "max_results" with
  | some f => some f
  | none => get i "page_size"

def firstRepeated (o : Msg) : Option Field := o.find? (fun f => f.repeated)

/-- `Method.paged_result_field` -/
def pagedField (i o : Msg) : Option Field :=
  match get i "page_token" with
  | none => none
  | some pt =>
    if pt.type ≠ .str ∨ pt.repeated then none else
    match get o "next_page_token" with
    | none => none
    | some npt =>
      if npt.type ≠ .str ∨ npt.repeated then none else
      match sizeField i with
      | none => none
      | some sz => if sizeOk sz then firstRepeated o else none

/-! ### The page loop -/

/-- A response page: the items of the paged field and `next_page_token`. -/
structure Page (ι : Type) where
  items : List ι
  token : List Char
deriving Repr, DecidableEq

/-- A request: `page_token` plus everything else (`ρ`: other fields, retry, timeout, metadata). -/
structure Req (ρ : Type) where
  token : List Char
  other : ρ
deriving Repr, DecidableEq

/-- pager state: `self._request`, `self._response`. -/
structure PState (ι ρ : Type) where
  req : Req ρ
  resp : Page ι

/-- The generator `pages`: yield the current response; while its token is non-empty, copy it into
the request, call the method (the server answers with the next page of its history), yield.
Returns (pages yielded, requests sent by the pager, final state).  When the history runs out while
the token is still non-empty the model stops (the real pager would call again): theorems about the
requests assume a history that ends with an empty token. -/
def pagesGen {ι ρ : Type} (st : PState ι ρ) : List (Page ι) → List (Page ι) × List (Req ρ) × PState ι ρ
  | [] => ([st.resp], [], st)
  | q :: srv =>
    if st.resp.token = [] then ([st.resp], [], st)
    else
      let req' : Req ρ := { st.req with token := st.resp.token }
      let r := pagesGen ⟨req', q⟩ srv
      (st.resp :: r.1, req' :: r.2.1, r.2.2)

/-- `__iter__` / `__aiter__`: `for page in self.pages: yield from page.<field>` -/
def iterItems {ι ρ : Type} (st : PState ι ρ) (srv : List (Page ι)) : List ι :=
  (pagesGen st srv).1.flatMap (·.items)

/-- the whole client call: the first request is answered by the head of the history, the pager is
built from (request, first response) and iterated. Returns (items, all requests seen by the server). -/
def run {ι ρ : Type} (r0 : Req ρ) : List (Page ι) → List ι × List (Req ρ)
  | [] => ([], [r0])                       -- (no reply scripted: outside the model)
  | p0 :: srv =>
    let g := pagesGen (ι := ι) ⟨r0, p0⟩ srv
    (g.1.flatMap (·.items), r0 :: g.2.1)

/-- pages up to and including the first one whose token is empty -/
def takeThrough {ι : Type} : List (Page ι) → List (Page ι)
  | [] => []
  | p :: ps => if p.token = [] then [p] else p :: takeThrough ps

end GapicModel.Model.Paging
