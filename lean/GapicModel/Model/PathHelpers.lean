import GapicModel.Regex.Match
/-
C19 — resource path helpers (gapic/schema/wrappers.py: MessageType.resource_path_args,
resource_path_formatted, path_regex_str; client.py.j2: <name>_path / parse_<name>_path).

A pattern is given in tokenised form (`List Seg`): the literal text between `{var}` / `{var=**}`
tokens as recognised by PATH_ARG_RE.  `render` gives back the pattern string; the tie
"PATH_ARG_RE tokenises `render segs` into `segs`" is checked by T2 on the real code.

The model FOLLOWS THE CODE: since the `fix:` commit for C19 the literal text between variables is
passed through `re.escape`, so every literal character is a LITERAL node of the regex.
(Before that commit a literal `.` was the regex `any`; see known_findings.json, "fixed".)

Which resources a service sees, and which helper each gets, is modelled in Model/ResourceVis.lean.

NOT modelled here (reached by T2/T3 only, or excluded):
  * the tokenisation itself (PATH_ARG_RE.finditer over the pattern string): T1 bridges the regex, T2
    compares `pathArgs`/`formatted`/the regex AST with the real attributes for every generated pattern;
  * `re.escape`: a literal character is a LITERAL node whatever it is (T2 compares the ASTs CPython
    builds from the real string, so a character `re.escape` mishandled would show as a disagreement);
  * literal text containing `{` or `}` (`str.format` raises) and variables with duplicate names
    (`re.compile` raises): outside the property's quantifier, excluded in the generator;
  * only the FIRST pattern of a resource is used by the code; further patterns are ignored (as the code does);
  * the emitted Python around the regex (staticmethod, `m.groupdict() if m else {}`, keyword arguments of
    `<name>_path`): T3 on the imported sync and async client.
-/
namespace GapicModel.Model.PathHelpers
open GapicModel.Regex

inductive Seg where
  | lit (cs : List Char)
  | var (name : List Char) (multi : Bool)      -- `{name}` / `{name=**}`
deriving Repr, DecidableEq

def render : List Seg → List Char
  | [] => []
  | .lit cs :: r => cs ++ render r
  | .var n false :: r => '{' :: n ++ '}' :: render r
  | .var n true :: r => '{' :: n ++ "=**}".toList ++ render r

/-- `resource_path_args` -/
def pathArgs : List Seg → List (List Char)
  | [] => []
  | .lit _ :: r => pathArgs r
  | .var n _ :: r => n :: pathArgs r

/-- `resource_path_formatted` (the `str.format` template). -/
def formatted : List Seg → List Char
  | [] => []
  | .lit cs :: r => cs ++ formatted r
  | .var n _ :: r => '{' :: n ++ '}' :: formatted r

/-- `"<formatted>".format(**segments)` for values given positionally in argument order.
    (Literal text containing `{`/`}` is outside the model: `str.format` would raise.) -/
def build : List Seg → List (List Char) → List Char
  | [], _ => []
  | .lit cs :: r, vs => cs ++ build r vs
  | .var _ _ :: r, v :: vs => v ++ build r vs
  | .var _ _ :: r, [] => build r []

/-- literal text as regex items: `re.escape` makes every literal character match itself
    (CPython parses `\\c` and `c` to the same LITERAL node). -/
def litItems (cs : List Char) : List Re := cs.map .chr

/-- `(?P<name>.+?)` with group number `i`. -/
def varRe (i : Nat) : Re := .group i (.seq .any (.star .any false))

/-- items of the regex between `^` and `$`; `i` = next group number. -/
def segItems : Nat → List Seg → List Re
  | _, [] => []
  | i, .lit cs :: r => litItems cs ++ segItems i r
  | i, .var _ _ :: r => varRe i :: segItems (i+1) r

def namesFrom : Nat → List Seg → List (String × Nat)
  | _, [] => []
  | i, .lit _ :: r => namesFrom i r
  | i, .var n _ :: r => (String.ofList n, i) :: namesFrom (i+1) r

/-- `path_regex_str`, as the AST CPython builds from it. The wildcard special case `^\\*$ ↦ ^.*$`. -/
def pathRegex (segs : List Seg) : Pattern :=
  if segs = [.lit ['*']] then
    ⟨seqR [.bol, .star .any true, .eol], 0, []⟩
  else
    ⟨seqR (.bol :: segItems 1 segs ++ [.eol]), (pathArgs segs).length, namesFrom 1 segs⟩

/-- `m.groupdict() if m else {}` — as an association list in group order. -/
def groupdict (p : Pattern) (caps : List (Nat × List Char)) : List (String × List Char) :=
  p.names.map fun (n, i) => (n, (St.group? caps i).getD [])

def parse (t : ClassTables) (segs : List Seg) (path : List Char) : List (String × List Char) :=
  let p := pathRegex segs
  match pyMatch t p.re path with
  | some r => groupdict p r.caps
  | none => []

/-- `<r>_path(**kv)`: `"<formatted>".format(**kv)` restricted to the names the builder declares -/
def buildKw : List Seg → List (String × List Char) → Option (List Char)
  | [], _ => some []
  | .lit cs :: r, kv => (buildKw r kv).map (cs ++ ·)
  | .var n _ :: r, kv =>
    match kv.lookup (String.ofList n) with
    | some v => (buildKw r kv).map (v ++ ·)
    | none => none

end GapicModel.Model.PathHelpers
