/-
C19 — which resources a service sees (gapic/schema/wrappers.py: Service.resource_messages,
MessageType.recursive_field_types / recursive_resource_fields; gapic/schema/api.py:
Proto.resource_messages, API.build's `ChainMap` of them = Service.visible_resources) and which
helper each of them gets in the emitted client (client.py.j2: one `def <snake(short type)>_path` /
`def parse_<…>_path` pair per element of `service.resource_messages`, in sorted order; a later
`def` of the same name replaces an earlier one in the class body).

Import-free.  The model FOLLOWS THE CODE up to the observable "set of (resource type, first
pattern)":
  * messages are identified by their full proto name; `msgs` holds every message of every file
    (nested ones too), a field keeps only what the traversal reads: the message it is typed by and
    `resource_reference.type or .child_type`;
  * `close` is the work-list form of `recursive_field_types` (Python: explicit stack of field
    iterators + the `types` set; the set of message types reached is the same; enum types, which the
    Python set also holds, never carry a resource and are dropped);
  * `protoLookup` is `Proto.resource_messages[t]` (an `OrderedDict` built from file-level
    `resource_definition`s followed by ALL messages of the file with a resource — nested ones
    included, in `Proto.all_messages` order, i.e. nested before parent; since /repo 109fab8, before
    that top-level messages only: on a repeated key the later entry wins), `lookupRes` the `ChainMap`
    over the files in request order (first file wins);
  * `resourcesOf root` = what `gen_resources(root)` and `gen_indirect_resources_used(root)` yield,
    `serviceResources` their union over `method.input` and
    `method.lro.response_type if method.lro else method.output` of every method;
  * `offered` is the class-body semantics of the emitted `def`s.

NOT modelled (stated, and kept out of the generator or compared by T3 only):
  * a resource WITHOUT a pattern (`resource_path` is None: `gen_resources` skips it, a reference to
    it still yields it, `CommonResource.build` raises StopIteration for a file-level one);
  * the identity of the `MessageType` objects in the frozenset (two objects with the same type and
    pattern are one observable here);
  * the jinja `sort` that fixes the emission order (C10 models it); `offered` takes the order as input
    and the theorems hold for every order;
  * `to_snake_case` of the short type name is a parameter of `offered` in the theorems (the driver
    instantiates it with `Names.toSnakeCase`);
  * selective generation (`Service.with_internal_methods`, C16) and the ads templates.
-/
namespace GapicModel.Model.ResourceVis

abbrev Name := List Char

/-- what the traversal reads of a field -/
structure Field where
  msg : Option Name      -- full name of the message type of the field (`field.message`)
  ref : Option Name      -- `resource_reference.type or resource_reference.child_type` (none: both empty)
deriving Repr, DecidableEq

/-- the observable of a resource: its full type and FIRST pattern -/
structure Res where
  type : Name
  pattern : Name
deriving Repr, DecidableEq

structure Message where
  name : Name
  fields : List Field
  res : Option Res       -- `google.api.resource` (type and first pattern non-empty)
deriving Repr, DecidableEq

structure File where
  defs : List Res        -- file-level `google.api.resource_definition`, in order
  all : List Name        -- every message of the file, nested ones included, in `all_messages` order
deriving Repr, DecidableEq

structure Method where
  input : Name
  output : Name
  lro : Option Name      -- `operation_info.response_type`, resolved, when the method is long-running
deriving Repr, DecidableEq

structure Api where
  files : List File      -- in the order of the request's `proto_file`
  msgs : List Message    -- every message of every file
deriving Repr

def Api.findMsg (api : Api) (n : Name) : Option Message := api.msgs.find? (fun m => m.name == n)

/-- `method.lro.response_type if method.lro else method.output` -/
def Method.effOutput (m : Method) : Name := m.lro.getD m.output

/-- message types of the fields of `n` (no such message: none — `Proto.build` raises earlier) -/
def succs (api : Api) (n : Name) : List Name :=
  match api.findMsg n with
  | some m => m.fields.filterMap (·.msg)
  | none => []

/-- work-list closure: `seen` grows by one message per productive step. -/
def close (api : Api) : Nat → List Name → List Name → List Name
  | 0, _, seen => seen
  | _+1, [], seen => seen
  | f+1, x :: w, seen =>
    if x ∈ seen then close api f w seen else close api f (succs api x ++ w) (x :: seen)

/-- potential of the work list: every step of `close` lowers `work.length + pot …` by at least one. -/
def pot (api : Api) (seen : List Name) : List Name → Nat
  | [] => 0
  | n :: ns => (if n ∈ seen then 0 else (succs api n).length) + pot api seen ns

def Api.names (api : Api) : List Name := api.msgs.map (·.name)

def fuelFor (api : Api) : Nat := 1 + pot api [] api.names

/-- `{root} ∪ root.recursive_field_types` (message types only) -/
def reachable (api : Api) (root : Name) : List Name := close api (fuelFor api) [root] []

/-- `Proto.resource_messages.get(t)` -/
def protoLookup (api : Api) (f : File) (t : Name) : Option Res :=
  let msgRes := f.all.filterMap fun n => (api.findMsg n).bind (·.res)
  (f.defs ++ msgRes).reverse.find? (fun r => r.type == t)

/-- `Service.visible_resources.get(t)`: the `ChainMap` of all files' `resource_messages`. -/
def lookupRes (api : Api) (t : Name) : Option Res := api.files.findSome? (fun f => protoLookup api f t)

/-- resources a message contributes: its own, and those its fields refer to -/
def msgResources (api : Api) (m : Message) : List Res :=
  m.res.toList ++ m.fields.filterMap (fun f => f.ref.bind (lookupRes api))

def nameResources (api : Api) (n : Name) : List Res :=
  match api.findMsg n with
  | some m => msgResources api m
  | none => []

/-- `gen_resources(root)` ∪ `gen_indirect_resources_used(root)` -/
def resourcesOf (api : Api) (root : Name) : List Res := (reachable api root).flatMap (nameResources api)

/-- `Service.resource_messages`, as (type, pattern) observables, duplicates kept -/
def serviceResources (api : Api) (methods : List Method) : List Res :=
  methods.flatMap fun me => resourcesOf api me.input ++ resourcesOf api me.effOutput

/-- `resource.type[resource.type.find("/") + 1:]` -/
def shortName (t : Name) : Name :=
  if '/' ∈ t then (t.dropWhile (· != '/')).drop 1 else t

/-- the helper the class ends up with under the name `h`, when the `def`s are emitted in the order
`rs` and `nm r` is the name used for `r`: the LAST definition wins. -/
def offered (nm : Res → Name) (rs : List Res) (h : Name) : Option Res :=
  rs.reverse.find? (fun r => nm r == h)

end GapicModel.Model.ResourceVis
