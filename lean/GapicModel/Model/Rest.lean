import GapicModel.Model.Http
/-
C04 — the emitted REST call (rest_base.py.j2 `_get_http_options/_get_transcoded_request/
_get_request_body_json/_get_query_params_json`, `_shared_macros.j2` `rest_call_method_common`,
rest.py.j2 `__call__`) over an EXTERNAL transcoder.

`google.api_core.path_template.transcode` is a parameter (`Transcode`) with a stated specification
(`TranscodeSpec`); `refTranscode` is an executable reference for it which T2 compares with the real
function and which `Props.C04.transcode_spec_refines` proves to satisfy the specification.

A request is the list of its set leaf fields (`Msg`): dotted path of field names ↦ rendered value(s).
protobuf's JSON codec is not modelled: the harness supplies the JSON text of every scalar; an enum
carries its name and its number.  Sub-trees the property never looks into (maps, repeated messages,
Struct) are single leaves.

NOT MODELLED (reached by T3/oracle only, or not at all):
  * the JSON text itself (`MessageToJson`/`Parse`), URL-quoting by `requests`, `rest_helpers.flatten_query_params`
    beyond "one pair per scalar, dotted lowerCamel key";
  * headers (`dict(metadata)` + Content-Type; the oracle checks Content-Type, C06 the routing header),
    timeouts, the interceptor hooks `pre_<m>`/`post_<m>` (default interceptor = identity, implicit in T3);
  * which `GoogleAPICallError` subclass a status ≥ 400 maps to (api-core's table) — only the `>= 400` split;
  * server-streaming replies (`rest_streaming.ResponseIterator`), LRO replies and the operations client's
    http_options table (C08/C17), the mixin stubs of `_rest_mixins*.j2` (C17), `rest_asyncio.py.j2`;
  * `Method.http_opt` for a primary rule that is `custom`/absent while additional bindings are usable
    (the driver answers `unsupported`); `google.api.http.response_body` (the generator ignores it).
-/
namespace GapicModel.Model.Rest
open GapicModel.Model.Http

inductive Atom where
  | plain (text : Str)
  | enum (name : Str) (number : Str)
deriving Repr, DecidableEq

structure Leaf where
  path : List Str
  atoms : List Atom           -- one for a singular field, several for a repeated scalar
deriving Repr, DecidableEq

abbrev Msg := List Leaf

/-- the request as the emitted proto-plus class sees it: every field name through `Field.name` -/
def rtLeaf (l : Leaf) : Leaf := { l with path := l.path.map fixSeg }
def rtMsg (m : Msg) : Msg := m.map rtLeaf

def covers (p : List Str) (l : Leaf) : Bool := p.isPrefixOf l.path

/-- `get_field(request, "a.b")`: the leaf at exactly that path -/
def getLeaf (msg : Msg) (p : List Str) : Option Leaf := msg.find? (fun l => l.path == p)

/-- `delete_field(request, "a.b")` = `ClearField` of that sub-tree -/
def deleteField (msg : Msg) (p : List Str) : Msg := msg.filter (fun l => !covers p l)

/-- `str(value)` of a path argument (an enum attribute of a pb message is its number) -/
def atomStr : Atom → Str
  | .plain t => t
  | .enum _ k => k

def leafStr (l : Leaf) : Str :=
  match l.atoms with
  | [a] => atomStr a
  | _ => []                      -- repeated/empty: outside the model (google.api.http forbids it)

/-- `expand(uri_template, **path_args)`; an unset variable renders as `None` (the binding is then skipped) -/
def expandP (msg : Msg) : List Piece → Str
  | [] => []
  | .text s :: r => s ++ expandP msg r
  | .var n _ :: r =>
    (match getLeaf msg (splitOn '.' n) with
     | some l => leafStr l
     | none => ['N', 'o', 'n', 'e']) ++ expandP msg r

/-! ### `validate(tmpl, path)`: the regex `_generate_pattern_for_template(tmpl) + "$"`, as a matcher.
Literal text is NOT escaped by api-core: `.` is the regex dot. (Other metacharacters: unsupported.) -/

inductive PItem where
  | chr (c : Char)
  | any                -- `.`
  | single             -- `([^/]+)`
  | multi              -- `(.+)`
deriving Repr, DecidableEq

/-- literal template text: `**` ↦ multi, `*` ↦ single, `.` ↦ any -/
def textItems : Str → List PItem
  | [] => []
  | '*' :: '*' :: r => .multi :: textItems r
  | '*' :: r => .single :: textItems r
  | '.' :: r => .any :: textItems r
  | c :: r => .chr c :: textItems r

def pieceItems : List Piece → List PItem
  | [] => []
  | .text s :: r => textItems s ++ pieceItems r
  | .var _ none :: r => .single :: pieceItems r
  | .var _ (some t) :: r => (if t = ['*', '*'] then [.multi] else textItems t) ++ pieceItems r

def plusK (p : Char → Bool) (k : Str → Bool) : Str → Bool
  | [] => false
  | d :: s => p d && (k s || plusK p k s)

def matchI : List PItem → Str → Bool
  | [] => fun s => s == [] || s == ['\n']
  | .chr c :: r => fun s => match s with
    | d :: s' => d == c && matchI r s'
    | [] => false
  | .any :: r => fun s => match s with
    | d :: s' => d != '\n' && matchI r s'
    | [] => false
  | .single :: r => plusK (fun d => d != '/') (matchI r)
  | .multi :: r => plusK (fun d => d != '\n') (matchI r)

def unsupportedMeta (c : Char) : Bool := ['(', ')', '[', ']', '|', '+', '?', '^', '$', '\\', '{', '}'].contains c

def validate (ps : List Piece) (path : Str) : Bool := matchI (pieceItems ps) path

/-! ### the transcoder -/

structure Transcoded where
  method : Str
  uri : Str
  body : Option Msg            -- absent when the selected binding has no body
  query : Msg
deriving Repr, DecidableEq

abbrev Transcode := List HttpRule → Msg → Option Transcoded

/-- fields bound by the path of a binding -/
def pathLeaves (vars : List (List Str)) (msg : Msg) : Msg := msg.filter (fun l => vars.any (covers · l))
/-- … and what is left after `delete_field` of each of them -/
def leftovers (vars : List (List Str)) (msg : Msg) : Msg := msg.filter (fun l => !vars.any (covers · l))

/-- `getattr(leftovers, body)` re-rooted at the body field -/
def subtree (bd : Str) (msg : Msg) : Msg :=
  (msg.filter (covers [bd])).map (fun l => { l with path := l.path.drop 1 })

/-- one binding of `transcode`. `fields` = attribute names of the request class (`hasattr`). -/
def tryBinding (fields : List Str) (b : HttpRule) (msg : Msg) : Option Transcoded :=
  let ps := scan b.uri
  let vars := varPaths ps
  let uri := expandP msg ps
  if !(validate ps uri) || !(vars.all (fun v => (getLeaf msg v).isSome)) then none
  else
    let left := leftovers vars msg
    match b.body with
    | none => some ⟨b.method, uri, none, left⟩
    | some bd =>
      if bd = ['*'] then some ⟨b.method, uri, some left, []⟩
      else if fields.contains bd then some ⟨b.method, uri, some (subtree bd left), deleteField left [bd]⟩
      else none

/-- reference `transcode`: the first binding that applies; `none` = `ValueError` -/
def refTranscode (fields : List Str) : Transcode := fun opts msg => opts.findSome? (tryBinding fields · msg)

/-! ### the emitted call -/

inductive Err where
  | notImplemented          -- `raise NotImplementedError("Method … is not available over REST transport")`
  | noBinding               -- `ValueError` out of `transcode`
  | keyErrorBody            -- `transcoded_request['body']` when the selected binding has none
deriving Repr, DecidableEq

/-- a JSON member: path of member names ↦ scalar texts -/
structure JLeaf where
  path : List Str
  vals : List Str
deriving Repr, DecidableEq

structure Wire where
  verb : Str
  uri : Str
  body : Option (List JLeaf)        -- `data=body` only when the PRIMARY binding declares a body
  query : List JLeaf                -- the `query_params` dict before `flatten_query_params`
deriving Repr, DecidableEq

def renderAtom (numeric : Bool) : Atom → Str
  | .plain t => t
  | .enum n k => if numeric then k else n

/-- `json_format.MessageToJson(…, use_integers_for_enums=numeric)`: lowerCamel member names -/
def jsonLeaf (numeric : Bool) (l : Leaf) : JLeaf := ⟨l.path.map toJsonName, l.atoms.map (renderAtom numeric)⟩

def altLeaf : JLeaf :=
  ⟨[['$', 'a', 'l', 't']], [['j', 's', 'o', 'n', ';', 'e', 'n', 'u', 'm', '-', 'e', 'n', 'c', 'o', 'd', 'i', 'n', 'g', '=', 'i', 'n', 't']]⟩

def topKeys (q : List JLeaf) : List Str := q.filterMap (fun l => l.path.head?)

/-- `_get_unset_required_fields(query_params)`; a `{}` default is a member without values -/
def addedDefaults (m : MethodD) (q : List JLeaf) : List JLeaf :=
  ((requiredDefaults m).filter (fun kd => !(topKeys q).contains kd.1)).map
    (fun kd => ⟨[kd.1], kd.2.toList⟩)

/-- `flatten_query_params(query_params, strict=True)` -/
def flattenQuery (q : List JLeaf) : List (Str × Str) :=
  q.flatMap (fun l => l.vals.map (fun v => (joinWith '.' l.path, v)))

def restAvailable (m : MethodD) : Bool := !(httpOptions m).isEmpty && !m.clientStreaming

def restCall (tr : Transcode) (m : MethodD) (numeric : Bool) (req : Msg) : Except Err Wire :=
  let opts := httpOptions m
  if !restAvailable m then .error .notImplemented
  else match tr opts (rtMsg req) with
    | none => .error .noBinding
    | some t =>
      let bodySpec := opts.head?.bind (·.body)
      let q := t.query.map (jsonLeaf numeric)
      let query := q ++ addedDefaults m q ++ (if numeric then [altLeaf] else [])
      match bodySpec, t.body with
      | none, _ => .ok ⟨t.method, t.uri, none, query⟩
      | some _, none => .error .keyErrorBody
      | some _, some b => .ok ⟨t.method, t.uri, some (b.map (jsonLeaf numeric)), query⟩

/-- index of the binding the reference transcoder uses (first one that applies) -/
def selectedIndex (fields : List Str) (opts : List HttpRule) (msg : Msg) : Option Nat :=
  opts.findIdx? (fun b => (tryBinding fields b msg).isSome)

/-! ### predicates the theorems of `Props/C04` use as hypotheses; the driver decides them per call -/

/-- field `n` (top level, name as in the emitted class) is not bound by binding `b` -/
def Unbound (b : HttpRule) (n : Str) : Prop :=
  [n] ∉ varPaths (scan b.uri) ∧ b.body ≠ some n ∧ b.body ≠ some ['*']

instance (b : HttpRule) (n : Str) : Decidable (Unbound b n) := by unfold Unbound; infer_instance

/-- the generator's table `query_params` (computed once, from the primary rule's raw text) is right
about binding `b` -/
def Agree (m : MethodD) (b : HttpRule) : Prop := ∀ n ∈ rtNames m, n ∈ queryParams m ↔ Unbound b n

instance (m : MethodD) (b : HttpRule) : Decidable (Agree m b) := by unfold Agree; infer_instance

/-! ### the reply (`rest_call_method_common`, rest.py.j2 `__call__`) -/

inductive ReplyOutcome where
  | httpError (status : Nat)      -- `raise core_exceptions.from_http_response(response)`
  | parsed                        -- `json_format.Parse(response.content, pb_resp, ignore_unknown_fields=True)`
deriving Repr, DecidableEq

/-- `if response.status_code >= 400:` -/
def replyOutcome (status : Nat) : ReplyOutcome := if status ≥ 400 then .httpError status else .parsed

end GapicModel.Model.Rest
