/-
C09 — default retry / timeout of a method (DESIGN §7.9).

Generator side  gapic/schema/api.py: `_ProtoBuilder._get_retry_and_timeout`, `_to_float`
Emitted side    transports/base.py.j2 `_prep_wrapped_messages`, `_shared_macros.j2`
                `prep_wrapped_messages_async_method` (same text with `AsyncRetry`)
Runtime shell   google.api_core: `gapic_v1.method._GapicCallable.__call__`, `retry.Retry` /
                `retry_target` / `exponential_sleep_generator`, `timeout.TimeToDeadlineTimeout`
                (reference model; validated differentially, not verified).

                gapic/utils/options.py `Options.build`: `retry-config` (several paths: the last one is read)

Durations and multipliers are exact rationals (`Rat`, Lean core); `Float` never appears.

Modelled since the deepening round: `optsRetry` (last `retry-config` wins), `wrappedTable` (the whole
`_wrapped_methods` table: one entry per RPC of the service followed by one `default_timeout=None` entry per
mixin RPC — mixin RPCs never get service-config defaults, named or not).

Modelled since the SECOND deepening round: `_to_float` on Python's whole numeric grammar `[sign] mantissa
[(e|E) [sign] digits]` / `[sign] digits n` (`parseFloat?`, `parseInt?`; exact rationals), with theorems for ALL
digit strings (Props/C09 `to_float_*`, Lemmas/C09); `selectorService` (the selector's `service` is built from the
package of the FILE that declares the service: sub-package services are named by their proto full name).

NOT modelled (stated, so that nobody reads more into the theorems):
* the KEY of a table entry (`method.transport_safe_name|snake_case`): names are C03/C12's subject; the harness
  takes the key from the real `Method` object;
* `_wrap_method`'s `kind=` keyword of the async transports and api-core's choice of gRPC vs REST error
  wrapping; REST status → exception mapping (the property is about gRPC status codes; T3 calls the sync REST
  client only with status codes whose api-core class survives the HTTP status); rest_asyncio calls (table only);
* the call-time `wrap_method(..., default_timeout=None)` of the IAM helper methods emitted with
  `add-iam-methods` (client.py.j2 / async_client.py.j2) — same shape as a mixin entry;
* `_to_float` on literals with blanks around the number, `_` between digits, `inf` / `infinity` / `nan`,
  non-ASCII digits (`toFloat?` answers `none` = "outside the model"); binary64 rounding, overflow and the two
  roundings of `int(..) / 1e9` for 2^53 ns or more (the harness rounds the exact rational);
* extra keys inside a `name` element, a `name` that is not a list (the generator raises TypeError);
* `maxAttempts` beyond being carried into `RetryInfo` (the templates never read it);
* the streaming kind of a method: the table and the loop are the same for unary, server-streaming, client-
  streaming and bidi RPCs in the generator; that api-core's asyncio wrappers do not retry the status of a
  client-streaming / bidi call is api-core's behaviour (observed by T3, recorded as an assumption);
* real time, the distribution of the jitter, attempts that take time.
-/
namespace GapicModel.Model.Retry

/-! ### Canonical status codes and api-core's exception classes -/

/-- the 17 members of `grpc.StatusCode` -/
inductive Code where
  | ok | cancelled | unknown | invalidArgument | deadlineExceeded | notFound | alreadyExists
  | permissionDenied | resourceExhausted | failedPrecondition | aborted | outOfRange
  | unimplemented | internal | unavailable | dataLoss | unauthenticated
deriving Repr, DecidableEq

def Code.all : List Code :=
  [.ok, .cancelled, .unknown, .invalidArgument, .deadlineExceeded, .notFound, .alreadyExists,
   .permissionDenied, .resourceExhausted, .failedPrecondition, .aborted, .outOfRange,
   .unimplemented, .internal, .unavailable, .dataLoss, .unauthenticated]

def Code.name : Code → String
  | .ok => "OK" | .cancelled => "CANCELLED" | .unknown => "UNKNOWN"
  | .invalidArgument => "INVALID_ARGUMENT" | .deadlineExceeded => "DEADLINE_EXCEEDED"
  | .notFound => "NOT_FOUND" | .alreadyExists => "ALREADY_EXISTS"
  | .permissionDenied => "PERMISSION_DENIED" | .resourceExhausted => "RESOURCE_EXHAUSTED"
  | .failedPrecondition => "FAILED_PRECONDITION" | .aborted => "ABORTED" | .outOfRange => "OUT_OF_RANGE"
  | .unimplemented => "UNIMPLEMENTED" | .internal => "INTERNAL" | .unavailable => "UNAVAILABLE"
  | .dataLoss => "DATA_LOSS" | .unauthenticated => "UNAUTHENTICATED"

/-- `getattr(grpc.StatusCode, name)`; `none` = AttributeError -/
def Code.ofName? (s : String) : Option Code := Code.all.find? (fun c => c.name == s)

/-- The classes `exceptions.exception_class_for_grpc_status` can return.  `googleAPICallError` is the
base class, returned for a status that has no class of its own (that is: `OK`). -/
inductive Exc where
  | googleAPICallError
  | cancelled | unknown | invalidArgument | deadlineExceeded | notFound | alreadyExists
  | permissionDenied | resourceExhausted | failedPrecondition | aborted | outOfRange
  | methodNotImplemented | internalServerError | serviceUnavailable | dataLoss | unauthenticated
deriving Repr, DecidableEq

/-- python `__name__` -/
def Exc.name : Exc → String
  | .googleAPICallError => "GoogleAPICallError"
  | .cancelled => "Cancelled" | .unknown => "Unknown" | .invalidArgument => "InvalidArgument"
  | .deadlineExceeded => "DeadlineExceeded" | .notFound => "NotFound" | .alreadyExists => "AlreadyExists"
  | .permissionDenied => "PermissionDenied" | .resourceExhausted => "ResourceExhausted"
  | .failedPrecondition => "FailedPrecondition" | .aborted => "Aborted" | .outOfRange => "OutOfRange"
  | .methodNotImplemented => "MethodNotImplemented" | .internalServerError => "InternalServerError"
  | .serviceUnavailable => "ServiceUnavailable" | .dataLoss => "DataLoss" | .unauthenticated => "Unauthenticated"

/-- `exceptions.exception_class_for_grpc_status` (table of the installed api-core; checked
exhaustively against the live function on every run). -/
def excOfCode : Code → Exc
  | .ok => .googleAPICallError
  | .cancelled => .cancelled | .unknown => .unknown | .invalidArgument => .invalidArgument
  | .deadlineExceeded => .deadlineExceeded | .notFound => .notFound | .alreadyExists => .alreadyExists
  | .permissionDenied => .permissionDenied | .resourceExhausted => .resourceExhausted
  | .failedPrecondition => .failedPrecondition | .aborted => .aborted | .outOfRange => .outOfRange
  | .unimplemented => .methodNotImplemented | .internal => .internalServerError
  | .unavailable => .serviceUnavailable | .dataLoss => .dataLoss | .unauthenticated => .unauthenticated

/-- `isinstance(raised(), cls)` among these classes: none of the sixteen status classes derives from
another one; all of them derive from the base (checked 17×17 against the live classes on every run). -/
def Exc.isInstance (raised cls : Exc) : Bool := raised == cls || cls == .googleAPICallError

/-! ### Durations: `_to_float` -/

def digitVal? (c : Char) : Option Nat :=
  if '0' ≤ c ∧ c ≤ '9' then some (c.toNat - '0'.toNat) else none

/-- value of a non-empty string of ASCII digits -/
def natOfDigits? (cs : List Char) : Option Nat :=
  if cs.isEmpty then none else
  cs.foldl (fun acc c => match acc, digitVal? c with
    | some a, some d => some (a * 10 + d)
    | _, _ => none) (some 0)

def pow10 (k : Nat) : Rat := ((10 ^ k : Nat) : Rat)

/-- an unsigned decimal mantissa `d+`, `d+.`, `d+.d+`, `.d+` -/
def parseDecimal? (body : List Char) : Option Rat :=
  let ip := body.takeWhile (· ≠ '.')
  let rest := body.dropWhile (· ≠ '.')
  match rest with
  | [] => (natOfDigits? ip).map (fun n => (n : Rat))
  | _ :: fp =>
    if ip.isEmpty ∧ fp.isEmpty then none else
    let i? := if ip.isEmpty then some 0 else natOfDigits? ip
    let f? := if fp.isEmpty then some 0 else natOfDigits? fp
    match i?, f? with
    | some i, some f => some ((i : Rat) + (f : Rat) / pow10 fp.length)
    | _, _ => none

/-- one optional leading sign: `(negative, rest)` -/
def splitSign : List Char → Bool × List Char
  | '-' :: r => (true, r)
  | '+' :: r => (false, r)
  | cs => (false, cs)

def applySign (neg : Bool) (r : Rat) : Rat := if neg then -r else r

def notExp (c : Char) : Bool := c ≠ 'e' ∧ c ≠ 'E'

/-- `float(body)` for `[sign] mantissa [(e|E) [sign] d+]` as an EXACT rational (binary64 rounding, overflow to
`inf` and underflow are the harness's business: it rounds the rational correctly and compares).  `none` =
Python raises ValueError, or the literal uses what the model leaves out: blanks around the number, `_`
between digits, `inf` / `infinity` / `nan`, non-ASCII digits. -/
def parseFloat? (body : List Char) : Option Rat :=
  let su := splitSign body
  let mant := su.2.takeWhile notExp
  match su.2.dropWhile notExp with
  | [] => (parseDecimal? mant).map (applySign su.1)
  | _ :: ex =>
    let se := splitSign ex
    match parseDecimal? mant, natOfDigits? se.2 with
    | some m, some e => some (applySign su.1 (if se.1 then m / pow10 e else m * pow10 e))
    | _, _ => none

/-- `int(body)` for `[sign] d+` (again without blanks / underscores / non-ASCII digits) -/
def parseInt? (body : List Char) : Option Rat :=
  let su := splitSign body
  (natOfDigits? su.2).map fun n => applySign su.1 (n : Rat)

/-- `_to_float(s)`: `int(s[:-1]) / 1e9 if s.endswith("n") else float(s[:-1])`.  The last character is
dropped whatever it is (the code never checks for `s`). -/
def toFloat? (s : List Char) : Option Rat :=
  match s.reverse with
  | [] => none                                   -- float("") raises
  | last :: rb =>
    let body := rb.reverse
    if last = 'n' then (parseInt? body).map (fun n => n / pow10 9)
    else parseFloat? body

/-! ### The service config as the generator reads it -/

/-- one element of a `name` list: a JSON object; `service` / `method` may be absent -/
structure Name where
  service : Option String
  method : Option String
deriving Repr, DecidableEq

structure RetryPolicy where
  maxAttempts : Option Rat            -- read into RetryInfo, never used afterwards
  initialBackoff : Option (List Char)
  maxBackoff : Option (List Char)
  backoffMultiplier : Option Rat      -- a JSON number
  codes : List String                 -- `retryableStatusCodes`
deriving Repr, DecidableEq

structure MethodConfig where
  names : List Name
  timeout : Option (List Char)
  retryPolicy : Option RetryPolicy
deriving Repr, DecidableEq

/-- `opts.retry["methodConfig"]` -/
abbrev ServiceConfig := List MethodConfig

/-- the `service` of a method's selector: `"{package}.{service_name}"` with `package = ".".join(service_address.package)`
— the proto package of the FILE that declares the service (for a service of a sub-package `acme.lib.v1.admin`
of the API `acme.lib.v1` that is the sub-package), i.e. the service's proto full name.  The API's root package,
the python module path and `autogen-snippets` play no part. -/
def selectorService (filePackage : List String) (name : String) : String :=
  ".".intercalate filePackage ++ "." ++ name

/-- `selector in c.get("name")` with `selector = {"service": pkg.Service, "method": Method}`:
dict equality, so a service-wide name (no `method`) never matches. -/
def MethodConfig.namesMethod (c : MethodConfig) (svc meth : String) : Bool :=
  c.names.contains ⟨some svc, some meth⟩

/-- `next((c for c in methodConfig if selector in c.get("name")), None)` -/
def selectConfig (cfg : ServiceConfig) (svc meth : String) : Option MethodConfig :=
  cfg.find? (fun c => c.namesMethod svc meth)

/-- `wrappers.RetryInfo` (frozenset of classes as a duplicate-free list in first-occurrence order;
consumers must not depend on the order) -/
structure RetryInfo where
  maxAttempts : Rat
  initialBackoff : Rat
  maxBackoff : Rat
  backoffMultiplier : Rat
  exceptions : List Exc
deriving Repr, DecidableEq

inductive Err where
  | badDuration        -- `_to_float` raised (or an exotic float literal)
  | badStatusCode      -- `getattr(grpc.StatusCode, code)` raised AttributeError
deriving Repr, DecidableEq

def dur (s : List Char) : Except Err Rat :=
  match toFloat? s with
  | some r => .ok r
  | none => .error .badDuration

def classesOf : List String → Except Err (List Exc)
  | [] => .ok []
  | n :: ns => do
    let c ← match Code.ofName? n with
      | some c => pure c
      | none => throw Err.badStatusCode
    let rest ← classesOf ns
    pure (excOfCode c :: rest)

def retryInfoOf (r : RetryPolicy) : Except Err RetryInfo := do
  let i ← dur (r.initialBackoff.getD "0s".toList)
  let m ← dur (r.maxBackoff.getD "0s".toList)
  let cls ← classesOf r.codes
  pure ⟨r.maxAttempts.getD 0, i, m, r.backoffMultiplier.getD 0, cls.eraseDups⟩

/-- the timeout of an entry: `if mc.get("timeout")` — absent and `""` are the same -/
def timeoutOf (mc : MethodConfig) : Except Err (Option Rat) :=
  match mc.timeout with
  | none => .ok none
  | some [] => .ok none
  | some s => (dur s).map some

/-- `_get_retry_and_timeout`: `(method.retry, method.timeout)` -/
def methodDefaults (cfg : ServiceConfig) (svc meth : String) : Except Err (Option RetryInfo × Option Rat) :=
  match selectConfig cfg svc meth with
  | none => .ok (none, none)
  | some mc => do
    let t ← timeoutOf mc
    match mc.retryPolicy with
    | none => pure (none, t)
    | some r => do
      let ri ← retryInfoOf r
      pure (some ri, t)

/-! ### What the templates emit -/

/-- the keyword arguments of `retries.Retry(...)` / `retries.AsyncRetry(...)` in the table; `none` = the
keyword is not emitted (`{% if method.retry.initial_backoff %}` is false for 0). `deadline` is always
emitted and is `None` when the entry has no timeout. -/
structure EmittedRetry where
  initial : Option Rat
  maximum : Option Rat
  multiplier : Option Rat
  predicate : List Exc
  deadline : Option Rat
deriving Repr, DecidableEq

/-- one entry of `_wrapped_methods` -/
structure Emitted where
  retry : Option EmittedRetry          -- `default_retry=` (absent when `method.retry` is None)
  timeout : Option Rat                 -- `default_timeout=`
deriving Repr, DecidableEq

def truthy (r : Rat) : Option Rat := if r = 0 then none else some r

def emittedDefaults (d : Option RetryInfo × Option Rat) : Emitted :=
  { retry := d.1.map fun ri =>
      { initial := truthy ri.initialBackoff, maximum := truthy ri.maxBackoff,
        multiplier := truthy ri.backoffMultiplier, predicate := ri.exceptions, deadline := d.2 },
    timeout := d.2 }

/-! ### api-core: the parameters a `Retry` object ends up with, and the call -/

structure Params where
  initial : Rat
  maximum : Rat
  multiplier : Rat
  predicate : List Exc
  deadline : Option Rat          -- `Retry._timeout`; `none` = retry for ever
deriving Repr, DecidableEq

/-- `_BaseRetry.__init__` defaults: initial 1.0, maximum 60.0, multiplier 2.0 (`deadline=None` is passed
explicitly by the template and therefore stays `None`). -/
def effective (e : EmittedRetry) : Params :=
  { initial := e.initial.getD 1, maximum := e.maximum.getD 60, multiplier := e.multiplier.getD 2,
    predicate := e.predicate, deadline := e.deadline }

/-- `if_exception_type(*classes)(from_grpc_error(code))` -/
def Params.retryable (p : Params) (c : Code) : Bool :=
  p.predicate.any (fun cls => (excOfCode c).isInstance cls)

/-- a per-call argument: `gapic_v1.method.DEFAULT` or a value given by the caller -/
inductive Arg (α : Type) where
  | default
  | given (a : α)
deriving Repr

/-- `_GapicCallable.__call__`: `if retry is DEFAULT: retry = self._retry` (same for timeout) -/
def Arg.resolve {α : Type} (dflt : α) : Arg α → α
  | .default => dflt
  | .given a => a

/-- `exponential_sleep_generator`: upper bound of the `i`-th sleep
(`max_delay₀ = min(initial, maximum)`, `max_delayᵢ₊₁ = min(max_delayᵢ * multiplier, maximum)`). -/
def bound (p : Params) : Nat → Rat
  | 0 => min p.initial p.maximum
  | i + 1 => min (bound p i * p.multiplier) p.maximum

/-- `TimeToDeadlineTimeout`: the `timeout=` handed to the RPC of an attempt that starts `elapsed`
seconds after the call began (`remaining < 1` falls back to the whole timeout — api-core's rule). -/
def attemptTimeout (t : Option Rat) (elapsed : Rat) : Option Rat :=
  t.map fun T => if T - elapsed < 1 then T else T - elapsed

/-- what the server answers to one attempt -/
inductive Reply where
  | ok
  | err (c : Code)
deriving Repr, DecidableEq

inductive Result where
  | success
  | failed (c : Code)          -- the error of the last attempt surfaces (`from_grpc_error`)
  | retryError (c : Code)      -- `RetryError`: deadline exceeded while retrying; cause = last error
  | exhausted                  -- the reply script ran out (never happens in a well-formed experiment)
deriving Repr, DecidableEq

structure Attempt where
  start : Rat                  -- seconds since the call began
  timeout : Option Rat         -- deadline carried by this attempt
deriving Repr, DecidableEq

structure Trace where
  attempts : List Attempt
  waits : List Rat             -- sleeps requested between attempts
  result : Result
deriving Repr, DecidableEq

/-- `retry_target` around `func_with_timeout`, attempts taking no time, `time.sleep(w)` advancing the
clock by `w`.  `jit i ∈ [0,1]` is the fraction `random.uniform(0, max_delay)` picks for the `i`-th sleep. -/
def run (retry : Option Params) (timeout : Option Rat) (jit : Nat → Rat) :
    List Reply → Nat → Rat → Trace
  | [], _, _ => ⟨[], [], .exhausted⟩
  | r :: rest, i, el =>
    let here : Attempt := ⟨el, attemptTimeout timeout el⟩
    match r with
    | .ok => ⟨[here], [], .success⟩
    | .err c =>
      match retry with
      | none => ⟨[here], [], .failed c⟩
      | some p =>
        if p.retryable c then
          let w := jit i * bound p i
          match p.deadline with
          | none =>
            let t := run retry timeout jit rest (i + 1) (el + w)
            ⟨here :: t.attempts, w :: t.waits, t.result⟩
          | some D =>
            if el + w > D then ⟨[here], [], .retryError c⟩
            else
              let t := run retry timeout jit rest (i + 1) (el + w)
              ⟨here :: t.attempts, w :: t.waits, t.result⟩
        else ⟨[here], [], .failed c⟩

/-! ### `Options.build` and the whole table -/

/-- `retry_paths[-1]`: of several `retry-config=` options only the LAST file is read; no option = no config
(`opts.retry is None`, every method unnamed). -/
def optsRetry (configs : List ServiceConfig) : ServiceConfig := (configs.getLast?).getD []

/-- `_prep_wrapped_messages`: `service.methods` in order, each with its defaults, then `api.mixin_api_methods`,
each with the literal `default_timeout=None` and no `default_retry` — whatever the service config says.
Keyed here by RPC name (the emitted key is `transport_safe_name|snake_case`, not modelled). -/
def ownEntries (cfg : ServiceConfig) (svc : String) : List String → Except Err (List (String × Emitted))
  | [] => .ok []
  | m :: ms =>
    match methodDefaults cfg svc m with
    | .error e => .error e
    | .ok d =>
      match ownEntries cfg svc ms with
      | .error e => .error e
      | .ok rest => .ok ((m, emittedDefaults d) :: rest)

def mixinEntry : Emitted := ⟨none, none⟩

def wrappedTable (cfg : ServiceConfig) (svc : String) (methods mixins : List String) :
    Except Err (List (String × Emitted)) :=
  match ownEntries cfg svc methods with
  | .error e => .error e
  | .ok own => .ok (own ++ mixins.map fun m => (m, mixinEntry))

/-- A call of an emitted client method: table entry `e`, per-call `retry=` / `timeout=`. -/
def call (e : Emitted) (retry : Arg (Option Params)) (timeout : Arg (Option Rat))
    (jit : Nat → Rat) (replies : List Reply) : Trace :=
  run (retry.resolve (e.retry.map effective)) (timeout.resolve e.timeout) jit replies 0 0

end GapicModel.Model.Retry
