import GapicModel.Regex.Match
import GapicModel.Pinned.Regexes
import GapicModel.Pinned.Tables
/-
C06 — the `x-goog-request-params` routing header (AIP-4222).

Follows the code:
* gapic/schema/wrappers.py  `RoutingParameter._split_into_segments / _convert_segment_to_regex /
  _merge_segments / _convert_to_regex / _to_regex / key`, `Method.field_headers`,
  `FieldHeader.disambiguated`;
* templates `_shared_macros.j2: create_metadata` (the emitted `if regex_match and
  regex_match.group(key)` chain over a dict, and the implicit tuple of `(raw, request.<attr>)`);
* google.api_core `routing_header.to_routing_header` (= `urlencode(..., safe="/")`, external).

A path template is given tokenised (`List Seg`); `render` gives back the string and the tie
"the real `to_regex()` of `render segs` parses (CPython) to `toRegex segs`" is T2.
The regex is the AST CPython builds from the string the code assembles: literal segments are
inserted as they are (only characters that are no regex metacharacters are representable as
`Tok.lit`; the harness sends nothing else), `*` is `[^/]+`, a `**` segment is `.*` when it stands
first and `(?:/.*)?` when it follows another segment, the named segment is `(?P<key>…)`.

Also modelled: a template WITHOUT named segment (`toRegexUnnamed`; `to_regex` accepts it, key = field
name; `chainRaises`: on such a pattern `regex_match.group("<field>")` raises IndexError whenever the
value matches — the same call in `RoutingRule.resolve`, made while the emitted tests are rendered,
makes GENERATION fail, so no client with such a rule exists), the named segment written `{key}`
(`Seg.bare`: `to_regex` rewrites it to `{key=*}`; a rule with it cannot be generated either,
`uri_sample.sample_from_path_template` needs the `=`; function level only),
client-streaming methods (`header`: no request at call time, the parameter
loops are not rendered), the schema-side `RoutingRule.resolve` (`resolveSchema`; it feeds the
expected values of the emitted unit tests and differs from the emitted chain on empty values), the
`google.api.http` rule as `Method.field_headers` reads it (`HttpRule`: the `pattern` oneof incl.
`custom {kind, path}`, additional bindings never read), and what the transports do with the call
metadata (`callMetadata`, `grpcValues`: every pair is sent; `restHeaders`: the REST transports build
`dict(metadata)`, so a key sent twice collapses to its last value), and programs of calls that pass
the same caller-owned metadata object again (`runProgram`: `tuple(metadata) + (…)` builds a new
sequence, the caller's object is never written).

NOT modelled (stated, reached by T2/T3 or outside C06):
* literal segments with regex metacharacters (inserted unescaped by the code; `litItemsReal` states
  the one realistic case, a `.` in a collection id), templates whose named segment is not a whole
  `/`-separated run (`x{k=*}y`, `{a}~{b}`);
* non-string routing fields: implicit routing sends `str(value)` through urlencode (ints are covered by
  T3 as decimal strings; enums/bools only as recorded probes); explicit routing calls `re.match` on
  the value and raises TypeError for non-strings;
* `RoutingParameter.sample_request` / `uri_sample` (input of the emitted tests, C13/C14);
* where the service is declared (API package or a proto sub-package), which template set renders the
  client (standard / ads) and which transport carries the call do not occur in the model: T3 runs the
  same model against all of them (sub-package layouts, two services, sync / asyncio gRPC, REST,
  asyncio REST);
* `routing_header.to_grpc_metadata`'s lru_cache; HTTP header-name case folding (a caller's
  `X-Goog-Request-Params` is a different dict key for `dict(metadata)`).
No Mathlib.
-/
namespace GapicModel.Model.Routing
open GapicModel.Regex

/-- an unnamed segment of a routing path template -/
inductive Tok where
  | lit (cs : List Char)        -- collection id, copied into the regex
  | star                        -- `*`
  | dstar                       -- `**`
deriving Repr, DecidableEq

/-- a `/`-separated segment: unnamed, or the named `{key=sub/template}` (which may itself span
    several `/`-separated unnamed segments; `_split_into_segments` merges them back) -/
inductive Seg where
  | tok (t : Tok)
  | named (key : List Char) (sub : List Tok)
  | bare (key : List Char)      -- `{key}`: `_convert_segment_to_regex` rewrites it to `{key=*}`
deriving Repr, DecidableEq

/-- supported grammar: exactly one named segment (`pre / {key=sub} / post`) -/
structure Template where
  pre : List Tok
  key : List Char
  sub : List Tok
  post : List Tok
deriving Repr, DecidableEq

inductive Err where
  | manyNamed (n : Nat)     -- the code raises ValueError("There must be exactly one named segment…")
  | noNamed                 -- accepted by the code, excluded by routing.proto ("MUST contain exactly one")
deriving Repr, DecidableEq

def Template.segs (t : Template) : List Seg :=
  t.pre.map .tok ++ [.named t.key t.sub] ++ t.post.map .tok

/-- is it a `{…}` segment (`_how_many_named_segments` counts the `{`) -/
def Seg.isNamed : Seg → Bool
  | .tok _ => false
  | _ => true

def Seg.tok? : Seg → Option Tok
  | .tok t => some t
  | _ => none

/-- `{key}` is `{key=*}` -/
def Seg.unbare : Seg → Seg
  | .bare k => .named k [.star]
  | s => s

/-- split a segment list around its named segment(s) -/
def ofSegsAux : List Seg → List Tok → Except Err Template
  | [], _ => .error .noNamed
  | .tok t :: r, acc => ofSegsAux r (acc ++ [t])
  | .named k sub :: r, acc =>
      let n := (r.filter Seg.isNamed).length
      if n = 0 then .ok ⟨acc, k, sub, r.filterMap Seg.tok?⟩ else .error (.manyNamed (n + 1))
  | .bare k :: r, acc =>
      let n := (r.filter Seg.isNamed).length
      if n = 0 then .ok ⟨acc, k, [.star], r.filterMap Seg.tok?⟩ else .error (.manyNamed (n + 1))

def ofSegs (segs : List Seg) : Except Err Template := ofSegsAux segs []

/-! ### rendering (the string the proto author wrote) -/

def renderTok : Tok → List Char
  | .lit cs => cs
  | .star => ['*']
  | .dstar => ['*', '*']

def joinSlash : List (List Char) → List Char
  | [] => []
  | [a] => a
  | a :: b :: r => a ++ '/' :: joinSlash (b :: r)

def renderSeg : Seg → List Char
  | .tok t => renderTok t
  | .named k sub => '{' :: k ++ '=' :: joinSlash (sub.map renderTok) ++ ['}']
  | .bare k => '{' :: k ++ ['}']

def renderSegs (segs : List Seg) : List Char := joinSlash (segs.map renderSeg)
def render (t : Template) : List Char := renderSegs t.segs

/-! ### `_convert_to_regex`, as the AST CPython parses the assembled string into -/

def notSlash : Re := .cls true [.ch '/']                                  -- `[^/]`
def plusItem : Re := .seq notSlash (.star notSlash true)                   -- `[^/]+`
def dstarItem : Re := .star .any true                                      -- `.*`
def optRest : Re := .alt (.seq (.chr '/') (.star .any true)) .eps          -- `(?:/.*)?`

/-- `_convert_segment_to_regex` on an unnamed segment (items of the flat sequence) -/
def tokItems : Tok → List Re
  | .lit cs => cs.map .chr
  | .star => [plusItem]
  | .dstar => [dstarItem]

/-- `_merge_segments`, for the segments after the first: `"(?:/.*)?"` if the segment's regex is
    `.*`, else `"/" + regex` -/
def mergeToksTail : List Tok → List Re
  | [] => []
  | .dstar :: ts => optRest :: mergeToksTail ts
  | .lit cs :: ts => .chr '/' :: (cs.map .chr ++ mergeToksTail ts)
  | .star :: ts => .chr '/' :: plusItem :: mergeToksTail ts

def mergeToks : List Tok → List Re
  | [] => []
  | t :: ts => tokItems t ++ mergeToksTail ts

/-- the named segment: `(?P<key>` + `_convert_to_regex(sub)` + `)`, group number 1 -/
def namedItem (sub : List Tok) : Re := .group 1 (seqR (mergeToks sub))

/-- items of the whole template between `^` and `$` -/
def templateItems (t : Template) : List Re :=
  match t.pre with
  | [] => namedItem t.sub :: mergeToksTail t.post
  | p :: ps => tokItems p ++ mergeToksTail ps ++ (.chr '/' :: namedItem t.sub :: mergeToksTail t.post)

/-- `RoutingParameter.to_regex()` -/
def toRegex (t : Template) : Pattern :=
  ⟨seqR (.bol :: templateItems t ++ [.eol]), 1, [(String.ofList t.key, 1)]⟩

/-- `RoutingParameter.to_regex()` of a template WITHOUT named segment (the code accepts it:
    `_how_many_named_segments` only rejects more than one): no group; `key` falls back to the field -/
def toRegexUnnamed (ts : List Tok) : Pattern :=
  ⟨seqR (.bol :: mergeToks ts ++ [.eol]), 0, []⟩

/-- does `routing_param_regex.match(v)` succeed for such a template -/
def matchesUnnamed (ct : ClassTables) (ts : List Tok) (v : List Char) : Bool :=
  (pyMatch ct (toRegexUnnamed ts).re v).isSome

/-- `RoutingParameter.key` for a parameter with a path template: the first (only) group name -/
def templateKey (t : Template) : List Char := t.key

/-! ### attribute paths: `FieldHeader.disambiguated` / `RoutingParameter.disambiguated_field` -/

/-- split on `.`: first component and the remaining ones -/
def splitDotsAux : List Char → List Char × List (List Char)
  | [] => ([], [])
  | c :: cs =>
    if c = '.' then ([], (splitDotsAux cs).1 :: (splitDotsAux cs).2)
    else (c :: (splitDotsAux cs).1, (splitDotsAux cs).2)

/-- `str.split(".")` -/
def splitDots (v : List Char) : List (List Char) := (splitDotsAux v).1 :: (splitDotsAux v).2

/-- `".".join(…)` -/
def joinDots : List (List Char) → List Char
  | [] => []
  | [a] => a
  | a :: b :: r => a ++ '.' :: joinDots (b :: r)

/-- `segment + "_" if segment in RESERVED_NAMES else segment` -/
def suffixSeg (seg : List Char) : List Char :=
  if Pinned.reservedNames.contains (String.ofList seg) then seg ++ ['_'] else seg

/-- `FieldHeader.disambiguated` and `RoutingParameter.disambiguated_field` (since the `fix:`
    commits a11332b / 52dedca): every dot-separated segment that is a reserved word carries the
    suffix.  (Before, implicit routing looked up the whole dotted string and explicit routing did
    not disambiguate at all; see findings/C06.json, "fixed".) -/
def disambiguated (raw : List Char) : List Char :=
  joinDots ((splitDots raw).map suffixSeg)

/-- `request.<path>` is a Python attribute expression only if no component is empty or a keyword -/
def attrPathValid (p : List Char) : Bool :=
  (splitDots p).all fun c => c ≠ [] && !Pinned.pyKeywords.contains (String.ofList c)

/-! ### explicit routing: the emitted chain -/

/-- the request, seen through the attribute expressions the emitted code evaluates
    (python attribute path `a.b_` ↦ value of `request.a.b_`; unset string fields read as `""`) -/
abbrev Request := List Char → List Char

structure Param where
  field : List Char                 -- dotted field path; read as `request.<disambiguated field>`
  template : Option Template        -- `none`: no `path_template`
deriving Repr, DecidableEq

/-- `routing_param_regex.match(v)` and then `.group(key)` -/
def capture (ct : ClassTables) (t : Template) (v : List Char) : Option (List Char) :=
  match pyMatch ct (toRegex t).re v with
  | some r => St.group? r.caps 1
  | none => none

def paramKey (p : Param) : List Char :=
  match p.template with
  | none => p.field
  | some t => t.key

/-- what one routing parameter contributes for a request: `(key, value)` or nothing -/
def contrib (ct : ClassTables) (r : Request) (p : Param) : Option (List Char × List Char) :=
  match p.template with
  | none => if r (disambiguated p.field) = [] then none else some (p.field, r (disambiguated p.field))
  | some t =>
    match capture ct t (r (disambiguated p.field)) with
    | some v => if v = [] then none else some (t.key, v)
    | none => none

/-- Python `d[k] = v` on an insertion-ordered dict -/
def dictSet (d : List (List Char × List Char)) (k v : List Char) : List (List Char × List Char) :=
  match d with
  | [] => [(k, v)]
  | (k', v') :: r => if k' = k then (k, v) :: r else (k', v') :: dictSet r k v

def dictGet (d : List (List Char × List Char)) (k : List Char) : Option (List Char) :=
  (d.find? (·.1 = k)).map (·.2)

def step (ct : ClassTables) (r : Request) (acc : List (List Char × List Char)) (p : Param) :=
  match contrib ct r p with
  | some (k, v) => dictSet acc k v
  | none => acc

/-- `header_params` after the chain -/
def resolveExplicit (ct : ClassTables) (ps : List Param) (r : Request) : List (List Char × List Char) :=
  ps.foldl (step ct r) []

/-! ### `routing_header.to_routing_header` = `urlencode(params, safe="/")` (external; T2) -/

def isUnreserved (c : Char) : Bool :=
  c.isAlphanum || c = '_' || c = '.' || c = '-' || c = '~'

def hexDigit (n : Nat) : Char :=
  if n < 10 then Char.ofNat (48 + n) else Char.ofNat (55 + n)

def pctByte (b : UInt8) : List Char := ['%', hexDigit (b.toNat / 16), hexDigit (b.toNat % 16)]

def encodeChar (c : Char) : List Char :=
  if isUnreserved c || c = '/' then [c]
  else if c = ' ' then ['+']
  else (String.utf8EncodeChar c).flatMap pctByte

def encode (s : List Char) : List Char := s.flatMap encodeChar

def joinAmp : List (List Char) → List Char
  | [] => []
  | [a] => a
  | a :: b :: r => a ++ '&' :: joinAmp (b :: r)

def encodePairs (kv : List (List Char × List Char)) : List Char :=
  joinAmp (kv.map fun (k, v) => encode k ++ '=' :: encode v)

/-- the header value sent for an explicit routing rule: none when nothing matched -/
def explicitHeader (ct : ClassTables) (ps : List Param) (r : Request) : Option (List Char) :=
  match resolveExplicit ct ps r with
  | [] => none
  | d => some (encodePairs d)

/-! ### implicit routing -/

/-- `next(non-empty of get, put, post, delete, patch, custom.path)` -/
def primaryPath (verbs : List (List Char)) : List Char :=
  (verbs.find? (· ≠ [])).getD []

/-- `Method.field_headers`: `re.compile(r"{(.*?)[=}]").findall(path)` -/
def fieldHeaders (ct : ClassTables) (path : List Char) : List (List Char) :=
  pyFindall1 ct Pinned.fieldHeaders.re path

/-- the tuple passed to `to_grpc_metadata`: `(raw, request.<disambiguated>)` per variable -/
def implicitPairs (hs : List (List Char)) (r : Request) : List (List Char × List Char) :=
  hs.map fun h => (h, r (disambiguated h))

def implicitHeader (ct : ClassTables) (path : List Char) (r : Request) : Option (List Char) :=
  match fieldHeaders ct path with
  | [] => none
  | hs => some (encodePairs (implicitPairs hs r))

/-- a primary http path, tokenised: literal text outside braces, `{name}` or `{name=template}` -/
inductive PSeg where
  | lit (cs : List Char)
  | var (name : List Char) (tmpl : Option (List Char))
deriving Repr, DecidableEq

def renderPath : List PSeg → List Char
  | [] => []
  | .lit cs :: r => cs ++ renderPath r
  | .var n none :: r => '{' :: n ++ '}' :: renderPath r
  | .var n (some t) :: r => '{' :: n ++ '=' :: t ++ '}' :: renderPath r

/-- the variables of a path template, in order -/
def pathVars : List PSeg → List (List Char)
  | [] => []
  | .lit _ :: r => pathVars r
  | .var n _ :: r => n :: pathVars r

/-! ### the whole of `create_metadata` for a unary method -/

structure Method where
  routing : Option (List Param)          -- `some ps`: google.api.routing present
  verbs : List (List Char)               -- get, put, post, delete, patch, custom.path
  clientStreaming : Bool := false        -- `requests` iterator instead of a request
deriving Repr

/-- the header `create_metadata` adds.  For a client-streaming method neither loop is rendered:
    explicit routing leaves `header_params` empty (nothing sent); implicit routing still appends
    `to_grpc_metadata(())`, i.e. the header with an EMPTY value, when the path has variables. -/
def header (ct : ClassTables) (m : Method) (r : Request) : Option (List Char) :=
  match m.routing with
  | some ps => if m.clientStreaming then none else explicitHeader ct ps r
  | none =>
    if m.clientStreaming then
      (match fieldHeaders ct (primaryPath m.verbs) with
       | [] => none
       | _ => some [])
    else implicitHeader ct (primaryPath m.verbs) r

/-! ### schema side: `RoutingRule.resolve` (expected values of the emitted unit tests) -/

/-- the request as the dict `_get_field` walks: `none` when a path segment is missing -/
abbrev DictRequest := List Char → Option (List Char)

/-- one iteration of `resolve`: no disambiguation (dict keys are proto names), no emptiness test
    (`if regex_match:` / `is not None`) -/
def contribSchema (ct : ClassTables) (r : DictRequest) (p : Param) : Option (List Char × List Char) :=
  match r p.field with
  | none => none
  | some v =>
    match p.template with
    | none => some (p.field, v)
    | some t =>
      match pyMatch ct (toRegex t).re v with
      | some res => some (t.key, (St.group? res.caps 1).getD [])
      | none => none

def stepSchema (ct : ClassTables) (r : DictRequest) (acc : List (List Char × List Char)) (p : Param) :=
  match contribSchema ct r p with
  | some (k, v) => dictSet acc k v
  | none => acc

def resolveSchema (ct : ClassTables) (ps : List Param) (r : DictRequest) : List (List Char × List Char) :=
  ps.foldl (stepSchema ct r) []

/-! ### template language, stated without regular expressions (reference for `capture`) -/

/-- maximal `/`-free prefix and the rest -/
def spanSeg : List Char → List Char × List Char
  | [] => ([], [])
  | c :: cs => if c = '/' then ([], c :: cs) else ((spanSeg cs).1.cons c, (spanSeg cs).2)

/-- sequencing of two scanners: (consumed, rest) of the first, then the second on the rest -/
def andThen (a : Option (List Char × List Char)) (f : List Char → Option (List Char × List Char)) :
    Option (List Char × List Char) :=
  match a with
  | none => none
  | some (c1, r1) =>
    match f r1 with
    | none => none
    | some (c2, r2) => some (c1 ++ c2, r2)

/-- consume one unnamed segment standing at the cursor: (consumed text, rest).
    literal: the text itself; `*`: a non-empty run of non-`/` characters; `**`: everything. -/
def scanTok : Tok → List Char → Option (List Char × List Char)
  | .lit cs, v => if cs <+: v then some (cs, v.drop cs.length) else none
  | .star, v => if (spanSeg v).1 = [] then none else some (spanSeg v)
  | .dstar, v => some (v, [])

/-- expect `/` -/
def scanSlash : List Char → Option (List Char × List Char)
  | c :: r => if c = '/' then some (['/'], r) else none
  | [] => none

/-- consume `/seg` for each following segment; a following `**` takes "zero or more segments":
    nothing, or `/` and everything after it -/
def scanTail : List Tok → List Char → Option (List Char × List Char)
  | [], v => some ([], v)
  | .dstar :: ts, v =>
      match v with
      | [] => scanTail ts []
      | c :: r => if c = '/' then andThen (some (c :: r, [])) (scanTail ts) else scanTail ts (c :: r)
  | .lit cs :: ts, v => andThen (andThen (scanSlash v) (scanTok (.lit cs))) (scanTail ts)
  | .star :: ts, v => andThen (andThen (scanSlash v) (scanTok .star)) (scanTail ts)

def scanToks : List Tok → List Char → Option (List Char × List Char)
  | [], v => some ([], v)
  | t :: ts, v => andThen (scanTok t v) (scanTail ts)

/-- the unnamed segments before the named one, and the `/` that follows them -/
def scanPre (pre : List Tok) (v : List Char) : Option (List Char × List Char) :=
  match pre with
  | [] => some ([], v)
  | p :: ps => andThen (scanToks (p :: ps) v) scanSlash

/-- reference: the text of the named segment if `v` is in the template's language -/
def scanCapture (t : Template) (v : List Char) : Option (List Char) :=
  match scanPre t.pre v with
  | none => none
  | some (_, v1) =>
    match scanToks t.sub v1 with
    | none => none
    | some (c2, v2) =>
      match scanTail t.post v2 with
      | some (_, []) => some c2
      | _ => none

/-- `**` nowhere -/
def noDstar : List Tok → Bool
  | [] => true
  | .dstar :: _ => false
  | _ :: ts => noDstar ts

/-- `**` at most as the last segment -/
def dstarOnlyLast : List Tok → Bool
  | [] => true
  | [.dstar] => true
  | .dstar :: _ => false
  | _ :: ts => dstarOnlyLast ts

/-- the grammar of routing.proto: `**` only as the last segment of the whole template -/
def Template.wf (t : Template) : Bool :=
  noDstar t.pre && dstarOnlyLast t.sub && dstarOnlyLast t.post && (noDstar t.sub || t.post.isEmpty)

/-! ### the `google.api.http` rule as `Method.field_headers` reads it -/

/-- the `pattern` oneof of `google.api.HttpRule` -/
inductive Verb where
  | get | put | post | delete | patch
  | custom (kind : List Char)            -- `custom { kind: "HEAD" path: "…" }`
deriving Repr, DecidableEq

structure HttpRule where
  verb : Verb
  path : List Char
  additional : List (Verb × List Char) := []   -- `additional_bindings`: never read by `field_headers`
deriving Repr, DecidableEq

/-- `[http.get, http.put, http.post, http.delete, http.patch, http.custom.path]`: the oneof fills one
    slot, the others read as `""` -/
def HttpRule.verbs (h : HttpRule) : List (List Char) :=
  match h.verb with
  | .get => [h.path, [], [], [], [], []]
  | .put => [[], h.path, [], [], [], []]
  | .post => [[], [], h.path, [], [], []]
  | .delete => [[], [], [], h.path, [], []]
  | .patch => [[], [], [], [], h.path, []]
  | .custom _ => [[], [], [], [], [], h.path]

/-- no `google.api.http` option: the default instance, six empty strings -/
def verbsOf : Option HttpRule → List (List Char)
  | none => [[], [], [], [], [], []]
  | some h => h.verbs

/-- a method as the proto author wrote it -/
def methodOf (routing : Option (List Param)) (http : Option HttpRule) (clientStreaming : Bool) : Method :=
  ⟨routing, verbsOf http, clientStreaming⟩

/-! ### what the transports do with the metadata of a call -/

/-- the lower-case metadata key -/
def hdrName : List Char := "x-goog-request-params".toList

/-- the metadata sequence the transport receives: the caller's `metadata=` argument, then the pair
    `create_metadata` appends (if any), then what the wrapped method appends (`x-goog-api-client`) -/
def callMetadata (user : List (List Char × List Char)) (routing : Option (List Char))
    (extra : List (List Char × List Char)) : List (List Char × List Char) :=
  user ++ (match routing with | some h => [(hdrName, h)] | none => []) ++ extra

/-- gRPC transports (sync and asyncio): every pair goes on the wire, in order -/
def grpcValues (md : List (List Char × List Char)) (k : List Char) : List (List Char) :=
  (md.filter (·.1 = k)).map (·.2)

/-- REST transports (sync and asyncio): `headers = dict(metadata)` -/
def restHeaders (md : List (List Char × List Char)) : List (List Char × List Char) :=
  md.foldl (fun d kv => dictSet d kv.1 kv.2) []

def restValue (md : List (List Char × List Char)) (k : List Char) : Option (List Char) :=
  dictGet (restHeaders md) k

/-! ### programs: several calls, possibly passing the SAME caller-owned metadata object -/

/-- the caller's metadata objects (Python lists / tuples), by index -/
abbrev MdStore := List (List (List Char × List Char))

/-- one call of a program -/
structure Call where
  routing : Option (List Char)   -- `header ct m r` of THIS call's method and request
  md : Option Nat                -- which of the caller's objects is passed as `metadata=` (none: the default `()`)
deriving Repr, DecidableEq

def MdStore.read (st : MdStore) : Option Nat → List (List Char × List Char)
  | none => []
  | some i => st.getD i []

/-- `metadata = tuple(metadata) + (routing pair,)`: a NEW sequence goes to the transport, the caller's
    object is not written (the store comes back as it was) -/
def callStep (extra : List (List Char × List Char)) (st : MdStore) (c : Call) :
    List (List Char × List Char) × MdStore :=
  (callMetadata (st.read c.md) c.routing extra, st)

/-- the metadata sequences the transport receives call after call, and the caller's objects afterwards -/
def runProgram (extra : List (List Char × List Char)) : MdStore → List Call →
    List (List (List Char × List Char)) × MdStore
  | st, [] => ([], st)
  | st, c :: cs =>
    ((callStep extra st c).1 :: (runProgram extra (callStep extra st c).2 cs).1,
     (runProgram extra (callStep extra st c).2 cs).2)

/-! ### the emitted chain on a parameter whose template has no named segment -/

/-- `key` falls back to the field name, the regex has no group of that name:
    `if regex_match and regex_match.group("<field>")` raises IndexError exactly when the value
    matches (routing.proto excludes such templates; the generator accepts them) -/
def chainRaises (ct : ClassTables) (ts : List Tok) (v : List Char) : Bool := matchesUnnamed ct ts v

/-! ### literal segments as the code really inserts them (only `.` considered) -/

/-- `_convert_segment_to_regex` copies a collection id into the pattern unescaped: a `.` in it is
    the regex "any character" -/
def litItemsReal (cs : List Char) : List Re :=
  cs.map fun c => if c = '.' then Re.any else Re.chr c

end GapicModel.Model.Routing
