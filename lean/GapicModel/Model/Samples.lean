import GapicModel.Regex.Match
/-
C14 — generated samples (gapic/samplegen/samplegen.py: generate_sample_specs, generate_request_object,
Validator.validate_and_transform_request / TransformedRequest.build (default requests only);
gapic/samplegen_utils/snippet_index.py: Snippet._parse_snippet_segments, Snippet.full_snippet;
gapic/samplegen_utils/types.py: CallingForm.method_default; Field.primitive_mock /
mock_value_original_type of gapic/schema/wrappers.py as far as default requests use them).

The model FOLLOWS THE CODE, including what the property does not want:
  * `generate_request_object` recurses on message-typed request fields with no visited set; the model
    recurses on explicit fuel and returns `Err.recursion` when it runs out (Python: RecursionError);
  * a REQUIRED message-typed field contributes only the entries of its own request fields — none if it
    has none (a REQUIRED proto3-optional field IS kept since fix 1704548: `not field.oneof or field.proto3_optional`);
  * `_parse_snippet_segments` leaves `REQUEST_EXECUTION.end` unset when no `# Handle the response`
    line exists (void methods), and `RESPONSE_HANDLING.end` is always the number of lines;
  * since fix cb7ea26 the sample calls `client.<snake(client_method_name)>` for non-internal methods — the name
    the metadata and the client use (§6 below); internal methods are still called as `_<snake(rpc)>`.
Also modelled: sample ids / file names / function names (`_generate_samples_and_manifest`, sample.py.j2),
the `parameters` list of `_fill_sample_metadata` (§6, §7).  `to_snake_case`, `Method.client_method_name` and
`fix_whitespace` are NOT hand-copied: the driver and the theorems instantiate the `snake` / `cmn` parameters with
the machine-translated `Pinned.Funcs.to_snake_case` / `Pinned.Funcs.client_method_name`, and the harness runs
`Pinned.Funcs.fix_whitespace` on the raw renders.

NOT modelled (reached through T3 / the oracle only):
  * Jinja rendering of sample.py.j2 / feature_fragments.j2 (request set-up text, calling-form text, imports,
    `request_module_name` for requests of other packages, `render_request_attr`, resource-pattern blocks);
  * the fact that segments are computed on the RAW render while the file is `fix_whitespace(raw)` (the model
    takes the line list as a parameter; `segments_depend_only_on_kinds` says when the two agree);
  * handwritten sample configs (`samples=` option: parse_handwritten_specs, Validator.validate_response and its
    statement validators, `input_parameter`, `value_is_file`, resource-name requests `field%attr`), the
    spec hash (sha256) used to disambiguate ids, `_fill_sample_metadata`'s result_type / full names
    (compared with the imported client by the oracle), `SnippetIndex` bookkeeping and JSON sorting;
  * `Field.mock_value_original_type` for message-typed fields (not used by default requests).
No Mathlib.
-/
namespace GapicModel.Model.Samples
open GapicModel.Regex

/-! ### 1. sample specs and region tags (`generate_sample_specs`) -/

inductive Transport where
  | grpc | grpcAsync | rest
deriving Repr, DecidableEq

def Transport.str : Transport → List Char
  | .grpc => "grpc".toList
  | .grpcAsync => "grpc-async".toList
  | .rest => "rest".toList

/-- `_sync_or_async_from_transport` -/
def syncOrAsync : Transport → List Char
  | .grpc => "sync".toList
  | .rest => "sync".toList
  | .grpcAsync => "async".toList

/-- `"grpc" in opts.transport`, `"rest" in opts.transport` -/
structure Opts where
  grpc : Bool
  rest : Bool
deriving Repr, DecidableEq

/-- the clients `API.gapic_metadata` records for every service, in insertion order -/
def clients (o : Opts) : List Transport :=
  (if o.grpc then [.grpc, .grpcAsync] else []) ++ (if o.rest then [.rest] else [])

/-- `if supports_grpc and transport == api.TRANSPORT_REST: continue` -/
def sampleTransports (o : Opts) : List Transport :=
  (clients o).filter fun t => !(o.grpc && t == .rest)

structure Rpc where
  name : List Char
  internal : Bool            -- `Method.is_internal` (selective generation); false otherwise
deriving Repr, DecidableEq

structure Service where
  name : List Char
  shortname : List Char      -- `Service.shortname`: `host.split(".")[0]`
  rpcs : List Rpc
deriving Repr, DecidableEq

structure Spec where
  service : List Char
  rpc : List Char
  transport : Transport
  regionTag : List Char
deriving Repr, DecidableEq

def us : List Char := ['_']

/-- `f"{api_short_name}_{api_version}_generated_{service_name}_{rpc_name}_{sync_or_async}"` (+ `_internal`) -/
def regionTag (short version service rpc : List Char) (t : Transport) (internal : Bool) : List Char :=
  short ++ us ++ (version ++ us ++ ("generated".toList ++ us ++ (service ++ us ++ (rpc ++ us ++
    (syncOrAsync t ++ (if internal then "_internal".toList else []))))))

def mkSpec (version : List Char) (s : Service) (t : Transport) (r : Rpc) : Spec :=
  ⟨s.name, r.name, t, regionTag s.shortname version s.name r.name t r.internal⟩

def serviceSpecs (version : List Char) (o : Opts) (s : Service) : List Spec :=
  (sampleTransports o).flatMap fun t => s.rpcs.map (mkSpec version s t)

/-- `generate_sample_specs`: service → client (transport) → rpc -/
def sampleSpecs (version : List Char) (o : Opts) (svcs : List Service) : List Spec :=
  svcs.flatMap (serviceSpecs version o)

/-! ### 2. calling form (`CallingForm.method_default`) -/

inductive CallingForm where
  | request | requestPagedAll | longRunningRequestPromise
  | requestStreamingClient | requestStreamingServer | requestStreamingBidi
deriving Repr, DecidableEq

structure MethodShape where
  lro : Bool
  paged : Bool               -- `bool(m.paged_result_field)`
  clientStreaming : Bool
  serverStreaming : Bool
deriving Repr, DecidableEq

def callingForm (m : MethodShape) : CallingForm :=
  if m.lro then .longRunningRequestPromise
  else if m.paged then .requestPagedAll
  else if m.clientStreaming then (if m.serverStreaming then .requestStreamingBidi else .requestStreamingClient)
  else if m.serverStreaming then .requestStreamingServer
  else .request

def CallingForm.str : CallingForm → String
  | .request => "Request" | .requestPagedAll => "RequestPagedAll"
  | .longRunningRequestPromise => "LongRunningRequestPromise"
  | .requestStreamingClient => "RequestStreamingClient"
  | .requestStreamingServer => "RequestStreamingServer"
  | .requestStreamingBidi => "RequestStreamingBidi"

/-! ### 3. segments (`Snippet._parse_snippet_segments`, `Snippet.full_snippet`) -/

/-- what the `if/elif` chain of the loop does with one line -/
inductive Kind where
  | start | stop | clientInit | requestInit | requestExec | responseHandling | other
deriving Repr, DecidableEq

/-- the four marker comments (`# Create a client`, …) -/
def Kind.isMarker : Kind → Bool
  | .clientInit | .requestInit | .requestExec | .responseHandling => true
  | _ => false

/-- `# [START …` / `# [END …` lines -/
def Kind.isTag : Kind → Bool
  | .start | .stop => true
  | _ => false

/-- the four `re.compile`d marker patterns of snippet_index.py (T1 extracts them; see Pinned.Regexes) -/
structure Markers where
  clientInit : Re
  requestInit : Re
  requestExec : Re
  responseHandling : Re

def startTag : List Char := "# [START".toList
def endTag : List Char := "# [END".toList

def classify (t : ClassTables) (mk : Markers) (line : List Char) : Kind :=
  if startTag.isPrefixOf line then .start
  else if endTag.isPrefixOf line then .stop
  else if (pyMatch t mk.clientInit line).isSome then .clientInit
  else if (pyMatch t mk.requestInit line).isSome then .requestInit
  else if (pyMatch t mk.requestExec line).isSome then .requestExec
  else if (pyMatch t mk.responseHandling line).isSome then .responseHandling
  else .other

/-- a `Snippet.Segment` (line numbers are 1-based; 0 = never assigned, the proto default) -/
structure Seg where
  start : Nat
  stop : Nat
deriving Repr, DecidableEq

structure Segs where
  full : Seg
  short : Seg
  clientInit : Seg
  requestInit : Seg
  requestExec : Seg
  responseHandling : Seg
deriving Repr, DecidableEq

/-- the six segments before the loop: only `RESPONSE_HANDLING.end = len(sample_lines)` is set -/
def initSegs (n : Nat) : Segs :=
  ⟨⟨0, 0⟩, ⟨0, 0⟩, ⟨0, 0⟩, ⟨0, 0⟩, ⟨0, 0⟩, ⟨0, n⟩⟩

/-- one iteration of the loop on line number `i` -/
def step (i : Nat) (k : Kind) (s : Segs) : Segs :=
  match k with
  | .start => { s with full := { s.full with start := i + 1 }, short := { s.short with start := i + 1 } }
  | .stop => { s with full := { s.full with stop := i - 1 }, short := { s.short with stop := i - 1 } }
  | .clientInit => { s with clientInit := { s.clientInit with start := i } }
  | .requestInit => { s with clientInit := { s.clientInit with stop := i - 1 },
                             requestInit := { s.requestInit with start := i } }
  | .requestExec => { s with requestInit := { s.requestInit with stop := i - 1 },
                             requestExec := { s.requestExec with start := i } }
  | .responseHandling => { s with requestExec := { s.requestExec with stop := i - 1 },
                                  responseHandling := { s.responseHandling with start := i } }
  | .other => s

/-- `for i, line in enumerate(self.sample_lines, start=i)` -/
def go (i : Nat) : List Kind → Segs → Segs
  | [], s => s
  | k :: ks, s => go (i + 1) ks (step i k s)

def parseKinds (ks : List Kind) : Segs := go 1 ks (initSegs ks.length)

def parseSegments (t : ClassTables) (mk : Markers) (lines : List (List Char)) : Segs :=
  parseKinds (lines.map (classify t mk))

/-- Python index normalisation of a slice bound -/
def pyBound (len : Nat) (i : Int) : Nat :=
  if i < 0 then (i + len).toNat else min i.toNat len

/-- `l[i:j]` -/
def pySlice {α} (l : List α) (i j : Int) : List α :=
  let a := pyBound l.length i
  let b := pyBound l.length j
  (l.drop a).take (b - a)

/-- `"".join(self.sample_lines[self._full_snippet.start - 1 : self._full_snippet.end])` -/
def fullSnippetLines (lines : List (List Char)) (s : Segs) : List (List Char) :=
  pySlice lines ((s.full.start : Int) - 1) (s.full.stop : Int)

def fullSnippet (lines : List (List Char)) (s : Segs) : List Char :=
  (fullSnippetLines lines s).flatten

/-! ### 4. default request (`generate_request_object`, mock values) -/

inductive PyType where
  | str | bytes | int | float | bool
deriving Repr, DecidableEq

/-- a mock value; `float n` stands for `n * 10 ** -len(str(n))` (no `Float` in the model) -/
inductive Scalar where
  | str (s : List Char)
  | bytes (s : List Char)
  | int (n : Nat)
  | float (n : Nat)
  | bool (b : Bool)
  | none                       -- `primitive_mock() or None` on a falsy mock
deriving Repr, DecidableEq

inductive Value where
  | one (v : Scalar)
  | many (vs : List Scalar)
deriving Repr, DecidableEq

inductive FKind where
  | prim (t : PyType)
  | enum (values : List (List Char))      -- value names in declaration order
  | msg (typeName : List Char)            -- full name, key into `Env`
deriving Repr, DecidableEq

structure Field where
  name : List Char
  kind : FKind
  repeated : Bool
  required : Bool                 -- REQUIRED in google.api.field_behavior
  oneof : Option (List Char)      -- `Field.oneof`: name of the containing oneof, synthetic ones included
  proto3Optional : Bool
deriving Repr, DecidableEq

structure Msg where
  fields : List Field             -- `MessageType.fields.values()` in declaration order
deriving Repr, DecidableEq

/-- messages by full name -/
abbrev Env := List (List Char × Msg)

def Env.get (e : Env) (n : List Char) : Option Msg := (e.find? (·.1 == n)).map (·.2)

def ordSum (s : List Char) : Nat := (s.map Char.toNat).sum

def natStr (n : Nat) : List Char := (toString n).toList

def sfx (suffix : Nat) : List Char := if suffix = 0 then [] else natStr suffix

def anyTypeUrl : List Char := "type.googleapis.com/google.protobuf.Empty".toList

/-- `Field.primitive_mock(suffix)` -/
def primitiveMock (name : List Char) (t : PyType) (suffix : Nat) : Scalar :=
  match t with
  | .bool => .bool true
  | .str => if name = "type_url".toList then .str anyTypeUrl
            else .str (name ++ "_value".toList ++ sfx suffix)
  | .bytes => .bytes (name ++ "_blob".toList ++ sfx suffix)
  | .int => .int (ordSum name + suffix)
  | .float => .float (ordSum name + suffix)

def Scalar.truthy : Scalar → Bool
  | .str s => !s.isEmpty | .bytes s => !s.isEmpty | .int n => n != 0 | .float n => n != 0 | .bool b => b | .none => false

/-- `x or None` -/
def orNone (v : Scalar) : Scalar := if v.truthy then v else .none

/-- `Field.mock_value_original_type` for a primitive field -/
def primMockValue (f : Field) (t : PyType) : Value :=
  if f.repeated then .many [orNone (primitiveMock f.name t 1), orNone (primitiveMock f.name t 2)]
  else .one (orNone (primitiveMock f.name t 0))

/-- `message.oneof_fields()`: real oneofs only, keyed in order of first appearance; the first member
    of each (`oneof_fields[0] for oneof_fields in message.oneof_fields().values()`) -/
def inRealOneof (f : Field) : Bool := f.oneof.isSome && !f.proto3Optional

def selectedOneofs : List (List Char) → List Field → List Field
  | _, [] => []
  | seen, f :: fs =>
    match f.oneof with
    | some o =>
      if f.proto3Optional then selectedOneofs seen fs
      else if seen.contains o then selectedOneofs seen fs
      else f :: selectedOneofs (o :: seen) fs
    | none => selectedOneofs seen fs

/-- `[field for field in message.required_fields if not field.oneof or field.proto3_optional]` -/
def requiredNonOneof (fs : List Field) : List Field :=
  fs.filter fun f => f.required && (f.oneof.isNone || f.proto3Optional)

/-- `request_fields = selected_oneofs + required_fields` -/
def requestFields (m : Msg) : List Field :=
  selectedOneofs [] m.fields ++ requiredNonOneof m.fields

inductive Err where
  | recursion                  -- Python: RecursionError (no response at all)
  | noSuchMessage (n : List Char)
  | emptyEnum
deriving Repr, DecidableEq

/-- one `{"field": dotted path, "value": …}` entry; the path is kept as a list of segments -/
structure Entry where
  path : List (List Char)
  value : Value
deriving Repr, DecidableEq

/-- one iteration of the loop of `generate_request_object`; `recur` = the recursive call -/
def fieldEntries (env : Env) (recur : Msg → List (List Char) → Except Err (List Entry))
    (f : Field) (pre : List (List Char)) : Except Err (List Entry) :=
  match f.kind with
  | .prim t => .ok [⟨pre ++ [f.name], primMockValue f t⟩]
  | .enum vs =>
    match vs.getLast? with
    | none => .error .emptyEnum                 -- `field.enum.values[-1]` on an empty list (protoc rejects empty enums)
    | some v => .ok [⟨pre ++ [f.name], if f.repeated then .many [.str v] else .one (.str v)⟩]
  | .msg tn =>
    match env.get tn with
    | none => .error (.noSuchMessage tn)
    | some sub => recur sub (pre ++ [f.name])

/-- the loop of `generate_request_object` over `request_fields` -/
def fieldsEntries (env : Env) (recur : Msg → List (List Char) → Except Err (List Entry)) :
    List Field → List (List Char) → Except Err (List Entry)
  | [], _ => .ok []
  | f :: fs, pre =>
    match fieldEntries env recur f pre with
    | .error e => .error e
    | .ok here =>
      match fieldsEntries env recur fs pre with
      | .error e => .error e
      | .ok rest => .ok (here ++ rest)

/-- `generate_request_object(api_schema, service, message, field_name_prefix)`; `pre` = the prefix as
    segments; the fuel stands for Python's recursion limit -/
def requestObject (env : Env) : Nat → Msg → List (List Char) → Except Err (List Entry)
  | 0, _, _ => .error .recursion
  | fuel + 1, m, pre => fieldsEntries env (requestObject env fuel) (requestFields m) pre

/-! ### 5. request transformation for default requests (`validate_and_transform_request`, non-resource entries) -/

/-- a `TransformedRequest`: `single` when the first attribute has no sub-field, else `body` -/
inductive TBody where
  | single (v : Value)
  | body (attrs : List (List (List Char) × Value))     -- (sub-field path, value)
deriving Repr, DecidableEq

structure TReq where
  base : List Char
  body : TBody
deriving Repr, DecidableEq

inductive TErr where
  | duplicateTopLevel (n : List Char)       -- InvalidRequestSetup("Duplicated top level field …")
  | emptyPath
deriving Repr, DecidableEq

/-- `base_param_to_attrs`: insertion-ordered dict base → attrs (`none` sub-path = top-level value) -/
abbrev Groups := List (List Char × List (Option (List (List Char)) × Value))

def Groups.add (g : Groups) (base : List Char) (a : Option (List (List Char)) × Value) : Groups :=
  match g with
  | [] => [(base, [a])]
  | (b, as) :: r => if b = base then (b, as ++ [a]) :: r else (b, as) :: Groups.add r base a

def groupEntries : List Entry → Groups → Except TErr Groups
  | [], g => .ok g
  | e :: es, g =>
    match e.path with
    | [] => .error .emptyPath
    | [b] => if g.any (·.1 == b) then .error (.duplicateTopLevel b) else groupEntries es (g.add b (none, e.value))
    | b :: sub => groupEntries es (g.add b (some sub, e.value))

/-- `TransformedRequest.build` for non-resource requests -/
def buildT (b : List Char) (as : List (Option (List (List Char)) × Value)) : TReq :=
  match as with
  | (none, v) :: _ => ⟨b, .single v⟩
  | _ => ⟨b, .body (as.filterMap fun (p, v) => p.map fun p => (p, v))⟩

def transform (es : List Entry) : Except TErr (List TReq) := do
  let g ← groupEntries es []
  pure (g.map fun (b, as) => buildT b as)

/-! ### 6. ids, file names, function and method names
(`Generator._generate_samples_and_manifest`, sample.py.j2, feature_fragments.j2: render_method_name,
`Method.client_method_name`, `_fill_sample_metadata`).  `snake` = `utils.to_snake_case`, `hash` = the 8 hex
digits of the spec's sha256; both are parameters. -/

/-- `spec["id"]`: the region tag, suffixed with `_<hash>` when several specs share it -/
def sampleId (hash : Spec → List Char) (all : List Spec) (sp : Spec) : List Char :=
  if (all.filter fun x => x.regionTag == sp.regionTag).length = 1 then sp.regionTag
  else sp.regionTag ++ us ++ hash sp

/-- `fpath = utils.to_snake_case(spec["id"]) + ".py"` -/
def sampleFile (snake : List Char → List Char) (id : List Char) : List Char := snake id ++ ".py".toList

/-- `def sample_{{ sample.rpc|snake_case|trim }}` (names have no surrounding blanks: `trim` is the identity) -/
def sampleFunction (snake : List Char → List Char) (rpc : List Char) : List Char := "sample_".toList ++ snake rpc

/-- `snippet_metadata.client_method.short_name` — also the name of the method the client class has;
    `cmn name is_internal` = `Method.client_method_name` (a parameter: the translated source function) -/
def metadataMethod (snake : List Char → List Char) (cmn : List Char → Bool → List Char)
    (rpc : List Char) (internal : Bool) : List Char :=
  snake (cmn rpc internal)

/-- `render_method_name`: what the sample calls on the client.  `sample["client_method_name"]` is
    `rpc.client_method_name`; the template uses it only in the non-internal branch. -/
def calledMethod (snake : List Char → List Char) (cmn : List Char → Bool → List Char)
    (rpc : List Char) (internal : Bool) : List Char :=
  if internal then us ++ snake rpc else snake (cmn rpc internal)

/-! ### 7. `parameters` of the metadata entry (`_fill_sample_metadata`) -/

structure Param where
  name : List Char
  type : List Char
deriving Repr, DecidableEq

def tailParams : List Param :=
  [⟨"retry".toList, "google.api_core.retry.Retry".toList⟩, ⟨"timeout".toList, "float".toList⟩,
   ⟨"metadata".toList, "Sequence[Tuple[str, Union[str, bytes]]]".toList⟩]

/-- `inputType` = `method.input.ident.sphinx`; `flattened` = `method.flattened_fields.values()` as (name, sphinx type) -/
def metadataParams (clientStreaming : Bool) (inputType : List Char) (flattened : List Param) : List Param :=
  (if clientStreaming then [⟨"requests".toList, "Iterator[".toList ++ inputType ++ "]".toList⟩]
   else ⟨"request".toList, inputType⟩ :: flattened) ++ tailParams

/-- `Field.name` / one segment of a `Method.flattened_fields` key: a reserved word carries the suffix `_` -/
def suffixed (reserved : List Char → Bool) (seg : List Char) : List Char := if reserved seg then seg ++ ['_'] else seg

def joinDots : List (List Char) → List Char
  | [] => []
  | [a] => a
  | a :: b :: rest => a ++ '.' :: joinDots (b :: rest)

/-- the KEY of `Method.flattened_fields` for one entry of `google.api.method_signature` (`"book.name"` as segments):
    the attribute path on the request -/
def flattenedKey (reserved : List Char → Bool) (path : List (List Char)) : List Char :=
  joinDots (path.map (suffixed reserved))

/-- the `name` of the VALUE of that entry — the leaf field `input.get_field(*path)` — which is what the client method
    calls its keyword parameter and what `_fill_sample_metadata` writes (`field.name`, not the key) -/
def flattenedName (reserved : List Char → Bool) (path : List (List Char)) : List Char :=
  suffixed reserved (path.getLast?.getD [])

/-- `method.flattened_fields.values()` as parameters, from the signature's (path, sphinx type of the leaf) entries -/
def flattenedParams (reserved : List Char → Bool) (sig : List (List (List Char) × List Char)) : List Param :=
  sig.map fun (p, t) => ⟨flattenedName reserved p, t⟩

/-! ### 8. `result_type` of the metadata entry (`_fill_sample_metadata`) -/

/-- `if not method.void: result_type = <client output>.ident.sphinx; if method.server_streaming: result_type =
    f"Iterable[{result_type}]"`.  `outType` = `method.client_output[_async].ident.sphinx`.  The wrapping follows
    `server_streaming` alone (so server-streaming AND bidi), for the sync and the asyncio entry alike. -/
def metadataResultType (void serverStreaming : Bool) (outType : List Char) : Option (List Char) :=
  if void then none
  else some (if serverStreaming then "Iterable[".toList ++ outType ++ "]".toList else outType)

/-- what the emitted client's method yields and what the sample template does with the call's value
    (`stream = …` / `for response in stream:`): a response stream exactly for these two calling forms -/
def CallingForm.yieldsStream : CallingForm → Bool
  | .requestStreamingServer | .requestStreamingBidi => true
  | _ => false

/-- the metadata's result type has the stream shape `Iterable[…]` around `outType` -/
def streamShaped (outType : List Char) (rt : Option (List Char)) : Bool :=
  rt == some ("Iterable[".toList ++ outType ++ "]".toList)

/-! ### 9. the snippet index (`SnippetIndex.__init__` / `add_snippet` / `get_snippet`)
`_index[service][rpc] = {"sync": None, "async": None}` for every RPC of the API; a snippet is filed by the `async`
flag of its metadata's client method — its region tag plays no part. -/

/-- what `add_snippet` reads of a `Snippet`: the metadata's service / RPC short names, the `async` flag, and
    (to tell snippets apart) the region tag -/
structure Snip where
  service : List Char
  rpc : List Char
  isAsync : Bool
  regionTag : List Char
deriving Repr, DecidableEq

structure IxEntry where
  service : List Char
  rpc : List Char
  sync : Option Snip
  async : Option Snip
deriving Repr, DecidableEq

abbrev Index := List IxEntry

inductive IxErr where
  | unknownService | rpcMethodNotFound
deriving Repr, DecidableEq

def Index.init (keys : List (List Char × List Char)) : Index := keys.map fun (s, r) => ⟨s, r, none, none⟩

def Index.find (ix : Index) (svc rpc : List Char) : Option IxEntry :=
  List.find? (fun e => decide (e.service = svc ∧ e.rpc = rpc)) ix

def Index.upd (svc rpc : List Char) (f : IxEntry → IxEntry) : Index → Index
  | [] => []
  | e :: es => if e.service = svc ∧ e.rpc = rpc then f e :: es else e :: Index.upd svc rpc f es

def IxEntry.put (e : IxEntry) (s : Snip) : IxEntry :=
  if s.isAsync then { e with async := some s } else { e with sync := some s }

/-- the two look-ups both functions start with -/
def Index.locate (ix : Index) (svc rpc : List Char) : Except IxErr IxEntry :=
  if ix.any (fun e => decide (e.service = svc)) then
    match ix.find svc rpc with
    | some e => .ok e
    | none => .error .rpcMethodNotFound
  else .error .unknownService

def Index.addSnippet (ix : Index) (s : Snip) : Except IxErr Index :=
  match ix.locate s.service s.rpc with
  | .error e => .error e
  | .ok _ => .ok (Index.upd s.service s.rpc (·.put s) ix)

def Index.getSnippet (ix : Index) (svc rpc : List Char) (sync : Bool) : Except IxErr (Option Snip) :=
  match ix.locate svc rpc with
  | .error e => .error e
  | .ok e => .ok (if sync then e.sync else e.async)

def Index.addAll : Index → List Snip → Except IxErr Index
  | ix, [] => .ok ix
  | ix, s :: ss => match ix.addSnippet s with
    | .error e => .error e
    | .ok ix' => Index.addAll ix' ss

end GapicModel.Model.Samples
