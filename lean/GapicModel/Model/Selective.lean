import GapicModel.Pinned.Tables
/-
C16 — selective GAPIC generation (gapic/schema/api.py: API.build third pass,
Proto.add_to_address_allowlist, Proto.prune_messages_for_selective_generation,
Proto.with_internal_methods, API.enforce_valid_library_settings; gapic/schema/wrappers.py:
Field/MessageType/EnumType/OperationInfo/ExtendedOperationInfo/Method/Service
.add_to_address_allowlist, Service.prune_messages_for_selective_generation,
Method.with_internal_methods, Method.client_method_name, Service.is_internal/client_name).

Nodes are `metadata.Address` values (the harness numbers them with a Python `dict`, i.e. with the
real `Address.__eq__/__hash__`).  The allow-list is a Python `set`; the model keeps it as a
duplicate-free list and every consumer only asks for membership.

The traversal FOLLOWS THE CODE:
* `EnumType.add_to_address_allowlist` and the two places where a service address is added just
  add the address                                              → edge kind `leaf`;
* `MessageType.add_to_address_allowlist` is guarded by `if self.ident not in address_allowlist`
  and then walks fields (message, enum, resource reference through the API-wide resource map),
  nested enums, nested messages in that order                   → edge kind `msg`;
* `Method.add_to_address_allowlist` has NO guard: it adds itself and walks LRO response/metadata,
  the extended-operation service + its polling METHOD (a recursive method traversal) + request +
  operation type, then input and output                         → edge kind `meth`.
Python recursion is unbounded; the model takes a fuel and `Props.C16.allowlist_complete` shows
that `Api.fuel` suffices on well-formed inputs.

Also modelled: the top-level views `Proto.messages`/`Proto.enums` and the set of classes the `types`
templates define from a pruned proto (`Proto.emitted`) — the place where the open finding
`nested-kept-parent-pruned` becomes visible.

NOT modelled (reached through T3 only): everything else the templates do with the pruned schema
(imports between `types` modules, `__init__.py` export lists, clients/transports/`gapic_metadata`,
resource path helpers of `Service.resource_messages`), `to_snake_case` of the client method names
(C03's model), the `_unary` twin of extended-operation methods, mixin methods (C17), sample/snippet
generation for internal methods, `API.subpackages` views, and `Address` equality itself (the harness
numbers addresses with the real `__eq__/__hash__`).
-/
namespace GapicModel.Model.Selective

abbrev Addr := Nat

inductive Edge where
  | leaf (a : Addr)
  | msg (a : Addr)
  | meth (a : Addr)
deriving DecidableEq, Repr

def Edge.target : Edge → Addr
  | .leaf a => a
  | .msg a => a
  | .meth a => a

def Edge.expands : Edge → Bool
  | .leaf _ => false
  | _ => true

def Edge.isMeth : Edge → Bool
  | .meth _ => true
  | _ => false

/-- `set.add` -/
def ins (a : Addr) (acc : List Addr) : List Addr := if a ∈ acc then acc else a :: acc

/-! ### The traversal over an abstract successor function -/

/-- one `x.add_to_address_allowlist(address_allowlist=acc, …)` call, `x` of the class named by the
edge kind and with ident `e.target`.  Out of fuel = the node is added but not expanded. -/
def visit (succ : Addr → List Edge) (fuel : Nat) (e : Edge) (acc : List Addr) : List Addr :=
  match e with
  | .leaf a => ins a acc
  | .msg a =>
    if a ∈ acc then acc else
    match fuel with
    | 0 => a :: acc
    | fuel + 1 => (succ a).foldl (fun acc e' => visit succ fuel e' acc) (a :: acc)
  | .meth a =>
    match fuel with
    | 0 => ins a acc
    | fuel + 1 => (succ a).foldl (fun acc e' => visit succ fuel e' acc) (ins a acc)

/-- consecutive calls on the same set -/
def visitList (succ : Addr → List Edge) (fuel : Nat) (es : List Edge) (acc : List Addr) : List Addr :=
  es.foldl (fun acc e => visit succ fuel e acc) acc

/-! ### The schema objects as far as selective generation looks at them -/

/-- `wrappers.Field`: `field.message.ident`, `field.enum.ident`, `field.resource_reference`
(`type` or else `child_type` of the `google.api.resource_reference` option). -/
structure Field where
  msg : Option Addr
  enum : Option Addr
  ref : Option (List Char)
deriving Repr, DecidableEq

/-- `wrappers.MessageType` -/
structure Message where
  addr : Addr
  fields : List Field
  nestedEnums : List Addr
  nestedMsgs : List Addr
deriving Repr, DecidableEq

/-- `self.extended_lro and self.operation_service` -/
structure ExtInfo where
  opService : List Char          -- short service name (the key of `services_in_proto`)
  request : Addr                 -- extended_lro.request_type.ident
  operation : Addr               -- extended_lro.operation_type.ident
deriving Repr, DecidableEq

/-- `wrappers.Method` -/
structure Method where
  addr : Addr
  name : List Char               -- method_pb.name
  fqn : List Char                -- ident.proto
  input : Addr
  output : Addr
  lro : Option (Addr × Addr)     -- response_type, metadata_type
  ext : Option ExtInfo
  polling : Bool                 -- is_operation_polling_method
  internal : Bool := false       -- is_internal
deriving Repr, DecidableEq

/-- `wrappers.Service` -/
structure Service where
  addr : Addr
  name : List Char
  methods : List Method
deriving Repr, DecidableEq

/-- `api.Proto`: `messages`/`enums` are the idents of `all_messages`/`all_enums` in dict order. -/
structure Proto where
  name : List Char
  services : List Service
  messages : List Addr
  enums : List Addr
deriving Repr, DecidableEq

/-- `protos` = `api.protos` (files to generate), `deps` = the other entries of `api.all_protos`;
`msgs` = every MessageType object the traversal can meet (target and dependency packages),
`resources` = the `ChainMap` of `Proto.resource_messages` flattened in look-up order. -/
structure Api where
  protos : List Proto
  deps : List Proto
  msgs : List Message
  resources : List (List Char × Addr)
deriving Repr

def Api.findMsg (api : Api) (a : Addr) : Option Message := api.msgs.find? (fun m => m.addr == a)

def Proto.methods (p : Proto) : List Method := p.services.flatMap (·.methods)

/-- the method wrapper with this ident, together with the proto that holds it -/
def findMethodIn : List Proto → Addr → Option (Proto × Method)
  | [], _ => none
  | p :: ps, a =>
    match p.methods.find? (fun m => m.addr == a) with
    | some m => some (p, m)
    | none => findMethodIn ps a

def Api.findMethod (api : Api) (a : Addr) : Option (Proto × Method) := findMethodIn api.protos a

/-- `Field.add_to_address_allowlist` -/
def fieldEdges (api : Api) (f : Field) : List Edge :=
  (match f.msg with | some a => [Edge.msg a] | none => []) ++
  (match f.enum with | some a => [Edge.leaf a] | none => []) ++
  (match f.ref with
   | some r => (match api.resources.lookup r with | some a => [Edge.msg a] | none => [])
   | none => [])

/-- body of `MessageType.add_to_address_allowlist` after the guard -/
def msgEdges (api : Api) (m : Message) : List Edge :=
  m.fields.flatMap (fieldEdges api) ++ m.nestedEnums.map Edge.leaf ++ m.nestedMsgs.map Edge.msg

/-- `services_in_proto[self.operation_service]` and `.operation_polling_method`.  (A missing service
is a `KeyError`, a missing polling method an `AttributeError` in Python; `API.build` refuses such
files earlier — `_maybe_get_extended_lro` — so both lookups succeed on every schema that exists;
the model contributes no edge for them and `Api.wf` does not depend on it.) -/
def extEdges (p : Proto) (e : ExtInfo) : List Edge :=
  match p.services.find? (fun s => s.name == e.opService) with
  | some s =>
    [Edge.leaf s.addr] ++
    (match s.methods.find? (·.polling) with | some pm => [Edge.meth pm.addr] | none => []) ++
    [Edge.msg e.request, Edge.msg e.operation]
  | none => []

/-- body of `Method.add_to_address_allowlist` after `address_allowlist.add(self.ident)` -/
def methodEdges (p : Proto) (m : Method) : List Edge :=
  (match m.lro with | some (r, md) => [Edge.msg r, Edge.msg md] | none => []) ++
  (match m.ext with | some e => extEdges p e | none => []) ++
  [Edge.msg m.input, Edge.msg m.output]

def Api.succ (api : Api) (a : Addr) : List Edge :=
  match api.findMsg a with
  | some m => msgEdges api m
  | none =>
    match api.findMethod a with
    | some (p, m) => methodEdges p m
    | none => []

/-- `Service.add_to_address_allowlist` -/
def serviceRoots (listed : List (List Char)) (s : Service) : List Edge :=
  s.methods.flatMap fun m => if m.fqn ∈ listed then [Edge.leaf s.addr, Edge.meth m.addr] else []

/-- `Proto.add_to_address_allowlist` for every proto of `api.protos`, in order -/
def Api.roots (api : Api) (listed : List (List Char)) : List Edge :=
  api.protos.flatMap fun p => p.services.flatMap (serviceRoots listed)

/-- number of traversal levels that can ever be needed: one per message plus the method levels
(listed method → polling method → its messages) -/
def Api.fuel (api : Api) : Nat := api.msgs.length + 3

/-- the `address_allowlist` after the loop over `api.protos` in `API.build` -/
def allowlist (api : Api) (listed : List (List Char)) : List Addr :=
  visitList api.succ api.fuel (api.roots listed) []

/-! ### Pruning -/

/-- `Service.prune_messages_for_selective_generation` -/
def pruneService (al : List Addr) (s : Service) : Service :=
  { s with methods := s.methods.filter (fun m => m.addr ∈ al) }

/-- `Proto.prune_messages_for_selective_generation`; `none` = the proto is dropped -/
def pruneProto (al : List Addr) (p : Proto) : Option Proto :=
  let services := (p.services.filter (fun s => s.addr ∈ al)).map (pruneService al)
  let messages := p.messages.filter (· ∈ al)
  let enums := p.enums.filter (· ∈ al)
  if services.isEmpty && messages.isEmpty && enums.isEmpty then none
  else some { p with services := services, messages := messages, enums := enums }

/-! ### What the emitted `types` modules define (`Proto.messages`, `Proto.enums`, `_message.py.j2`) -/

/-- `address.parent` is non-empty: the wrapper is declared inside a message -/
def Api.isNested (api : Api) (a : Addr) : Bool :=
  api.msgs.any fun m => m.nestedMsgs.contains a || m.nestedEnums.contains a

/-- `Proto.messages`: `all_messages` entries with `not v.meta.address.parent` -/
def Proto.topMessages (api : Api) (p : Proto) : List Addr := p.messages.filter fun a => !api.isNested a

/-- `Proto.enums`: `all_enums` entries with `not v.meta.address.parent` -/
def Proto.topEnums (api : Api) (p : Proto) : List Addr := p.enums.filter fun a => !api.isNested a

/-- a message class and every class declared inside it: `_message.py.j2` recurses over
`message.nested_enums` and `message.nested_messages` of the WRAPPER (pruning filters `all_messages`
only, never these dicts) -/
def declared (api : Api) : Nat → Addr → List Addr
  | 0, a => [a]
  | f + 1, a =>
    match api.findMsg a with
    | some m => a :: (m.nestedEnums ++ m.nestedMsgs.flatMap (declared api f))
    | none => [a]

/-- the proto-plus classes `types/<file>.py` defines for a (pruned) proto: the templates iterate
`proto.messages` and `proto.enums` — top-level declarations only -/
def Proto.emitted (api : Api) (p : Proto) : List Addr :=
  (p.topMessages api).flatMap (declared api api.msgs.length) ++ p.topEnums api

/-! ### Internal marking -/

/-- `Method.with_internal_methods` -/
def Method.withInternal (pub : List (List Char)) (m : Method) : Method :=
  if m.fqn ∈ pub then m else { m with internal := true }

def Service.withInternal (pub : List (List Char)) (s : Service) : Service :=
  { s with methods := s.methods.map (Method.withInternal pub) }

def Proto.withInternal (pub : List (List Char)) (p : Proto) : Proto :=
  { p with services := p.services.map (Service.withInternal pub) }

def lowerAscii (cs : List Char) : List Char := cs.map Char.toLower

def isKeyword (cs : List Char) : Bool := Pinned.pyKeywords.contains (String.ofList (lowerAscii cs))

/-- `utils.make_private` -/
def makePrivate (n : List Char) : List Char :=
  match n with
  | '_' :: _ => n
  | _ => '_' :: n

/-- `Method.client_method_name` (before `to_snake_case`).  `name.lower()` is modelled on ASCII
(protoc only accepts ASCII identifiers). -/
def Method.clientMethodName (m : Method) : List Char :=
  let n := if isKeyword m.name then m.name ++ ['_'] else m.name
  if m.internal then makePrivate n else n

/-- The python methods the sync client template (`client.py.j2`) emits for one RPC, as (stem, suffix): the emitted name
is `snake_case(stem) ++ suffix`.  Every RPC has the method named by `client_method_name`; an extended-operation RPC
(`method.operation_service`) has the `_unary` twin as well, ALSO named from `client_method_name`. -/
def Method.surfaceNames (m : Method) : List (List Char × List Char) :=
  (m.clientMethodName, []) :: (if m.ext.isSome then [(m.clientMethodName, "_unary".toList)] else [])

/-- `Service.is_internal` -/
def Service.isInternal (s : Service) : Bool := s.methods.any (·.internal)

/-- `Service.client_name` / `async_client_name` -/
def Service.clientName (s : Service) : List Char :=
  (if s.isInternal then "Base".toList else []) ++ s.name ++ "Client".toList

def Service.asyncClientName (s : Service) : List Char :=
  (if s.isInternal then "Base".toList else []) ++ s.name ++ "AsyncClient".toList

/-! ### Settings validation and the third pass of `API.build` -/

/-- one `ClientLibrarySettings` entry as far as the third pass reads it -/
structure LibSettings where
  version : List Char
  methods : List (List Char)
  internal : Bool
deriving Repr, DecidableEq

inductive MethodErr where
  | missing           -- "Method does not exist."
  | mismatch          -- "Mismatched version for method."
deriving Repr, DecidableEq

inductive SettingsErr where
  | duplicate                                     -- ["Duplicate version"]
  | selective (errs : List (List Char × MethodErr))  -- [{"selective_gapic_generation": {...}}]
deriving Repr, DecidableEq

/-- Python `d[k] = v` on an insertion-ordered dict -/
def dictSet {β} (d : List (List Char × β)) (k : List Char) (v : β) : List (List Char × β) :=
  match d with
  | [] => [(k, v)]
  | (k', v') :: r => if k' == k then (k, v) :: r else (k', v') :: dictSet r k v

/-- the per-method part of `enforce_valid_library_settings`; `allMethods` = keys of `API.all_methods`.
Since the `fix:` commit a25ff42 the version must be followed by a dot
(`method_name.startswith(library_settings.version + ".")`). -/
def methodErrors (allMethods : List (List Char)) (version : List Char) (methods : List (List Char)) :
    List (List Char × MethodErr) :=
  methods.foldl (fun d m =>
    if m ∉ allMethods then dictSet d m .missing
    else if !((version ++ ['.']).isPrefixOf m) then dictSet d m .mismatch
    else d) []

/-- the loop of `enforce_valid_library_settings`: (versions_seen, all_errors) -/
def validateLoop (allMethods : List (List Char)) :
    List LibSettings → List (List Char) → List (List Char × SettingsErr) → List (List Char × SettingsErr)
  | [], _, errs => errs
  | s :: rest, seen, errs =>
    if s.version ∈ seen then validateLoop allMethods rest seen (dictSet errs s.version .duplicate)
    else
      let me := methodErrors allMethods s.version s.methods
      validateLoop allMethods rest (s.version :: seen)
        (if me.isEmpty then errs else dictSet errs s.version (.selective me))

/-- `all_errors` of `API.enforce_valid_library_settings`; non-empty = `ClientLibrarySettingsError` -/
def validateSettings (allMethods : List (List Char)) (settings : List LibSettings) : List (List Char × SettingsErr) :=
  validateLoop allMethods settings [] []

def Api.allMethods (api : Api) : List (List Char) := api.protos.flatMap fun p => p.methods.map (·.fqn)

/-- `all_library_settings[package]`: a dict comprehension over the settings (a later entry with the
same version replaces an earlier one) plus a default entry for `naming.proto_package`. -/
def lookupSettings (settings : List LibSettings) (protoPackage package : List Char) : Option LibSettings :=
  match settings.reverse.find? (fun s => s.version == package) with
  | some s => some s
  | none => if package == protoPackage then some ⟨package, [], false⟩ else none

inductive Outcome where
  | rejected (errs : List (List Char × SettingsErr))   -- ClientLibrarySettingsError
  | unchanged                                           -- no selective generation
  | built (allProtos : List Proto)                      -- new `all_protos`: dependencies then targets
deriving Repr, DecidableEq

/-- the third pass of `API.build` -/
def thirdPass (api : Api) (settings : List LibSettings) (protoPackage package : List Char) : Outcome :=
  let errs := validateSettings api.allMethods settings
  if !errs.isEmpty then .rejected errs else
  match lookupSettings settings protoPackage package with
  | none => .unchanged
  | some s =>
    if s.methods.isEmpty then .unchanged
    else if s.internal then .built (api.deps ++ api.protos.map (Proto.withInternal s.methods))
    else
      let al := allowlist api s.methods
      .built (api.deps ++ api.protos.filterMap (pruneProto al))

/-! ### Well-formedness (decidable; what the schema builder guarantees; checked by the harness on
every extracted graph) -/

def Api.msgAddrs (api : Api) : List Addr := api.msgs.map (·.addr)
def Api.methodAddrs (api : Api) : List Addr := api.protos.flatMap fun p => p.methods.map (·.addr)
def Api.nodes (api : Api) : List Addr := api.msgAddrs ++ api.methodAddrs

/-- traversal depth a method needs below itself: 0 for everything but methods, 1 for a method
without a method edge, 2 for a method that starts an extended operation -/
def Api.rank (api : Api) (a : Addr) : Nat :=
  match api.findMsg a with
  | some _ => 0
  | none =>
    match api.findMethod a with
    | some (p, m) => if (methodEdges p m).any Edge.isMeth then 2 else 1
    | none => 0

def Api.admissible (api : Api) (e : Edge) : Bool :=
  match e with
  | .leaf a => (api.succ a).isEmpty
  | .msg a => api.msgAddrs.contains a
  | .meth a => (api.succ a).all fun e' => api.rank e'.target < api.rank a

/-- * an address used as enum/service address is not also a message or method address,
    * every message the traversal can meet is in `msgs`,
    * a polling method does not itself start an extended operation (depth ≤ 2). -/
def Api.wf (api : Api) (listed : List (List Char)) : Bool :=
  (api.nodes.all fun b => (api.succ b).all fun e => api.admissible e && api.rank e.target ≤ api.rank b) &&
  ((api.roots listed).all fun e => api.admissible e && api.rank e.target ≤ 2)

/-- addresses identify wrappers: method idents are pairwise different, differ from message idents, and
only a method edge points at a method ident -/
def Api.wfAddrs (api : Api) (listed : List (List Char)) : Bool :=
  decide api.methodAddrs.Nodup &&
  (api.methodAddrs.all fun a => !api.msgAddrs.contains a) &&
  (api.nodes.all fun b => (api.succ b).all fun e => e.isMeth || !api.methodAddrs.contains e.target) &&
  ((api.roots listed).all fun e => e.isMeth || !api.methodAddrs.contains e.target)

def Api.services (api : Api) : List Service := api.protos.flatMap (·.services)
def Api.serviceAddrs (api : Api) : List Addr := api.services.map (·.addr)

/-- the edge from method wrapper `b` to address `t` is the `address_allowlist.add(operation_service.meta.address)`
of an extended operation whose operation service and polling method both resolve -/
def extLeafOK (api : Api) (b t : Addr) : Bool :=
  match api.findMsg b with
  | some _ => false
  | none =>
    match api.findMethod b with
    | some (p, m) =>
      match m.ext with
      | some x =>
        match p.services.find? (fun s => s.name == x.opService) with
        | some s => s.addr == t && (s.methods.find? (·.polling)).isSome
        | none => false
      | none => false
    | none => false

/-- service addresses identify services, differ from method addresses, are only pointed at by the
extended-operation edge, and a method address belongs to one service only -/
def Api.wfServices (api : Api) : Bool :=
  (api.services.all fun s => api.services.all fun s' => s.addr != s'.addr || decide (s = s')) &&
  (api.serviceAddrs.all fun a => !api.methodAddrs.contains a) &&
  (api.nodes.all fun b => (api.succ b).all fun e => !api.serviceAddrs.contains e.target || extLeafOK api b e.target) &&
  (api.services.all fun s => s.methods.all fun m => api.services.all fun s' => s'.methods.all fun m' =>
      m'.addr != m.addr || s'.addr == s.addr)

end GapicModel.Model.Selective
