import GapicModel.Model.Emit
/-
C01 — which transports a generated client offers
(client.py.j2: `_transport_registry`, `get_transport_class`; generator.py: the service-level gates).
-/
namespace GapicModel.Model.Transports
open GapicModel.Model.Emit

def grpc : Str := ['g', 'r', 'p', 'c']
def rest : Str := ['r', 'e', 's', 't']
def grpcAsyncio : Str := ['g', 'r', 'p', 'c', '_', 'a', 's', 'y', 'n', 'c', 'i', 'o']
def restAsyncio : Str := ['r', 'e', 's', 't', '_', 'a', 's', 'y', 'n', 'c', 'i', 'o']

/-- keys of `Client._transport_registry`, in insertion order -/
def registry (o : Opts) : List Str :=
  (if o.transport.contains grpc then [grpc, grpcAsyncio] else []) ++
  (if o.transport.contains rest then [rest] ++ (if o.restAsync then [restAsyncio] else []) else [])

/-- `get_transport_class(None)`: the first registered transport -/
def defaultTransport (o : Opts) : Option Str := (registry o).head?

/-- an asyncio client module is emitted (the `async_client` gate of `_render_template`) -/
def hasAsyncClient (o : Opts) : Bool := o.transport.contains grpc || o.restAsync

def tpl (name : Str) : Str :=
  ['%', 'n', 'a', 'm', 'e', 's', 'p', 'a', 'c', 'e', '/', '%', 'n', 'a', 'm', 'e', '_', '%', 'v', 'e', 'r', 's', 'i', 'o', 'n', '/', '%', 's', 'u', 'b', '/', 's', 'e', 'r', 'v', 'i', 'c', 'e', 's', '/', '%', 's', 'e', 'r', 'v', 'i', 'c', 'e', '/', 't', 'r', 'a', 'n', 's', 'p', 'o', 'r', 't', 's', '/'] ++ name ++ ['.', 'p', 'y', '.', 'j', '2']

end GapicModel.Model.Transports
