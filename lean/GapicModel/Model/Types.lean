import GapicModel.Pinned.Tables
/-
C02 — emitted message / enum classes (types/_message.py.j2, types/_enum.py.j2, types/%proto.py.j2;
gapic/schema/wrappers.py: Field.name, Field.proto_type, Field.map; gapic/schema/metadata.py:
Address.__str__, Address.module_alias, Address.rel; gapic/schema/api.py: Proto.disambiguate).

The model FOLLOWS THE CODE.  Three layers:
  1. what the templates print for one field (`emitDecl`) and one enum (`emitEnum`);
  2. the text of a type reference (`rel`, `strSegs`, `moduleAlias`);
  3. the run-time reading of that text — EXTERNAL, modelled and validated by T3, never verified:
     * Python name lookup while a (nested) class body executes (`pyEval`): class-local names,
       then module globals, never the enclosing class bodies;
     * proto-plus: `proto.Field/RepeatedField/MapField` → FieldDescriptorProto (`reconstruct`),
       quoted names resolved late as `<package>.<text>` (`plusResolve`), enum values sorted by
       number (`reconstructEnum`), the module manifest.
Schema loading (gapic/schema/api.py `_ProtoBuilder`): `oneofName` (`_get_fields`' oneof lookup),
`resolveField` (lookup at load time, then the orphan-field pass); `isProtoPlus`
(`Address.is_proto_plus_type`, incl. the `proto-plus-deps` option) and `pythonImportPackage`
(`Address.python_import`, `convert_to_versioned_package`, `subpackage`).

NOT MODELLED (reached through T3 and the oracle only):
  * `Proto.names` / `recursive_field_types` (the collision set): restated in harness/props/c02.py
    (`file_collisions`) and compared with the real set on every case; the model takes it as input;
  * `Proto.python_modules` (which import lines are printed, their order), `types/__init__.py.j2`
    (the re-export list), docstrings, the BODIES of the `raw_page` / `done` properties of _message.py.j2
    (the names they bind in the class body are modelled: `classBody`);
  * `_pb_options` of enums (`allow_alias`): compared on the run-time descriptor by the oracle;
  * message-level order of `oneof_decl` / nested types and the placement of classes (oracle: nesting);
  * `api.naming` (module namespace / versioned module name: C11's model);
  * Jinja whitespace and everything about the printed text that Python does not observe.
-/
namespace GapicModel.Model.Types

abbrev Name := List Char

/-! ### Names -/

/-- `gapic.utils.RESERVED_NAMES` (bridged by T1). -/
def reserved : List Name := Pinned.reservedNames.map String.toList
/-- `keyword.kwlist` (bridged by T1). -/
def keywords : List Name := Pinned.pyKeywords.map String.toList

/-- `Field.name`: `name + "_" if name in RESERVED_NAMES and meta.address.is_proto_plus_type else name`. -/
def fieldAttr (protoPlus : Bool) (n : Name) : Name :=
  if n ∈ reserved ∧ protoPlus = true then n ++ ['_'] else n

/-- the comparison rule of the property: strip exactly one trailing underscore from a reserved stem. -/
def unsuffix (a : Name) : Name :=
  if a.getLast? = some '_' ∧ a.dropLast ∈ reserved then a.dropLast else a

def jsonGo (up : Bool) : Name → Name
  | [] => []
  | c :: cs => if c = '_' then jsonGo true cs else (if up then c.toUpper else c) :: jsonGo false cs

/-- protobuf's `ToJsonName` (descriptor.cc): drop `_`, upper-case the next character. EXTERNAL
    (validated by T2 against `DescriptorPool`'s computed `json_name`). -/
def toJsonName (n : Name) : Name := jsonGo false n

/-- `Proto.disambiguate`: prepend `_` while the string is one of `names` -/
def disambiguate (names : List Name) : Nat → Name → Name
  | 0, s => s
  | fuel+1, s => if s ∈ names then disambiguate names fuel ('_' :: s) else s

/-- `{% with p = proto.disambiguate('proto') %}`: the name the types module binds the proto-plus
    package to (`import proto as <p>`); |names|+1 iterations always suffice (`proto_alias_fresh`). -/
def protoAlias (names : List Name) : Name := disambiguate names (names.length + 1) "proto".toList

/-! ### Proto type constants -/

/-- `FieldDescriptorProto.Type.Name(t)[len("TYPE_"):]` -/
def descriptorTypeNames : List (Nat × Name) :=
  [(1, "DOUBLE".toList), (2, "FLOAT".toList), (3, "INT64".toList), (4, "UINT64".toList), (5, "INT32".toList),
   (6, "FIXED64".toList), (7, "FIXED32".toList), (8, "BOOL".toList), (9, "STRING".toList), (10, "GROUP".toList),
   (11, "MESSAGE".toList), (12, "BYTES".toList), (13, "UINT32".toList), (14, "ENUM".toList),
   (15, "SFIXED32".toList), (16, "SFIXED64".toList), (17, "SINT32".toList), (18, "SINT64".toList)]

/-- `Field.proto_type`; `none` = `Type.Name` raises `ValueError`. -/
def protoTypeName (t : Nat) : Option Name := (descriptorTypeNames.find? (·.1 == t)).map (·.2)

/-- `proto.primitives.ProtoType` (the attribute `proto.<NAME>` evaluates to this number). EXTERNAL. -/
def plusProtoType : List (Name × Nat) :=
  [("DOUBLE".toList, 1), ("FLOAT".toList, 2), ("INT64".toList, 3), ("UINT64".toList, 4), ("INT32".toList, 5),
   ("FIXED64".toList, 6), ("FIXED32".toList, 7), ("BOOL".toList, 8), ("STRING".toList, 9),
   ("MESSAGE".toList, 11), ("BYTES".toList, 12), ("UINT32".toList, 13), ("ENUM".toList, 14),
   ("SFIXED32".toList, 15), ("SFIXED64".toList, 16), ("SINT32".toList, 17), ("SINT64".toList, 18)]

/-- `proto.<NAME>`; `none` = `AttributeError`. -/
def plusTypeOf (s : Name) : Option Nat := (plusProtoType.find? (·.1 == s)).map (·.2)

/-- the field types protoc emits for proto3 files (no groups). -/
def legalTypes : List Nat := [1, 2, 3, 4, 5, 6, 7, 8, 9, 11, 12, 13, 14, 15, 16, 17, 18]

def lower (s : Name) : Name := s.map Char.toLower

/-! ### Addresses and reference text -/

/-- `metadata.Address` as far as `__str__`, `module_alias` and `rel` read it. -/
structure Addr where
  package : List Name
  module : Name
  parent : List Name
  name : Name
  protoPlus : Bool        -- `is_proto_plus_type`
  collides : Bool         -- `module in collisions` (context data set by `with_context`)
deriving DecidableEq, Repr

/-- `Address.proto` as a list of segments -/
def Addr.full (a : Addr) : List Name := a.package ++ a.parent ++ [a.name]

def splitUnderscoreAux : Name → Name → List Name
  | acc, [] => [acc.reverse]
  | acc, c :: cs => if c = '_' then acc.reverse :: splitUnderscoreAux [] cs else splitUnderscoreAux (c :: acc) cs

/-- `str.split("_")` -/
def splitUnderscore (s : Name) : List Name := splitUnderscoreAux [] s

/-- `"".join(partial_name[0] for i in package for partial_name in i.split("_") if i != version)`;
    `none` = `IndexError` (an empty partial name). -/
def initials (version : Name) (package : List Name) : Option Name :=
  (package.filter (· ≠ version)).flatMap splitUnderscore |>.mapM List.head?

/-- `Address.module_alias`; `some []` = no alias. -/
def moduleAlias (version : Name) (a : Addr) : Option Name :=
  if a.collides = true ∨ a.module ∈ reserved then
    (initials version a.package).map fun ini => ini ++ '_' :: a.module
  else some []

/-- a type reference as the template prints it -/
inductive Ref where
  | quoted (segs : List Name)      -- `'A.B'` (a Python string literal; proto-plus resolves it late)
  | bare (segs : List Name)        -- `A.B` (a Python expression evaluated when the class body runs)
deriving DecidableEq, Repr

/-- `Address.__str__` as dotted segments -/
def strSegs (version : Name) (a : Addr) : Option (List Name) :=
  if a.module = [] then some (a.parent ++ [a.name])
  else (moduleAlias version a).map fun al =>
    let m0 := if al ≠ [] then al else a.module
    let m := if a.protoPlus = false then a.module ++ "_pb2".toList else m0
    m :: (a.parent ++ [a.name])

/-- `Address.rel(address)`: the three same-module rules, else `str(self)`.  Since the `fix:` commit
    92701a6 the second rule (bare name relative to the referencing message) applies only when the
    referencing message is top-level (`not address.parent`); before it, a nested `X.A` referring to
    `A.B` was given the bare `B` (§9-F9; see findings/C02.json, "fixed"). -/
def rel (version : Name) (self ctx : Addr) : Option Ref :=
  if self.package = ctx.package ∧ self.module = ctx.module then
    if self.parent ≠ [] ∧ ctx.parent ≠ [] ∧ self.parent.head? = ctx.parent.head? then
      some (.quoted (self.parent ++ [self.name]))
    else if self.parent ≠ [] ∧ ctx.parent = [] ∧ self.parent.head? = some ctx.name then
      some (.bare (self.parent.tail ++ [self.name]))
    else some (.quoted (self.parent ++ [self.name]))
  else (strSegs version self).map .bare

def joinDots : List Name → Name
  | [] => []
  | [a] => a
  | a :: b :: r => a ++ '.' :: joinDots (b :: r)

/-- the printed text -/
def Ref.text : Ref → Name
  | .quoted s => '\'' :: joinDots s ++ ['\'']
  | .bare s => joinDots s

/-- the name an `import` statement of the types module binds for a foreign type's module
    (`Address.python_import`: alias, module, or `<module>_pb2`) -/
def importName (version : Name) (a : Addr) : Option Name := (strSegs version a).bind List.head?

/-! ### What the message template prints per field -/

structure Target where
  isEnum : Bool
  addr : Addr
deriving DecidableEq, Repr

/-- `field.message.fields['key' | 'value']` of a map-entry message -/
structure EntryView where
  keyType : Nat
  valueType : Nat
  valueTarget : Option Target
deriving DecidableEq, Repr

/-- what the template reads off one `wrappers.Field` -/
structure FieldView where
  pbName : Name
  number : Nat
  type : Nat
  repeated : Bool
  proto3Optional : Bool
  oneof : Option Name           -- `Field.oneof` (`nth(oneofs.keys(), oneof_index)` when the index is present)
  target : Option Target        -- `field.message` / `field.enum`
  entry : Option EntryView      -- `field.message.map`: the type is a map-entry message
  protoPlus : Bool              -- `field.meta.address.is_proto_plus_type`
deriving DecidableEq, Repr

/-- `Field.map` -/
def FieldView.isMap (f : FieldView) : Bool :=
  f.repeated && (match f.target with | some t => !t.isEnum | none => false) && f.entry.isSome

structure Kw where
  key : Name                    -- `proto_type.lower()`: the keyword argument's name
  ref : Ref
deriving DecidableEq, Repr

inductive Decl where
  | field (repeated : Bool) (attr : Name) (ptype : Name) (number : Nat) (optional : Bool)
      (oneof : Option Name) (kw : Option Kw)
  | map (attr : Name) (ktype vtype : Name) (number : Nat) (kw : Option Kw)
deriving DecidableEq, Repr

def Decl.number : Decl → Nat
  | .field _ _ _ n _ _ _ => n
  | .map _ _ _ n _ => n

/-- `{% if x.enum or x.message %} {{ x.proto_type.lower() }}={{ x.type.ident.rel(message.ident) }}` -/
def kwOf (version : Name) (ctx : Addr) (ptype : Name) : Option Target → Option (Option Kw)
  | none => some none
  | some t => (rel version t.addr ctx).map fun r => some ⟨lower ptype, r⟩

/-- Jinja truthiness of `field.oneof` -/
def truthy : Option Name → Option Name
  | some (c :: cs) => some (c :: cs)
  | _ => none

/-- one iteration of `{% for field in message.fields.values() %}`; `none` = an expression raised -/
def emitDecl (version : Name) (ctx : Addr) (f : FieldView) : Option Decl :=
  let attr := fieldAttr f.protoPlus f.pbName
  if f.isMap then
    match f.entry with
    | none => none
    | some e => do
      let kt ← protoTypeName e.keyType
      let vt ← protoTypeName e.valueType
      let kw ← kwOf version ctx vt e.valueTarget
      pure (.map attr kt vt f.number kw)
  else do
    let pt ← protoTypeName f.type
    let kw ← kwOf version ctx pt f.target
    let oneof := if f.proto3Optional then none else truthy f.oneof
    pure (.field f.repeated attr pt f.number f.proto3Optional oneof kw)

/-! ### proto-plus's reading of a declaration (EXTERNAL; T3) -/

/-- the FieldDescriptorProto proto-plus builds -/
structure RField where
  name : Name
  number : Nat
  repeated : Bool
  type : Nat
  typeName : Option (List Name)
  oneof : Option Name
  proto3Optional : Bool
deriving DecidableEq, Repr

/-- the synthesized map-entry message -/
structure REntry where
  name : Name
  keyType : Nat
  valueType : Nat
  valueTypeName : Option (List Name)
deriving DecidableEq, Repr

def isWord (c : Char) : Bool := c.isAlphanum || c = '_'

/-- `re.sub(r"_\w", lambda m: m.group()[1:].upper(), key)` -/
def subUnderscoreWord : Name → Name
  | [] => []
  | [c] => [c]
  | c :: d :: r =>
    if c = '_' ∧ isWord d then d.toUpper :: subUnderscoreWord r else c :: subUnderscoreWord (d :: r)

def replaceFirst (a b : Char) : Name → Name
  | [] => []
  | c :: r => if c = a then b :: r else c :: replaceFirst a b r

/-- the entry message name proto-plus derives from the ATTRIBUTE name -/
def entryName (attr : Name) : Name :=
  match attr with
  | [] => "Entry".toList
  | k :: _ => replaceFirst k k.toUpper (subUnderscoreWord attr) ++ "Entry".toList

/-- keyword arguments proto-plus accepts for the referenced type -/
def readKw (res : Ref → Option (List Name)) : Option Kw → Option (Option (List Name))
  | none => some none
  | some kw =>
    if kw.key = "message".toList ∨ kw.key = "enum".toList then (res kw.ref).map some
    else none                                  -- `TypeError: unexpected keyword argument`

/-- `res`: how a reference text resolves when the module is imported (parameter; see `resolveRef`).
    `parentFull`: full proto name of the enclosing message. -/
def reconstruct (res : Ref → Option (List Name)) (parentFull : List Name) : Decl → Option (RField × Option REntry)
  | .field rep attr pt num opt oneof kw => do
    let t ← plusTypeOf pt
    let tn ← readKw res kw
    let oo := if opt then some ('_' :: attr) else oneof
    pure (⟨attr, num, rep, t, tn, oo, opt⟩, none)
  | .map attr kt vt num kw => do
    let k ← plusTypeOf kt
    let v ← plusTypeOf vt
    let tn ← readKw res kw
    let en := entryName attr
    pure (⟨attr, num, true, 11, some (parentFull ++ [en]), none, false⟩, some ⟨en, k, v, tn⟩)

/-- what the run-time descriptor should be for a field view (the input descriptor up to the
    attribute renaming and proto-plus's own naming of synthetic oneofs / entry messages) -/
def expected (parentFull : List Name) (f : FieldView) : RField × Option REntry :=
  let attr := fieldAttr f.protoPlus f.pbName
  if f.isMap then
    match f.entry with
    | some e =>
      (⟨attr, f.number, true, 11, some (parentFull ++ [entryName attr]), none, false⟩,
       some ⟨entryName attr, e.keyType, e.valueType, e.valueTarget.map (·.addr.full)⟩)
    | none => (⟨attr, f.number, true, 11, none, none, false⟩, none)
  else
    (⟨attr, f.number, f.repeated, f.type, f.target.map (·.addr.full),
      if f.proto3Optional then some ('_' :: attr) else truthy f.oneof, f.proto3Optional⟩, none)

/-! ### Enums -/

structure EnumSpec where
  name : Name
  values : List (Name × Int)
deriving DecidableEq, Repr

/-- `_enum.py.j2`: one `NAME = number` line per value, in declaration order -/
def emitEnum (e : EnumSpec) : Name × List (Name × Int) := (e.name, e.values)

def insertByNumber (x : Name × Int) : List (Name × Int) → List (Name × Int)
  | [] => [x]
  | y :: ys => if x.2 ≤ y.2 then x :: y :: ys else y :: insertByNumber x ys

/-- Python's stable `sorted(..., key=lambda v: v.number)` -/
def sortByNumber : List (Name × Int) → List (Name × Int)
  | [] => []
  | x :: xs => insertByNumber x (sortByNumber xs)

/-- proto-plus `EnumMeta`: values sorted by number; the descriptor pool rejects an open (proto3)
    enum whose first value is not zero. `none` = `TypeError` when the module is imported. -/
def reconstructEnum (d : Name × List (Name × Int)) : Option EnumSpec :=
  match sortByNumber d.2 with
  | [] => none
  | (n, v) :: r => if v = 0 then some ⟨d.1, (n, v) :: r⟩ else none

/-! ### Schema loading (gapic/schema/api.py) -/

/-- `_get_fields`: `nth(oneofs.keys(), field_pb.oneof_index) if oneofs and field_pb.HasField("oneof_index")
    else None` — the name of the oneof a field belongs to, however many members that oneof has
    (proto3-optional fields get their synthetic oneof's name the same way). -/
def oneofName (decls : List Name) (idx : Option Nat) : Option Name :=
  match decls, idx with
  | [], _ => none                    -- an empty dict is falsy
  | _, none => none
  | d :: ds, some i => (d :: ds)[i]?

/-- a type known to the loader: full proto name, is it an enum -/
abbrev Known := List (List Name × Bool)

def lookupKnown (k : Known) (tn : List Name) : Option (List Name × Bool) := k.find? (·.1 == tn)

/-- `Field.type` after loading.  At `_get_fields` time the type name is looked up among the types
    loaded SO FAR (`loaded`: prior protos, earlier and nested messages of this file); a field left without
    a type is an orphan and is looked up once more when the whole file (`fileAll`) is loaded. -/
def resolveField (loaded fileAll : Known) (tn : List Name) : Option (List Name × Bool) :=
  match lookupKnown loaded tn with
  | some r => some r
  | none => lookupKnown fileAll tn

/-- `Address.is_proto_plus_type`: `proto_package.startswith(api_naming.proto_package) or proto_package in
    proto_plus_deps` — a STRING prefix test on the dotted names. -/
def isProtoPlus (apiPackage : Name) (deps : List Name) (pkg : List Name) : Bool :=
  apiPackage.isPrefixOf (joinDots pkg) || decide (joinDots pkg ∈ deps)

/-- `re.match(r"^v\d[^/]*$", s)` -/
def isVersion (s : Name) : Bool :=
  match s with
  | 'v' :: d :: r => d.isDigit && !(r.contains '/')
  | _ => false

/-- `Address.convert_to_versioned_package`: `a.b.v1` ↦ `a.b_v1` -/
def versionedPackage (pkg : List Name) : List Name :=
  match pkg.reverse with
  | v :: m :: rest => if isVersion v then (rest.reverse ++ [m ++ '_' :: v]) else pkg
  | _ => pkg

/-- `Address.python_import.package`.  `apiSegs` = `api_naming.proto_package.split(".")`,
    `apiRoot` = `module_namespace + (versioned_module_name,)` (C11's model; an input here). -/
def pythonImportPackage (apiPackage : Name) (apiSegs apiRoot : List Name) (deps : List Name) (a : Addr) : List Name :=
  if apiPackage.isPrefixOf (joinDots a.package) then apiRoot ++ a.package.drop apiSegs.length ++ ["types".toList]
  else if isProtoPlus apiPackage deps a.package then versionedPackage a.package ++ ["types".toList]
  else a.package

/-! ### The class body of a message as Python executes it -/

/-- what a name of the class body of a message class is bound to -/
inductive Member where
  | nested                 -- a nested enum / message class
  | rawPage                -- `@property def raw_page(self): return self` (pager helper)
  | field (i : Nat)        -- the declaration of the i-th field (`proto.Field` / `RepeatedField` / `MapField`)
  | done                   -- `@property def done(self) -> bool` (extended-operation helper)
deriving DecidableEq, Repr

/-- the namespace a class body fills: an insertion-ordered dict. EXTERNAL (Python), validated by T3. -/
abbrev ClassDict := List (Name × Member)

/-- `namespace[k] = v`: the LAST binding of a name wins; a rebound name keeps its first position -/
def bindName : ClassDict → Name × Member → ClassDict
  | [], kv => [kv]
  | (k, v) :: r, kv => if k = kv.1 then (k, kv.2) :: r else (k, v) :: bindName r kv

def lookupMember : ClassDict → Name → Option Member
  | [], _ => none
  | (k, v) :: r, n => if k = n then some v else lookupMember r n

def fieldBindings : Nat → List Name → List (Name × Member)
  | _, [] => []
  | k, a :: r => (a, .field k) :: fieldBindings (k + 1) r

/-- the statements `_message.py.j2` prints into the body of a message class, in order: nested enums and
    messages; the `raw_page` property iff some field's ATTRIBUTE is `next_page_token`; the `done` property iff
    the message has an extended-operation STATUS field (`message.extended_operation_status_field`); one
    declaration per field (`attrs` = `Field.name` of the fields, in order).  (Before the `fix:` commit 4ad018c
    the `done` property came AFTER the fields and replaced a field of that name; see findings/C02.json, "fixed".) -/
def classBody (nested attrs : List Name) (hasStatus : Bool) : List (Name × Member) :=
  nested.map (fun n => (n, Member.nested)) ++
  (if "next_page_token".toList ∈ attrs then [("raw_page".toList, Member.rawPage)] else []) ++
  (if hasStatus then [("done".toList, Member.done)] else []) ++
  fieldBindings 0 attrs

def classDict (nested attrs : List Name) (hasStatus : Bool) : ClassDict :=
  (classBody nested attrs hasStatus).foldl bindName []

/-- the field declarations proto-plus's metaclass finds in the namespace (`attrs.items()`, dict order):
    indices into the message's field list -/
def fieldsSeen (d : ClassDict) : List Nat :=
  d.filterMap fun kv => match kv.2 with | .field i => some i | _ => none

/-! ### Module manifest -/

/-- `__protobuf__ = proto.module(manifest={…})`: top-level enums, then top-level messages -/
def manifest (topEnums topMessages : List Name) : List Name := topEnums ++ topMessages

/-- the other arguments of `__protobuf__ = proto.module(...)` (types/%proto.py.j2): `package=` is the proto
    package OF THE FILE (`proto.meta.address.package`); `marshal=` is printed only when that differs from the
    API's package (`api.naming.proto_package`), i.e. for a file of a SUB-PACKAGE, and names the API's package. -/
structure ModuleHeader where
  package : List Name
  marshal : Option (List Name)
deriving DecidableEq, Repr

def moduleHeader (apiPkg filePkg : List Name) : ModuleHeader :=
  ⟨filePkg, if apiPkg ≠ filePkg then some apiPkg else none⟩

/-- proto-plus `define_module`: `if not marshal: marshal = package`. EXTERNAL (T3: `__protobuf__.marshal`). -/
def ModuleHeader.marshalName (h : ModuleHeader) : List Name := h.marshal.getD h.package

/-! ### Python scoping and late resolution (EXTERNAL; T3) -/

/-- one emitted types module -/
structure Module where
  package : List Name
  types : List (List Name)      -- paths of every emitted class (messages that are not map entries; enums)
  order : List Name             -- top-level classes in the order the module defines them
deriving Repr

structure Scope where
  ctx : List Name                          -- path of the class whose body is executing
  localsBefore : List Name                 -- attributes of the fields declared earlier in this body
  imports : List (Name × List Name)        -- module-level import name ↦ proto package
deriving Repr

inductive Resolved where
  | type (full : List Name)
  | nameError
  | attributeError
  | unresolved                             -- the descriptor pool cannot find a quoted name
deriving DecidableEq, Repr

/-- attribute access `Class.s1.s2…` -/
def descend (types : List (List Name)) (p : List Name) : List Name → Option (List Name)
  | [] => some p
  | s :: r => if p ++ [s] ∈ types then descend types (p ++ [s]) r else none

def lookupImport (imports : List (Name × List Name)) (s : Name) : Option (List Name) :=
  (imports.find? (·.1 == s)).map (·.2)

/-- evaluate `s1.s2…` while the body of class `sc.ctx` executes: class-local names (nested classes are
    rendered before the fields; earlier fields are bound to `Field` objects), then module globals
    (imports; top-level classes defined earlier).  Enclosing class bodies are NOT searched. -/
def pyEval (m : Module) (sc : Scope) : List Name → Resolved
  | [] => .nameError
  | s :: r =>
    if sc.ctx ++ [s] ∈ m.types then
      match descend m.types (sc.ctx ++ [s]) r with
      | some p => .type (m.package ++ p)
      | none => .attributeError
    else if s ∈ sc.localsBefore then .attributeError
    else match lookupImport sc.imports s with
      | some pkg => .type (pkg ++ r)
      | none =>
        if [s] ∈ m.types ∧ s ∈ m.order.takeWhile (fun t => some t ≠ sc.ctx.head?) then
          match descend m.types [s] r with
          | some p => .type (m.package ++ p)
          | none => .attributeError
        else .nameError

/-- proto-plus: a string is read as `<package>.<text>` and looked up once the file is complete -/
def plusResolve (m : Module) (segs : List Name) : Resolved :=
  if segs ∈ m.types then .type (m.package ++ segs) else .unresolved

def resolveRef (m : Module) (sc : Scope) : Ref → Resolved
  | .quoted s => plusResolve m s
  | .bare s => pyEval m sc s

def Resolved.toOption : Resolved → Option (List Name)
  | .type f => some f
  | _ => none

end GapicModel.Model.Types
