import GapicModel.Regex.Match
import GapicModel.Pinned.CharClass
import GapicModel.Pinned.Regexes
/-
C20 — `gapic/generator/formatter.py: fix_whitespace`.

    code = re.sub(P1, R1, code); code = re.sub(P2, R2, code); code = re.sub(P3, R3, code)
    return f"{code.rstrip()}\n"

The three patterns/replacements are the ones the T1 translator extracts (Pinned.fixws1..3, bridged to
the live source); the straight-line shape of the function body is checked by the translator too.
-/
namespace GapicModel.Model.Whitespace
open GapicModel.Regex

/-- `str.isspace` / `\s` (same table in CPython; the translator checks they coincide) -/
def isWs (t : ClassTables) (c : Char) : Bool := inRanges t.space c

/-- `str.rstrip()` -/
def rstrip (t : ClassTables) (s : List Char) : List Char := (s.reverse.dropWhile (isWs t)).reverse

def fixWhitespaceWith (t : ClassTables) (p1 p2 p3 : Re) (r1 r2 r3 : List RItem) (s : List Char) : List Char :=
  rstrip t (pySub t p3 r3 (pySub t p2 r2 (pySub t p1 r1 s))) ++ ['\n']

/-! The three patterns, written structurally (proved equal to the pinned translator output below). -/
def S : Re := .cls false [.space]
def SP : Re := .seq S (.star S true)          -- `\s+`
def SS : Re := .star S true                   -- `\s*`
def NL : Re := .chr '\n'
def KW : Re := .alt (seqR ("class".toList.map .chr)) (.alt (seqR ("def".toList.map .chr)) (.alt (.chr '@') (.alt (.chr '#') (.chr '_'))))
def S4 : Re := seqR ("    ".toList.map .chr)
def G2 : Re := .group 2 S4
def C3 : Re := .cls false [.word, .ch '_', .ch '@', .ch '#']

def ws1Re : Re := .seq (.seq (.chr ' ') (.star (.chr ' ') true)) NL
def ws2Re : Re := .seq SP (.seq NL (.seq SS (.seq NL (.seq SS (.seq NL (.group 1 KW))))))
def ws3Re : Re := .seq SP (.seq NL (.seq SS (.seq NL (.seq (.group 1 (.seq G2 (.star G2 true))) (.group 3 C3)))))
def ws1Repl : List RItem := [.lit ['\n']]
def ws2Repl : List RItem := [.lit ['\n', '\n', '\n'], .grp 1]
def ws3Repl : List RItem := [.lit ['\n', '\n'], .grp 1, .grp 3]

/-- `fix_whitespace` on the pinned patterns -/
def fixWhitespace (s : List Char) : List Char :=
  fixWhitespaceWith Pinned.classTables ws1Re ws2Re ws3Re ws1Repl ws2Repl ws3Repl s

end GapicModel.Model.Whitespace
