import GapicModel.Regex.Match
import GapicModel.Pinned.CharClass
import GapicModel.Pinned.Regexes
/-
C20 — `textwrap.wrap/fill` (for the one configuration the repository uses) and
`gapic/utils/lines.py: wrap`, `gapic/utils/rst.py: rst` (plain-text fast path).
Strings are `List Char`.  Where Python raises the model returns `none`.
-/
namespace GapicModel.Model.Wrap
open GapicModel.Regex

abbrev Str := List Char

/-! ### str helpers -/

def isWs (t : ClassTables) (c : Char) : Bool := inRanges t.space c
def lstrip (t : ClassTables) (s : Str) : Str := s.dropWhile (isWs t)
def rstrip (t : ClassTables) (s : Str) : Str := (s.reverse.dropWhile (isWs t)).reverse
def strip (t : ClassTables) (s : Str) : Str := rstrip t (lstrip t s)
def isBlank (t : ClassTables) (s : Str) : Bool := s.all (isWs t)          -- `s.strip() == ''`

def splitOn (sep : Char) : Str → List Str
  | [] => [[]]
  | c :: cs =>
    match splitOn sep cs with
    | [] => [[]]                       -- unreachable
    | h :: tl => if c = sep then [] :: h :: tl else (c :: h) :: tl

def joinWith (sep : Str) : List Str → Str
  | [] => []
  | [a] => a
  | a :: b :: r => a ++ sep ++ joinWith sep (b :: r)

/-- `s.replace(old, new)` for a two-character `old` (all occurrences, left to right, non-overlapping) -/
def replace2 (o1 o2 : Char) (new : Str) : Str → Str
  | [] => []
  | [c] => [c]
  | c :: d :: r => if c = o1 ∧ d = o2 then new ++ replace2 o1 o2 new r else c :: replace2 o1 o2 new (d :: r)

/-- `s.replace(old, new, 1)` for a one-character `old` -/
def replaceFirst (o : Char) (new : Str) : Str → Str
  | [] => []
  | c :: r => if c = o then new ++ r else c :: replaceFirst o new r

def rstripChar (ch : Char) (s : Str) : Str := (s.reverse.dropWhile (· == ch)).reverse

/-! ### textwrap -/

def asciiWs : List Char := ['\t', '\n', Char.ofNat 11, Char.ofNat 12, '\r', ' ']
def isAsciiWs (c : Char) : Bool := asciiWs.contains c

/-- `str.expandtabs(8)` -/
def expandTabs : Str → Nat → Str
  | [], _ => []
  | c :: cs, col =>
    if c = '\t' then
      let n := 8 - col % 8
      List.replicate n ' ' ++ expandTabs cs (col + n)
    else if c = '\n' ∨ c = '\r' then c :: expandTabs cs 0
    else c :: expandTabs cs (col + 1)

/-- `TextWrapper._munge_whitespace` (expand_tabs, replace_whitespace) -/
def munge (s : Str) : Str := (expandTabs s 0).map fun c => if isAsciiWs c then ' ' else c

/-- `TextWrapper._split` with `break_on_hyphens=False`: maximal runs of ASCII whitespace / of the rest -/
def chunksAux : Str → Str → Bool → List Str
  | [], cur, _ => if cur = [] then [] else [cur.reverse]
  | c :: cs, cur, ws =>
    if cur = [] then chunksAux cs [c] (isAsciiWs c)
    else if isAsciiWs c = ws then chunksAux cs (c :: cur) ws
    else cur.reverse :: chunksAux cs [c] (isAsciiWs c)

def chunks (s : Str) : List Str := chunksAux s [] false

/-- inner loop of `_wrap_chunks`: take chunks while they fit -/
def takeFit (width : Nat) : List Str → Nat → List Str → List Str × List Str
  | cur, _, [] => (cur, [])
  | cur, n, c :: cs => if n + c.length ≤ width then takeFit width (cur ++ [c]) (n + c.length) cs else (cur, c :: cs)

/-- `if self.drop_whitespace and chunks[-1].strip() == '' and lines: del chunks[-1]` -/
def dropLead (t : ClassTables) (first : Bool) (c0 : Str) (cs0 : List Str) : List Str :=
  if isBlank t c0 && !first then cs0 else c0 :: cs0

/-- `_handle_long_word` with `break_long_words=False`: a chunk wider than the line goes on a line of its own -/
def longWord (w : Nat) (p : List Str × List Str) : List Str × List Str :=
  match p.2 with
  | c :: cs => if w < c.length ∧ p.1.isEmpty then ([c], cs) else p
  | [] => p

/-- `if self.drop_whitespace and cur_line and cur_line[-1].strip() == '': del cur_line[-1]` -/
def dropTrail (t : ClassTables) (cur : List Str) : List Str :=
  match cur.getLast? with
  | some l => if isBlank t l then cur.dropLast else cur
  | none => cur

/-- one step of the outer loop of `_wrap_chunks` on a non-empty chunk list: (the chunks of the
line, possibly none; the chunks left). `first` = no line has been emitted yet. -/
def lineStep (t : ClassTables) (width iiLen siLen : Nat) (first : Bool) (c0 : Str) (cs0 : List Str) :
    List Str × List Str :=
  let w := width - (if first then iiLen else siLen)
  let p := longWord w (takeFit w [] 0 (dropLead t first c0 cs0))
  (dropTrail t p.1, p.2)

/-- `_wrap_chunks` (drop_whitespace, break_long_words=False, max_lines=None) as the list of chunk
lists, one per emitted line; fuel = number of chunks + 1 -/
def wrapCur (t : ClassTables) (width iiLen siLen : Nat) : Nat → Bool → List Str → List (List Str)
  | 0, _, _ => []
  | _ + 1, _, [] => []
  | fuel + 1, first, c0 :: cs0 =>
    let r := lineStep t width iiLen siLen first c0 cs0
    if r.1.isEmpty then wrapCur t width iiLen siLen fuel first r.2
    else r.1 :: wrapCur t width iiLen siLen fuel false r.2

/-- `lines.append(indent + ''.join(cur_line))`: the first emitted line gets `initial_indent` -/
def renderLines (ii si : Str) : List (List Str) → List Str
  | [] => []
  | c :: cs => (ii ++ c.flatten) :: cs.map (fun c => si ++ c.flatten)

def wrapLoop (t : ClassTables) (width : Nat) (ii si : Str) (cs : List Str) : List Str :=
  renderLines ii si (wrapCur t width ii.length si.length (cs.length + 1) true cs)

/-- `textwrap.wrap(text, width=…, initial_indent=ii, subsequent_indent=si, break_long_words=False, break_on_hyphens=False)` -/
def textwrapWrap (t : ClassTables) (text : Str) (width : Int) (ii si : Str) : Option (List Str) :=
  if width ≤ 0 then none      -- ValueError("invalid width")
  else
    let cs := chunks (munge text)
    some (wrapLoop t width.toNat ii si cs)

def textwrapFill (t : ClassTables) (text : Str) (width : Int) (ii si : Str) : Option Str :=
  (textwrapWrap t text width ii si).map (joinWith ['\n'])

/-! ### lines.py -/

def numberedList (t : ClassTables) (s : Str) : Bool := (pyMatch t Pinned.numberedList.re s).isSome

/-- `is_list_item` -/
def isListItem (t : ClassTables) (s : Str) : Bool :=
  if s.length < 3 then false
  else s.take 2 == ['-', ' '] || s.take 2 == ['+', ' '] || numberedList t s

/-- `get_subsequent_line_indentation_level` -/
def subsequentLevel (t : ClassTables) (s : Str) : Nat :=
  if s.length ≥ 2 ∧ (s.take 2 == ['-', ' '] || s.take 2 == ['+', ' ']) then 2
  else if s.length ≥ 4 ∧ numberedList t s then 4
  else 0

/-- the token loop of `wrap` -/
def tokenize (t : ClassTables) (width : Int) : List Str → Str → List Str
  | [], token => if token = [] then [] else [token]
  | line :: rest, token =>
    let (pre, token) := if (isListItem t (strip t line) || line.isEmpty) && token ≠ [] then ([token], []) else ([], token)
    let token := token ++ line ++ ['\n']
    -- `len(line) < width * 0.75`  ⟺  4·len < 3·width
    if 4 * (line.length : Int) < 3 * width ∨ line.getLast? = some ':' then
      pre ++ token :: tokenize t width rest []
    else pre ++ tokenize t width rest token

def endsWith (s suf : Str) : Bool := suf.isSuffixOf s

/-- first part of `wrap`, on the text after `lstrip`, `replace("\n ", "\n")` and `expandtabs`: the first line
(re-wrapped when it does not fit `width - offset`) and the text it will be cut from -/
def wrapStage (t : ClassTables) (text : Str) (width offset : Int) : Option (Str × Str) :=
  let first0 := (splitOn '\n' text).headD [] ++ ['\n']
  let first1 := if endsWith first0 [':', '\n'] then first0 ++ ['\n'] else first0
  if (first1.length : Int) > width - offset then
    match textwrapWrap t first1 (width - offset) [] [] with
    | none => none
    | some initial =>
      let text' :=
        if text.contains '\n' then
          let remaining := ((splitOn '\n' text).drop 1).flatten
          if !isListItem t (strip t remaining) then replaceFirst '\n' [' '] text else text
        else text
      match initial with
      | [] => none                                  -- IndexError: initial[0]
      | i0 :: _ => some (i0 ++ ['\n'], text')
  else some (first1, text)

/-- second part of `wrap`: the colon rule, the cut after the first line, tokenisation and filling -/
def wrapTail (t : ClassTables) (first text : Str) (width : Int) (indent : Nat) : Option Str :=
  let text := pySub t Pinned.wrapColon.re Pinned.wrapColonRepl text
  let text := text.drop first.length
  if text = [] then some (strip t first) else
  let newLine : Str := if text.head? = some '\n' then ['\n'] else []
  let text := newLine ++ strip t text
  let tokens := tokenize t width (splitOn '\n' text) []
  let fills := tokens.mapM fun token =>
    textwrapFill t token width (List.replicate indent ' ')
      (List.replicate indent ' ' ++ List.replicate (subsequentLevel t (strip t token)) ' ')
  match fills with
  | none => none
  | some fs => some (rstripChar '\n' (first ++ joinWith ['\n'] fs))

/-- `gapic.utils.lines.wrap(text, width, offset=offset, indent=indent)`; `none` = Python raises -/
def wrap (t : ClassTables) (text : Str) (width : Int) (offset : Option Int) (indent : Nat) : Option Str :=
  let text := lstrip t text                      -- `text.lstrip()` (C20 fix be75097: leading whitespace ignored)
  if text = [] then some [] else
  let offset : Int := offset.getD indent
  let text := replace2 '\n' ' ' ['\n'] text
  let text := expandTabs text 0                  -- `text.expandtabs()` (C20 fix e33d7a4)
  match wrapStage t text width offset with
  | none => none
  | some (first, text) => wrapTail t first text width indent

/-! ### rst.py, plain-text fast path -/

/-- `answer.replace('"""', "'''")` -/
def replaceTQ : Str → Str
  | '"' :: '"' :: '"' :: r => '\'' :: '\'' :: '\'' :: replaceTQ r
  | c :: r => c :: replaceTQ r
  | [] => []

/-- the tail of `rst()` after the text has been wrapped/converted: optional newline+indent,
triple-quote replacement, trailing quote/backslash guard -/
def rstTail (answer : Str) (indent : Nat) (nl : Option Bool) : Str :=
  let answer := if nl = some true ∨ (answer.contains '\n' ∧ nl = none) then answer ++ ['\n'] ++ List.replicate indent ' ' else answer
  let answer := replaceTQ answer
  if answer.getLast? = some '"' ∨ answer.getLast? = some '\\' then answer ++ ['.'] else answer

def rstTrigger (t : ClassTables) (s : Str) : Bool := (pySearch t Pinned.rstTrigger.re s).isSome

/-- `rst(text, width, indent, nl)` when the text has no formatting character; `none` = not the fast path or raises -/
def rstFast (t : ClassTables) (text : Str) (width : Int) (indent : Nat) (nl : Option Bool) : Option Str :=
  if rstTrigger t text then none else
  match wrap t text (width - indent) (some (indent + 3)) indent with
  | none => none
  | some answer => some (rstTail answer indent nl)

end GapicModel.Model.Wrap
