-- written by harness/translate.py --pin; the theorems are about these definitions
-- Python functions of /repo translated by harness/pyfun2lean.py (subset and restrictions: see that file and PyRt.lean)
import GapicModel.PyRt
import GapicModel.Pinned.Tables
namespace GapicModel.Pinned.Funcs
open GapicModel.PyRt GapicModel.Regex

-- gapic/utils/filename.py — to_valid_filename
def to_valid_filename (filename : Str) : Str :=
  (reSub (.seq (.cls true [.range 'a' 'z', .range '0' '9', .ch '.', .ch '$', .ch '_', .ch '-']) (.star (.cls true [.range 'a' 'z', .range '0' '9', .ch '.', .ch '$', .ch '_', .ch '-']) true)) [.lit ['-']] (lower filename))

-- gapic/utils/filename.py — to_valid_module_name
def to_valid_module_name (module_name : Str) : Str :=
  (replace (to_valid_filename module_name) ['-'] (['_'] : Str))

-- gapic/utils/case.py — to_snake_case
def to_snake_case (s : Str) : Str :=
  let s : Str := (reSub (.seq (.look false false (.cls false [.range 'a' 'z'])) (.group 1 (.cls false [.range 'A' 'Z']))) [.lit ['_'], .grp 1] s)
  let s : Str := (reSub (.seq (.look false false (.cls true [.ch '_'])) (.seq (.group 1 (.cls false [.range 'A' 'Z'])) (.look true false (.cls false [.range 'a' 'z'])))) [.lit ['_'], .grp 1] s)
  let s : Str := (reSub (.seq (.look false false (.cls false [.range 'a' 'z'])) (.seq (.group 1 (.cls false [.digit])) (.look true false (.seq (.cls false [.range 'A' 'Z']) (.cls false [.range 'A' 'Z']))))) [.lit ['_'], .grp 1] s)
  let s : Str := (reSub (.seq (.look false false (.cls false [.range 'a' 'z'])) (.seq (.group 1 (.cls false [.digit])) (.look true false (.seq (.cls false [.range 'A' 'Z']) .eol)))) [.lit ['_'], .grp 1] s)
  (lower s)

-- gapic/utils/lines.py — is_list_item
def is_list_item (list_item : Str) : Bool :=
  if (decide ((len list_item) < (3 : Int))) then
  (false)
  else
  (((startswith list_item (['-', ' '] : Str)) || (startswith list_item (['+', ' '] : Str)) || (reMatch (.seq .bol (.seq (.seq (.cls false [.digit]) (.star (.cls false [.digit]) true)) (.seq (.chr '.') (.chr ' ')))) list_item)))

-- gapic/utils/lines.py — get_subsequent_line_indentation_level
def get_subsequent_line_indentation_level (list_item : Str) : Int :=
  if ((decide ((len list_item) ≥ (2 : Int))) && (strIn (slice list_item (some (0 : Int)) (some (2 : Int))) [(['-', ' '] : Str), (['+', ' '] : Str)])) then
  (let indentation_level : Int := (2 : Int)
  indentation_level)
  else
  (if ((decide ((len list_item) ≥ (4 : Int))) && (reMatch (.seq .bol (.seq (.seq (.cls false [.digit]) (.star (.cls false [.digit]) true)) (.seq (.chr '.') (.chr ' ')))) list_item)) then
  (let indentation_level : Int := (4 : Int)
  indentation_level)
  else
  (let indentation_level : Int := (0 : Int)
  indentation_level))

-- gapic/schema/metadata.py — Address.resolve
def address_resolve (self_package : List Str) (selector : Str) : Str :=
  if (!contains (['.'] : Str) selector) then
  (((join (['.'] : Str) self_package) ++ (['.'] : Str) ++ selector))
  else
  (selector)

-- gapic/generator/formatter.py — fix_whitespace
def fix_whitespace (code : Str) : Str :=
  let code : Str := (reSub (.seq (.seq (.chr ' ') (.star (.chr ' ') true)) (.chr (Char.ofNat 10))) [.lit [(Char.ofNat 10)]] code)
  let code : Str := (reSub (.seq (.seq (.cls false [.space]) (.star (.cls false [.space]) true)) (.seq (.chr (Char.ofNat 10)) (.seq (.star (.cls false [.space]) true) (.seq (.chr (Char.ofNat 10)) (.seq (.star (.cls false [.space]) true) (.seq (.chr (Char.ofNat 10)) (.group 1 (.alt (.seq (.chr 'c') (.seq (.chr 'l') (.seq (.chr 'a') (.seq (.chr 's') (.chr 's'))))) (.alt (.seq (.chr 'd') (.seq (.chr 'e') (.chr 'f'))) (.alt (.chr '@') (.alt (.chr '#') (.chr '_')))))))))))) [.lit [(Char.ofNat 10), (Char.ofNat 10), (Char.ofNat 10)], .grp 1] code)
  let code : Str := (reSub (.seq (.seq (.cls false [.space]) (.star (.cls false [.space]) true)) (.seq (.chr (Char.ofNat 10)) (.seq (.star (.cls false [.space]) true) (.seq (.chr (Char.ofNat 10)) (.seq (.group 1 (.seq (.group 2 (.seq (.chr ' ') (.seq (.chr ' ') (.seq (.chr ' ') (.chr ' '))))) (.star (.group 2 (.seq (.chr ' ') (.seq (.chr ' ') (.seq (.chr ' ') (.chr ' '))))) true))) (.group 3 (.cls false [.word, .ch '_', .ch '@', .ch '#']))))))) [.lit [(Char.ofNat 10), (Char.ofNat 10)], .grp 1, .grp 3] code)
  ((rstrip code) ++ ([(Char.ofNat 10)] : Str))

-- gapic/utils/code.py — make_private
def make_private (object_name : Str) : Str :=
  (if (startswith object_name (['_'] : Str)) then object_name else ((['_'] : Str) ++ object_name))

-- gapic/samplegen_utils/utils.py — coerce_response_name
def coerce_response_name (s : Str) : Str :=
  (replace s ['$', 'r', 'e', 's', 'p'] (['r', 'e', 's', 'p', 'o', 'n', 's', 'e'] : Str))

-- gapic/utils/case.py — to_camel_case
def to_camel_case (s : Str) : Str :=
  let items : List Str := (reSplit (.cls false [.ch '_', .ch '-']) (to_snake_case s))
  ((lower (head0 items)) ++ (join ([] : Str) (((slice items (some (1 : Int)) none)).map fun x_ => (capitalize x_))))

-- gapic/utils/uri_conv.py — convert_uri_fieldnames._fix_name_segment
def fix_name_segment (name_seg : Str) : Str :=
  (if (strIn name_seg (GapicModel.Pinned.reservedNames.map String.toList)) then (name_seg ++ (['_'] : Str)) else name_seg)

-- gapic/utils/uri_conv.py — convert_uri_fieldnames._fix_field_path
def fix_field_path (field_path : Str) : Str :=
  (join (['.'] : Str) (((split field_path ['.'])).map fun name_seg_ => (fix_name_segment name_seg_)))

-- gapic/schema/wrappers.py — FieldHeader.disambiguated
def field_header_disambiguated (self_raw : Str) : Str :=
  (join (['.'] : Str) (((split self_raw ['.'])).map fun segment_ => (if (strIn segment_ (GapicModel.Pinned.reservedNames.map String.toList)) then (segment_ ++ (['_'] : Str)) else segment_)))

-- gapic/schema/wrappers.py — RoutingParameter.disambiguated_field
def routing_param_disambiguated_field (self_field : Str) : Str :=
  (join (['.'] : Str) (((split self_field ['.'])).map fun segment_ => (if (strIn segment_ (GapicModel.Pinned.reservedNames.map String.toList)) then (segment_ ++ (['_'] : Str)) else segment_)))

-- gapic/schema/wrappers.py — Method.client_method_name
def client_method_name (self_name : Str) (self_is_internal : Bool) : Str :=
  let name : Str := (if (strIn (lower self_name) (GapicModel.Pinned.pyKeywords.map String.toList)) then (self_name ++ (['_'] : Str)) else self_name)
  (if self_is_internal then (make_private name) else name)

-- gapic/utils/lines.py — sort_lines
def sort_lines (text : Str) (dedupe : Bool) : Str :=
  let leading : Str := (if (startswith text ([(Char.ofNat 10)] : Str)) then ([(Char.ofNat 10)] : Str) else ([] : Str))
  let trailing : Str := (if (endswith text ([(Char.ofNat 10)] : Str)) then ([(Char.ofNat 10)] : Str) else ([] : Str))
  let lines : List Str := (((((split (strip text) [(Char.ofNat 10)])).filter fun i_ => (truthy (strip i_)))).map fun i_ => i_)
  if dedupe then
  (let lines : List Str := (dedup lines)
  let answer : Str := (join ([(Char.ofNat 10)] : Str) (sortStr lines))
  (leading ++ answer ++ trailing))
  else
  (let answer : Str := (join ([(Char.ofNat 10)] : Str) (sortStr lines))
  (leading ++ answer ++ trailing))

-- gapic/schema/wrappers.py — Service.client_name
def service_client_name (self_is_internal : Bool) (self_name : Str) : Str :=
  (((if self_is_internal then (['B', 'a', 's', 'e'] : Str) else ([] : Str)) ++ self_name) ++ (['C', 'l', 'i', 'e', 'n', 't'] : Str))

-- gapic/schema/wrappers.py — Service.async_client_name
def service_async_client_name (self_is_internal : Bool) (self_name : Str) : Str :=
  (((if self_is_internal then (['B', 'a', 's', 'e'] : Str) else ([] : Str)) ++ self_name) ++ (['A', 's', 'y', 'n', 'c', 'C', 'l', 'i', 'e', 'n', 't'] : Str))

-- gapic/schema/wrappers.py — Service.transport_name
def service_transport_name (self_name : Str) : Str :=
  (self_name ++ (['T', 'r', 'a', 'n', 's', 'p', 'o', 'r', 't'] : Str))

-- gapic/schema/wrappers.py — Service.grpc_transport_name
def service_grpc_transport_name (self_name : Str) : Str :=
  (self_name ++ (['G', 'r', 'p', 'c', 'T', 'r', 'a', 'n', 's', 'p', 'o', 'r', 't'] : Str))

-- gapic/schema/wrappers.py — Service.grpc_asyncio_transport_name
def service_grpc_asyncio_transport_name (self_name : Str) : Str :=
  (self_name ++ (['G', 'r', 'p', 'c', 'A', 's', 'y', 'n', 'c', 'I', 'O', 'T', 'r', 'a', 'n', 's', 'p', 'o', 'r', 't'] : Str))

-- gapic/schema/wrappers.py — Service.rest_transport_name
def service_rest_transport_name (self_name : Str) : Str :=
  (self_name ++ (['R', 'e', 's', 't', 'T', 'r', 'a', 'n', 's', 'p', 'o', 'r', 't'] : Str))

-- gapic/schema/wrappers.py — Service.module_name
def service_module_name (self_name : Str) : Str :=
  (to_snake_case self_name)

-- gapic/schema/naming.py — Naming.module_name
def naming_module_name (self_name : Str) : Str :=
  (to_valid_module_name self_name)

-- gapic/schema/naming.py — NewNaming.versioned_module_name
def new_naming_versioned_module_name (self_module_name : Str) (self_version : Str) : Str :=
  (self_module_name ++ (if (truthy self_version) then ((['_'] : Str) ++ self_version) else ([] : Str)))

-- gapic/schema/naming.py — OldNaming.versioned_module_name
def old_naming_versioned_module_name (self_module_name : Str) (self_version : Str) : Str :=
  (self_module_name ++ (if (truthy self_version) then ((['.'] : Str) ++ self_version) else ([] : Str)))

-- gapic/schema/metadata.py — Metadata.doc
def metadata_doc (leading : Str) (trailing : Str) (detached : List Str) : Str :=
  if (truthy leading) then
  ((strip leading))
  else
  (if (truthy trailing) then
  ((strip trailing))
  else
  (if (truthy detached) then
  ((join ([(Char.ofNat 10), (Char.ofNat 10)] : Str) detached))
  else
  (([] : Str))))

end GapicModel.Pinned.Funcs
