-- written by harness/translate.py --pin; the theorems are about these values

import GapicModel.Regex.Match
namespace GapicModel.Pinned
open GapicModel.Regex

-- gapic/generator/formatter.py — fix_whitespace: re.sub #0
-- source: '[ ]+\\n'
def fixws1 : Pattern := ⟨(.seq (.seq (.chr ' ') (.star (.chr ' ') true)) (.chr (Char.ofNat 10))), 0, []⟩
def fixws1Repl : List RItem := [.lit "\n".toList]

-- gapic/generator/formatter.py — fix_whitespace: re.sub #1
-- source: '\\s+\\n\\s*\\n\\s*\\n(class|def|@|#|_)'
def fixws2 : Pattern := ⟨(.seq (.seq (.cls false [.space]) (.star (.cls false [.space]) true)) (.seq (.chr (Char.ofNat 10)) (.seq (.star (.cls false [.space]) true) (.seq (.chr (Char.ofNat 10)) (.seq (.star (.cls false [.space]) true) (.seq (.chr (Char.ofNat 10)) (.group 1 (.alt (.seq (.chr 'c') (.seq (.chr 'l') (.seq (.chr 'a') (.seq (.chr 's') (.chr 's'))))) (.alt (.seq (.chr 'd') (.seq (.chr 'e') (.chr 'f'))) (.alt (.chr '@') (.alt (.chr '#') (.chr '_')))))))))))), 1, []⟩
def fixws2Repl : List RItem := [.lit "\n\n\n".toList, .grp 1]

-- gapic/generator/formatter.py — fix_whitespace: re.sub #2
-- source: '\\s+\\n\\s*\\n((    )+)(\\w|_|@|#)'
def fixws3 : Pattern := ⟨(.seq (.seq (.cls false [.space]) (.star (.cls false [.space]) true)) (.seq (.chr (Char.ofNat 10)) (.seq (.star (.cls false [.space]) true) (.seq (.chr (Char.ofNat 10)) (.seq (.group 1 (.seq (.group 2 (.seq (.chr ' ') (.seq (.chr ' ') (.seq (.chr ' ') (.chr ' '))))) (.star (.group 2 (.seq (.chr ' ') (.seq (.chr ' ') (.seq (.chr ' ') (.chr ' '))))) true))) (.group 3 (.cls false [.word, .ch '_', .ch '@', .ch '#']))))))), 3, []⟩
def fixws3Repl : List RItem := [.lit "\n\n".toList, .grp 1, .grp 3]

-- gapic/generator/generator.py — Generator._get_filename: re.sub #0
-- source: '/+'
def filenameSlashes : Pattern := ⟨(.seq (.chr '/') (.star (.chr '/') true)), 0, []⟩
def filenameSlashesRepl : List RItem := [.lit "/".toList]

-- gapic/utils/case.py — to_snake_case: re.sub #0
-- source: '(?<=[a-z])([A-Z])'
def snake1 : Pattern := ⟨(.seq (.look false false (.cls false [.range 'a' 'z'])) (.group 1 (.cls false [.range 'A' 'Z']))), 1, []⟩
def snake1Repl : List RItem := [.lit "_".toList, .grp 1]

-- gapic/utils/case.py — to_snake_case: re.sub #1
-- source: '(?<=[^_])([A-Z])(?=[a-z])'
def snake2 : Pattern := ⟨(.seq (.look false false (.cls true [.ch '_'])) (.seq (.group 1 (.cls false [.range 'A' 'Z'])) (.look true false (.cls false [.range 'a' 'z'])))), 1, []⟩
def snake2Repl : List RItem := [.lit "_".toList, .grp 1]

-- gapic/utils/case.py — to_snake_case: re.sub #2
-- source: '(?<=[a-z])(\\d)(?=[A-Z]{2})'
def snake3 : Pattern := ⟨(.seq (.look false false (.cls false [.range 'a' 'z'])) (.seq (.group 1 (.cls false [.digit])) (.look true false (.seq (.cls false [.range 'A' 'Z']) (.cls false [.range 'A' 'Z']))))), 1, []⟩
def snake3Repl : List RItem := [.lit "_".toList, .grp 1]

-- gapic/utils/case.py — to_snake_case: re.sub #3
-- source: '(?<=[a-z])(\\d)(?=[A-Z]$)'
def snake4 : Pattern := ⟨(.seq (.look false false (.cls false [.range 'a' 'z'])) (.seq (.group 1 (.cls false [.digit])) (.look true false (.seq (.cls false [.range 'A' 'Z']) .eol)))), 1, []⟩
def snake4Repl : List RItem := [.lit "_".toList, .grp 1]

-- gapic/utils/filename.py — to_valid_filename: re.sub #0
-- source: '[^a-z0-9.$_-]+'
def validFilename : Pattern := ⟨(.seq (.cls true [.range 'a' 'z', .range '0' '9', .ch '.', .ch '$', .ch '_', .ch '-']) (.star (.cls true [.range 'a' 'z', .range '0' '9', .ch '.', .ch '$', .ch '_', .ch '-']) true)), 0, []⟩
def validFilenameRepl : List RItem := [.lit "-".toList]

-- gapic/utils/lines.py — wrap: re.sub #0
-- source: ':\\n([^\\n])'
def wrapColon : Pattern := ⟨(.seq (.chr ':') (.seq (.chr (Char.ofNat 10)) (.group 1 (.cls true [.ch (Char.ofNat 10)])))), 1, []⟩
def wrapColonRepl : List RItem := [.lit ":\n\n".toList, .grp 1]

-- gapic/utils/rst.py — rst: re.search #0
-- source: '[|*`_[\\]]'
def rstTrigger : Pattern := ⟨(.cls false [.ch '|', .ch '*', .ch '`', .ch '_', .ch '[', .ch ']']), 0, []⟩

-- gapic/schema/wrappers.py — MessageType: re.compile #0
-- source: '\\{([a-zA-Z0-9_\\-]+)(?:=\\*\\*)?\\}'
def pathArg : Pattern := ⟨(.seq (.chr '{') (.seq (.group 1 (.seq (.cls false [.range 'a' 'z', .range 'A' 'Z', .range '0' '9', .ch '_', .ch '-']) (.star (.cls false [.range 'a' 'z', .range 'A' 'Z', .range '0' '9', .ch '_', .ch '-']) true))) (.seq (.alt (.seq (.chr '=') (.seq (.chr '*') (.chr '*'))) .eps) (.chr '}')))), 1, []⟩

-- gapic/schema/wrappers.py — Method.field_headers: re.compile #0
-- source: '{(.*?)[=}]'
def fieldHeaders : Pattern := ⟨(.seq (.chr '{') (.seq (.group 1 (.star .any false)) (.cls false [.ch '=', .ch '}']))), 1, []⟩

-- gapic/utils/uri_sample.py — sample_from_path_fields: re.sub #0
-- source: '(\\*\\*|\\*)'
def uriSampleStar : Pattern := ⟨(.group 1 (.seq (.chr '*') (.alt (.chr '*') .eps))), 1, []⟩

-- gapic/samplegen_utils/snippet_index.py — <module>: re.compile #0
-- source: '^\\s+# Create a client'
def clientInit : Pattern := ⟨(.seq .bol (.seq (.seq (.cls false [.space]) (.star (.cls false [.space]) true)) (.seq (.chr '#') (.seq (.chr ' ') (.seq (.chr 'C') (.seq (.chr 'r') (.seq (.chr 'e') (.seq (.chr 'a') (.seq (.chr 't') (.seq (.chr 'e') (.seq (.chr ' ') (.seq (.chr 'a') (.seq (.chr ' ') (.seq (.chr 'c') (.seq (.chr 'l') (.seq (.chr 'i') (.seq (.chr 'e') (.seq (.chr 'n') (.chr 't'))))))))))))))))))), 0, []⟩

-- gapic/samplegen_utils/snippet_index.py — <module>: re.compile #1
-- source: '^\\s+# Initialize request argument\\(s\\)'
def requestInit : Pattern := ⟨(.seq .bol (.seq (.seq (.cls false [.space]) (.star (.cls false [.space]) true)) (.seq (.chr '#') (.seq (.chr ' ') (.seq (.chr 'I') (.seq (.chr 'n') (.seq (.chr 'i') (.seq (.chr 't') (.seq (.chr 'i') (.seq (.chr 'a') (.seq (.chr 'l') (.seq (.chr 'i') (.seq (.chr 'z') (.seq (.chr 'e') (.seq (.chr ' ') (.seq (.chr 'r') (.seq (.chr 'e') (.seq (.chr 'q') (.seq (.chr 'u') (.seq (.chr 'e') (.seq (.chr 's') (.seq (.chr 't') (.seq (.chr ' ') (.seq (.chr 'a') (.seq (.chr 'r') (.seq (.chr 'g') (.seq (.chr 'u') (.seq (.chr 'm') (.seq (.chr 'e') (.seq (.chr 'n') (.seq (.chr 't') (.seq (.chr '(') (.seq (.chr 's') (.chr ')')))))))))))))))))))))))))))))))))), 0, []⟩

-- gapic/samplegen_utils/snippet_index.py — <module>: re.compile #2
-- source: '^\\s+# Make the request'
def requestExec : Pattern := ⟨(.seq .bol (.seq (.seq (.cls false [.space]) (.star (.cls false [.space]) true)) (.seq (.chr '#') (.seq (.chr ' ') (.seq (.chr 'M') (.seq (.chr 'a') (.seq (.chr 'k') (.seq (.chr 'e') (.seq (.chr ' ') (.seq (.chr 't') (.seq (.chr 'h') (.seq (.chr 'e') (.seq (.chr ' ') (.seq (.chr 'r') (.seq (.chr 'e') (.seq (.chr 'q') (.seq (.chr 'u') (.seq (.chr 'e') (.seq (.chr 's') (.chr 't')))))))))))))))))))), 0, []⟩

-- gapic/samplegen_utils/snippet_index.py — <module>: re.compile #3
-- source: '^\\s+# Handle the response'
def responseHandling : Pattern := ⟨(.seq .bol (.seq (.seq (.cls false [.space]) (.star (.cls false [.space]) true)) (.seq (.chr '#') (.seq (.chr ' ') (.seq (.chr 'H') (.seq (.chr 'a') (.seq (.chr 'n') (.seq (.chr 'd') (.seq (.chr 'l') (.seq (.chr 'e') (.seq (.chr ' ') (.seq (.chr 't') (.seq (.chr 'h') (.seq (.chr 'e') (.seq (.chr ' ') (.seq (.chr 'r') (.seq (.chr 'e') (.seq (.chr 's') (.seq (.chr 'p') (.seq (.chr 'o') (.seq (.chr 'n') (.seq (.chr 's') (.chr 'e'))))))))))))))))))))))), 0, []⟩

-- gapic/utils/lines.py — <module>: NUMBERED_LIST_REGEX
-- source: '^\\d+\\. '
def numberedList : Pattern := ⟨(.seq .bol (.seq (.seq (.cls false [.digit]) (.star (.cls false [.digit]) true)) (.seq (.chr '.') (.chr ' ')))), 0, []⟩

-- gapic/schema/naming.py — Naming.build: pattern
-- source: '^((?P<namespace>[a-z0-9_.]+)\\.)?(?P<name>[a-z0-9_]+)'
def namingPattern : Pattern := ⟨(.seq .bol (.seq (.alt (.group 1 (.seq (.group 2 (.seq (.cls false [.range 'a' 'z', .range '0' '9', .ch '_', .ch '.']) (.star (.cls false [.range 'a' 'z', .range '0' '9', .ch '_', .ch '.']) true))) (.chr '.'))) .eps) (.group 3 (.seq (.cls false [.range 'a' 'z', .range '0' '9', .ch '_']) (.star (.cls false [.range 'a' 'z', .range '0' '9', .ch '_']) true))))), 3, [("namespace", 2), ("name", 3)]⟩

-- gapic/schema/naming.py — Naming.build: version
-- source: '\\.(?P<version>v[0-9]+(p[0-9]+)?((alpha|beta)[0-9]*)?)'
def namingVersion : Pattern := ⟨(.seq (.chr '.') (.group 1 (.seq (.chr 'v') (.seq (.seq (.cls false [.range '0' '9']) (.star (.cls false [.range '0' '9']) true)) (.seq (.alt (.group 2 (.seq (.chr 'p') (.seq (.cls false [.range '0' '9']) (.star (.cls false [.range '0' '9']) true)))) .eps) (.alt (.group 3 (.seq (.group 4 (.alt (.seq (.chr 'a') (.seq (.chr 'l') (.seq (.chr 'p') (.seq (.chr 'h') (.chr 'a'))))) (.seq (.chr 'b') (.seq (.chr 'e') (.seq (.chr 't') (.chr 'a')))))) (.star (.cls false [.range '0' '9']) true))) .eps)))))), 4, [("version", 1)]⟩

-- gapic/schema/metadata.py — Address.convert_to_versioned_package: version_regex
-- source: '^v\\d[^/]*$'
def versionedPackage : Pattern := ⟨(.seq .bol (.seq (.chr 'v') (.seq (.cls false [.digit]) (.seq (.star (.cls true [.ch '/']) true) .eol)))), 0, []⟩

end GapicModel.Pinned
