import GapicModel.Model.Transports
import GapicModel.Model.Imports
import GapicModel.Lemmas.C01Imports
/-
C01 — the package exposes one synchronous client per service (plus an asyncio client when gRPC is
requested) offering exactly the requested transports, gRPC being the default when requested and REST
otherwise.  (The clause "every emitted .py parses and the package imports" is decided by execution on
every case of the C01 check: CPython is outside any model stated here.)

Second part (`Model/Imports.lean`): the import statements BETWEEN the emitted modules of a service package name
emitted modules only — for every option list over {grpc, rest}, every API shape, every service — provided the
async-REST experiment is not switched on without gRPC (`AsyncNeedsGrpc`; the excluded point is a defect of the
unchanged generator, findings/C01.json `import-error:async-rest-without-grpc`, and the hypothesis is necessary:
`async_rest_without_grpc_breaks_imports`); the registry's classes are the ones `client.py` imports; the client names
the package `__init__` asks for are bound by the service package; `utils.empty` is characterised line by line.
-/
namespace GapicModel.Props.C01
open GapicModel GapicModel.Model.Emit GapicModel.Model.Transports GapicModel.Model.Imports GapicModel.Lemmas.C01Imports

/-- supported option sets: `transport` lists only `grpc` and/or `rest` -/
def Supported (o : Opts) : Prop := ∀ t ∈ o.transport, t = grpc ∨ t = rest

section AuxMem

theorem contains_true_iff (l : List Str) (x : Str) : l.contains x = true ↔ x ∈ l := List.contains_iff_mem

theorem contains_false_iff (l : List Str) (x : Str) : l.contains x = false ↔ x ∉ l := by
  constructor
  · intro h hm; rw [(contains_true_iff l x).mpr hm] at h; cases h
  · intro hn
    cases h : l.contains x with
    | false => rfl
    | true => exact absurd ((contains_true_iff l x).mp h) hn

end AuxMem

/-- **The registry holds exactly the requested transports**: grpc ⇒ `grpc`, `grpc_asyncio`;
rest ⇒ `rest` (and `rest_asyncio` only with the async-REST experiment); nothing else. -/
theorem registry_exact (o : Opts) (l : Str) :
    l ∈ registry o ↔
      (grpc ∈ o.transport ∧ (l = grpc ∨ l = grpcAsyncio)) ∨
      (rest ∈ o.transport ∧ (l = rest ∨ (o.restAsync = true ∧ l = restAsyncio))) := by
  unfold registry
  cases hg : o.transport.contains grpc <;> cases hr : o.transport.contains rest <;> cases ha : o.restAsync
  all_goals
    first
      | (have hg' := (contains_false_iff _ _).mp hg)
      | (have hg' := (contains_true_iff _ _).mp hg)
  all_goals
    first
      | (have hr' := (contains_false_iff _ _).mp hr)
      | (have hr' := (contains_true_iff _ _).mp hr)
  all_goals simp [hg', hr', or_assoc]

/-- **gRPC is the default when requested** -/
theorem default_grpc_when_requested (o : Opts) (h : grpc ∈ o.transport) : defaultTransport o = some grpc := by
  have h1 : o.transport.contains grpc = true := (contains_true_iff _ _).mpr h
  unfold defaultTransport registry
  rw [h1]; rfl

/-- **REST is the default otherwise** -/
theorem default_rest_otherwise (o : Opts) (hg : grpc ∉ o.transport) (hr : rest ∈ o.transport) :
    defaultTransport o = some rest := by
  have h1 : o.transport.contains grpc = false := (contains_false_iff _ _).mpr hg
  have h2 : o.transport.contains rest = true := (contains_true_iff _ _).mpr hr
  unfold defaultTransport registry
  rw [h1, h2]; rfl

/-- no transport requested from {grpc, rest}: the client has an empty registry (no default at all) -/
theorem no_default_without_transport (o : Opts) (hg : grpc ∉ o.transport) (hr : rest ∉ o.transport) :
    registry o = [] := by
  have h1 : o.transport.contains grpc = false := (contains_false_iff _ _).mpr hg
  have h2 : o.transport.contains rest = false := (contains_false_iff _ _).mpr hr
  unfold registry
  rw [h1, h2]; rfl

section Aux

/-- under `Supported`, "some requested transport is a substring of the template name" only depends on
which of the two transports are requested -/
theorem any_supported_list (l : List Str) (hs : ∀ t ∈ l, t = grpc ∨ t = rest) (f : Str → Bool) :
    l.any f = ((l.contains grpc && f grpc) || (l.contains rest && f rest)) := by
  induction l with
  | nil => simp
  | cons x xs ih =>
    have hx := hs x (by simp)
    have ih' := ih (fun t ht => hs t (by simp [ht]))
    simp only [List.any_cons, List.contains_cons, ih']
    rcases hx with hx | hx
    · subst hx
      have h1 : (rest == grpc) = false := by decide
      have h2 : (grpc == grpc) = true := by decide
      rw [h1, h2]
      cases f grpc <;> cases f rest <;> cases xs.contains grpc <;> cases xs.contains rest <;> rfl
    · subst hx
      have h1 : (grpc == rest) = false := by decide
      have h2 : (rest == rest) = true := by decide
      rw [h1, h2]
      cases f grpc <;> cases f rest <;> cases xs.contains grpc <;> cases xs.contains rest <;> rfl

theorem any_supported (o : Opts) (hs : Supported o) (f : Str → Bool) :
    o.transport.any f = ((o.transport.contains grpc && f grpc) || (o.transport.contains rest && f rest)) :=
  any_supported_list o.transport hs f

/-- the gate as a Boolean function of (grpc requested, rest requested, async REST) -/
def gateB (g r a : Bool) (tname : Str) : Bool :=
  !( (containsSub ['t','r','a','n','s','p','o','r','t'] tname &&
        !((containsSub ['_','_','i','n','i','t','_','_'] tname || (containsSub ['b','a','s','e'] tname ||
           (containsSub ['R','E','A','D','M','E'] tname || false))) ||
          ((g && containsSub grpc tname) || (r && containsSub rest tname))))
    || (containsSub ['a','s','y','n','c','_','c','l','i','e','n','t'] tname && !g && !a)
    || (containsSub ['r','e','s','t','_','a','s','y','n','c','i','o'] tname && !a)
    || (containsSub ['r','e','s','t','_','b','a','s','e'] tname && !r))

theorem gate_eq (o : Opts) (hs : Supported o) (tname : Str) :
    serviceGate tname o = gateB (o.transport.contains grpc) (o.transport.contains rest) o.restAsync tname := by
  unfold serviceGate isDesiredTransport gateB
  rw [List.any_append, any_supported o hs]
  simp only [List.any_cons, List.any_nil, grpc, rest]

end Aux

/-- **Transport modules are emitted exactly for the requested transports** (default template set):
`grpc.py`, `grpc_asyncio.py` iff grpc is requested; `rest.py`, `rest_base.py` iff rest is requested;
`rest_asyncio.py` iff rest and the async-REST experiment; `base.py`, `__init__.py` always. -/
theorem transport_modules_exact (o : Opts) (hs : Supported o) :
    serviceGate (tpl ['g','r','p','c']) o = o.transport.contains grpc ∧
    serviceGate (tpl grpcAsyncio) o = o.transport.contains grpc ∧
    serviceGate (tpl ['r','e','s','t']) o = o.transport.contains rest ∧
    serviceGate (tpl ['r','e','s','t','_','b','a','s','e']) o = o.transport.contains rest ∧
    serviceGate (tpl restAsyncio) o = (o.transport.contains rest && o.restAsync) ∧
    serviceGate (tpl ['b','a','s','e']) o = true ∧
    serviceGate (tpl ['_','_','i','n','i','t','_','_']) o = true := by
  have key : ∀ (g r a : Bool),
      gateB g r a (tpl ['g','r','p','c']) = g ∧ gateB g r a (tpl grpcAsyncio) = g ∧
      gateB g r a (tpl ['r','e','s','t']) = r ∧ gateB g r a (tpl ['r','e','s','t','_','b','a','s','e']) = r ∧
      gateB g r a (tpl restAsyncio) = (r && a) ∧ gateB g r a (tpl ['b','a','s','e']) = true ∧
      gateB g r a (tpl ['_','_','i','n','i','t','_','_']) = true := by decide +kernel
  have k := key (o.transport.contains grpc) (o.transport.contains rest) o.restAsync
  simp only [gate_eq o hs]
  exact k

/-- **One asyncio client module iff gRPC is requested** (or the async-REST experiment): the gate of
`async_client.py.j2`; `client.py.j2` is never gated. -/
theorem async_client_iff (o : Opts) :
    serviceGate ['%', 'n', 'a', 'm', 'e', 's', 'p', 'a', 'c', 'e', '/', '%', 'n', 'a', 'm', 'e', '_', '%', 'v', 'e', 'r', 's', 'i', 'o', 'n', '/', '%', 's', 'u', 'b', '/', 's', 'e', 'r', 'v', 'i', 'c', 'e', 's', '/', '%', 's', 'e', 'r', 'v', 'i', 'c', 'e', '/', 'a', 's', 'y', 'n', 'c', '_', 'c', 'l', 'i', 'e', 'n', 't', '.', 'p', 'y', '.', 'j', '2'] o = hasAsyncClient o ∧
    serviceGate ['%', 'n', 'a', 'm', 'e', 's', 'p', 'a', 'c', 'e', '/', '%', 'n', 'a', 'm', 'e', '_', '%', 'v', 'e', 'r', 's', 'i', 'o', 'n', '/', '%', 's', 'u', 'b', '/', 's', 'e', 'r', 'v', 'i', 'c', 'e', 's', '/', '%', 's', 'e', 'r', 'v', 'i', 'c', 'e', '/', 'c', 'l', 'i', 'e', 'n', 't', '.', 'p', 'y', '.', 'j', '2'] o = true := by
  have h1 : containsSub ['t','r','a','n','s','p','o','r','t'] ['%', 'n', 'a', 'm', 'e', 's', 'p', 'a', 'c', 'e', '/', '%', 'n', 'a', 'm', 'e', '_', '%', 'v', 'e', 'r', 's', 'i', 'o', 'n', '/', '%', 's', 'u', 'b', '/', 's', 'e', 'r', 'v', 'i', 'c', 'e', 's', '/', '%', 's', 'e', 'r', 'v', 'i', 'c', 'e', '/', 'a', 's', 'y', 'n', 'c', '_', 'c', 'l', 'i', 'e', 'n', 't', '.', 'p', 'y', '.', 'j', '2'] = false := by decide
  have h2 : containsSub ['a','s','y','n','c','_','c','l','i','e','n','t'] ['%', 'n', 'a', 'm', 'e', 's', 'p', 'a', 'c', 'e', '/', '%', 'n', 'a', 'm', 'e', '_', '%', 'v', 'e', 'r', 's', 'i', 'o', 'n', '/', '%', 's', 'u', 'b', '/', 's', 'e', 'r', 'v', 'i', 'c', 'e', 's', '/', '%', 's', 'e', 'r', 'v', 'i', 'c', 'e', '/', 'a', 's', 'y', 'n', 'c', '_', 'c', 'l', 'i', 'e', 'n', 't', '.', 'p', 'y', '.', 'j', '2'] = true := by decide
  have h3 : containsSub ['r','e','s','t','_','a','s','y','n','c','i','o'] ['%', 'n', 'a', 'm', 'e', 's', 'p', 'a', 'c', 'e', '/', '%', 'n', 'a', 'm', 'e', '_', '%', 'v', 'e', 'r', 's', 'i', 'o', 'n', '/', '%', 's', 'u', 'b', '/', 's', 'e', 'r', 'v', 'i', 'c', 'e', 's', '/', '%', 's', 'e', 'r', 'v', 'i', 'c', 'e', '/', 'a', 's', 'y', 'n', 'c', '_', 'c', 'l', 'i', 'e', 'n', 't', '.', 'p', 'y', '.', 'j', '2'] = false := by decide
  have h4 : containsSub ['r','e','s','t','_','b','a','s','e'] ['%', 'n', 'a', 'm', 'e', 's', 'p', 'a', 'c', 'e', '/', '%', 'n', 'a', 'm', 'e', '_', '%', 'v', 'e', 'r', 's', 'i', 'o', 'n', '/', '%', 's', 'u', 'b', '/', 's', 'e', 'r', 'v', 'i', 'c', 'e', 's', '/', '%', 's', 'e', 'r', 'v', 'i', 'c', 'e', '/', 'a', 's', 'y', 'n', 'c', '_', 'c', 'l', 'i', 'e', 'n', 't', '.', 'p', 'y', '.', 'j', '2'] = false := by decide
  have k1 : containsSub ['t','r','a','n','s','p','o','r','t'] ['%', 'n', 'a', 'm', 'e', 's', 'p', 'a', 'c', 'e', '/', '%', 'n', 'a', 'm', 'e', '_', '%', 'v', 'e', 'r', 's', 'i', 'o', 'n', '/', '%', 's', 'u', 'b', '/', 's', 'e', 'r', 'v', 'i', 'c', 'e', 's', '/', '%', 's', 'e', 'r', 'v', 'i', 'c', 'e', '/', 'c', 'l', 'i', 'e', 'n', 't', '.', 'p', 'y', '.', 'j', '2'] = false := by decide
  have k2 : containsSub ['a','s','y','n','c','_','c','l','i','e','n','t'] ['%', 'n', 'a', 'm', 'e', 's', 'p', 'a', 'c', 'e', '/', '%', 'n', 'a', 'm', 'e', '_', '%', 'v', 'e', 'r', 's', 'i', 'o', 'n', '/', '%', 's', 'u', 'b', '/', 's', 'e', 'r', 'v', 'i', 'c', 'e', 's', '/', '%', 's', 'e', 'r', 'v', 'i', 'c', 'e', '/', 'c', 'l', 'i', 'e', 'n', 't', '.', 'p', 'y', '.', 'j', '2'] = false := by decide
  have k3 : containsSub ['r','e','s','t','_','a','s','y','n','c','i','o'] ['%', 'n', 'a', 'm', 'e', 's', 'p', 'a', 'c', 'e', '/', '%', 'n', 'a', 'm', 'e', '_', '%', 'v', 'e', 'r', 's', 'i', 'o', 'n', '/', '%', 's', 'u', 'b', '/', 's', 'e', 'r', 'v', 'i', 'c', 'e', 's', '/', '%', 's', 'e', 'r', 'v', 'i', 'c', 'e', '/', 'c', 'l', 'i', 'e', 'n', 't', '.', 'p', 'y', '.', 'j', '2'] = false := by decide
  have k4 : containsSub ['r','e','s','t','_','b','a','s','e'] ['%', 'n', 'a', 'm', 'e', 's', 'p', 'a', 'c', 'e', '/', '%', 'n', 'a', 'm', 'e', '_', '%', 'v', 'e', 'r', 's', 'i', 'o', 'n', '/', '%', 's', 'u', 'b', '/', 's', 'e', 'r', 'v', 'i', 'c', 'e', 's', '/', '%', 's', 'e', 'r', 'v', 'i', 'c', 'e', '/', 'c', 'l', 'i', 'e', 'n', 't', '.', 'p', 'y', '.', 'j', '2'] = false := by decide
  constructor
  · unfold serviceGate hasAsyncClient grpc
    rw [h1, h2, h3, h4]
    cases o.transport.contains ['g', 'r', 'p', 'c'] <;> cases o.restAsync <;> rfl
  · unfold serviceGate
    rw [k1, k2, k3, k4]; rfl

/-- one sync client module per service: `client.py.j2` is rendered once for every service of the view -/
theorem one_client_per_service (o : Opts) (nm : Naming) (view : Path) (services protos : List Str) :
    renderView o nm ['%', 'n', 'a', 'm', 'e', 's', 'p', 'a', 'c', 'e', '/', '%', 'n', 'a', 'm', 'e', '_', '%', 'v', 'e', 'r', 's', 'i', 'o', 'n', '/', '%', 's', 'u', 'b', '/', 's', 'e', 'r', 'v', 'i', 'c', 'e', 's', '/', '%', 's', 'e', 'r', 'v', 'i', 'c', 'e', '/', 'c', 'l', 'i', 'e', 'n', 't', '.', 'p', 'y', '.', 'j', '2']
      (parseTemplate ['%', 'n', 'a', 'm', 'e', 's', 'p', 'a', 'c', 'e', '/', '%', 'n', 'a', 'm', 'e', '_', '%', 'v', 'e', 'r', 's', 'i', 'o', 'n', '/', '%', 's', 'u', 'b', '/', 's', 'e', 'r', 'v', 'i', 'c', 'e', 's', '/', '%', 's', 'e', 'r', 'v', 'i', 'c', 'e', '/', 'c', 'l', 'i', 'e', 'n', 't', '.', 'p', 'y', '.', 'j', '2']) view services protos
    = services.map fun s => getFilename ⟨nm, view, some s, none⟩
      (parseTemplate ['%', 'n', 'a', 'm', 'e', 's', 'p', 'a', 'c', 'e', '/', '%', 'n', 'a', 'm', 'e', '_', '%', 'v', 'e', 'r', 's', 'i', 'o', 'n', '/', '%', 's', 'u', 'b', '/', 's', 'e', 'r', 'v', 'i', 'c', 'e', 's', '/', '%', 's', 'e', 'r', 'v', 'i', 'c', 'e', '/', 'c', 'l', 'i', 'e', 'n', 't', '.', 'p', 'y', '.', 'j', '2']) := by
  have hp : hasVar (parseTemplate ['%', 'n', 'a', 'm', 'e', 's', 'p', 'a', 'c', 'e', '/', '%', 'n', 'a', 'm', 'e', '_', '%', 'v', 'e', 'r', 's', 'i', 'o', 'n', '/', '%', 's', 'u', 'b', '/', 's', 'e', 'r', 'v', 'i', 'c', 'e', 's', '/', '%', 's', 'e', 'r', 'v', 'i', 'c', 'e', '/', 'c', 'l', 'i', 'e', 'n', 't', '.', 'p', 'y', '.', 'j', '2']) .proto = false := by decide
  have hsv : hasVar (parseTemplate ['%', 'n', 'a', 'm', 'e', 's', 'p', 'a', 'c', 'e', '/', '%', 'n', 'a', 'm', 'e', '_', '%', 'v', 'e', 'r', 's', 'i', 'o', 'n', '/', '%', 's', 'u', 'b', '/', 's', 'e', 'r', 'v', 'i', 'c', 'e', 's', '/', '%', 's', 'e', 'r', 'v', 'i', 'c', 'e', '/', 'c', 'l', 'i', 'e', 'n', 't', '.', 'p', 'y', '.', 'j', '2']) .service = true := by decide
  simp only [renderView, hp, hsv, (async_client_iff o).2, if_true, Bool.false_eq_true, if_false]


/-! ## Imports between the emitted modules of a service package (`Model/Imports.lean`) -/

/-- the async-REST experiment is used together with gRPC (the generator emits `async_client.py` for
`rest` + experiment alone, but that module imports `.transports.grpc_asyncio` unconditionally) -/
def AsyncNeedsGrpc (o : Opts) : Prop := o.restAsync = true → grpc ∈ o.transport

section AuxImports

theorem gate_table (g r a : Bool) (m : SMod) (hm : m ≠ .gapicVersion) :
    gateB g r a m.template = emittedT g r a true m := by
  cases m <;> first | exact absurd rfl hm | (revert g r a; decide +kernel)

/-- relative imports: one dot, never climbing out of the service directory, naming the file of their target,
which is neither `pagers` nor `gapic_version` -/
def relOk (m : SMod) (i : Imp) : Bool :=
  match i.anchor with
  | .rel n => decide (resolveRel m.rel n i.path = i.target.rel) && decide (1 ≤ n) && decide (n ≤ m.rel.length) &&
              decide (i.target ≠ .gapicVersion) && decide (i.target ≠ .pagers) && decide (m ≠ .gapicVersion)
  | _ => true

theorem relOk_all (g r a paged : Bool) (m : SMod) : (importsB g r a paged m).all (relOk m) = true := by
  cases g <;> cases r <;> cases a <;> cases paged <;> cases m <;> decide

theorem closureB (g r a paged : Bool) (h : a = true → g = true) (m : SMod) (hm : emittedT g r a paged m = true) :
    ∀ i ∈ importsB g r a paged m, emittedT g r a paged i.target = true := by
  cases g <;> cases a <;>
    first
      | exact absurd (h rfl) (by decide)
      | (clear h; revert hm; cases r <;> cases paged <;> cases m <;> decide)

theorem gate_of_emitted (o : Opts) (paged : Bool) (m : SMod) (h1 : m ≠ .gapicVersion) (h2 : m ≠ .pagers)
    (h : emitted o paged m = true) : serviceGate m.template o = true := by
  cases m <;> first | exact absurd rfl h1 | exact absurd rfl h2 | exact h

end AuxImports

/-- **Which modules a service contributes** (all twelve, closed form; extends `transport_modules_exact` to the
client modules and to `pagers.py`, which the empty-module rule drops iff the service has no paged method) -/
theorem service_modules_emitted_exact (o : Opts) (hs : Supported o) (paged : Bool) (m : SMod) :
    emitted o paged m = emittedT (o.transport.contains grpc) (o.transport.contains rest) o.restAsync paged m := by
  cases m <;> simp only [emitted, gate_eq o hs] <;> first | rfl | (rw [gate_table _ _ _ _ (by decide)]; simp [emittedT])

/-- **Every import between the modules of a service package names an emitted module** (hard or inside
`try/except ImportError`; relative or absolute), for every supported option list with `AsyncNeedsGrpc`. -/
theorem service_imports_resolve (o : Opts) (hs : Supported o) (ha : AsyncNeedsGrpc o) (paged : Bool) (m : SMod)
    (hm : emitted o paged m = true) : ∀ i ∈ imports o paged m, emitted o paged i.target = true := by
  intro i hi
  rw [service_modules_emitted_exact o hs] at hm ⊢
  rw [imports_eq] at hi
  refine closureB _ _ _ _ ?_ m hm i hi
  intro h
  exact (contains_true_iff _ _).mpr (ha h)

/-- the hypothesis `AsyncNeedsGrpc` is necessary: for EVERY supported option list with the experiment on and gRPC
not requested, `async_client.py` is emitted, imports `.transports.grpc_asyncio` unconditionally, and that module
is not emitted (reproduced on the real generator: corpus/C01/async_rest_without_grpc.json) -/
theorem async_rest_without_grpc_breaks_imports (o : Opts) (hs : Supported o) (ha : o.restAsync = true)
    (hg : grpc ∉ o.transport) (paged : Bool) :
    emitted o paged .asyncClient = true ∧
    relTo [sTransports, grpcAsyncio] .grpcAsyncio ∈ imports o paged .asyncClient ∧
    emitted o paged .grpcAsyncio = false := by
  have h1 : o.transport.contains grpc = false := (contains_false_iff _ _).mpr hg
  rw [service_modules_emitted_exact o hs, service_modules_emitted_exact o hs, imports_eq, h1, ha]
  cases o.transport.contains rest <;> cases paged <;> decide

theorem service_imports_resolve_counterexample :
    emitted ⟨[rest], false, true, false⟩ false .asyncClient = true ∧
    (⟨.rel 1, [sTransports, grpcAsyncio], true, .grpcAsyncio⟩ : Imp) ∈ imports ⟨[rest], false, true, false⟩ false .asyncClient ∧
    emitted ⟨[rest], false, true, false⟩ false .grpcAsyncio = false := by decide

/-- **Relative imports name the FILE of their target, and that file is in the response**: for every API shape,
every view (root or sub-package), every service of it, `from .transports.base import …` written in an emitted
module resolves (Python's rule for relative imports) to a file the generator renders. -/
theorem intra_service_imports_resolve (o : Opts) (sh : Shape) (hs : Supported o) (ha : AsyncNeedsGrpc o)
    (view : Path) (s : Str) (hin : InView sh view s) (hne : s ≠ []) (paged : Bool) (m : SMod)
    (hm : emitted o paged m = true) :
    ∀ i ∈ imports o paged m, ∀ n, i.anchor = .rel n →
      resolveRel (fileOf sh.naming view s m) n i.path = fileOf sh.naming view s i.target ∧
      fileOf sh.naming view s i.target ∈ renders o sh Pinned.templatesChars := by
  intro i hi n hn
  have hem := service_imports_resolve o hs ha paged m hm i hi
  have hok := relOk_all (o.transport.contains grpc) (o.transport.contains rest) o.restAsync paged m
  rw [← imports_eq, List.all_eq_true] at hok
  have hi' := hok i hi
  simp only [relOk, hn, Bool.and_eq_true, decide_eq_true_eq] at hi'
  obtain ⟨⟨⟨⟨⟨h1, h2⟩, h3⟩, h4⟩, h5⟩, h6⟩ := hi'
  constructor
  · rw [service_file_layout _ _ _ m hne h6, service_file_layout _ _ _ i.target hne h4,
      resolveRel_prefix _ _ _ _ h3 h2, h1]
  · exact service_module_rendered o sh view s i.target h4 hin (gate_of_emitted o paged i.target h4 h5 hem)

/-- **The registry's transport classes are the ones `client.py` imports**: every registry key has its transport
module imported by the client module -/
theorem registry_classes_imported (o : Opts) (paged : Bool) (l : Str) (hl : l ∈ registry o) :
    ∃ i ∈ imports o paged .client, i.target.modPath = [sTransports, l] := by
  rw [imports_eq]
  rcases (registry_exact o l).mp hl with ⟨hg, h | h⟩ | ⟨hr, h | ⟨ha, h⟩⟩
  · subst h; rw [(contains_true_iff _ _).mpr hg]
    exact ⟨relTo [sTransports, grpc] .grpc, by cases paged <;> simp [importsB], rfl⟩
  · subst h; rw [(contains_true_iff _ _).mpr hg]
    exact ⟨relTo [sTransports, grpcAsyncio] .grpcAsyncio, by cases paged <;> simp [importsB], rfl⟩
  · subst h; rw [(contains_true_iff _ _).mpr hr]
    exact ⟨relTo [sTransports, rest] .rest, by cases paged <;> simp [importsB], rfl⟩
  · subst h; rw [(contains_true_iff _ _).mpr hr, ha]
    exact ⟨⟨.rel 1, [sTransports, restAsyncio], false, .restAsyncio⟩, by cases paged <;> simp [importsB], rfl⟩

/-- … and nothing else from `transports/` but `base` -/
theorem client_imports_only_registered (o : Opts) (paged : Bool) : ∀ i ∈ imports o paged .client,
    i.target = .gapicVersion ∨ i.target = .pagers ∨ i.target = .base ∨
      ∃ l ∈ registry o, i.target.modPath = [sTransports, l] := by
  rw [imports_eq]
  unfold registry
  cases o.transport.contains grpc <;> cases o.transport.contains rest <;> cases o.restAsync <;> cases paged <;> decide

/-- **The client names the package `__init__` imports are bound by the service package**, and each is defined
in an emitted module: the synchronous client always, the asyncio client exactly when gRPC is requested -/
theorem client_names_exported (o : Opts) (hs : Supported o) (paged : Bool) (c : ClientName) (hc : c ∈ pkgInitWants o) :
    c ∈ svcInitExports o ∧ emitted o paged c.definedIn = true ∧
    (relTo c.definedIn.modPath c.definedIn) ∈ imports o paged .init := by
  rw [service_modules_emitted_exact o hs, imports_eq]
  unfold pkgInitWants at hc
  unfold svcInitExports
  revert hc
  cases o.transport.contains grpc <;> cases c <;> simp [emittedT, ClientName.definedIn, importsB, SMod.modPath, relTo]

theorem async_client_exported_iff_grpc (o : Opts) : ClientName.async ∈ svcInitExports o ↔ grpc ∈ o.transport := by
  rw [← contains_true_iff]
  unfold svcInitExports
  cases o.transport.contains grpc <;> simp

/-! ## Module-name collisions of a proto file (`Proto.names`) -/

section AuxNames

theorem twoPackages_iff (refs : List Ref) (m : Str) :
    twoPackages refs m = true ↔
      ∃ a ∈ refs, ∃ b ∈ refs, a.module = m ∧ b.module = m ∧ a.package ≠ b.package := by
  simp [twoPackages, List.any_eq_true, and_assoc]

theorem twoPackages_mono (small big : List Ref) (h : ∀ r ∈ small, r ∈ big) (m : Str)
    (ht : twoPackages small m = true) : twoPackages big m = true := by
  rw [twoPackages_iff] at ht ⊢
  obtain ⟨a, ha, b, hb, h1, h2, h3⟩ := ht
  exact ⟨a, h a ha, b, h b hb, h1, h2, h3⟩

end AuxNames

/-- **Which module names are collisions**: exactly the names some reference of the FILE uses, and that either two
references anywhere in the file (of one message or of two) use from distinct proto packages, or that are reserved -/
theorem module_collision_iff (reserved : List Str) (msgs : List (List Ref)) (m : Str) :
    m ∈ moduleCollisions reserved msgs ↔
      (∃ r ∈ msgs.flatten, r.module = m) ∧
      ((∃ a ∈ msgs.flatten, ∃ b ∈ msgs.flatten, a.module = m ∧ b.module = m ∧ a.package ≠ b.package) ∨ m ∈ reserved) := by
  simp only [moduleCollisions, List.mem_filter, List.mem_map, Bool.or_eq_true, twoPackages_iff, contains_true_iff]

/-- **Union first, then count**: a module name that two DIFFERENT messages of one file use from two distinct packages
is in the file's collision set (so both imports get an alias), although neither message sees both packages -/
theorem collision_across_messages (reserved : List Str) (msgs : List (List Ref)) (ma mb : List Ref)
    (ha : ma ∈ msgs) (hb : mb ∈ msgs) (a b : Ref) (hma : a ∈ ma) (hmb : b ∈ mb)
    (hm : a.module = b.module) (hp : a.package ≠ b.package) :
    a.module ∈ moduleCollisions reserved msgs ∧ a.module ∈ protoNames plain reserved msgs := by
  have hfa : a ∈ msgs.flatten := List.mem_flatten.mpr ⟨ma, ha, hma⟩
  have hfb : b ∈ msgs.flatten := List.mem_flatten.mpr ⟨mb, hb, hmb⟩
  have h1 : a.module ∈ moduleCollisions reserved msgs :=
    (module_collision_iff reserved msgs a.module).mpr ⟨⟨a, hfa, rfl⟩, Or.inl ⟨a, hfa, b, hfb, rfl, hm.symm, hp⟩⟩
  exact ⟨h1, by simp [protoNames, h1]⟩

/-- the per-message table finds no more than the per-file table … -/
theorem per_message_subset (reserved : List Str) (msgs : List (List Ref)) (m : Str)
    (h : m ∈ moduleCollisionsPerMessage reserved msgs) : m ∈ moduleCollisions reserved msgs := by
  simp only [moduleCollisionsPerMessage, List.mem_flatMap, List.mem_filter, List.mem_map, Bool.or_eq_true] at h
  obtain ⟨refs, hrefs, ⟨r, hr, hrm⟩, hc⟩ := h
  have hsub : ∀ x ∈ refs, x ∈ msgs.flatten := fun x hx => List.mem_flatten.mpr ⟨refs, hrefs, hx⟩
  simp only [moduleCollisions, List.mem_filter, List.mem_map, Bool.or_eq_true]
  refine ⟨⟨r, hsub r hr, hrm⟩, ?_⟩
  rcases hc with hc | hc
  · exact Or.inl (twoPackages_mono refs _ hsub m hc)
  · exact Or.inr hc

/-- … and strictly less: two messages each using one of two same-named modules (`common` of the API package and of a
sub-package) — the per-file set has `common`, the per-message set is empty (the shape of seeded/seed9_C01) -/
theorem per_message_misses_counterexample :
    moduleCollisions [] [[⟨['c','o','m','m','o','n'], ['a','.','v','1']⟩], [⟨['c','o','m','m','o','n'], ['a','.','v','1','.','s','u','b']⟩]]
      = [['c','o','m','m','o','n'], ['c','o','m','m','o','n']] ∧
    moduleCollisionsPerMessage [] [[⟨['c','o','m','m','o','n'], ['a','.','v','1']⟩], [⟨['c','o','m','m','o','n'], ['a','.','v','1','.','s','u','b']⟩]] = [] := by
  decide

/-- with one message (or one message that reaches both packages) the two tables agree -/
theorem per_message_eq_single (reserved : List Str) (refs : List Ref) :
    moduleCollisionsPerMessage reserved [refs] = moduleCollisions reserved [refs] := by
  simp [moduleCollisionsPerMessage, moduleCollisions]

/-! ## The empty-module rule (`utils.empty`, end of `Generator._get_file`) -/

/-- lines are judged independently: `empty(a + "\n" + b) = empty(a) and empty(b)` -/
theorem empty_append_newline (a b : Str) :
    emptyContent (a ++ '\n' :: b) = (emptyContent a && emptyContent b) := emptyScan_append_newline false a b

/-- one line is "empty" iff it is blank or its first non-blank character is `#` -/
theorem empty_line (l : Str) (hn : '\n' ∉ l) : emptyContent l = blankOrComment l := emptyScan_line l hn

/-- **`empty(content)` iff every line of `content` is blank or a comment** (all texts, all lengths) -/
theorem empty_iff_lines (ls : List Str) (hls : ∀ l ∈ ls, '\n' ∉ l) (hne : ls ≠ []) :
    emptyContent (['\n'].intercalate ls) = ls.all blankOrComment := by
  induction ls with
  | nil => exact absurd rfl hne
  | cons l rest ih =>
    cases rest with
    | nil => simp [List.intercalate, empty_line l (hls l (by simp))]
    | cons l2 rest2 =>
      have h : ['\n'].intercalate (l :: l2 :: rest2) = l ++ '\n' :: ['\n'].intercalate (l2 :: rest2) := by
        simp [List.intercalate, List.intersperse]
      rw [h, empty_append_newline, empty_line l (hls l (by simp)),
        ih (fun x hx => hls x (by simp [hx])) (by simp)]
      simp

/-- `__init__.py` and `py.typed` are never dropped; any other file is kept iff it holds a statement -/
theorem keep_rule (name content : Str) :
    (['_', '_', 'i', 'n', 'i', 't', '_', '_', '.', 'p', 'y'].isSuffixOf name = true → keepFile name content = true) ∧
    (['p', 'y', '.', 't', 'y', 'p', 'e', 'd'].isSuffixOf name = true → keepFile name content = true) ∧
    (['_', '_', 'i', 'n', 'i', 't', '_', '_', '.', 'p', 'y'].isSuffixOf name = false → ['p', 'y', '.', 't', 'y', 'p', 'e', 'd'].isSuffixOf name = false →
      keepFile name content = !emptyContent content) := by
  unfold keepFile
  refine ⟨fun h => by simp [h], fun h => by simp [h], fun h1 h2 => by simp [h1, h2]⟩

/-! ## Non-vacuity -/

example : Supported ⟨[grpc, rest], false, false, false⟩ := by
  intro t ht; simp at ht; rcases ht with h | h <;> simp [h]

example : registry ⟨[rest], false, false, false⟩ = [rest] ∧ defaultTransport ⟨[rest, grpc], false, false, false⟩ = some grpc := by decide


-- `AsyncNeedsGrpc`, `InView`, `s ≠ []`, `emitted … = true` are met by a grpc+rest library with the experiment on, a service
-- in a sub-package, and the client module (five relative imports, one of them soft)
example : AsyncNeedsGrpc ⟨[grpc, rest], false, true, false⟩ ∧
    InView ⟨⟨[['a']], ['l'], ['v', '1'], ['l', '_', 'v', '1']⟩, ⟨[], [], []⟩, [⟨[['s', 'u', 'b']], [['s', 'v', 'c']], []⟩]⟩ [['s', 'u', 'b']] ['s', 'v', 'c'] ∧
    (['s', 'v', 'c'] : Str) ≠ [] ∧ emitted ⟨[grpc, rest], false, true, false⟩ true .client = true ∧
    (imports ⟨[grpc, rest], false, true, false⟩ true .client).length = 7 := by
  refine ⟨fun _ => by decide, Or.inr ⟨⟨[['s', 'u', 'b']], [['s', 'v', 'c']], []⟩, by simp, rfl, by simp⟩, by decide, by decide, by decide⟩

example : (['r', 'e', 's', 't'] : Str) ∈ registry ⟨[rest], false, false, false⟩ ∧ ClientName.async ∈ pkgInitWants ⟨[grpc], false, false, false⟩ := by decide

-- `empty_iff_lines` on a licence header followed by one statement: not empty; without the statement: empty
example : emptyContent (['\n'].intercalate [['#', ' ', 'x'], [], [' ', ' '], ['x', ' ', '=', ' ', '1']]) = false ∧
    emptyContent (['\n'].intercalate [['#', ' ', 'x'], [], [' ', '\t'], [' ', '#']]) = true := by decide

-- `collision_across_messages`: two messages, one reference each, same module name, two packages
example : (⟨['c'], ['a']⟩ : Ref) ∈ [(⟨['c'], ['a']⟩ : Ref)] ∧ (⟨['c'], ['a']⟩ : Ref).module = (⟨['c'], ['a', '.', 'b']⟩ : Ref).module ∧
    (⟨['c'], ['a']⟩ : Ref).package ≠ (⟨['c'], ['a', '.', 'b']⟩ : Ref).package := by decide

end GapicModel.Props.C01
