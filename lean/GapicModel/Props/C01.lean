import GapicModel.Model.Transports
/-
C01 — the package exposes one synchronous client per service (plus an asyncio client when gRPC is
requested) offering exactly the requested transports, gRPC being the default when requested and REST
otherwise.  (The clause "every emitted .py parses and the package imports" is decided by execution on
every case of the C01 check: CPython is outside any model stated here.)
-/
namespace GapicModel.Props.C01
open GapicModel GapicModel.Model.Emit GapicModel.Model.Transports

/-- supported option sets: `transport` lists only `grpc` and/or `rest` -/
def Supported (o : Opts) : Prop := ∀ t ∈ o.transport, t = grpc ∨ t = rest

section AuxMem

theorem contains_true_iff (l : List Str) (x : Str) : l.contains x = true ↔ x ∈ l := List.contains_iff_mem

theorem contains_false_iff (l : List Str) (x : Str) : l.contains x = false ↔ x ∉ l := by
  constructor
  · intro h hm; rw [(contains_true_iff l x).mpr hm] at h; cases h
  · intro hn
    cases h : l.contains x with
    | false => rfl
    | true => exact absurd ((contains_true_iff l x).mp h) hn

end AuxMem

/-- **The registry holds exactly the requested transports**: grpc ⇒ `grpc`, `grpc_asyncio`;
rest ⇒ `rest` (and `rest_asyncio` only with the async-REST experiment); nothing else. -/
theorem registry_exact (o : Opts) (l : Str) :
    l ∈ registry o ↔
      (grpc ∈ o.transport ∧ (l = grpc ∨ l = grpcAsyncio)) ∨
      (rest ∈ o.transport ∧ (l = rest ∨ (o.restAsync = true ∧ l = restAsyncio))) := by
  unfold registry
  cases hg : o.transport.contains grpc <;> cases hr : o.transport.contains rest <;> cases ha : o.restAsync
  all_goals
    first
      | (have hg' := (contains_false_iff _ _).mp hg)
      | (have hg' := (contains_true_iff _ _).mp hg)
  all_goals
    first
      | (have hr' := (contains_false_iff _ _).mp hr)
      | (have hr' := (contains_true_iff _ _).mp hr)
  all_goals simp [hg', hr', or_assoc]

/-- **gRPC is the default when requested** -/
theorem default_grpc_when_requested (o : Opts) (h : grpc ∈ o.transport) : defaultTransport o = some grpc := by
  have h1 : o.transport.contains grpc = true := (contains_true_iff _ _).mpr h
  unfold defaultTransport registry
  rw [h1]; rfl

/-- **REST is the default otherwise** -/
theorem default_rest_otherwise (o : Opts) (hg : grpc ∉ o.transport) (hr : rest ∈ o.transport) :
    defaultTransport o = some rest := by
  have h1 : o.transport.contains grpc = false := (contains_false_iff _ _).mpr hg
  have h2 : o.transport.contains rest = true := (contains_true_iff _ _).mpr hr
  unfold defaultTransport registry
  rw [h1, h2]; rfl

/-- no transport requested from {grpc, rest}: the client has an empty registry (no default at all) -/
theorem no_default_without_transport (o : Opts) (hg : grpc ∉ o.transport) (hr : rest ∉ o.transport) :
    registry o = [] := by
  have h1 : o.transport.contains grpc = false := (contains_false_iff _ _).mpr hg
  have h2 : o.transport.contains rest = false := (contains_false_iff _ _).mpr hr
  unfold registry
  rw [h1, h2]; rfl

section Aux

/-- under `Supported`, "some requested transport is a substring of the template name" only depends on
which of the two transports are requested -/
theorem any_supported_list (l : List Str) (hs : ∀ t ∈ l, t = grpc ∨ t = rest) (f : Str → Bool) :
    l.any f = ((l.contains grpc && f grpc) || (l.contains rest && f rest)) := by
  induction l with
  | nil => simp
  | cons x xs ih =>
    have hx := hs x (by simp)
    have ih' := ih (fun t ht => hs t (by simp [ht]))
    simp only [List.any_cons, List.contains_cons, ih']
    rcases hx with hx | hx
    · subst hx
      have h1 : (rest == grpc) = false := by decide
      have h2 : (grpc == grpc) = true := by decide
      rw [h1, h2]
      cases f grpc <;> cases f rest <;> cases xs.contains grpc <;> cases xs.contains rest <;> rfl
    · subst hx
      have h1 : (grpc == rest) = false := by decide
      have h2 : (rest == rest) = true := by decide
      rw [h1, h2]
      cases f grpc <;> cases f rest <;> cases xs.contains grpc <;> cases xs.contains rest <;> rfl

theorem any_supported (o : Opts) (hs : Supported o) (f : Str → Bool) :
    o.transport.any f = ((o.transport.contains grpc && f grpc) || (o.transport.contains rest && f rest)) :=
  any_supported_list o.transport hs f

/-- the gate as a Boolean function of (grpc requested, rest requested, async REST) -/
def gateB (g r a : Bool) (tname : Str) : Bool :=
  !( (containsSub ['t','r','a','n','s','p','o','r','t'] tname &&
        !((containsSub ['_','_','i','n','i','t','_','_'] tname || (containsSub ['b','a','s','e'] tname ||
           (containsSub ['R','E','A','D','M','E'] tname || false))) ||
          ((g && containsSub grpc tname) || (r && containsSub rest tname))))
    || (containsSub ['a','s','y','n','c','_','c','l','i','e','n','t'] tname && !g && !a)
    || (containsSub ['r','e','s','t','_','a','s','y','n','c','i','o'] tname && !a)
    || (containsSub ['r','e','s','t','_','b','a','s','e'] tname && !r))

theorem gate_eq (o : Opts) (hs : Supported o) (tname : Str) :
    serviceGate tname o = gateB (o.transport.contains grpc) (o.transport.contains rest) o.restAsync tname := by
  unfold serviceGate isDesiredTransport gateB
  rw [List.any_append, any_supported o hs]
  simp only [List.any_cons, List.any_nil, grpc, rest]

end Aux

/-- **Transport modules are emitted exactly for the requested transports** (default template set):
`grpc.py`, `grpc_asyncio.py` iff grpc is requested; `rest.py`, `rest_base.py` iff rest is requested;
`rest_asyncio.py` iff rest and the async-REST experiment; `base.py`, `__init__.py` always. -/
theorem transport_modules_exact (o : Opts) (hs : Supported o) :
    serviceGate (tpl ['g','r','p','c']) o = o.transport.contains grpc ∧
    serviceGate (tpl grpcAsyncio) o = o.transport.contains grpc ∧
    serviceGate (tpl ['r','e','s','t']) o = o.transport.contains rest ∧
    serviceGate (tpl ['r','e','s','t','_','b','a','s','e']) o = o.transport.contains rest ∧
    serviceGate (tpl restAsyncio) o = (o.transport.contains rest && o.restAsync) ∧
    serviceGate (tpl ['b','a','s','e']) o = true ∧
    serviceGate (tpl ['_','_','i','n','i','t','_','_']) o = true := by
  have key : ∀ (g r a : Bool),
      gateB g r a (tpl ['g','r','p','c']) = g ∧ gateB g r a (tpl grpcAsyncio) = g ∧
      gateB g r a (tpl ['r','e','s','t']) = r ∧ gateB g r a (tpl ['r','e','s','t','_','b','a','s','e']) = r ∧
      gateB g r a (tpl restAsyncio) = (r && a) ∧ gateB g r a (tpl ['b','a','s','e']) = true ∧
      gateB g r a (tpl ['_','_','i','n','i','t','_','_']) = true := by decide +kernel
  have k := key (o.transport.contains grpc) (o.transport.contains rest) o.restAsync
  simp only [gate_eq o hs]
  exact k

/-- **One asyncio client module iff gRPC is requested** (or the async-REST experiment): the gate of
`async_client.py.j2`; `client.py.j2` is never gated. -/
theorem async_client_iff (o : Opts) :
    serviceGate ['%', 'n', 'a', 'm', 'e', 's', 'p', 'a', 'c', 'e', '/', '%', 'n', 'a', 'm', 'e', '_', '%', 'v', 'e', 'r', 's', 'i', 'o', 'n', '/', '%', 's', 'u', 'b', '/', 's', 'e', 'r', 'v', 'i', 'c', 'e', 's', '/', '%', 's', 'e', 'r', 'v', 'i', 'c', 'e', '/', 'a', 's', 'y', 'n', 'c', '_', 'c', 'l', 'i', 'e', 'n', 't', '.', 'p', 'y', '.', 'j', '2'] o = hasAsyncClient o ∧
    serviceGate ['%', 'n', 'a', 'm', 'e', 's', 'p', 'a', 'c', 'e', '/', '%', 'n', 'a', 'm', 'e', '_', '%', 'v', 'e', 'r', 's', 'i', 'o', 'n', '/', '%', 's', 'u', 'b', '/', 's', 'e', 'r', 'v', 'i', 'c', 'e', 's', '/', '%', 's', 'e', 'r', 'v', 'i', 'c', 'e', '/', 'c', 'l', 'i', 'e', 'n', 't', '.', 'p', 'y', '.', 'j', '2'] o = true := by
  have h1 : containsSub ['t','r','a','n','s','p','o','r','t'] ['%', 'n', 'a', 'm', 'e', 's', 'p', 'a', 'c', 'e', '/', '%', 'n', 'a', 'm', 'e', '_', '%', 'v', 'e', 'r', 's', 'i', 'o', 'n', '/', '%', 's', 'u', 'b', '/', 's', 'e', 'r', 'v', 'i', 'c', 'e', 's', '/', '%', 's', 'e', 'r', 'v', 'i', 'c', 'e', '/', 'a', 's', 'y', 'n', 'c', '_', 'c', 'l', 'i', 'e', 'n', 't', '.', 'p', 'y', '.', 'j', '2'] = false := by decide
  have h2 : containsSub ['a','s','y','n','c','_','c','l','i','e','n','t'] ['%', 'n', 'a', 'm', 'e', 's', 'p', 'a', 'c', 'e', '/', '%', 'n', 'a', 'm', 'e', '_', '%', 'v', 'e', 'r', 's', 'i', 'o', 'n', '/', '%', 's', 'u', 'b', '/', 's', 'e', 'r', 'v', 'i', 'c', 'e', 's', '/', '%', 's', 'e', 'r', 'v', 'i', 'c', 'e', '/', 'a', 's', 'y', 'n', 'c', '_', 'c', 'l', 'i', 'e', 'n', 't', '.', 'p', 'y', '.', 'j', '2'] = true := by decide
  have h3 : containsSub ['r','e','s','t','_','a','s','y','n','c','i','o'] ['%', 'n', 'a', 'm', 'e', 's', 'p', 'a', 'c', 'e', '/', '%', 'n', 'a', 'm', 'e', '_', '%', 'v', 'e', 'r', 's', 'i', 'o', 'n', '/', '%', 's', 'u', 'b', '/', 's', 'e', 'r', 'v', 'i', 'c', 'e', 's', '/', '%', 's', 'e', 'r', 'v', 'i', 'c', 'e', '/', 'a', 's', 'y', 'n', 'c', '_', 'c', 'l', 'i', 'e', 'n', 't', '.', 'p', 'y', '.', 'j', '2'] = false := by decide
  have h4 : containsSub ['r','e','s','t','_','b','a','s','e'] ['%', 'n', 'a', 'm', 'e', 's', 'p', 'a', 'c', 'e', '/', '%', 'n', 'a', 'm', 'e', '_', '%', 'v', 'e', 'r', 's', 'i', 'o', 'n', '/', '%', 's', 'u', 'b', '/', 's', 'e', 'r', 'v', 'i', 'c', 'e', 's', '/', '%', 's', 'e', 'r', 'v', 'i', 'c', 'e', '/', 'a', 's', 'y', 'n', 'c', '_', 'c', 'l', 'i', 'e', 'n', 't', '.', 'p', 'y', '.', 'j', '2'] = false := by decide
  have k1 : containsSub ['t','r','a','n','s','p','o','r','t'] ['%', 'n', 'a', 'm', 'e', 's', 'p', 'a', 'c', 'e', '/', '%', 'n', 'a', 'm', 'e', '_', '%', 'v', 'e', 'r', 's', 'i', 'o', 'n', '/', '%', 's', 'u', 'b', '/', 's', 'e', 'r', 'v', 'i', 'c', 'e', 's', '/', '%', 's', 'e', 'r', 'v', 'i', 'c', 'e', '/', 'c', 'l', 'i', 'e', 'n', 't', '.', 'p', 'y', '.', 'j', '2'] = false := by decide
  have k2 : containsSub ['a','s','y','n','c','_','c','l','i','e','n','t'] ['%', 'n', 'a', 'm', 'e', 's', 'p', 'a', 'c', 'e', '/', '%', 'n', 'a', 'm', 'e', '_', '%', 'v', 'e', 'r', 's', 'i', 'o', 'n', '/', '%', 's', 'u', 'b', '/', 's', 'e', 'r', 'v', 'i', 'c', 'e', 's', '/', '%', 's', 'e', 'r', 'v', 'i', 'c', 'e', '/', 'c', 'l', 'i', 'e', 'n', 't', '.', 'p', 'y', '.', 'j', '2'] = false := by decide
  have k3 : containsSub ['r','e','s','t','_','a','s','y','n','c','i','o'] ['%', 'n', 'a', 'm', 'e', 's', 'p', 'a', 'c', 'e', '/', '%', 'n', 'a', 'm', 'e', '_', '%', 'v', 'e', 'r', 's', 'i', 'o', 'n', '/', '%', 's', 'u', 'b', '/', 's', 'e', 'r', 'v', 'i', 'c', 'e', 's', '/', '%', 's', 'e', 'r', 'v', 'i', 'c', 'e', '/', 'c', 'l', 'i', 'e', 'n', 't', '.', 'p', 'y', '.', 'j', '2'] = false := by decide
  have k4 : containsSub ['r','e','s','t','_','b','a','s','e'] ['%', 'n', 'a', 'm', 'e', 's', 'p', 'a', 'c', 'e', '/', '%', 'n', 'a', 'm', 'e', '_', '%', 'v', 'e', 'r', 's', 'i', 'o', 'n', '/', '%', 's', 'u', 'b', '/', 's', 'e', 'r', 'v', 'i', 'c', 'e', 's', '/', '%', 's', 'e', 'r', 'v', 'i', 'c', 'e', '/', 'c', 'l', 'i', 'e', 'n', 't', '.', 'p', 'y', '.', 'j', '2'] = false := by decide
  constructor
  · unfold serviceGate hasAsyncClient grpc
    rw [h1, h2, h3, h4]
    cases o.transport.contains ['g', 'r', 'p', 'c'] <;> cases o.restAsync <;> rfl
  · unfold serviceGate
    rw [k1, k2, k3, k4]; rfl

/-- one sync client module per service: `client.py.j2` is rendered once for every service of the view -/
theorem one_client_per_service (o : Opts) (nm : Naming) (view : Path) (services protos : List Str) :
    renderView o nm ['%', 'n', 'a', 'm', 'e', 's', 'p', 'a', 'c', 'e', '/', '%', 'n', 'a', 'm', 'e', '_', '%', 'v', 'e', 'r', 's', 'i', 'o', 'n', '/', '%', 's', 'u', 'b', '/', 's', 'e', 'r', 'v', 'i', 'c', 'e', 's', '/', '%', 's', 'e', 'r', 'v', 'i', 'c', 'e', '/', 'c', 'l', 'i', 'e', 'n', 't', '.', 'p', 'y', '.', 'j', '2']
      (parseTemplate ['%', 'n', 'a', 'm', 'e', 's', 'p', 'a', 'c', 'e', '/', '%', 'n', 'a', 'm', 'e', '_', '%', 'v', 'e', 'r', 's', 'i', 'o', 'n', '/', '%', 's', 'u', 'b', '/', 's', 'e', 'r', 'v', 'i', 'c', 'e', 's', '/', '%', 's', 'e', 'r', 'v', 'i', 'c', 'e', '/', 'c', 'l', 'i', 'e', 'n', 't', '.', 'p', 'y', '.', 'j', '2']) view services protos
    = services.map fun s => getFilename ⟨nm, view, some s, none⟩
      (parseTemplate ['%', 'n', 'a', 'm', 'e', 's', 'p', 'a', 'c', 'e', '/', '%', 'n', 'a', 'm', 'e', '_', '%', 'v', 'e', 'r', 's', 'i', 'o', 'n', '/', '%', 's', 'u', 'b', '/', 's', 'e', 'r', 'v', 'i', 'c', 'e', 's', '/', '%', 's', 'e', 'r', 'v', 'i', 'c', 'e', '/', 'c', 'l', 'i', 'e', 'n', 't', '.', 'p', 'y', '.', 'j', '2']) := by
  have hp : hasVar (parseTemplate ['%', 'n', 'a', 'm', 'e', 's', 'p', 'a', 'c', 'e', '/', '%', 'n', 'a', 'm', 'e', '_', '%', 'v', 'e', 'r', 's', 'i', 'o', 'n', '/', '%', 's', 'u', 'b', '/', 's', 'e', 'r', 'v', 'i', 'c', 'e', 's', '/', '%', 's', 'e', 'r', 'v', 'i', 'c', 'e', '/', 'c', 'l', 'i', 'e', 'n', 't', '.', 'p', 'y', '.', 'j', '2']) .proto = false := by decide
  have hsv : hasVar (parseTemplate ['%', 'n', 'a', 'm', 'e', 's', 'p', 'a', 'c', 'e', '/', '%', 'n', 'a', 'm', 'e', '_', '%', 'v', 'e', 'r', 's', 'i', 'o', 'n', '/', '%', 's', 'u', 'b', '/', 's', 'e', 'r', 'v', 'i', 'c', 'e', 's', '/', '%', 's', 'e', 'r', 'v', 'i', 'c', 'e', '/', 'c', 'l', 'i', 'e', 'n', 't', '.', 'p', 'y', '.', 'j', '2']) .service = true := by decide
  simp only [renderView, hp, hsv, (async_client_iff o).2, if_true, Bool.false_eq_true, if_false]

/-! ## Non-vacuity -/

example : Supported ⟨[grpc, rest], false, false, false⟩ := by
  intro t ht; simp at ht; rcases ht with h | h <;> simp [h]

example : registry ⟨[rest], false, false, false⟩ = [rest] ∧ defaultTransport ⟨[rest, grpc], false, false, false⟩ = some grpc := by decide

end GapicModel.Props.C01
