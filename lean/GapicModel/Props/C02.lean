import GapicModel.Model.Types
import GapicModel.Lemmas.AddressT
/-
C02 — generated message and enum classes are wire-compatible with the input descriptors.

What is proved here (about the MODEL of Model/Types.lean; tied to /repo by T1 bridge lemmas for the
two word tables, T2 on Field.name / proto_type / Address.rel / __str__ / module_alias, T3 on the run-time
descriptors of every emitted class):
  * the attribute renaming is "one trailing underscore on reserved words", never a keyword, applied once,
    invertible, injective on every message protoc accepts, and invisible in JSON;
  * every declaration the message template prints is read back by proto-plus as the input field
    (number, type, label, referenced type, oneof, presence, map key/value) — `decl_roundtrip`;
  * enum values survive (as a multiset; in order when the input is sorted) — and the import FAILS for a
    negative value (`enum_negative_counterexample`, a proto-plus limitation, outside the generator);
  * `Address.rel` resolves to the referenced type under Python scoping for EVERY same-module shape
    (`rel_resolves`, no exclusion since the `fix:` commit 92701a6); the former §9-F9 inputs — a nested
    message `X.A` referring to `A.B` — are kept as regression theorems (`rel_shadowed_regression`,
    `rel_shadowed_nested_regression`);
  * schema loading: a field's oneof is the declaration its index points at whatever the number of members
    (`oneof_name_lookup`, `oneof_membership_preserved`), forward / backward / recursive references resolve alike
    (`resolution_order_irrelevant`), (sub-)packages of the API and `proto-plus-deps` packages are proto-plus
    packages imported from `…types` (`proto_plus_packages`, `python_import_target_layout`), and the
    string-prefix quirk of that test (`proto_plus_prefix_quirk`).
-/
namespace GapicModel.Props.C02
open GapicModel.Model.Types

section Aux

theorem jsonGo_append_underscore (up : Bool) (n : Name) : jsonGo up (n ++ ['_']) = jsonGo up n := by
  induction n generalizing up with
  | nil => simp [jsonGo]
  | cons c cs ih =>
    simp only [List.cons_append, jsonGo]
    split
    · exact ih true
    · rw [ih false]

theorem append_underscore_ne (n : Name) : n ++ ['_'] ≠ n := by
  intro h
  have := congrArg List.length h
  simp at this

theorem getLast?_append_one (n : Name) (c : Char) : (n ++ [c]).getLast? = some c := by simp

theorem dropLast_append_one (n : Name) (c : Char) : (n ++ [c]).dropLast = n := by simp

/-- a name that ends in `_` is its `dropLast` plus `_` -/
theorem eq_dropLast_append (a : Name) (h : a.getLast? = some '_') : a = a.dropLast ++ ['_'] := by
  induction a with
  | nil => simp at h
  | cons c cs ih =>
    cases cs with
    | nil => simp at h; simp [h]
    | cons d ds =>
      have : (d :: ds).getLast? = some '_' := by simpa [List.getLast?_cons_cons] using h
      have := ih this
      simp only [List.dropLast_cons_cons, List.cons_append]
      rw [← this]

theorem insertByNumber_perm (x : Name × Int) (l : List (Name × Int)) : (insertByNumber x l).Perm (x :: l) := by
  induction l with
  | nil => simp [insertByNumber]
  | cons y ys ih =>
    simp only [insertByNumber]
    split
    · exact List.Perm.refl _
    · exact (List.Perm.cons y ih).trans (List.Perm.swap x y ys)

theorem sortByNumber_perm (l : List (Name × Int)) : (sortByNumber l).Perm l := by
  induction l with
  | nil => exact List.Perm.refl _
  | cons x xs ih => exact (insertByNumber_perm x _).trans (List.Perm.cons x ih)

def Sorted (l : List (Name × Int)) : Prop := l.Pairwise (fun a b => a.2 ≤ b.2)

theorem insertByNumber_sorted (x : Name × Int) (l : List (Name × Int)) (h : Sorted l) : Sorted (insertByNumber x l) := by
  induction l with
  | nil => simp [insertByNumber, Sorted]
  | cons y ys ih =>
    simp only [insertByNumber]
    have hy := List.pairwise_cons.mp h
    split
    · rename_i hle
      refine List.pairwise_cons.mpr ⟨?_, h⟩
      intro z hz
      rcases List.mem_cons.mp hz with rfl | hz
      · exact hle
      · exact Int.le_trans hle (hy.1 z hz)
    · rename_i hnle
      refine List.pairwise_cons.mpr ⟨?_, ih hy.2⟩
      intro z hz
      have := (insertByNumber_perm x ys).mem_iff.mp hz
      rcases List.mem_cons.mp this with rfl | hz
      · omega
      · exact hy.1 z hz

theorem sortByNumber_sorted (l : List (Name × Int)) : Sorted (sortByNumber l) := by
  induction l with
  | nil => simp [sortByNumber, Sorted]
  | cons x xs ih => exact insertByNumber_sorted x _ ih

theorem insertByNumber_of_le (x : Name × Int) (l : List (Name × Int)) (h : ∀ y ∈ l, x.2 ≤ y.2) :
    insertByNumber x l = x :: l := by
  cases l with
  | nil => rfl
  | cons y ys => simp [insertByNumber, h y (by simp)]

theorem sortByNumber_of_sorted (l : List (Name × Int)) (h : Sorted l) : sortByNumber l = l := by
  induction l with
  | nil => rfl
  | cons x xs ih =>
    have hx := List.pairwise_cons.mp h
    simp only [sortByNumber, ih hx.2]
    exact insertByNumber_of_le x xs hx.1

/-- attribute access along a path all of whose prefixes are emitted classes -/
theorem descend_all (types : List (List Name)) (p r : List Name)
    (h : ∀ k, 0 < k → k ≤ r.length → p ++ r.take k ∈ types) : descend types p r = some (p ++ r) := by
  induction r generalizing p with
  | nil => simp [descend]
  | cons s r ih =>
    have h1 : p ++ [s] ∈ types := by simpa using h 1 (by omega) (by simp)
    simp only [descend, h1, if_true]
    rw [ih (p ++ [s])]
    · simp
    · intro k hk hkl
      have := h (k+1) (by omega) (by simp; omega)
      simpa using this

end Aux

/-! ## Attribute names -/

/-- The Python attribute is the proto field name, except one trailing underscore on reserved words
    (and only in proto-plus packages). -/
theorem attr_name_rule (n : Name) :
    (n ∈ reserved → fieldAttr true n = n ++ ['_']) ∧ (n ∉ reserved → fieldAttr true n = n) ∧
    fieldAttr false n = n := by
  refine ⟨fun h => by simp [fieldAttr, h], fun h => by simp [fieldAttr, h], by simp [fieldAttr]⟩

/-- finite fact over the bridged table: suffixing a reserved word never lands on a reserved word -/
theorem reserved_suffix_fresh : ∀ w ∈ reserved, w ++ ['_'] ∉ reserved := by decide

/-- finite fact over the bridged tables: every Python keyword is reserved -/
theorem keywords_subset_reserved : ∀ w ∈ keywords, w ∈ reserved := by decide

/-- the attribute is never a Python keyword (so `name: T = proto.Field(…)` parses) -/
theorem attr_not_keyword (n : Name) : fieldAttr true n ∉ keywords := by
  intro h
  have hr := keywords_subset_reserved _ h
  by_cases hn : n ∈ reserved
  · rw [(attr_name_rule n).1 hn] at hr
    exact reserved_suffix_fresh n hn hr
  · rw [(attr_name_rule n).2.1 hn] at hr
    exact hn hr

/-- exactly one underscore: the renamed attribute is not itself reserved, so renaming is idempotent -/
theorem attr_one_underscore (n : Name) : fieldAttr true (fieldAttr true n) = fieldAttr true n := by
  by_cases hn : n ∈ reserved
  · rw [(attr_name_rule n).1 hn]
    exact (attr_name_rule _).2.1 (reserved_suffix_fresh n hn)
  · rw [(attr_name_rule n).2.1 hn, (attr_name_rule n).2.1 hn]

/-- protobuf's lowerCamel mapping drops a trailing underscore -/
theorem json_name_suffix_invariant (n : Name) : toJsonName (n ++ ['_']) = toJsonName n :=
  jsonGo_append_underscore false n

/-- two different proto names get the same attribute only if their JSON names collide — which protoc
    rejects inside one proto3 message. -/
theorem attr_collision_only_with_json_collision (a b : Name) (h : fieldAttr true a = fieldAttr true b)
    (hne : a ≠ b) : toJsonName a = toJsonName b := by
  by_cases ha : a ∈ reserved <;> by_cases hb : b ∈ reserved
  · rw [(attr_name_rule a).1 ha, (attr_name_rule b).1 hb] at h
    exact absurd (List.append_cancel_right h) hne
  · rw [(attr_name_rule a).1 ha, (attr_name_rule b).2.1 hb] at h
    rw [← h, json_name_suffix_invariant]
  · rw [(attr_name_rule a).2.1 ha, (attr_name_rule b).1 hb] at h
    rw [h, json_name_suffix_invariant]
  · rw [(attr_name_rule a).2.1 ha, (attr_name_rule b).2.1 hb] at h
    exact absurd h hne

/-- **Attribute names are pairwise distinct in every message whose JSON names are** (protoc enforces
    the latter for proto3 files): no field is lost when `_get_fields` keys its dict by `Field.name`. -/
theorem attr_injective_per_message (fields : List Name) (h : (fields.map toJsonName).Nodup) :
    (fields.map (fieldAttr true)).Nodup := by
  unfold List.Nodup at *
  rw [List.pairwise_map] at *
  refine List.Pairwise.imp ?_ h
  intro a b hj heq
  by_cases hab : a = b
  · exact hj (by rw [hab])
  · exact hj (attr_collision_only_with_json_collision a b heq hab)

/-- **The wire name is recovered**: JSON key unchanged for every name; the proto name is the attribute
    minus exactly one trailing underscore of a reserved stem (for names that are not themselves a
    reserved word plus `_`, which would share their JSON name with that word). -/
theorem wire_name_recovered (pp : Bool) (n : Name) :
    toJsonName (fieldAttr pp n) = toJsonName n ∧
    ((∀ w ∈ reserved, n ≠ w ++ ['_']) → unsuffix (fieldAttr true n) = n) := by
  constructor
  · unfold fieldAttr
    split
    · exact json_name_suffix_invariant n
    · rfl
  · intro hn
    by_cases hr : n ∈ reserved
    · rw [(attr_name_rule n).1 hr]
      simp [unsuffix, hr]
    · rw [(attr_name_rule n).2.1 hr]
      unfold unsuffix
      split
      · rename_i h
        exact absurd (eq_dropLast_append n h.1) (hn _ h.2)
      · rfl

section Aux
theorem filter_length_lt {α} (p q : α → Bool) (l : List α) (hqp : ∀ x, q x = true → p x = true)
    (a : α) (ha : a ∈ l) (hpa : p a = true) (hqa : q a = false) :
    (l.filter q).length < (l.filter p).length := by
  induction l with
  | nil => simp at ha
  | cons x xs ih =>
    have hle : (xs.filter q).length ≤ (xs.filter p).length := by
      clear ih ha
      induction xs with
      | nil => simp
      | cons y ys ih2 =>
        simp only [List.filter_cons]
        cases hq : q y
        · cases p y <;> simp <;> omega
        · simp [hqp y hq]; omega
    rcases List.mem_cons.mp ha with rfl | hin
    · simp only [List.filter_cons, hpa, hqa]
      simp; omega
    · have := ih hin
      simp only [List.filter_cons]
      cases hq : q x
      · cases p x <;> simp <;> omega
      · simp [hqp x hq]; omega

theorem disambiguate_fresh (names : List Name) (fuel : Nat) (s : Name)
    (h : (names.filter (fun x => decide (s.length ≤ x.length))).length < fuel) :
    disambiguate names fuel s ∉ names := by
  induction fuel generalizing s with
  | zero => omega
  | succ fuel ih =>
    simp only [disambiguate]
    split
    · rename_i hs
      apply ih
      have := filter_length_lt (fun x => decide (s.length ≤ x.length)) (fun x => decide (('_' :: s).length ≤ x.length))
        names (by intro x hx; simp at hx ⊢; omega) s hs (by simp) (by simp)
      omega
    · assumption
end Aux

/-- the name bound to the proto-plus package is never one of the names the file itself declares
    (messages, enums, field attributes, colliding modules) -/
theorem proto_alias_fresh (names : List Name) : protoAlias names ∉ names := by
  apply disambiguate_fresh
  have := List.length_filter_le (fun x => decide ("proto".toList.length ≤ x.length)) names
  omega

/-! ## Declarations -/

/-- finite fact: `proto.<NAME>` of the printed constant is the descriptor's type number -/
theorem proto_type_roundtrip : ∀ t ∈ legalTypes, ∃ s, protoTypeName t = some s ∧ plusTypeOf s = some t := by
  decide

/-- finite fact: the keyword argument the template prints (`proto_type.lower()`) is `message` exactly
    for TYPE_MESSAGE and `enum` exactly for TYPE_ENUM -/
theorem kw_key_rule : ∀ t ∈ legalTypes, ∀ s, protoTypeName t = some s →
    ((lower s = "message".toList ↔ t = 11) ∧ (lower s = "enum".toList ↔ t = 14)) := by
  have key : legalTypes.all (fun t => match protoTypeName t with
      | some s => (decide (lower s = "message".toList) == decide (t = 11)) &&
                  (decide (lower s = "enum".toList) == decide (t = 14))
      | none => false) = true := by decide
  intro t ht s hs
  have h := List.all_eq_true.mp key t ht
  rw [hs] at h
  simp only [Bool.and_eq_true, beq_iff_eq, decide_eq_decide] at h
  exact h

/-- what protoc guarantees about one field, as the template sees it -/
structure WF (f : FieldView) : Prop where
  legal : f.type ∈ legalTypes
  target_iff : f.target.isSome = true ↔ (f.type = 11 ∨ f.type = 14)
  entry_legal : ∀ e, f.entry = some e → e.keyType ∈ legalTypes ∧ e.valueType ∈ legalTypes ∧
      (e.valueTarget.isSome = true ↔ (e.valueType = 11 ∨ e.valueType = 14))

/-- the references of `f` resolve to their targets when the module is imported
    (discharged by `rel_resolves` for same-module targets; T3 for the others) -/
def Resolves (version : Name) (ctx : Addr) (res : Ref → Option (List Name)) (tgt : Option Target) : Prop :=
  ∀ x, tgt = some x → ∃ r, rel version x.addr ctx = some r ∧ res r = some x.addr.full

section Aux
theorem kw_roundtrip (version : Name) (ctx : Addr) (res : Ref → Option (List Name)) (t : Nat)
    (ht : t ∈ legalTypes) (pt : Name) (hpt : protoTypeName t = some pt) (tgt : Option Target)
    (hiff : tgt.isSome = true ↔ (t = 11 ∨ t = 14)) (hres : Resolves version ctx res tgt) :
    ∃ kw, kwOf version ctx pt tgt = some kw ∧ readKw res kw = some (tgt.map (·.addr.full)) := by
  cases tgt with
  | none => exact ⟨none, rfl, rfl⟩
  | some x =>
    obtain ⟨r, hr, hrr⟩ := hres x rfl
    refine ⟨some ⟨lower pt, r⟩, by simp [kwOf, hr], ?_⟩
    have hk := kw_key_rule t ht pt hpt
    have : t = 11 ∨ t = 14 := hiff.mp rfl
    have hkey : lower pt = "message".toList ∨ lower pt = "enum".toList := by
      rcases this with h | h
      · exact Or.inl (hk.1.mpr h)
      · exact Or.inr (hk.2.mpr h)
    simp only [readKw, hkey, if_true, hrr, Option.map_some]
end Aux

/-- **Declaration round trip.** For every field kind (scalar, message, enum, repeated, map over any key
    type, oneof member, proto3 optional), what the template prints is read back by proto-plus as the
    input field: same number, type, label, referenced type, oneof name, presence flag, map key/value
    types — with the attribute as the run-time name. -/
theorem decl_roundtrip (version : Name) (ctx : Addr) (res : Ref → Option (List Name)) (parentFull : List Name)
    (f : FieldView) (wf : WF f)
    (hres : if f.isMap = true then ∀ e, f.entry = some e → Resolves version ctx res e.valueTarget
            else Resolves version ctx res f.target) :
    ∃ d, emitDecl version ctx f = some d ∧ reconstruct res parentFull d = some (expected parentFull f) := by
  unfold emitDecl expected
  by_cases hm : f.isMap = true
  · simp only [hm, if_true] at hres ⊢
    cases he : f.entry with
    | none => simp [FieldView.isMap, he] at hm
    | some e =>
      obtain ⟨hk, hv, hvt⟩ := wf.entry_legal e he
      obtain ⟨ks, hks, hks'⟩ := proto_type_roundtrip _ hk
      obtain ⟨vs, hvs, hvs'⟩ := proto_type_roundtrip _ hv
      obtain ⟨kw, hkw, hkw'⟩ := kw_roundtrip version ctx res _ hv vs hvs e.valueTarget hvt (hres e he)
      refine ⟨.map (fieldAttr f.protoPlus f.pbName) ks vs f.number kw, ?_, ?_⟩
      · simp [hks, hvs, hkw]
      · simp [reconstruct, hks', hvs', hkw']
  · simp only [hm] at hres ⊢
    obtain ⟨pt, hpt, hpt'⟩ := proto_type_roundtrip _ wf.legal
    obtain ⟨kw, hkw, hkw'⟩ := kw_roundtrip version ctx res _ wf.legal pt hpt f.target wf.target_iff
      (by simpa using hres)
    refine ⟨_, by simp [hpt, hkw]; rfl, ?_⟩
    simp only [reconstruct, hpt', hkw']
    cases f.proto3Optional <;> simp

section Aux
/-- shape of whatever `emitDecl` returns -/
theorem emitDecl_shape (version : Name) (ctx : Addr) (f : FieldView) (d : Decl)
    (h : emitDecl version ctx f = some d) :
    (f.isMap = true ∧ ∃ kt vt kw, d = .map (fieldAttr f.protoPlus f.pbName) kt vt f.number kw) ∨
    (f.isMap = false ∧ ∃ pt kw, d = .field f.repeated (fieldAttr f.protoPlus f.pbName) pt f.number
        f.proto3Optional (if f.proto3Optional then none else truthy f.oneof) kw) := by
  unfold emitDecl at h
  by_cases hm : f.isMap = true
  · left
    refine ⟨hm, ?_⟩
    simp only [hm, if_true] at h
    cases he : f.entry with
    | none => simp [he] at h
    | some e =>
      simp only [he] at h
      cases h1 : protoTypeName e.keyType with
      | none => simp [h1] at h
      | some kt =>
        cases h2 : protoTypeName e.valueType with
        | none => simp [h1, h2] at h
        | some vt =>
          cases h3 : kwOf version ctx vt e.valueTarget with
          | none => simp [h1, h2, h3] at h
          | some kw =>
            simp [h1, h2, h3] at h
            exact ⟨kt, vt, kw, h.symm⟩
  · right
    have hm' : f.isMap = false := by simpa using hm
    refine ⟨hm', ?_⟩
    simp only [hm', Bool.false_eq_true, if_false] at h
    cases h1 : protoTypeName f.type with
    | none => simp [h1] at h
    | some pt =>
      cases h3 : kwOf version ctx pt f.target with
      | none => simp [h1, h3] at h
      | some kw =>
        simp [h1, h3] at h
        exact ⟨pt, kw, h.symm⟩
end Aux

/-- the field number is printed verbatim (binary wire compatibility rests on it) -/
theorem number_unchanged (version : Name) (ctx : Addr) (f : FieldView) (d : Decl)
    (h : emitDecl version ctx f = some d) : d.number = f.number := by
  rcases emitDecl_shape version ctx f d h with ⟨_, kt, vt, kw, rfl⟩ | ⟨_, pt, kw, rfl⟩ <;> rfl

/-- oneof membership: a real-oneof member keeps its oneof's name; a proto3-optional field gets
    `optional=True` (its synthetic oneof is re-derived by proto-plus) and no `oneof=` -/
theorem oneof_membership (version : Name) (ctx : Addr) (f : FieldView) (d : Decl)
    (hm : f.isMap = false) (h : emitDecl version ctx f = some d) :
    ∃ rep attr pt n kw, d = .field rep attr pt n f.proto3Optional
      (if f.proto3Optional then none else truthy f.oneof) kw := by
  rcases emitDecl_shape version ctx f d h with ⟨hm', _⟩ | ⟨_, pt, kw, rfl⟩
  · rw [hm] at hm'; cases hm'
  · exact ⟨_, _, _, _, _, rfl⟩

/-! ## Schema loading: oneof membership, late resolution, proto-plus packages -/

/-- **A field's oneof is the declaration its index points at — whatever the number of members of that
    oneof** (a real oneof with a single member is still a oneof; a proto3-optional field gets its
    synthetic oneof the same way). -/
theorem oneof_name_lookup (decls : List Name) (i : Nat) (h : i < decls.length) :
    oneofName decls (some i) = some decls[i] := by
  cases decls with
  | nil => simp at h
  | cons d ds => simp [oneofName]

/-- no index, no oneof -/
theorem oneof_name_none (decls : List Name) : oneofName decls none = none := by
  cases decls <;> rfl

/-- **Oneof membership is preserved**: two fields get the same `Field.oneof` exactly when the descriptor
    puts them in the same oneof (protoc guarantees distinct oneof names per message). -/
theorem oneof_membership_preserved (decls : List Name) (hnd : decls.Nodup) (i j : Nat)
    (hi : i < decls.length) (hj : j < decls.length) :
    oneofName decls (some i) = oneofName decls (some j) ↔ i = j := by
  rw [oneof_name_lookup decls i hi, oneof_name_lookup decls j hj]
  constructor
  · intro h
    have he : decls[i] = decls[j] := Option.some.inj h
    have hp := List.pairwise_iff_getElem.mp hnd
    rcases Nat.lt_trichotomy i j with hlt | heq | hgt
    · exact absurd he (hp i j hi hj hlt)
    · exact heq
    · exact absurd he.symm (hp j i hj hi hgt)
  · rintro rfl; rfl

example : oneofName [['p','i','c','k'], ['_','o','p','t']] (some 0) = some ['p','i','c','k'] ∧
    oneofName [['p','i','c','k'], ['_','o','p','t']] (some 1) = some ['_','o','p','t'] ∧
    oneofName [] (some 0) = none := by decide

/-- **Forward, backward and recursive references resolve alike**: what a field's type name resolves to does
    not depend on how much of the file was loaded when the field was wrapped (the orphan-field pass picks up
    the rest), as long as full names are unique — which protoc guarantees. -/
theorem resolution_order_irrelevant (loaded fileAll all : Known) (tn : List Name)
    (hl : ∀ r, lookupKnown loaded tn = some r → lookupKnown all tn = some r)
    (hf : ∀ r, lookupKnown fileAll tn = some r → lookupKnown all tn = some r)
    (hcover : ∀ r, lookupKnown all tn = some r → lookupKnown loaded tn = some r ∨ lookupKnown fileAll tn = some r) :
    resolveField loaded fileAll tn = lookupKnown all tn := by
  unfold resolveField
  cases h1 : lookupKnown loaded tn with
  | some r => simp [hl r h1]
  | none =>
    cases h2 : lookupKnown fileAll tn with
    | some r => simp [hf r h2]
    | none =>
      cases h3 : lookupKnown all tn with
      | none => rfl
      | some r =>
        rcases hcover r h3 with h | h
        · rw [h1] at h; cases h
        · rw [h2] at h; cases h

/-- hypotheses of `resolution_order_irrelevant` at a forward reference: nothing loaded yet, the orphan
    pass finds the message declared later in the file -/
example :
    let all : Known := [([['p'], ['A']], false), ([['p'], ['B']], false), ([['p'], ['K']], true)]
    resolveField [] all [['p'], ['B']] = some ([['p'], ['B']], false) ∧
    resolveField [([['p'], ['K']], true)] all [['p'], ['K']] = lookupKnown all [['p'], ['K']] := by decide

section Aux
theorem joinDots_prefix (a b : List Name) : joinDots a <+: joinDots (a ++ b) := by
  induction a with
  | nil => simp [joinDots]
  | cons x r ih =>
    cases r with
    | nil =>
      cases b with
      | nil => simp [joinDots]
      | cons y b' => simp [joinDots]
    | cons y r' =>
      simp only [List.cons_append, joinDots] at ih ⊢
      exact List.prefix_append_right_inj x |>.mpr (List.cons_prefix_cons.mpr ⟨rfl, ih⟩)
end Aux

/-- every (sub-)package of the API's own package and every package listed in `proto-plus-deps` is a
    proto-plus package: its fields get the reserved-word suffix and its types are imported from `…types` -/
theorem proto_plus_packages (apiSegs sub : List Name) (deps : List Name) (pkg : List Name) :
    isProtoPlus (joinDots apiSegs) deps (apiSegs ++ sub) = true ∧
    (joinDots pkg ∈ deps → isProtoPlus (joinDots apiSegs) deps pkg = true) := by
  constructor
  · simp [isProtoPlus, List.isPrefixOf_iff_prefix, joinDots_prefix]
  · intro h; simp [isProtoPlus, h]

/-- the test is a STRING prefix test: a dependency package `acme.lib.v1beta` counts as part of the API
    `acme.lib.v1` (observation about the code; such a dependency is an excluded point of the check) -/
theorem proto_plus_prefix_quirk :
    isProtoPlus ['a','.','v','1'] [] [['a'], ['v','1','b']] = true ∧
    isProtoPlus ['a','.','v','1'] [] [['a'], ['v','2']] = false := by decide

/-- **A type of the API's own (sub-)package is imported from where the types template is written**:
    `<namespace>/<name>_<version>/<sub…>/types` -/
theorem python_import_target_layout (apiSegs apiRoot sub : List Name) (deps : List Name) (a : Addr)
    (h : a.package = apiSegs ++ sub) :
    pythonImportPackage (joinDots apiSegs) apiSegs apiRoot deps a = apiRoot ++ sub ++ ["types".toList] := by
  simp [pythonImportPackage, h, List.isPrefixOf_iff_prefix, joinDots_prefix]

/-- a proto-plus dependency `acme.dep.v1` is imported from `acme.dep_v1.types`, a *_pb2 dependency from its
    own package -/
example :
    let dep : Addr := ⟨[['a'], ['d'], ['v','1']], ['m'], [], ['T'], true, false⟩
    let wkt : Addr := ⟨[['g'], ['p']], ['t'], [], ['T'], false, false⟩
    pythonImportPackage ['a','.','l','.','v','1'] [['a'], ['l'], ['v','1']] [['a'], ['l','_','v','1']] [['a','.','d','.','v','1']] dep
      = [['a'], ['d','_','v','1'], ['t','y','p','e','s']] ∧
    pythonImportPackage ['a','.','l','.','v','1'] [['a'], ['l'], ['v','1']] [['a'], ['l','_','v','1']] [['a','.','d','.','v','1']] wkt
      = [['g'], ['p']] := by decide

/-! ## Enums -/

/-- **Enum values are preserved** as a multiset of (name, number) — proto-plus sorts them by number —
    for every proto3 enum without negative numbers. -/
theorem enum_values_preserved (e : EnumSpec) (hz : ∃ n, (n, (0 : Int)) ∈ e.values)
    (hnn : ∀ v ∈ e.values, 0 ≤ v.2) :
    ∃ e', reconstructEnum (emitEnum e) = some e' ∧ e'.name = e.name ∧ e'.values.Perm e.values := by
  unfold reconstructEnum emitEnum
  have hp := sortByNumber_perm e.values
  have hs := sortByNumber_sorted e.values
  obtain ⟨zn, hzn⟩ := hz
  cases hl : sortByNumber e.values with
  | nil =>
    rw [hl] at hp
    have := hp.mem_iff.mpr hzn
    simp at this
  | cons x r =>
    rw [hl] at hp hs
    have hx : x ∈ e.values := hp.mem_iff.mp (by simp)
    have h0 : 0 ≤ x.2 := hnn x hx
    have hz' : (zn, (0 : Int)) ∈ x :: r := hp.mem_iff.mpr hzn
    have hle : x.2 ≤ 0 := by
      rcases List.mem_cons.mp hz' with h | h
      · rw [← h]; exact Int.le_refl _
      · exact (List.pairwise_cons.mp hs).1 _ h
    have : x.2 = 0 := by omega
    obtain ⟨n, v⟩ := x
    simp only at this
    subst this
    exact ⟨⟨e.name, (n, 0) :: r⟩, by simp, rfl, hp⟩

/-- when the input lists its values in ascending order (the usual case) the emitted enum is the input -/
theorem enum_sorted_identity (e : EnumSpec) (n : Name) (r : List (Name × Int)) (hv : e.values = (n, 0) :: r)
    (hs : Sorted e.values) : reconstructEnum (emitEnum e) = some e := by
  have h := sortByNumber_of_sorted _ hs
  cases e with
  | mk nm vs =>
    simp only at hv h
    subst hv
    simp [reconstructEnum, emitEnum, h]

/-- a protoc-valid proto3 enum with a negative number does NOT import: proto-plus sorts the values
    by number and protobuf requires the first value of an open enum to be zero. (Limitation of the
    run-time library; the generator prints the values faithfully. Excluded from the generator.) -/
theorem enum_negative_counterexample :
    reconstructEnum (emitEnum ⟨"Kind".toList, [("KIND_UNSPECIFIED".toList, 0), ("KIND_NEG".toList, -3)]⟩) = none := by
  decide

/-! ## Manifest -/

/-- the manifest lists exactly the top-level classes of the module (nested ones are reached through
    their parents), provided `es`/`ms` are the module's top-level enums/messages -/
theorem manifest_exact (m : Module) (es ms : List Name)
    (htop : ∀ n, [n] ∈ m.types ↔ n ∈ es ∨ n ∈ ms) (n : Name) :
    n ∈ manifest es ms ↔ [n] ∈ m.types := by
  simp [manifest, htop]

/-! ## Module header: type identity in sub-packages -/

/-- the types of a module are registered in the proto package of THEIR file, whatever the API's package is
    (a file of a sub-package keeps its own package; it is not folded into the API's root package) -/
theorem module_header_package (apiPkg filePkg : List Name) : (moduleHeader apiPkg filePkg).package = filePkg := rfl

/-- every types module of a library, root package or sub-package, uses one marshal: the API package's -/
theorem module_marshal_shared (apiPkg filePkg : List Name) : (moduleHeader apiPkg filePkg).marshalName = apiPkg := by
  by_cases h : apiPkg = filePkg <;> simp [moduleHeader, ModuleHeader.marshalName, h]

/-- `marshal=` is printed exactly for files of a package other than the API's -/
theorem module_marshal_printed_iff (apiPkg filePkg : List Name) :
    (moduleHeader apiPkg filePkg).marshal.isSome ↔ apiPkg ≠ filePkg := by
  by_cases h : apiPkg = filePkg <;> simp [moduleHeader, h]

/-- type identity: a quoted reference printed in a module whose header is `moduleHeader apiPkg filePkg` is read by
    proto-plus as `<file package>.<path>` — the full name the input descriptor gives the type (`Addr.full`) -/
theorem module_types_full_name (apiPkg filePkg : List Name) (m : Module)
    (hm : m.package = (moduleHeader apiPkg filePkg).package) (a : Addr) (ha : a.package = filePkg)
    (hin : a.parent ++ [a.name] ∈ m.types) :
    plusResolve m (a.parent ++ [a.name]) = .type a.full := by
  simp [plusResolve, hin, hm, moduleHeader, Addr.full, ha]

example : moduleHeader ["acme".toList, "v1".toList] ["acme".toList, "v1".toList, "catalog".toList] =
    ⟨["acme".toList, "v1".toList, "catalog".toList], some ["acme".toList, "v1".toList]⟩ ∧
    moduleHeader ["acme".toList, "v1".toList] ["acme".toList, "v1".toList] = ⟨["acme".toList, "v1".toList], none⟩ := by
  decide

/-! ## Class body: a field named like a helper member keeps its declaration -/

section Aux
def lastOf (n : Name) (acc : Option Member) (xs : List (Name × Member)) : Option Member :=
  xs.foldl (fun acc kv => if kv.1 = n then some kv.2 else acc) acc

theorem lookup_bind (d : ClassDict) (kv : Name × Member) (n : Name) :
    lookupMember (bindName d kv) n = if kv.1 = n then some kv.2 else lookupMember d n := by
  induction d with
  | nil => simp [bindName, lookupMember]
  | cons h t ih =>
    obtain ⟨k, v⟩ := h
    by_cases hk : k = kv.1
    · by_cases hn : kv.1 = n <;> simp [bindName, lookupMember, hk, hn]
    · by_cases hn : kv.1 = n
      · have : k ≠ n := by rw [← hn]; exact hk
        simp [bindName, lookupMember, hn, this, ih]
      · simp [bindName, lookupMember, hk, hn, ih]

theorem lookup_foldl (xs : List (Name × Member)) (d : ClassDict) (n : Name) :
    lookupMember (xs.foldl bindName d) n = lastOf n (lookupMember d n) xs := by
  induction xs generalizing d with
  | nil => simp [lastOf]
  | cons h t ih => simp [List.foldl, ih, lookup_bind, lastOf]

theorem lastOf_append (n : Name) (acc : Option Member) (xs ys : List (Name × Member)) :
    lastOf n acc (xs ++ ys) = lastOf n (lastOf n acc xs) ys := by simp [lastOf, List.foldl_append]

theorem lastOf_not_mem (n : Name) (acc : Option Member) (xs : List (Name × Member)) (h : ∀ kv ∈ xs, kv.1 ≠ n) :
    lastOf n acc xs = acc := by
  induction xs generalizing acc with
  | nil => simp [lastOf]
  | cons x t ih =>
    have hx : x.1 ≠ n := h x (by simp)
    have := ih acc (fun kv hkv => h kv (by simp [hkv]))
    simpa [lastOf, List.foldl, hx] using this

theorem fieldBindings_keys (k : Nat) (as : List Name) : ∀ kv ∈ fieldBindings k as, kv.1 ∈ as := by
  induction as generalizing k with
  | nil => simp [fieldBindings]
  | cons a r ih =>
    intro kv hkv
    simp only [fieldBindings, List.mem_cons] at hkv
    rcases hkv with h | h
    · simp [h]
    · exact List.mem_cons_of_mem _ (ih (k + 1) kv h)

theorem not_mem_drop_of_nodup (as : List Name) (i : Nat) (a : Name) (hnd : as.Nodup) (hi : as[i]? = some a) :
    a ∉ as.drop (i + 1) := by
  induction as generalizing i with
  | nil => simp
  | cons b r ih =>
    cases i with
    | zero =>
      simp only [List.getElem?_cons_zero, Option.some.injEq] at hi
      subst hi
      simpa using (List.nodup_cons.mp hnd).1
    | succ j =>
      simp only [List.getElem?_cons_succ] at hi
      simpa using ih j (List.nodup_cons.mp hnd).2 hi

theorem lastOf_fields (as : List Name) (k i : Nat) (a : Name) (acc : Option Member)
    (hi : as[i]? = some a) (hlater : a ∉ as.drop (i + 1)) :
    lastOf a acc (fieldBindings k as) = some (.field (k + i)) := by
  induction as generalizing k i acc with
  | nil => simp at hi
  | cons b r ih =>
    cases i with
    | zero =>
      simp only [List.getElem?_cons_zero, Option.some.injEq] at hi
      subst hi
      have hr : b ∉ r := by simpa using hlater
      have := lastOf_not_mem b (some (.field k)) (fieldBindings (k + 1) r)
        (fun kv hkv heq => hr (heq ▸ fieldBindings_keys (k + 1) r kv hkv))
      simpa [fieldBindings, lastOf, List.foldl] using this
    | succ j =>
      simp only [List.getElem?_cons_succ] at hi
      have hl : a ∉ r.drop (j + 1) := by simpa using hlater
      have := ih (k + 1) j (if b = a then some (.field k) else acc) hi hl
      have e : k + 1 + j = k + (j + 1) := by omega
      simpa [fieldBindings, lastOf, List.foldl, e] using this
end Aux

/-- "the last binding of a name wins": in the class body the message template prints, the name of the i-th
    field's attribute ends up bound to that field's declaration, WHATEVER the field is called — also when a
    nested class or either helper property (`raw_page`, `done`; both printed BEFORE the fields) uses the name. -/
theorem field_kept (nested attrs : List Name) (hasStatus : Bool) (a : Name) (i : Nat)
    (hnd : attrs.Nodup) (hi : attrs[i]? = some a) :
    lookupMember (classDict nested attrs hasStatus) a = some (.field i) := by
  unfold classDict classBody
  rw [lookup_foldl, lastOf_append, lastOf_fields attrs 0 i a _ hi (not_mem_drop_of_nodup attrs i a hnd hi), Nat.zero_add]

/-- a field called `raw_page` of a paginated message (one that also has `next_page_token`, so that the pager
    helper property of the same name is printed) keeps its declaration -/
theorem raw_page_field_kept (nested attrs : List Name) (hasStatus : Bool) (i : Nat)
    (hnd : attrs.Nodup) (hi : attrs[i]? = some "raw_page".toList) :
    lookupMember (classDict nested attrs hasStatus) "raw_page".toList = some (.field i) :=
  field_kept nested attrs hasStatus _ i hnd hi

/-- a field called `done` of an extended-operation status message (the `done` helper property is printed) keeps
    its declaration (violated before 4ad018c: the helper was printed after the fields) -/
theorem done_field_kept_general (nested attrs : List Name) (i : Nat)
    (hnd : attrs.Nodup) (hi : attrs[i]? = some "done".toList) :
    lookupMember (classDict nested attrs true) "done".toList = some (.field i) :=
  field_kept nested attrs true _ i hnd hi

/-- a kept declaration is among the fields proto-plus's metaclass finds -/
theorem kept_field_seen (d : ClassDict) (a : Name) (i : Nat) (h : lookupMember d a = some (.field i)) :
    i ∈ fieldsSeen d := by
  induction d with
  | nil => simp [lookupMember] at h
  | cons x t ih =>
    obtain ⟨k, v⟩ := x
    by_cases hk : k = a
    · simp only [lookupMember, hk, if_true, Option.some.injEq] at h
      simp [fieldsSeen, h]
    · simp only [lookupMember, hk, if_false] at h
      have := ih h
      simp only [fieldsSeen, List.filterMap_cons] at this ⊢
      cases v <;> simp_all

/-- regression (the input of the former finding descriptor:missing-field:done-property, repaired by 4ad018c): a
    message with an extended-operation status field and a field called `done` — the declaration stays, proto-plus
    sees both fields; the name `done` keeps the position of its first binding (the helper), i.e. comes first -/
theorem done_field_kept :
    lookupMember (classDict [] ["status".toList, "done".toList] true) "done".toList = some (.field 1) ∧
    fieldsSeen (classDict [] ["status".toList, "done".toList] true) = [1, 0] := by decide

example : lookupMember (classDict ["Inner".toList] ["next_page_token".toList, "items".toList, "raw_page".toList] false)
    "raw_page".toList = some (.field 2) ∧
    fieldsSeen (classDict ["Inner".toList] ["next_page_token".toList, "items".toList, "raw_page".toList] false) = [2, 0, 1] := by
  decide

/-! ## References under Python scoping -/

/-- every non-empty proper prefix of an emitted class path is an emitted class -/
def PrefixClosed (types : List (List Name)) : Prop :=
  ∀ p q, p ++ q ∈ types → p ≠ [] → p ∈ types

/-- the shape of the repaired defect §9-F9: a NESTED message whose own simple name equals the top-level
    ancestor of the target, while its own top-level ancestor is a different message (used by the
    regression theorems only; `rel_resolves` no longer excludes it) -/
def ShadowedShape (cp : List Name) (cn : Name) (tp : List Name) : Prop :=
  cp ≠ [] ∧ tp ≠ [] ∧ tp.head? = some cn ∧ tp.head? ≠ cp.head?

instance (cp : List Name) (cn : Name) (tp : List Name) : Decidable (ShadowedShape cp cn tp) := by
  unfold ShadowedShape; infer_instance

/-- **Same-module references resolve to the referenced type** — whatever the nesting, forward or
    backward, self- or mutually recursive, shadowed names included. -/
theorem rel_resolves (version : Name) (m : Module) (sc : Scope) (self ctx : Addr)
    (hpc : PrefixClosed m.types)
    (hsame : self.package = ctx.package ∧ self.module = ctx.module)
    (hpkg : m.package = self.package)
    (hctx : sc.ctx = ctx.parent ++ [ctx.name])
    (ht : self.parent ++ [self.name] ∈ m.types) :
    (rel version self ctx).map (resolveRef m sc) = some (.type self.full) := by
  have hq : plusResolve m (self.parent ++ [self.name]) = .type self.full := by
    simp [plusResolve, ht, Addr.full, hpkg]
  unfold rel
  simp only [hsame, and_self, if_true]
  split
  · simp [resolveRef, hq]
  · rename_i h1
    split
    · rename_i h2
      obtain ⟨hp, hcp, hhead⟩ := h2
      cases hsp : self.parent with
      | nil => exact absurd hsp hp
      | cons s0 tp =>
        rw [hsp] at hhead ht
        simp only [List.head?_cons, Option.some.injEq] at hhead
        subst hhead
        simp only [Option.map_some, resolveRef, List.tail_cons, Option.some.injEq]
        have hall : ∀ k, 0 < k → k ≤ (tp ++ [self.name]).length →
            [ctx.name] ++ (tp ++ [self.name]).take k ∈ m.types := by
          intro k hk hkl
          have hsplit : ctx.name :: tp ++ [self.name] =
              ([ctx.name] ++ (tp ++ [self.name]).take k) ++ (tp ++ [self.name]).drop k := by
            simp [List.take_append_drop]
          rw [hsplit] at ht
          exact hpc _ _ ht (by simp)
        cases hr : tp ++ [self.name] with
        | nil => simp at hr
        | cons s r =>
          rw [hr] at hall
          have h1' : [ctx.name, s] ∈ m.types := by simpa using hall 1 (by omega) (by simp)
          have hd : descend m.types [ctx.name, s] r = some ([ctx.name, s] ++ r) := by
            apply descend_all
            intro k hk hkl
            have := hall (k+1) (by omega) (by simp; omega)
            simpa using this
          simp only [pyEval, hctx, hcp, List.nil_append, List.cons_append, h1', if_true, hd]
          simp [Addr.full, hpkg, hsp, ← hr]
    · simp [resolveRef, hq]

/-- **References into another file of the package or into a dependency package resolve to the referenced
    type**: the template prints `<import name>.<Parent…>.<Name>`, the import name being the module, its alias
    or `<module>_pb2` — provided that name is bound by an import of the module and is not shadowed inside the
    class body (the generator's collision set covers every message, enum and field name of the file; the
    excluded point "a field called `<module>_pb2`" is run on the real code by the check). -/
theorem rel_cross_module_resolves (version : Name) (m : Module) (sc : Scope) (self ctx : Addr)
    (hdiff : ¬ (self.package = ctx.package ∧ self.module = ctx.module))
    (hmod : self.module ≠ [])
    (iname : Name) (hi : importName version self = some iname)
    (himp : lookupImport sc.imports iname = some self.package)
    (hloc : sc.ctx ++ [iname] ∉ m.types) (hfld : iname ∉ sc.localsBefore) :
    (rel version self ctx).map (resolveRef m sc) = some (.type self.full) := by
  unfold rel
  simp only [hdiff, if_false]
  unfold importName at hi
  cases hs : strSegs version self with
  | none => simp [hs] at hi
  | some segs =>
    simp only [hs, Option.bind_some] at hi
    have hshape : ∃ m0, segs = m0 :: (self.parent ++ [self.name]) := by
      unfold strSegs at hs
      simp only [hmod, if_false] at hs
      cases ha : moduleAlias version self with
      | none => simp [ha] at hs
      | some al => simp [ha] at hs; exact ⟨_, hs.symm⟩
    obtain ⟨m0, rfl⟩ := hshape
    simp only [List.head?_cons, Option.some.injEq] at hi
    subst hi
    simp [resolveRef, pyEval, hloc, hfld, himp, Addr.full]

/-- the resolution hypothesis of `decl_roundtrip`, discharged by the two resolution theorems above -/
theorem resolves_of_rel (version : Name) (m : Module) (sc : Scope) (ctx : Addr) (tgt : Option Target)
    (h : ∀ x, tgt = some x → (rel version x.addr ctx).map (resolveRef m sc) = some (.type x.addr.full)) :
    Resolves version ctx (fun r => (resolveRef m sc r).toOption) tgt := by
  intro x hx
  have hh := h x hx
  cases hr : rel version x.addr ctx with
  | none => simp [hr] at hh
  | some r =>
    simp only [hr, Option.map_some, Option.some.injEq] at hh
    exact ⟨r, rfl, by simp [hh, Resolved.toOption]⟩

/-- **End to end for one non-map field**: under Python's scoping and proto-plus's late resolution the
    declaration the template prints is read back as the input field, whenever the reference resolves
    (`rel_resolves` / `rel_cross_module_resolves`). -/
theorem decl_roundtrip_python (version : Name) (m : Module) (sc : Scope) (ctx : Addr) (parentFull : List Name)
    (f : FieldView) (wf : WF f) (hm : f.isMap = false)
    (h : ∀ x, f.target = some x → (rel version x.addr ctx).map (resolveRef m sc) = some (.type x.addr.full)) :
    ∃ d, emitDecl version ctx f = some d ∧
      reconstruct (fun r => (resolveRef m sc r).toOption) parentFull d = some (expected parentFull f) := by
  apply decl_roundtrip version ctx _ parentFull f wf
  simp only [hm, Bool.false_eq_true, if_false]
  exact resolves_of_rel version m sc ctx f.target h

/-- regression for §9-F9 (repaired by 92701a6) at its smallest input:
    `message A { message B {} }  message X { message A { A.B f = 1; } }`.  The template now prints the quoted
    full path `'A.B'` inside the body of `X.A` and it resolves to `A.B` (before the repair: the bare `B`,
    `NameError` on import). -/
theorem rel_shadowed_regression :
    let pkg := ["acme".toList]
    let m : Module := ⟨pkg, [["A".toList], ["A".toList, "B".toList], ["X".toList], ["X".toList, "A".toList]],
                       ["A".toList, "X".toList]⟩
    let tgt : Addr := ⟨pkg, "lib".toList, ["A".toList], "B".toList, true, false⟩
    let ctx : Addr := ⟨pkg, "lib".toList, ["X".toList], "A".toList, true, false⟩
    ShadowedShape ctx.parent ctx.name tgt.parent ∧
    rel [] tgt ctx = some (.quoted ["A".toList, "B".toList]) ∧
    (rel [] tgt ctx).map (resolveRef m ⟨["X".toList, "A".toList], [], []⟩) = some (.type tgt.full) := by
  decide

/-- regression for the silent variant: `X.A` has its own nested `B`; the reference still binds to `A.B`
    (before the repair: to `X.A.B`, the wrong type on the wire) -/
theorem rel_shadowed_nested_regression :
    let pkg := ["acme".toList]
    let m : Module := ⟨pkg, [["A".toList], ["A".toList, "B".toList], ["X".toList], ["X".toList, "A".toList],
                             ["X".toList, "A".toList, "B".toList]], ["A".toList, "X".toList]⟩
    let tgt : Addr := ⟨pkg, "lib".toList, ["A".toList], "B".toList, true, false⟩
    let ctx : Addr := ⟨pkg, "lib".toList, ["X".toList], "A".toList, true, false⟩
    (rel [] tgt ctx).map (resolveRef m ⟨["X".toList, "A".toList], [], []⟩) =
      some (.type ["acme".toList, "A".toList, "B".toList]) ∧
    tgt.full = ["acme".toList, "A".toList, "B".toList] := by
  decide

/-- the bare-name rule survives where it is sound: a TOP-LEVEL message referring to its own nested type -/
theorem rel_bare_only_from_top_level (version : Name) (self ctx : Addr) (segs : List Name)
    (h : rel version self ctx = some (.bare segs))
    (hsame : self.package = ctx.package ∧ self.module = ctx.module) :
    ctx.parent = [] ∧ self.parent.head? = some ctx.name ∧ segs = self.parent.tail ++ [self.name] := by
  unfold rel at h
  simp only [hsame, and_self, if_true] at h
  split at h
  · simp at h
  · split at h
    · rename_i h2
      simp only [Option.some.injEq, Ref.bare.injEq] at h
      exact ⟨h2.2.1, h2.2.2, h.symm⟩
    · simp at h

/-! ## Non-vacuity -/

/-- `WF` and the resolution hypothesis of `decl_roundtrip` are met by a map<sint64, A.B> field named
    `type` inside top-level message `A` -/
example :
    let pkg := ["acme".toList]
    let b : Addr := ⟨pkg, "lib".toList, ["A".toList], "B".toList, true, false⟩
    let a : Addr := ⟨pkg, "lib".toList, [], "A".toList, true, false⟩
    let entry : Addr := ⟨pkg, "lib".toList, ["A".toList], "TypeEntry".toList, true, false⟩
    let f : FieldView := ⟨"type".toList, 4, 11, true, false, none, some ⟨false, entry⟩,
                          some ⟨18, 11, some ⟨false, b⟩⟩, true⟩
    let m : Module := ⟨pkg, [["A".toList], ["A".toList, "B".toList]], ["A".toList]⟩
    let res := fun r => (resolveRef m ⟨["A".toList], [], []⟩ r).toOption
    f.isMap = true ∧
    emitDecl [] a f = some (.map "type_".toList "SINT64".toList "MESSAGE".toList 4
      (some ⟨"message".toList, .bare ["B".toList]⟩)) ∧
    reconstruct res a.full (.map "type_".toList "SINT64".toList "MESSAGE".toList 4
      (some ⟨"message".toList, .bare ["B".toList]⟩)) = some (expected a.full f) := by
  decide

/-- hypotheses of `rel_resolves` hold for a forward reference from `A.B` to its sibling `A.C.D` -/
example :
    let pkg := ["acme".toList]
    let m : Module := ⟨pkg, [["A".toList], ["A".toList, "B".toList], ["A".toList, "C".toList],
                             ["A".toList, "C".toList, "D".toList]], ["A".toList]⟩
    let tgt : Addr := ⟨pkg, "lib".toList, ["A".toList, "C".toList], "D".toList, true, false⟩
    let ctx : Addr := ⟨pkg, "lib".toList, ["A".toList], "B".toList, true, false⟩
    (rel [] tgt ctx).map (resolveRef m ⟨["A".toList, "B".toList], [], []⟩) = some (.type tgt.full) := by
  decide

/-- hypotheses of `rel_cross_module_resolves` hold for a reference to google.protobuf.Timestamp and for a
    reference to a colliding module of the package (alias `al_shared`) -/
example :
    let m : Module := ⟨["acme".toList, "lib".toList, "v1".toList], [["A".toList]], ["A".toList]⟩
    let ts : Addr := ⟨["google".toList, "protobuf".toList], "timestamp".toList, [], "Timestamp".toList, false, false⟩
    let it : Addr := ⟨["acme".toList, "lib".toList, "v1".toList], "shared".toList, [], "Item".toList, true, true⟩
    let ctx : Addr := ⟨["acme".toList, "lib".toList, "v1".toList], "alpha".toList, [], "A".toList, true, false⟩
    let sc : Scope := ⟨["A".toList], ["shared".toList], [("timestamp_pb2".toList, ts.package), ("al_shared".toList, it.package)]⟩
    importName "v1".toList ts = some "timestamp_pb2".toList ∧ importName "v1".toList it = some "al_shared".toList ∧
    (rel "v1".toList ts ctx).map (resolveRef m sc) = some (.type ts.full) ∧
    (rel "v1".toList it ctx).map (resolveRef m sc) = some (.type it.full) := by
  decide

/-- `enum_values_preserved` hypotheses hold for an unsorted enum with an alias -/
example : reconstructEnum (emitEnum ⟨"K".toList, [("Z".toList, 0), ("B".toList, 2), ("A".toList, 1), ("A2".toList, 1)]⟩) =
    some ⟨"K".toList, [("Z".toList, 0), ("A".toList, 1), ("A2".toList, 1), ("B".toList, 2)]⟩ := by
  decide

/-- `attr_injective_per_message` hypothesis holds for a message with reserved and plain names -/
example : (["type".toList, "class".toList, "item_id".toList, "name".toList].map toJsonName).Nodup := by decide

/-- `wire_name_recovered` on a reserved word -/
example : fieldAttr true "import".toList = "import_".toList ∧ unsuffix "import_".toList = "import".toList ∧
    toJsonName "import_".toList = "import".toList ∧ toJsonName "item_id".toList = "itemId".toList := by decide

/-! ## `Address.rel` over the method body translated from the current source (Model/AddressT.lean, Lemmas/AddressT.lean) -/
section TranslatedRel
open GapicModel.Model.AddressT GapicModel.Lemmas.AddressT GapicModel.PyRt GapicModel.Pinned.Funcs

/-- **a reference inside the file being written is late-bound (quoted) unless it is to a type nested in the top-level message
being written**; a type of another file is referred to by `str(self)`.  Stated about the translation of `Address.rel` as it stands
in /repo.  (A bare name for "earlier" declarations — the seeded change of round 8 — contradicts it: a nested message's reference
to its enclosing message would be bare.) -/
theorem translated_rel_quotes_same_file_references (a b : GapicModel.Model.AddressT.Addr) :
    ((a.package == b.package && a.module == b.module) = false ∧ GapicModel.Model.AddressT.rel a b = str a) ∨
    ((a.package == b.package && a.module == b.module) = true ∧
      (quoted (GapicModel.Model.AddressT.rel a b) ∨
       (b.parent = [] ∧ a.parent.head? = some b.name ∧
        GapicModel.Model.AddressT.rel a b = join ['.'] (a.parent.drop 1 ++ [a.name])))) :=
  rel_cases a b

/-- `Address.rel` raises for no input -/
theorem translated_rel_never_raises (sp : List Str) (sm : Str) (spar : List Str) (sn : Str) (op : List Str) (om : Str)
    (opar : List Str) (on s : Str) : address_rel_ok sp sm spar sn op om opar on s = true :=
  rel_never_raises sp sm spar sn op om opar on s

/-- non-vacuity: a nested message referring to its enclosing message is quoted; the enclosing message referring to its nested
type is bare; another file's type is `module.Name` -/
example :
    let n : NamingV := ⟨true, "acme.lib.v1".toList, "v1".toList, [], "lib_v1".toList, []⟩
    let pk := ["acme".toList, "lib".toList, "v1".toList]
    let tree : GapicModel.Model.AddressT.Addr := ⟨"Tree".toList, "lib".toList, pk, [], [], n⟩
    let branch : GapicModel.Model.AddressT.Addr := ⟨"Branch".toList, "lib".toList, pk, ["Tree".toList], [], n⟩
    let other : GapicModel.Model.AddressT.Addr := ⟨"Leaf".toList, "leaf".toList, pk, [], [], n⟩
    GapicModel.Model.AddressT.rel tree branch = "'Tree'".toList ∧
    GapicModel.Model.AddressT.rel branch tree = "Branch".toList ∧
    GapicModel.Model.AddressT.rel other tree = "leaf.Leaf".toList := by decide

/-- the hand-written `fieldAttr` of the C02 model IS the translation of `Field.name` as it stands in /repo -/
theorem fieldAttr_is_translated (pp : Bool) (n : List Char) :
    GapicModel.Model.Types.fieldAttr pp n = GapicModel.Pinned.Funcs.field_name n pp := by
  unfold GapicModel.Model.Types.fieldAttr GapicModel.Pinned.Funcs.field_name GapicModel.Model.Types.reserved
  simp only [GapicModel.PyRt.strIn, List.contains_iff_mem, Bool.and_eq_true, decide_eq_true_eq]

end TranslatedRel

end GapicModel.Props.C02
