import GapicModel.Model.Grpc
import GapicModel.Pinned.Funcs
/-
C03 — gRPC calls reach the right RPC with the caller's request and return the reply.

Theorems about `Model/Grpc.lean` (which follows wrappers.py / metadata.py / the transport and client
templates).  The composite statement is `call_reaches_rpc`; the places where the real code leaves
the statement are the `…_counterexample` theorems (each one is also run on the real generator by
harness/props/c03.py, corpus/C03).
-/
namespace GapicModel.Props.C03
open GapicModel.Model.Grpc

section Aux

theorem lastDef_eq_none {α : Type} (l : List (Str × α)) (k : Str) :
    lastDef l k = none ↔ ∀ p ∈ l, p.1 ≠ k := by
  induction l with
  | nil => simp [lastDef]
  | cons p r ih =>
    obtain ⟨a, v⟩ := p
    simp only [lastDef]
    cases h : lastDef r k with
    | some w =>
      simp only [reduceCtorEq, false_iff]
      intro hall
      have := ih.mpr (fun q hq => hall q (List.mem_cons_of_mem _ hq))
      simp [this] at h
    | none =>
      have hr := ih.mp h
      by_cases hak : a = k
      · simp [hak]
      · simp only [hak, if_false, true_iff]
        intro q hq
        rcases List.mem_cons.mp hq with rfl | hq
        · exact hak
        · exact hr q hq

theorem lastDef_append_none {α : Type} (a b : List (Str × α)) (k : Str) (h : lastDef b k = none) :
    lastDef (a ++ b) k = lastDef a k := by
  induction a with
  | nil => simp [lastDef, h]
  | cons p r ih =>
    obtain ⟨x, v⟩ := p
    simp only [List.cons_append, lastDef, ih]

theorem lastDef_append_some {α : Type} (a b : List (Str × α)) (k : Str) (w : α) (h : lastDef b k = some w) :
    lastDef (a ++ b) k = some w := by
  induction a with
  | nil => simpa using h
  | cons p r ih =>
    obtain ⟨x, v⟩ := p
    simp only [List.cons_append, lastDef, ih]

/-- in a table built from a list whose keys are pairwise distinct every element finds itself -/
theorem lastDef_map_nodup {β α : Type} (f : β → Str) (g : β → α) (l : List β) (x : β)
    (hn : (l.map f).Nodup) (hx : x ∈ l) :
    lastDef (l.map (fun m => (f m, g m))) (f x) = some (g x) := by
  induction l with
  | nil => simp at hx
  | cons y r ih =>
    simp only [List.map_cons, List.nodup_cons] at hn
    simp only [List.map_cons, lastDef]
    rcases List.mem_cons.mp hx with rfl | hx
    · have : lastDef (r.map (fun m => (f m, g m))) (f x) = none := by
        rw [lastDef_eq_none]
        intro p hp
        simp only [List.mem_map] at hp
        obtain ⟨z, hz, rfl⟩ := hp
        intro heq
        exact hn.1 (List.mem_map.mpr ⟨z, hz, heq⟩)
      simp [this]
    · simp [ih hn.2 hx]

theorem nodup_map_inj {β : Type} (f : β → Str) (l : List β) (hn : (l.map f).Nodup)
    (a b : β) (ha : a ∈ l) (hb : b ∈ l) (h : f a = f b) : a = b := by
  induction l with
  | nil => simp at ha
  | cons y r ih =>
    simp only [List.map_cons, List.nodup_cons] at hn
    rcases List.mem_cons.mp ha with ha' | ha' <;> rcases List.mem_cons.mp hb with hb' | hb'
    · rw [ha', hb']
    · subst ha'
      exact absurd (List.mem_map.mpr ⟨b, hb', h.symm⟩) hn.1
    · subst hb'
      exact absurd (List.mem_map.mpr ⟨a, ha', h⟩) hn.1
    · exact ih hn.2 ha' hb'

theorem endsWithPb2_append (s : Str) : endsWithPb2 (s ++ ['_', 'p', 'b', '2']) = true := by
  unfold endsWithPb2
  rw [List.isSuffixOf_iff_suffix]
  exact List.suffix_append _ _

/-- splitting at the first occurrence of a separator is unique -/
theorem append_sep_inj {α : Type} [DecidableEq α] (c : α) :
    ∀ (a b x y : List α), c ∉ a → c ∉ b → a ++ c :: x = b ++ c :: y → a = b ∧ x = y := by
  intro a
  induction a with
  | nil =>
    intro b x y _ hb h
    cases b with
    | nil => simpa using h
    | cons d b' =>
      simp only [List.nil_append, List.cons_append, List.cons.injEq] at h
      exact absurd (by rw [← h.1]; exact List.mem_cons_self ..) hb
  | cons e a' ih =>
    intro b x y ha hb h
    cases b with
    | nil =>
      simp only [List.nil_append, List.cons_append, List.cons.injEq] at h
      exact absurd (by rw [h.1]; exact List.mem_cons_self ..) ha
    | cons d b' =>
      simp only [List.cons_append, List.cons.injEq] at h
      have := ih b' x y (fun hc => ha (List.mem_cons_of_mem _ hc)) (fun hc => hb (List.mem_cons_of_mem _ hc)) h.2
      exact ⟨by rw [h.1, this.1], this.2⟩

end Aux

/-! ## Path, arity -/

/-- the gRPC wire name of a method (HTTP/2 `:path`), as the gRPC specification gives it -/
def wirePath (package : List Str) (service method : Str) : Str :=
  "/".toList ++ dotted package ++ ".".toList ++ service ++ "/".toList ++ method

/-- **The stub path is built from the WIRE names**: whatever the keyword / transport-unsafe tables
contain, no disambiguating suffix reaches the path of the method's own stub. -/
theorem rpc_path_uses_wire_names (n : Naming) (svc : Service) (m : Method) :
    (mkStub n svc m).path = wirePath svc.package svc.name m.name := by
  simp [mkStub, rpcPath, wirePath]

/-- **The `<proto package>` of the path is the package of the file that DECLARES the service**
(`method.meta.address.package`), not the API's root package (`naming.proto_package`, the common
prefix of the packages being generated): the stub path does not read the naming at all. -/
theorem rpc_path_ignores_api_root (n n' : Naming) (svc : Service) (m : Method) :
    (mkStub n svc m).path = (mkStub n' svc m).path := rfl

/-- … and for a service declared in a sub-package of the API (`acme.zoo.v1.keepers` next to
`acme.zoo.v1`) the two packages differ: the path is `/acme.zoo.v1.keepers.Keepers/GetKeeper`, and a
path built from the API's root package would address an RPC no server implements.  (Run on the real
generator: corpus/C03/service_in_sub_package.json, services_in_nested_sub_package.json.) -/
theorem rpc_path_sub_package_counterexample :
    let n : Naming := { protoPackage := "acme.zoo.v1".toList }
    let a : Addr := ⟨["acme".toList, "zoo".toList, "v1".toList, "keepers".toList], "keepers".toList, [], "Keeper".toList, []⟩
    let m : Method := { name := "GetKeeper".toList, input := a, output := a, clientStreaming := false, serverStreaming := false }
    let svc : Service := { package := a.package, name := "Keepers".toList, methods := [m] }
    inApi n a = true ∧
    (mkStub n svc m).path = "/acme.zoo.v1.keepers.Keepers/GetKeeper".toList ∧
    (mkStub n svc m).path ≠ wirePath [n.protoPackage] svc.name m.name := by decide

/-- fully qualified service name, `<proto package>.<Service>` -/
def qualified (svc : Service) : Str := dotted svc.package ++ '.' :: svc.name

/-- **Services of DIFFERENT packages of one API on one channel are told apart by the path**: when the
qualified service names contain no `/` (protoc: dotted identifiers), equal paths mean the same
qualified service and the same RPC name — `acme.zoo.v1.Keepers` and `acme.zoo.v1.keepers.Keepers`
never collide. -/
theorem rpc_path_qualified_injective (s1 s2 : Service) (m1 m2 : Method)
    (h1 : '/' ∉ qualified s1) (h2 : '/' ∉ qualified s2) (h : rpcPath s1 m1 = rpcPath s2 m2) :
    qualified s1 = qualified s2 ∧ m1.name = m2.name := by
  unfold rpcPath at h
  simp only [List.cons_append, List.cons.injEq, true_and] at h
  exact append_sep_inj '/' (qualified s1) (qualified s2) m1.name m2.name h1 h2
    (by simpa [qualified, List.append_assoc] using h)

example : '/' ∉ qualified { package := ["acme".toList, "zoo".toList, "v1".toList, "keepers".toList], name := "Keepers".toList, methods := [] } := by decide

/-- within one service the path determines the RPC name -/
theorem rpc_path_injective (svc : Service) (a b : Method) (h : rpcPath svc a = rpcPath svc b) :
    a.name = b.name := by
  unfold rpcPath at h
  have h1 := List.append_cancel_left h
  simpa using h1

/-- **Two services of one API on one channel are told apart by the path**: for services of the same
package whose names contain no `/` (protoc: identifiers), equal paths mean the same service name and
the same RPC name — an RPC `Import` of `Library` and an RPC `Import` of `Archive` never collide. -/
theorem rpc_path_service_injective (s1 s2 : Service) (m1 m2 : Method) (hp : s1.package = s2.package)
    (h1 : '/' ∉ s1.name) (h2 : '/' ∉ s2.name) (h : rpcPath s1 m1 = rpcPath s2 m2) :
    s1.name = s2.name ∧ m1.name = m2.name := by
  unfold rpcPath at h
  rw [hp] at h
  simp only [List.cons_append, List.append_assoc, List.cons.injEq, true_and] at h
  have h' := List.append_cancel_left h
  simp only [List.cons.injEq, true_and] at h'
  exact append_sep_inj '/' s1.name s2.name m1.name m2.name h1 h2 h'

example : rpcPath { package := [['a']], name := ['L'], methods := [] }
      { name := ['I'], input := ⟨[], [], [], [], []⟩, output := ⟨[], [], [], [], []⟩, clientStreaming := false, serverStreaming := false }
    = ['/', 'a', '.', 'L', '/', 'I'] := by decide

/-- the path ends in `/<Method>` -/
theorem rpc_path_suffix (svc : Service) (m : Method) : ('/' :: m.name) <:+ rpcPath svc m := by
  unfold rpcPath
  exact List.suffix_append _ _

/-- **Stub kind ↔ the two streaming flags** (a bijection onto the four channel factories) -/
theorem stub_kind_exact (m m' : Method) :
    stubKind m = stubKind m' ↔
      (m.clientStreaming = m'.clientStreaming ∧ m.serverStreaming = m'.serverStreaming) := by
  unfold stubKind arity
  cases m.clientStreaming <;> cases m.serverStreaming <;>
    cases m'.clientStreaming <;> cases m'.serverStreaming <;> decide

/-- the four values, spelled as `grpc.Channel`'s factory methods -/
theorem stub_kind_values (m : Method) :
    stubKind m =
      (match m.clientStreaming, m.serverStreaming with
       | false, false => "unary_unary".toList
       | false, true => "unary_stream".toList
       | true, false => "stream_unary".toList
       | true, true => "stream_stream".toList) := by
  unfold stubKind arity
  cases m.clientStreaming <;> cases m.serverStreaming <;> decide

/-! ## The three places that name a stub agree -/

/-- base.py.j2 (`_prep_wrapped_messages` keys), grpc*.py.j2 (property names) and the client
(`self._transport.<key>`) use one and the same expression. -/
theorem stub_names_agree (T : Tables) (m : Method) : clientLookupKey T m = stubKey T m := rfl

/-- every key the client looks up is a key of the `_wrapped_methods` dict literal (by name) -/
theorem wrapped_lookup_total (T : Tables) (svc : Service) :
    ∀ m ∈ svc.methods, clientLookupKey T m ∈ svc.methods.map (stubKey T) ++ svc.mixins.map snake := by
  intro m hm
  exact List.mem_append_left _ (List.mem_map.mpr ⟨m, hm, rfl⟩)

/-- What protoc does NOT guarantee and the generator does not establish: forced hypotheses of the
composite theorem, each probed on the real code (corpus/C03). -/
structure WF (T : Tables) (svc : Service) : Prop where
  /-- snake-cased transport-safe names are pairwise distinct -/
  keys : (svc.methods.map (stubKey T)).Nodup
  /-- snake-cased client method names are pairwise distinct -/
  attrs : (svc.methods.map (clientAttr T)).Nodup
  /-- no stub property is shadowed by a member defined later in the transport class body -/
  later : ∀ m ∈ svc.methods, stubKey T m ≠ ['c', 'l', 'o', 's', 'e'] ∧ stubKey T m ≠ ['k', 'i', 'n', 'd'] ∧
            stubKey T m ∉ svc.mixins.map snake
  /-- no proto file of a request/response type is itself named `*_pb2.proto` -/
  modules : ∀ m ∈ svc.methods, endsWithPb2 m.input.module = false ∧ endsWithPb2 m.output.module = false

theorem stub_keys_injective (T : Tables) (svc : Service) (wf : WF T svc) (a b : Method)
    (ha : a ∈ svc.methods) (hb : b ∈ svc.methods) (h : stubKey T a = stubKey T b) : a = b :=
  nodup_map_inj (stubKey T) svc.methods wf.keys a b ha hb h

/-- **Attribute lookup on the transport reaches the method's own stub.** -/
theorem stub_lookup_own (T : Tables) (n : Naming) (svc : Service) (wf : WF T svc)
    (m : Method) (hm : m ∈ svc.methods) :
    lastDef (members T n svc) (clientLookupKey T m) = some (.stub (mkStub n svc m)) := by
  obtain ⟨hclose, hkind, hmix⟩ := wf.later m hm
  unfold members
  change lastDef _ (stubKey T m) = _
  rw [lastDef_append_none]
  · rw [lastDef_append_none]
    · rw [lastDef_append_none]
      · apply lastDef_append_some
        exact lastDef_map_nodup (stubKey T) (fun m => Member.stub (mkStub n svc m)) svc.methods m wf.keys hm
      · simp only [lastDef, if_neg (Ne.symm hclose)]
    · rw [lastDef_eq_none]
      intro p hp
      simp only [List.mem_map] at hp
      obtain ⟨x, hx, rfl⟩ := hp
      intro heq
      exact hmix (List.mem_map.mpr ⟨x, hx, heq⟩)
  · simp only [lastDef, if_neg (Ne.symm hkind)]

/-- attribute lookup on the client class reaches the method's own definition -/
theorem client_lookup_own (T : Tables) (svc : Service) (wf : WF T svc) (m : Method) (hm : m ∈ svc.methods) :
    clientResolve T svc (clientAttr T m) = some m :=
  lastDef_map_nodup (clientAttr T) (fun m => m) svc.methods m wf.attrs hm

/-! ## Serializer selection -/

/-- **The template's `endswith('_pb2')` test picks the attribute family that exists on the class**,
provided the proto file is not itself called `*_pb2.proto`. -/
theorem serializer_consistent (n : Naming) (a : Addr) (h : endsWithPb2 a.module = false) :
    templCodec n a = runtimeClass n a := by
  unfold templCodec runtimeClass importModule isProtoPlus
  cases h1 : inApi n a
  · cases h2 : n.protoPlusDeps.contains (dotted a.package)
    · simp [endsWithPb2_append]
    · simp [h]
  · simp [h]

/-- as the design states it: the emitted attribute is the pb2 one iff the type is not proto-plus -/
theorem serializer_pb2_iff_not_proto_plus (n : Naming) (a : Addr) (h : endsWithPb2 a.module = false) :
    endsWithPb2 (importModule n a) = true ↔ isProtoPlus n a = false := by
  have := serializer_consistent n a h
  unfold templCodec runtimeClass at this
  cases h1 : endsWithPb2 (importModule n a) <;> cases h2 : isProtoPlus n a <;> simp [h1, h2] at this ⊢

/-- §9-F10: a target file `extra_pb2.proto` — proto-plus class, `SerializeToString` written. -/
theorem serializer_pb2_named_module_counterexample :
    let n : Naming := { protoPackage := "acme.lib.v1".toList }
    let a : Addr := { package := ["acme".toList, "lib".toList, "v1".toList], module := "extra_pb2".toList,
                      parent := [], name := "Extra".toList }
    templCodec n a = .pb2 ∧ runtimeClass n a = .plus := by decide

/-- `_prep_wrapped_messages` succeeds: every stub can be built -/
theorem construct_ok (T : Tables) (n : Naming) (svc : Service) (wf : WF T svc) :
    construct T n svc = .ok () := by
  unfold construct
  suffices h : ∀ l : List Method, (∀ m ∈ l, m ∈ svc.methods) →
      prepAll (members T n svc) (l.map (stubKey T)) = .ok () from h svc.methods (fun _ h => h)
  intro l
  induction l with
  | nil => intro _; rfl
  | cons m r ih =>
    intro hsub
    have hm := hsub m (List.mem_cons_self ..)
    have hown := stub_lookup_own T n svc wf m hm
    have hmod := wf.modules m hm
    have h1 : prepOne (members T n svc) (stubKey T m) = .ok () := by
      unfold prepOne
      rw [show stubKey T m = clientLookupKey T m from rfl, hown]
      simp [mkStub, serializer_consistent n m.input hmod.1, serializer_consistent n m.output hmod.2]
    simp only [List.map_cons, prepAll, h1]
    exact ih (fun x hx => hsub x (List.mem_cons_of_mem _ hx))

/-! ## Request coercion -/

/-- the message the statement calls "the equivalent message" -/
def equivMsg {μ δ : Type} (ops : MsgOps μ δ) : Arg μ δ → μ
  | .omitted => ops.empty
  | .dict d => ops.ofDict d
  | .inst x => x
  | .iter _ => ops.empty

/-- **instance ≡ dict ≡ omitted**, for a request type of the method's own package and of any other
package alike, with NO hypothesis on the message class (since fix 59b2075 `elif request is None:`;
before it a falsy instance of another package's proto-plus class was replaced by `T()`). -/
theorem coerce_equiv {μ δ : Type} (ops : MsgOps μ δ) (dp : Bool) (a : Arg μ δ) :
    coerce ops dp a = equivMsg ops a := by
  cases a <;> simp [coerce, equivMsg]

/-- regression for the repaired defect: a message with an explicitly present default value
(`optional int32 n = 0`, falsy for proto-plus) is sent as given, as instance and as dict.
Messages are modelled as the list of (field number, value) pairs that are PRESENT. -/
theorem coerce_falsy_instance_regression :
    let ops : MsgOps (List (Nat × Int)) (List (Nat × Int)) := { empty := [], ofDict := id }
    coerce ops true (.inst [(2, 0)]) = [(2, 0)] ∧ coerce ops true (.dict [(2, 0)]) = [(2, 0)] ∧
    coerce ops true .omitted = [] := by decide

/-! ## Return value -/

theorem return_shape {ρ : Type} (m : Method) (replies : List ρ) :
    (isVoid m = true → clientReturn m replies = .none) ∧
    (isVoid m = false → m.serverStreaming = true → clientReturn m replies = .stream replies) ∧
    (isVoid m = false → m.serverStreaming = false → ∀ r, replies = [r] → clientReturn m replies = .value r) := by
  refine ⟨?_, ?_, ?_⟩
  · intro h; simp [clientReturn, h]
  · intro h h2; simp [clientReturn, h, h2]
  · intro h h2 r hr; simp [clientReturn, h, h2, hr]

/-- the call is issued exactly once, except by the asyncio method of a void streaming RPC -/
theorem issued_iff (fl : Flavor) (m : Method) :
    issued fl m = false ↔
      (fl = .async ∧ isVoid m = true ∧ (m.serverStreaming = true ∨ m.clientStreaming = true)) := by
  cases fl <;> cases hv : isVoid m <;> cases hs : m.serverStreaming <;> cases hc : m.clientStreaming <;>
    simp [issued, hv, hs, hc]

/-! ## The composite statement -/

/-- the request argument fits the method's arity -/
def ArgFits {μ δ : Type} (m : Method) (a : Arg μ δ) : Prop :=
  match a with
  | .iter _ => m.clientStreaming = true
  | _ => m.clientStreaming = false

/-- what the server must see -/
def sentSpec {μ δ : Type} (ops : MsgOps μ δ) : Arg μ δ → List μ
  | .iter xs => xs
  | a => [equivMsg ops a]

/-- **C03.** For a well-formed service, every method, both client flavours (except asyncio on a
void streaming RPC), every way of passing the request and every list of replies: the
transport can be constructed and the client method issues exactly one call on the channel, to
`/<package>.<Service>/<Method>`, with the declared arity, carrying the caller's request (instance,
dict and omitted being equivalent), and hands back `None` for Empty, the stream of replies for a
server-streaming RPC and the single reply otherwise. -/
theorem call_reaches_rpc {μ δ ρ : Type} (T : Tables) (n : Naming) (ops : MsgOps μ δ) (fl : Flavor)
    (svc : Service) (wf : WF T svc) (m : Method) (hm : m ∈ svc.methods)
    (arg : Arg μ δ) (hfit : ArgFits m arg)
    (hissued : ¬ (fl = .async ∧ isVoid m = true ∧ (m.serverStreaming = true ∨ m.clientStreaming = true)))
    (replies : List ρ) :
    runCall T n ops fl svc m arg replies =
      .ok { calls := [⟨wirePath svc.package svc.name m.name, stubKind m, sentSpec ops arg⟩],
            ret := clientReturn m replies } := by
  have hi : issued fl m = true := by
    cases h : issued fl m
    · exact absurd ((issued_iff fl m).mp h) hissued
    · rfl
  unfold runCall
  simp only [construct_ok T n svc wf, client_lookup_own T svc wf m hm, stub_lookup_own T n svc wf m hm]
  have hp := rpc_path_uses_wire_names n svc m
  cases arg with
  | iter xs =>
    have hcs : m.clientStreaming = true := hfit
    simp [hcs, hi, sentSpec, ← hp, mkStub]
  | omitted =>
    have hcs : m.clientStreaming = false := hfit
    simp [hcs, hi, sentSpec, ← hp, mkStub, coerce_equiv ops _]
  | dict d =>
    have hcs : m.clientStreaming = false := hfit
    simp [hcs, hi, sentSpec, ← hp, mkStub, coerce_equiv ops _]
  | inst x =>
    have hcs : m.clientStreaming = false := hfit
    simp [hcs, hi, sentSpec, ← hp, mkStub, coerce_equiv ops _]

/-- sync and asyncio clients are observationally equal wherever the asyncio call is issued -/
theorem sync_async_agree {μ δ ρ : Type} (T : Tables) (n : Naming) (ops : MsgOps μ δ)
    (svc : Service) (m : Method) (arg : Arg μ δ) (replies : List ρ)
    (h : ¬ (isVoid m = true ∧ (m.serverStreaming = true ∨ m.clientStreaming = true)))
    (hm : clientResolve T svc (clientAttr T m) = some m) :
    runCall T n ops .async svc m arg replies = runCall T n ops .sync svc m arg (ρ := ρ) replies := by
  have : issued .async m = issued .sync m := by
    simp only [issued]
    cases hv : isVoid m <;> cases hs : m.serverStreaming <;> cases hc : m.clientStreaming <;> simp_all
  unfold runCall
  simp only [hm, this]

/-! ## Channel identity: several transports of one service in one process -/

section Channels

theorem lookup_getStub_self (cache : StubCache) (k : Str) (chan : Nat) :
    (getStub cache k chan).1.lookup k = some (getStub cache k chan).2 := by
  unfold getStub
  cases h : cache.lookup k with
  | some c => simp [h]
  | none => simp [List.lookup]

theorem getStub_preserves (cache : StubCache) (k k' : Str) (chan c : Nat) (h : cache.lookup k' = some c) :
    (getStub cache k chan).1.lookup k' = some c := by
  unfold getStub
  cases hk : cache.lookup k with
  | some _ => simpa using h
  | none =>
    by_cases e : k' = k
    · subst e; simp [h] at hk
    · simp [List.lookup, h]
      have : (k' == k) = false := by simpa using e
      simp [this]

theorem prepCache_preserves (keys : List Str) (cache : StubCache) (k' : Str) (chan c : Nat)
    (h : cache.lookup k' = some c) : (prepCache cache keys chan).lookup k' = some c := by
  induction keys generalizing cache with
  | nil => simpa [prepCache] using h
  | cons k r ih =>
    simp only [prepCache, List.foldl_cons]
    exact ih _ (getStub_preserves cache k k' chan c h)

/-- every binding of a cache filled from empty on `chan` points to `chan` -/
theorem prepCache_all_own (keys : List Str) (cache : StubCache) (chan : Nat)
    (h : ∀ p ∈ cache, p.2 = chan) : ∀ p ∈ prepCache cache keys chan, p.2 = chan := by
  induction keys generalizing cache with
  | nil => simpa [prepCache] using h
  | cons k r ih =>
    simp only [prepCache, List.foldl_cons]
    apply ih
    unfold getStub
    cases hk : cache.lookup k with
    | some _ => simpa using h
    | none =>
      intro p hp
      rcases List.mem_cons.mp hp with rfl | hp
      · rfl
      · exact h p hp

theorem lookup_mem {cache : StubCache} {k : Str} {c : Nat} (h : cache.lookup k = some c) : (k, c) ∈ cache := by
  induction cache with
  | nil => simp [List.lookup] at h
  | cons p r ih =>
    obtain ⟨a, v⟩ := p
    simp only [List.lookup] at h
    split at h
    · rename_i heq
      have : k = a := by simpa using heq
      simp at h; subst h; subst this; exact List.mem_cons_self ..
    · exact List.mem_cons_of_mem _ (ih h)

/-- **Calls go to the transport's own channel**: a transport constructed as `__init__` does it
(fresh `_stubs`, every stub property evaluated on its own channel) issues every call through ANY key on
its own channel — whatever other transports of the same service exist in the process, since nothing
of them enters `initTransport`. -/
theorem calls_go_to_own_channel (keys : List Str) (chan : Nat) (k : Str) :
    callChannel (initTransport keys chan) k chan = chan := by
  unfold callChannel getStub
  cases h : (initTransport keys chan).lookup k with
  | none => rfl
  | some c =>
    have := prepCache_all_own keys [] chan (by simp) (k, c) (lookup_mem h)
    simpa using this

/-- what the per-instance `self._stubs = {}` is for: a transport that fills a cache INHERITED from
an earlier transport (the class-level dict) calls on the EARLIER transport's channel. -/
theorem shared_stub_cache_counterexample :
    let keys := [['g', 'e', 't'], ['p', 'u', 't']]
    let first := initTransport keys 1                 -- transport #1 on channel 1
    let second := prepCache first keys 2               -- transport #2 on channel 2, same dict
    callChannel second ['g', 'e', 't'] 2 = 1 ∧ callChannel (initTransport keys 2) ['g', 'e', 't'] 2 = 2 := by decide

/-- in general: a binding already in an inherited cache survives the second construction -/
theorem inherited_binding_wins (keys : List Str) (cache : StubCache) (k : Str) (c chan : Nat)
    (h : cache.lookup k = some c) : callChannel (prepCache cache keys chan) k chan = c := by
  unfold callChannel getStub
  simp [prepCache_preserves keys cache k chan c h]

end Channels

/-! ## Finite facts about the pinned tables (bridged to /repo by T1) -/

/-- the three transport-unsafe names get a suffix and no longer shadow the members defined
before the stubs; the keyword names get one on both the client and the transport -/
theorem unsafe_names_suffixed :
    ∀ w ∈ ["CreateChannel", "GrpcChannel", "OperationsClient", "Close", "Kind", "CLOSE", "kind"],
      snake (transportSafeName pinnedTables w.toList) ∉
        ["create_channel".toList, "grpc_channel".toList, "operations_client".toList, "close".toList, "kind".toList] ∧
      clientMethodName pinnedTables w.toList = w.toList := by decide

/-- all spellings of a word that differ only in letter case -/
def caseVariants : List Char → List (List Char)
  | [] => [[]]
  | c :: r => (caseVariants r).flatMap fun t => [c :: t, Char.ofNat (c.toNat - 32) :: t]

/-- `WF.later` for the names the table is about: EVERY spelling of `close` / `kind` (48 RPC names,
`Close`, `CLOSE`, `kInd`, …) gets a stub key different from the two members defined after the stubs. -/
theorem later_members_never_hit :
    ∀ w ∈ caseVariants ['c', 'l', 'o', 's', 'e'] ++ caseVariants ['k', 'i', 'n', 'd'],
      snake (transportSafeName pinnedTables w) ≠ ['c', 'l', 'o', 's', 'e'] ∧
      snake (transportSafeName pinnedTables w) ≠ ['k', 'i', 'n', 'd'] := by decide

theorem keyword_names_suffixed :
    ∀ w ∈ ["Import", "Class", "Global", "Return", "Yield", "Async", "Await", "Not", "from", "IMPORT"],
      snake (clientMethodName pinnedTables w.toList) ∉ pinnedTables.kw ∧
      snake (transportSafeName pinnedTables w.toList) ∉ pinnedTables.kw ∧
      snake (clientMethodName pinnedTables w.toList) = snake (transportSafeName pinnedTables w.toList) := by decide

/-! ## Where the real code leaves the statement (each is replayed on /repo from corpus/C03) -/

section Counterexamples

deriving instance DecidableEq for Except

def pkg : List Str := ["acme".toList, "lib".toList, "v1".toList]
def nm : Naming := { protoPackage := "acme.lib.v1".toList }
def local_ (name : String) : Addr := { package := pkg, module := "lib".toList, parent := [], name := name.toList }
def emptyA : Addr := { package := ["google".toList, "protobuf".toList], module := "empty".toList, parent := [], name := "Empty".toList }
def meth (name : String) (out : Addr := local_ "Book") (cs ss : Bool := false) : Method :=
  { name := name.toList, input := local_ "Req", output := out, clientStreaming := cs, serverStreaming := ss }
def svcOf (ms : List Method) : Service := { package := pkg, name := "Library".toList, methods := ms }
def natOps : MsgOps Nat Nat := { empty := 0, ofDict := id }

/-- regression (fix 4266af3): an RPC named `Close` — `close` is now a transport-unsafe name, the stub
property is `close_` and is no longer shadowed by `def close(self)`; the call reaches `/…/Close`. -/
theorem close_rpc_regression :
    runCall (ρ := Nat) pinnedTables nm natOps .sync (svcOf [meth "GetBook", meth "Close"]) (meth "Close") (.inst 7) [1]
      = .ok { calls := [⟨"/acme.lib.v1.Library/Close".toList, "unary_unary".toList, [7]⟩], ret := .value 1 } ∧
    stubKey pinnedTables (meth "Close") = "close_".toList ∧ clientAttr pinnedTables (meth "Close") = "close".toList := by decide

/-- regression (fix 4266af3): an RPC named `Kind` — the transport can be constructed and every
RPC of the service, `Kind` included, is callable. -/
theorem kind_rpc_regression :
    runCall (ρ := Nat) pinnedTables nm natOps .async (svcOf [meth "GetBook", meth "Kind"]) (meth "GetBook") (.inst 7) [1]
      = .ok { calls := [⟨"/acme.lib.v1.Library/GetBook".toList, "unary_unary".toList, [7]⟩], ret := .value 1 } ∧
    runCall (ρ := Nat) pinnedTables nm natOps .sync (svcOf [meth "GetBook", meth "Kind"]) (meth "Kind") (.dict 7) [1]
      = .ok { calls := [⟨"/acme.lib.v1.Library/Kind".toList, "unary_unary".toList, [7]⟩], ret := .value 1 } := by decide

/-- what the table was before the fix: `Close` is shadowed (TypeError), `Kind` breaks construction.
Kept as the reason why `WF.later` is a hypothesis of the composite theorem. -/
theorem shadowed_stub_counterexample :
    let T0 : Tables := { pinnedTables with unsafeExtra := [] }
    runCall (ρ := Nat) T0 nm natOps .sync (svcOf [meth "GetBook", meth "Close"]) (meth "Close") (.inst 7) [1]
      = .error .typeError ∧
    runCall (ρ := Nat) T0 nm natOps .sync (svcOf [meth "GetBook", meth "Kind"]) (meth "GetBook") (.inst 7) [1]
      = .error .attributeError := by decide

/-- an RPC of the API NAMED like a mix-in RPC that is mixed in (`svc.mixins` = keys of
`api.mixin_api_methods`): the mix-in's stub property is defined AFTER the service's own one and
replaces it (third clause of `WF.later`; what the mix-in stub then does is C17's model).  Operations
and Locations mix-ins do not yield to same-named RPCs of the API (findings/C03.json,
`mixin-shadows-own-rpc:operations-locations`); IAM mix-ins do (`API._has_iam_overrides`), so an
IAM-named RPC of the API never meets its name in `mixins` (corpus/C03/own_iam_rpcs_declared_*):
with other mix-ins only, the own RPC is reached on its own path. -/
theorem mixin_shadows_own_rpc_counterexample :
    let svc (mx : List String) : Service := { svcOf [meth "GetBook", meth "GetLocation"] with mixins := mx.map String.toList }
    lastDef (members pinnedTables nm (svc ["GetLocation"])) (stubKey pinnedTables (meth "GetLocation")) = some .mixinStub ∧
    runCall (ρ := Nat) pinnedTables nm natOps .sync (svc ["GetLocation"]) (meth "GetLocation") (.inst 7) [1] = .error .typeError ∧
    runCall (ρ := Nat) pinnedTables nm natOps .sync (svc ["ListLocations", "SetIamPolicy"]) (meth "GetLocation") (.inst 7) [1]
      = .ok { calls := [⟨"/acme.lib.v1.Library/GetLocation".toList, "unary_unary".toList, [7]⟩], ret := .value 1 } := by decide

/-- two RPCs with one snake-case form: the client method of `GetBook` calls `/…/Get_book`. -/
theorem snake_collision_counterexample :
    runCall (ρ := Nat) pinnedTables nm natOps .sync (svcOf [meth "GetBook", meth "Get_book"]) (meth "GetBook") (.inst 7) [1]
      = .ok { calls := [⟨"/acme.lib.v1.Library/Get_book".toList, "unary_unary".toList, [7]⟩], ret := .value 1 } := by decide

/-- §9-F12: asyncio client, server-streaming RPC returning Empty: no call at all (the sync client
issues it and returns None). -/
theorem void_server_streaming_async_counterexample :
    runCall (ρ := Nat) pinnedTables nm natOps .async (svcOf [meth "Watch" emptyA false true]) (meth "Watch" emptyA false true) (.inst 7) [0, 0]
      = .ok { calls := [], ret := .none } ∧
    runCall (ρ := Nat) pinnedTables nm natOps .sync (svcOf [meth "Watch" emptyA false true]) (meth "Watch" emptyA false true) (.inst 7) [0, 0]
      = .ok { calls := [⟨"/acme.lib.v1.Library/Watch".toList, "unary_stream".toList, [7]⟩], ret := .none } := by decide

/-- asyncio client, CLIENT-streaming RPC returning Empty: the requests never reach the server. -/
theorem void_client_streaming_async_counterexample :
    runCall (ρ := Nat) pinnedTables nm natOps .async (svcOf [meth "Upload" emptyA true false]) (meth "Upload" emptyA true false) (.iter [7, 8]) [0]
      = .ok { calls := [], ret := .none } ∧
    runCall (ρ := Nat) pinnedTables nm natOps .sync (svcOf [meth "Upload" emptyA true false]) (meth "Upload" emptyA true false) (.iter [7, 8]) [0]
      = .ok { calls := [⟨"/acme.lib.v1.Library/Upload".toList, "stream_unary".toList, [7, 8]⟩], ret := .none } := by decide

/-- §9-F10: request type from `extra_pb2.proto`: the transport cannot be constructed. -/
theorem pb2_named_module_counterexample :
    let extra : Addr := { package := pkg, module := "extra_pb2".toList, parent := [], name := "Extra".toList }
    let m : Method := { name := "GetExtra".toList, input := extra, output := local_ "Book", clientStreaming := false, serverStreaming := false }
    runCall (ρ := Nat) pinnedTables nm natOps .sync (svcOf [meth "GetBook", m]) (meth "GetBook") (.inst 7) [1]
      = .error .attributeError := by decide

end Counterexamples

/-! ## Non-vacuity -/

/-- a service with keyword, transport-unsafe, streaming and void RPCs meets `WF` -/
def demoSvc : Service :=
  svcOf [meth "GetBook", meth "Import", meth "CreateChannel" (local_ "Book") false true,
         meth "Purge" emptyA, meth "Chat" (local_ "Book") true true]

theorem demo_wf : WF pinnedTables demoSvc := by
  refine ⟨by decide, by decide, by decide, by decide⟩

example : runCall (ρ := Nat) pinnedTables nm natOps .async demoSvc (meth "Import") (.dict 5) [3] =
    .ok { calls := [⟨"/acme.lib.v1.Library/Import".toList, "unary_unary".toList, [5]⟩], ret := .value 3 } := by decide

example : stubKey pinnedTables (meth "Import") = "import_".toList ∧
    clientAttr pinnedTables (meth "CreateChannel") = "create_channel".toList ∧
    stubKey pinnedTables (meth "CreateChannel") = "create_channel_".toList := by decide

/-- `serializer_consistent` is used with both outcomes -/
example : templCodec nm (local_ "Book") = .plus ∧ templCodec nm emptyA = .pb2 := by decide

/-- `hissued` and `ArgFits` are satisfiable together with a client-streaming method -/
example : ArgFits (μ := Nat) (δ := Nat) (meth "Chat" (local_ "Book") true true) (.iter [1, 2]) := rfl

/-! ## `snake` IS the code's current `to_snake_case`
`Pinned.Funcs.to_snake_case` is the Lean translation of `gapic/utils/case.py: to_snake_case` produced by
harness/pyfun2lean.py (the four patterns re-parsed by CPython from the current source, the order of the substitutions and
the final `lower()` read off the function body); `Bridge.Funcs.to_snake_case` re-proves on every run that translating
/repo's current source gives the same definition. -/

section Translated
open GapicModel.PyRt

theorem snake_is_translated (s : List Char) : snake s = Pinned.Funcs.to_snake_case s := by
  simp only [snake, snakeSubs, GapicModel.Model.Grpc.lower, Pinned.Funcs.to_snake_case, reSub, PyRt.lower]
  rfl

end Translated

end GapicModel.Props.C03
