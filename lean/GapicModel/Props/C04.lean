import GapicModel.Model.Rest
import GapicModel.Pinned.Funcs
/-
C04 — REST calls transcode each request exactly as its google.api.http rule prescribes (DESIGN §7.4).

Relative to a stated specification of `google.api_core.path_template.transcode` (`TranscodeSpec`, met by
the reference `refTranscode`, which T2 compares with the real function) and with protobuf's JSON codec
left to the harness:

  * `uri_rewrite_invertible`, `convertUri_invertible`, `render_scan`   reserved-name rewriting only renames, reversibly
  * `transcode_spec_refines`                                          the reference transcoder meets the specification
  * `partition`, `selects_partition`, `body_carried`                  path ⊎ body ⊎ query = request, nothing twice
  * `binding_selected_is_declared`                                    verb/path instantiate a declared binding
  * `required_default_present`, `no_duplication`, `agree_primary`,
    `unbound_required_in_table`, `camel_eq_json`                      required-field defaults
  * `numeric_enum_switch`                                             `$alt` iff numeric enums
  * `no_binding_refuses`, `refuses_iff`, `no_binding_iff`             NotImplementedError rule
  * `*_counterexample`                                                inputs on which the real code still violates the statement
  * `*_regression`, `fixBody_eq_fixSeg`                               the defects repaired by 151ee10, 3aedaba stay repaired
-/
namespace GapicModel.Props.C04
open GapicModel.Model.Http GapicModel.Model.Rest

section Names

theorem jsonAux_snoc_underscore (up : Bool) (s : Str) : jsonAux up (s ++ ['_']) = jsonAux up s := by
  induction s generalizing up with
  | nil => simp [jsonAux]
  | cons c cs ih =>
    simp only [List.cons_append, jsonAux]
    split
    · exact ih true
    · rw [ih false]

theorem json_name_suffix_invariant (s : Str) : toJsonName (s ++ ['_']) = toJsonName s :=
  jsonAux_snoc_underscore false s

theorem fixSeg_json (s : Str) : toJsonName (fixSeg s) = toJsonName s := by
  unfold fixSeg
  split
  · exact json_name_suffix_invariant s
  · rfl

theorem toLower_of_lower (c : Char) (h : c.isLower = true ∨ c.isDigit = true) : c.toLower = c := by
  simp only [Char.isLower, Char.isDigit, Bool.and_eq_true, decide_eq_true_eq] at h
  simp only [Char.toLower]
  split
  · rename_i hh
    exfalso
    simp only [ge_iff_le, UInt32.le_iff_toNat_le] at h hh
    have e1 : 'a'.val.toNat = 97 := rfl
    have e2 : 'z'.val.toNat = 122 := rfl
    have e3 : 'A'.val.toNat = 65 := rfl
    have e4 : 'Z'.val.toNat = 90 := rfl
    have e5 : '0'.val.toNat = 48 := rfl
    have e6 : '9'.val.toNat = 57 := rfl
    omega
  · rfl

theorem splitOn_ne_nil (sep : Char) (s : Str) : splitOn sep s ≠ [] := by
  cases s with
  | nil => simp [splitOn]
  | cons c cs =>
    simp only [splitOn]
    split
    · simp
    · split <;> simp

/-- segments of a lower snake_case name are lower-case -/
theorem lower_of_lowerSnake_head (s h : Str) (t : List Str) (hs : LowerSnake s) (he : splitOn '_' s = h :: t) :
    lower h = h := by
  induction s generalizing h t with
  | nil =>
    simp [splitOn] at he
    rw [he.1]; rfl
  | cons c cs ih =>
    simp only [splitOn] at he
    split at he
    · simp at he; rw [he.1]; rfl
    · rename_i hc
      have hcs : LowerSnake cs := fun d hd => hs d (List.mem_cons_of_mem _ hd)
      split at he
      · rename_i hnil; exact absurd hnil (splitOn_ne_nil _ _)
      · rename_i h' t' he'
        simp at he
        rw [← he.1]
        have := ih h' t' hcs he'
        simp only [lower, List.map_cons] at this ⊢
        rw [this]
        have hcl := hs c (List.mem_cons_self ..)
        rcases hcl with hcl | hcl
        · exact absurd hcl hc
        · rw [toLower_of_lower c hcl]

theorem camel_json_aux (s : Str) (hs : LowerSnake s) :
    camelItems (splitOn '_' s) = jsonAux false s ∧
    ((splitOn '_' s).map capitalize).flatten = jsonAux true s := by
  induction s with
  | nil => simp [splitOn, camelItems, jsonAux, capitalize, lower]
  | cons c cs ih =>
    have hcs : LowerSnake cs := fun d hd => hs d (List.mem_cons_of_mem _ hd)
    obtain ⟨ihA, ihB⟩ := ih hcs
    by_cases hc : c = '_'
    · subst hc
      simp only [splitOn, if_true, camelItems, jsonAux, List.map_cons, List.flatten_cons, capitalize, lower,
        List.map_nil, List.nil_append]
      exact ⟨ihB, ihB⟩
    · obtain ⟨h, t, he⟩ := List.exists_cons_of_ne_nil (splitOn_ne_nil '_' cs)
      have hl := lower_of_lowerSnake_head cs h t hcs he
      have hcl : c.toLower = c := by
        rcases hs c (List.mem_cons_self ..) with h1 | h1
        · exact absurd h1 hc
        · exact toLower_of_lower c h1
      rw [he] at ihA ihB
      simp only [camelItems] at ihA
      simp only [splitOn, hc, if_false, he, camelItems, jsonAux, List.map_cons, List.flatten_cons, capitalize]
      constructor
      · simp only [lower, List.map_cons, hcl, List.cons_append]
        simp only [lower] at ihA
        rw [ihA]
        simp
      · simp only [List.cons_append]
        rw [ihA]
        simp

/-- **the key of a required default is the JSON name**: on lower snake_case names the generator's
`camel_case` filter and protobuf's `ToJsonName` coincide -/
theorem camel_eq_json (s : Str) (hs : LowerSnake s) : camelKey s = toJsonName s :=
  (camel_json_aux s hs).1

end Names

section Uri

/-- a segment that already looks like a disambiguated reserved word (`class_`): `fixSeg` is not
injective there (`class` and `class_` collide; protoc rejects such a pair: same JSON name). -/
def Presuffixed (s : Str) : Prop := s.getLast? = some '_' ∧ s.dropLast ∈ reserved

instance (s : Str) : Decidable (Presuffixed s) := by unfold Presuffixed; infer_instance

theorem unfixSeg_fixSeg (s : Str) (h : ¬ Presuffixed s) : unfixSeg (fixSeg s) = s := by
  unfold fixSeg
  split
  · rename_i hs
    simp [unfixSeg, hs]
  · rename_i hs
    unfold unfixSeg
    split
    · rename_i hl
      split
      · rename_i hd
        exact absurd ⟨hl, hd⟩ h
      · rfl
    · rfl

theorem joinWith_splitOn (sep : Char) (s : Str) : joinWith sep (splitOn sep s) = s := by
  induction s with
  | nil => simp [splitOn, joinWith]
  | cons c cs ih =>
    simp only [splitOn]
    split
    · rename_i hc
      obtain ⟨h, t, he⟩ := List.exists_cons_of_ne_nil (splitOn_ne_nil sep cs)
      rw [he] at ih ⊢
      simp [joinWith, ih, hc]
    · obtain ⟨h, t, he⟩ := List.exists_cons_of_ne_nil (splitOn_ne_nil sep cs)
      rw [he] at ih ⊢
      cases t with
      | nil => simp [joinWith] at ih ⊢; exact ih
      | cons y r => simp [joinWith] at ih ⊢; exact ih

theorem splitOn_joinWith (sep : Char) (xs : List Str) (hne : xs ≠ []) (h : ∀ x ∈ xs, sep ∉ x) :
    splitOn sep (joinWith sep xs) = xs := by
  induction xs with
  | nil => exact absurd rfl hne
  | cons x r ih =>
    cases r with
    | nil =>
      simp only [joinWith]
      have hx := h x (List.mem_cons_self ..)
      clear ih h hne
      induction x with
      | nil => simp [splitOn]
      | cons c cs ihx =>
        have hc : c ≠ sep := fun e => hx (by simp [e])
        have := ihx (fun hm => hx (List.mem_cons_of_mem _ hm))
        simp [splitOn, hc, this]
    | cons y r' =>
      have ih' := ih (by simp) (fun z hz => h z (List.mem_cons_of_mem _ hz))
      have hx := h x (List.mem_cons_self ..)
      simp only [joinWith]
      clear ih h hne
      induction x with
      | nil => simp [splitOn, ih']
      | cons c cs ihx =>
        have hc : c ≠ sep := fun e => hx (by simp [e])
        have := ihx (fun hm => hx (List.mem_cons_of_mem _ hm))
        simp only [List.cons_append, splitOn, hc, if_false, this]

theorem splitOn_no_sep (sep : Char) (s : Str) : ∀ x ∈ splitOn sep s, sep ∉ x := by
  induction s with
  | nil => simp [splitOn]
  | cons c cs ih =>
    simp only [splitOn]
    split
    · intro x hx
      simp at hx
      rcases hx with hx | hx
      · simp [hx]
      · exact ih x hx
    · rename_i hc
      obtain ⟨h, t, he⟩ := List.exists_cons_of_ne_nil (splitOn_ne_nil sep cs)
      rw [he] at ih ⊢
      intro x hx
      simp at hx
      rcases hx with hx | hx
      · subst hx
        have := ih h (List.mem_cons_self ..)
        simp [this, Ne.symm hc]
      · exact ih x (List.mem_cons_of_mem _ hx)

theorem fixSeg_no_dot (s : Str) (h : '.' ∉ s) : '.' ∉ fixSeg s := by
  unfold fixSeg
  split
  · simp [h]
  · exact h

theorem unfixFieldPath_fixFieldPath (p : Str) (h : ∀ seg ∈ splitOn '.' p, ¬ Presuffixed seg) :
    unfixFieldPath (fixFieldPath p) = p := by
  unfold unfixFieldPath fixFieldPath
  rw [splitOn_joinWith]
  · rw [List.map_map]
    have : (splitOn '.' p).map (unfixSeg ∘ fixSeg) = splitOn '.' p := by
      conv => rhs; rw [← List.map_id (splitOn '.' p)]
      apply List.map_congr_left
      intro x hx
      simp [unfixSeg_fixSeg x (h x hx)]
    rw [this, joinWith_splitOn]
  · simp [splitOn_ne_nil]
  · intro x hx
    simp at hx
    obtain ⟨y, hy, rfl⟩ := hx
    exact fixSeg_no_dot y (splitOn_no_sep '.' p y hy)

/-- **`convert_uri_fieldnames` only renames, reversibly**: literal text and sub-templates are
untouched, and stripping the added underscores gives back every variable name — provided no
segment already looks like a disambiguated reserved word. -/
theorem uri_rewrite_invertible (ps : List Piece)
    (h : ∀ v ∈ varPaths ps, ∀ seg ∈ v, ¬ Presuffixed seg) :
    (ps.map fixPiece).map unfixPiece = ps ∧ texts (ps.map fixPiece) = texts ps := by
  induction ps with
  | nil => simp [texts]
  | cons p r ih =>
    cases p with
    | text s =>
      have := ih (fun v hv => h v (by simpa [varPaths] using hv))
      simp [fixPiece, unfixPiece, texts, this.1, this.2]
    | var n t =>
      have := ih (fun v hv => h v (by simp [varPaths, hv]))
      have hn := unfixFieldPath_fixFieldPath n (h (splitOn '.' n) (by simp [varPaths]))
      simp [fixPiece, unfixPiece, texts, this.1, this.2, hn]

/-! `_VARIABLE_RE.finditer` loses nothing: the pieces concatenate to the input -/

theorem lazyGo_spec (acc ds : Str) (tm rest : Str) (h : lazyGo acc ds = some (tm, rest)) :
    acc.reverse ++ ds = tm ++ '}' :: rest ∧ rest.length < ds.length := by
  induction ds generalizing acc with
  | nil => simp [lazyGo] at h
  | cons d ds ih =>
    simp only [lazyGo] at h
    split at h
    · rename_i hd
      simp at h
      simp [← h.1, ← h.2, hd]
    · split at h
      · simp at h
      · have := ih (d :: acc) h
        simp at this ⊢
        exact ⟨this.1, by omega⟩

theorem lazyTmpl_spec (cs tm rest : Str) (h : lazyTmpl cs = some (tm, rest)) :
    cs = tm ++ '}' :: rest ∧ rest.length < cs.length := by
  cases cs with
  | nil => simp [lazyTmpl] at h
  | cons c cs =>
    simp only [lazyTmpl] at h
    split at h
    · simp at h
    · have := lazyGo_spec [c] cs tm rest h
      simp at this ⊢
      exact ⟨this.1, by omega⟩

theorem scanName_spec (acc cs : Str) (n : Str) (tm : Option Str) (rest : Str)
    (h : scanName acc cs = some (n, tm, rest)) :
    '{' :: (acc.reverse ++ cs) = render [.var n tm] ++ rest ∧ rest.length < cs.length := by
  induction cs generalizing acc with
  | nil => simp [scanName] at h
  | cons c cs ih =>
    simp only [scanName] at h
    split at h
    · rename_i r hr
      simp at h
      subst h
      split at hr
      · simp at hr
      · split at hr
        · rename_i hc
          simp at hr
          obtain ⟨tm', rest', hl, h1, h2, h3⟩ := hr
          have := lazyTmpl_spec cs tm' rest' hl
          subst h1 h2 h3
          simp [render, hc, this.1]
          omega
        · split at hr
          · rename_i hc
            simp at hr
            obtain ⟨h1, h2, h3⟩ := hr
            subst h1 h2 h3
            simp [render, hc]
          · simp at hr
    · split at h
      · simp at h
      · have := ih (c :: acc) h
        simp at this ⊢
        exact ⟨this.1, by omega⟩

theorem render_flush (lit : Str) (ps : List Piece) : render (flush lit ps) = lit.reverse ++ render ps := by
  unfold flush
  split
  · rename_i h; simp [h]
  · simp [render]

theorem render_append (a b : List Piece) : render (a ++ b) = render a ++ render b := by
  induction a with
  | nil => simp [render]
  | cons p r ih =>
    cases p with
    | text s => simp [render, ih]
    | var n t => cases t <;> simp [render, ih]

theorem render_scanF (f : Nat) (lit s : Str) (hf : s.length < f) :
    render (scanF f lit s) = lit.reverse ++ s := by
  induction f generalizing lit s with
  | zero => omega
  | succ f ih =>
    cases s with
    | nil => simp [scanF, render_flush, render]
    | cons c cs =>
      simp only [scanF]
      simp only [List.length_cons] at hf
      split
      · rename_i hc
        split
        · rename_i n tm rest hsn
          have := scanName_spec [] cs n tm rest hsn
          rw [render_flush]
          have e : render (Piece.var n tm :: scanF f [] rest) = render [.var n tm] ++ render (scanF f [] rest) :=
            render_append [.var n tm] _
          rw [e, ih [] rest (by omega)]
          simp at this ⊢
          rw [hc, this.1]
        · rw [ih (c :: lit) cs (by omega)]; simp
      · rw [ih (c :: lit) cs (by omega)]; simp

theorem render_scan (s : Str) : render (scan s) = s := by
  unfold scan
  rw [render_scanF _ _ _ (by omega)]
  simp

/-- string level: un-fixing the rewritten template gives the original text back -/
theorem convertUri_invertible (uri : Str)
    (h : ∀ v ∈ varPaths (scan uri), ∀ seg ∈ v, ¬ Presuffixed seg) :
    render (((scan uri).map fixPiece).map unfixPiece) = uri := by
  rw [(uri_rewrite_invertible (scan uri) h).1, render_scan]

end Uri

/-! ## The stated specification of `path_template.transcode` -/

/-- binding `b` applied to request `msg` gives `t` -/
def Selects (b : HttpRule) (msg : Msg) (t : Transcoded) : Prop :=
  t.method = b.method ∧ t.uri = expandP msg (scan b.uri) ∧
  (∀ v ∈ varPaths (scan b.uri), (getLeaf msg v).isSome = true) ∧
  match b.body with
  | none => t.body = none ∧ t.query = leftovers (varPaths (scan b.uri)) msg
  | some bd =>
    if bd = ['*'] then t.body = some (leftovers (varPaths (scan b.uri)) msg) ∧ t.query = []
    else t.body = some (subtree bd (leftovers (varPaths (scan b.uri)) msg)) ∧
         t.query = deleteField (leftovers (varPaths (scan b.uri)) msg) [bd]

/-- what the emitted code relies on: a successful transcode is one of the given bindings, all of
whose path variables are set, the path expanded from them, and the remainder split as `body` says -/
def TranscodeSpec (tr : Transcode) : Prop :=
  ∀ opts msg t, tr opts msg = some t → ∃ b ∈ opts, Selects b msg t

theorem transcode_spec_refines (fields : List Str) : TranscodeSpec (refTranscode fields) := by
  intro opts msg t h
  unfold refTranscode at h
  obtain ⟨b, hb, ht⟩ := List.exists_of_findSome?_eq_some h
  refine ⟨b, hb, ?_⟩
  unfold tryBinding at ht
  simp only at ht
  split at ht
  · simp at ht
  · rename_i hc
    simp only [Bool.or_eq_true, Bool.not_eq_true', not_or, Bool.not_eq_false] at hc
    have hall := hc.2
    rw [List.all_eq_true] at hall
    unfold Selects
    split at ht
    · rename_i hbody
      simp at ht
      subst ht
      simp [hbody]
      exact fun v hv => hall v hv
    · rename_i bd hbody
      split at ht
      · rename_i hstar
        simp at ht
        subst ht
        simp [hbody, hstar]
        exact fun v hv => hall v hv
      · rename_i hstar
        split at ht
        · simp at ht
          subst ht
          simp [hbody, hstar]
          exact fun v hv => hall v hv
        · simp at ht

/-! ## Partition -/

/-- the body as request leaves again (a named body field is re-rooted under its name) -/
def reroot (b : HttpRule) (ls : Msg) : Msg :=
  match b.body with
  | none => ls
  | some bd => if bd = ['*'] then ls else ls.map (fun l => { l with path := bd :: l.path })

theorem filter_split_perm (p : Leaf → Bool) (l : Msg) :
    (l.filter p ++ l.filter (fun x => !p x)).Perm l := List.filter_append_perm p l

theorem reroot_subtree (bd : Str) (ls : Msg) :
    (subtree bd ls).map (fun l => { l with path := bd :: l.path }) = ls.filter (covers [bd]) := by
  unfold subtree
  rw [List.map_map]
  conv => rhs; rw [← List.map_id (ls.filter (covers [bd]))]
  apply List.map_congr_left
  intro l hl
  have hc := (List.mem_filter.mp hl).2
  unfold covers at hc
  cases l with
  | mk path atoms =>
    cases path with
    | nil => simp [List.isPrefixOf] at hc
    | cons x xs =>
      simp [List.isPrefixOf] at hc
      simp [hc]

/-- **path ⊎ body ⊎ query = request** (as multisets of set leaf fields) for any binding application -/
theorem selects_partition (b : HttpRule) (msg : Msg) (t : Transcoded) (h : Selects b msg t) :
    (pathLeaves (varPaths (scan b.uri)) msg ++ reroot b (t.body.getD []) ++ t.query).Perm msg := by
  obtain ⟨_, _, _, hb⟩ := h
  unfold reroot
  have base := filter_split_perm (fun l => (varPaths (scan b.uri)).any (covers · l)) msg
  split at hb
  · rename_i hbody
    simp only [hb.1, hb.2, Option.getD_none, List.append_nil]
    exact base
  · rename_i bd hbody
    split at hb
    · rename_i hstar
      simp only [hb.1, hb.2, Option.getD_some, hstar, if_true, List.append_nil]
      exact base
    · rename_i hstar
      simp only [hb.1, hb.2, Option.getD_some, hstar, if_false, reroot_subtree]
      unfold deleteField
      rw [List.append_assoc]
      refine List.Perm.trans (List.Perm.append_left _ ?_) base
      exact filter_split_perm (covers [bd]) _


/-! ## The emitted call -/

/-- the query dict of a successful call, in terms of the transcoder's answer -/
def queryOf (m : MethodD) (numeric : Bool) (t : Transcoded) : List JLeaf :=
  t.query.map (jsonLeaf numeric) ++ addedDefaults m (t.query.map (jsonLeaf numeric)) ++
    (if numeric then [altLeaf] else [])

/-- anatomy of a successful call -/
theorem restCall_ok (tr : Transcode) (m : MethodD) (numeric : Bool) (req : Msg) (w : Wire)
    (h : restCall tr m numeric req = .ok w) :
    restAvailable m = true ∧ ∃ t, tr (httpOptions m) (rtMsg req) = some t ∧
      w.verb = t.method ∧ w.uri = t.uri ∧ w.query = queryOf m numeric t ∧
      (match (httpOptions m).head?.bind (·.body), t.body with
       | none, _ => w.body = none
       | some _, none => False
       | some _, some b => w.body = some (b.map (jsonLeaf numeric))) := by
  unfold restCall at h
  simp only at h
  split at h
  · simp at h
  · rename_i hav
    refine ⟨by simpa using hav, ?_⟩
    split at h
    · simp at h
    · rename_i t ht
      refine ⟨t, ht, ?_⟩
      split at h
      · rename_i hb
        simp only [Except.ok.injEq] at h
        subst h
        simp [queryOf, hb]
      · simp at h
      · rename_i hb1 hb2
        simp only [Except.ok.injEq] at h
        subst h
        simp [queryOf, hb1, hb2]

/-- **request fields are partitioned**: a successful call uses ONE declared binding; the set leaf
fields of the request (as the emitted class names them) are split into path ⊎ body ⊎ query with
nothing lost and nothing twice; the query string carries exactly the query part (lowerCamel names,
enums per the option) plus the unset-required defaults plus `$alt` when numeric. -/
theorem partition (tr : Transcode) (htr : TranscodeSpec tr) (m : MethodD) (numeric : Bool) (req : Msg) (w : Wire)
    (h : restCall tr m numeric req = .ok w) :
    ∃ b ∈ httpOptions m, ∃ t, Selects b (rtMsg req) t ∧
      (pathLeaves (varPaths (scan b.uri)) (rtMsg req) ++ reroot b (t.body.getD []) ++ t.query).Perm (rtMsg req) ∧
      w.query = queryOf m numeric t ∧
      (∀ bj, w.body = some bj → ∃ tb, t.body = some tb ∧ bj = tb.map (jsonLeaf numeric)) := by
  obtain ⟨_, t, ht, _, _, hq, hb⟩ := restCall_ok tr m numeric req w h
  obtain ⟨b, hbm, hsel⟩ := htr _ _ _ ht
  refine ⟨b, hbm, t, hsel, selects_partition b _ t hsel, hq, ?_⟩
  intro bj hbj
  split at hb
  · rw [hb] at hbj; simp at hbj
  · exact absurd hb id
  · rename_i tb _ hb2
    rw [hb] at hbj
    simp at hbj
    exact ⟨tb, hb2, hbj.symm⟩

/-- **the body travels when the selected binding and the primary binding agree on having one**
(the emitted `__call__` decides at generation time, from the primary binding, whether to send a body) -/
theorem body_carried (tr : Transcode) (m : MethodD) (numeric : Bool) (req : Msg) (w : Wire)
    (h : restCall tr m numeric req = .ok w) (t : Transcoded) (ht : tr (httpOptions m) (rtMsg req) = some t)
    (hagree : ((httpOptions m).head?.bind (·.body)).isSome = t.body.isSome) :
    w.body = t.body.map (fun b => b.map (jsonLeaf numeric)) := by
  obtain ⟨_, t', ht', _, _, _, hb⟩ := restCall_ok tr m numeric req w h
  rw [ht] at ht'
  simp at ht'
  subst ht'
  split at hb
  · rename_i hb1
    rw [hb1] at hagree
    cases htb : t.body with
    | none => simp [hb]
    | some x => rw [htb] at hagree; simp at hagree
  · exact absurd hb id
  · rename_i hb2
    simp [hb, hb2]

/-- **the verb and the path instantiate a declared binding**: some rule `r` among the method's
`http` annotation and its additional bindings parses to the binding used; the verb is `r`'s pattern,
the template is `r`'s text with reserved names rewritten, every variable of it is set in the request
and the path is the template with each variable replaced by that field. -/
theorem binding_selected_is_declared (tr : Transcode) (htr : TranscodeSpec tr) (m : MethodD) (numeric : Bool)
    (req : Msg) (w : Wire) (h : restCall tr m numeric req = .ok w) :
    ∃ r ∈ m.http :: m.additional, ∃ b, parseHttpRule r = some b ∧
      r.pattern = some w.verb ∧ b.uri = convertUri r.uri ∧
      w.uri = expandP (rtMsg req) (scan b.uri) ∧
      ∀ v ∈ varPaths (scan b.uri), (getLeaf (rtMsg req) v).isSome = true := by
  obtain ⟨_, t, ht, hv, hu, _, _⟩ := restCall_ok tr m numeric req w h
  obtain ⟨b, hbm, hm, huri, hvars, _⟩ := htr _ _ _ ht
  unfold httpOptions at hbm
  rw [List.mem_filterMap] at hbm
  obtain ⟨r, hr, hp⟩ := hbm
  refine ⟨r, hr, b, hp, ?_, ?_, by rw [hu, huri], hvars⟩
  · unfold parseHttpRule at hp
    split at hp
    · simp at hp
    · rename_i p hpat
      split at hp
      · simp at hp
      · split at hp
        · simp at hp
        · simp at hp
          rw [hpat, hv, hm, ← hp]
  · unfold parseHttpRule at hp
    split at hp
    · simp at hp
    · split at hp
      · simp at hp
      · split at hp
        · simp at hp
        · simp at hp
          rw [← hp]

/-! ## Required-field defaults -/


theorem lowerSnake_fixSeg (s : Str) (h : LowerSnake s) : LowerSnake (fixSeg s) := by
  unfold fixSeg
  split
  · intro c hc
    simp at hc
    rcases hc with hc | hc
    · exact h c hc
    · exact Or.inl hc
  · exact h

/-- **every required field the generator left to the query string is in the query**, under its JSON
name, whether or not the caller set it — with the rendered default of its kind when unset -/
theorem required_default_present (tr : Transcode) (m : MethodD) (numeric : Bool) (req : Msg) (w : Wire)
    (h : restCall tr m numeric req = .ok w) (f : FieldD) (hf : f ∈ m.fields) (hreq : f.required = true)
    (hq : fixSeg f.name ∈ queryParams m) (hs : LowerSnake f.name) :
    ∃ l ∈ w.query, l.path.head? = some (toJsonName f.name) ∧
      (l = ⟨[toJsonName f.name], (defaultText f.kind).toList⟩ ∨
       ∃ t, tr (httpOptions m) (rtMsg req) = some t ∧ l ∈ t.query.map (jsonLeaf numeric)) := by
  obtain ⟨_, t, ht, _, _, hwq, _⟩ := restCall_ok tr m numeric req w h
  have hk : camelKey (fixSeg f.name) = toJsonName f.name := by
    rw [camel_eq_json _ (lowerSnake_fixSeg _ hs), fixSeg_json]
  have hmem : (camelKey (fixSeg f.name), defaultText f.kind) ∈ requiredDefaults m := by
    unfold requiredDefaults
    rw [List.mem_map]
    refine ⟨f, ?_, rfl⟩
    rw [List.mem_filter]
    refine ⟨hf, ?_⟩
    simp [hreq, hq]
  rw [hwq]
  unfold queryOf
  by_cases htop : (topKeys (t.query.map (jsonLeaf numeric))).contains (camelKey (fixSeg f.name)) = true
  · simp only [List.contains_iff_mem] at htop
    unfold topKeys at htop
    rw [List.mem_filterMap] at htop
    obtain ⟨l, hl, hh⟩ := htop
    refine ⟨l, by simp [hl], by rw [hh, hk], Or.inr ⟨t, ht, hl⟩⟩
  · refine ⟨⟨[toJsonName f.name], (defaultText f.kind).toList⟩, ?_, by simp, Or.inl rfl⟩
    have : (⟨[toJsonName f.name], (defaultText f.kind).toList⟩ : JLeaf) ∈ addedDefaults m (t.query.map (jsonLeaf numeric)) := by
      unfold addedDefaults
      rw [List.mem_map]
      refine ⟨(camelKey (fixSeg f.name), defaultText f.kind), ?_, by simp [hk]⟩
      rw [List.mem_filter]
      exact ⟨hmem, by simpa using htop⟩
    simp [this]


/-! ### the presence kind of a field is irrelevant to the defaults table (round 10)

`Field.oneof` is set for proto3 `optional` fields (synthetic oneof) and for members of a real oneof; the template's loop
`for req_field in method.input.required_fields if req_field.name in method.query_params` does not look at it. -/

theorem queryParams_withPresence (m : MethodD) (g : FieldD → Presence) :
    queryParams (m.withPresence g) = queryParams m := by
  unfold queryParams httpOpt rtNames MethodD.withPresence
  simp only [List.map_map, Function.comp_def]

/-- **the table is `required ∧ left to the query`, whatever the presence kinds are** -/
theorem requiredDefaults_presence_irrelevant (m : MethodD) (g : FieldD → Presence) :
    requiredDefaults (m.withPresence g) = requiredDefaults m := by
  unfold requiredDefaults
  rw [queryParams_withPresence]
  unfold MethodD.withPresence
  simp only [List.filter_map, List.map_map, Function.comp_def]

/-- hence a call sends the same request whatever the presence kinds are (given the same transcoder result) -/
theorem addedDefaults_presence_irrelevant (m : MethodD) (g : FieldD → Presence) (q : List JLeaf) :
    addedDefaults (m.withPresence g) q = addedDefaults m q := by
  unfold addedDefaults
  rw [requiredDefaults_presence_irrelevant]

/-- `required_default_present` for a required proto3-`optional` field or a required member of a real oneof: spelled out,
it is the general theorem (which never mentions presence) -/
theorem required_default_present_with_presence (tr : Transcode) (m : MethodD) (numeric : Bool) (req : Msg) (w : Wire)
    (h : restCall tr m numeric req = .ok w) (f : FieldD) (hf : f ∈ m.fields) (hreq : f.required = true)
    (_hp : f.presence = .optional ∨ f.presence = .oneofMember)
    (hq : fixSeg f.name ∈ queryParams m) (hs : LowerSnake f.name) :
    ∃ l ∈ w.query, l.path.head? = some (toJsonName f.name) ∧
      (l = ⟨[toJsonName f.name], (defaultText f.kind).toList⟩ ∨
       ∃ t, tr (httpOptions m) (rtMsg req) = some t ∧ l ∈ t.query.map (jsonLeaf numeric)) :=
  required_default_present tr m numeric req w h f hf hreq hq hs

/-! ### when is a default only added for a field the selected binding leaves unbound? -/

-- `Unbound` and `Agree` are defined in `Model/Rest.lean` (the driver evaluates them on every generated call)

/-- source fields of the defaults a call adds -/
def addedFields (m : MethodD) (q : List JLeaf) : List Str :=
  ((m.fields.filter (fun f => f.required && (queryParams m).contains (fixSeg f.name))).filter
    (fun f => !(topKeys q).contains (camelKey (fixSeg f.name)))).map (fun f => fixSeg f.name)

theorem addedDefaults_eq (m : MethodD) (q : List JLeaf) :
    addedDefaults m q = ((m.fields.filter (fun f => f.required && (queryParams m).contains (fixSeg f.name))).filter
      (fun f => !(topKeys q).contains (camelKey (fixSeg f.name)))).map
        (fun f => ⟨[camelKey (fixSeg f.name)], (defaultText f.kind).toList⟩) := by
  unfold addedDefaults requiredDefaults
  rw [List.filter_map, List.map_map]
  rfl

/-- **no required default duplicates a bound field** when the generator's table agrees with the
binding used: every default the call adds belongs to a required field that binding leaves unbound. -/
theorem no_duplication (m : MethodD) (b : HttpRule) (hag : Agree m b) (q : List JLeaf) :
    ∀ n ∈ addedFields m q, Unbound b n := by
  intro n hn
  unfold addedFields at hn
  rw [List.mem_map] at hn
  obtain ⟨f, hf, rfl⟩ := hn
  rw [List.mem_filter, List.mem_filter] at hf
  obtain ⟨⟨hfm, hfq⟩, _⟩ := hf
  simp only [Bool.and_eq_true, List.contains_iff_mem] at hfq
  have : fixSeg f.name ∈ rtNames m := by
    unfold rtNames
    exact List.mem_map.mpr ⟨f, hfm, rfl⟩
  exact (hag _ this).mp hfq.2

/-- … and conversely every required field that binding leaves unbound is in the generator's table
(so `required_default_present` applies to it) -/
theorem unbound_required_in_table (m : MethodD) (b : HttpRule) (hag : Agree m b) (f : FieldD) (hf : f ∈ m.fields)
    (hu : Unbound b (fixSeg f.name)) : fixSeg f.name ∈ queryParams m :=
  (hag _ (List.mem_map.mpr ⟨f, hf, rfl⟩)).mpr hu

/-- **the table is right about the primary binding** as long as (i) the two readings of the
template agree on its top-level variables (`path_params`' `\{(\w+)…\}` on the raw text, names then
disambiguated, vs `_VARIABLE_RE` on the rewritten text — true for well-formed templates, reserved
names included since 151ee10, see the examples and `reserved_path_field_regression`) and (ii) the
body name needed no rewriting. -/
theorem agree_primary (m : MethodD) (b : HttpRule) (p : Str)
    (hp : m.http.pattern = some p) (hc : p ≠ ['c', 'u', 's', 't', 'o', 'm'])
    (hb : b.body = if m.http.body = [] then none else some m.http.body)
    (hvars : ∀ n ∈ rtNames m, [n] ∈ varPaths (scan b.uri) ↔ n ∈ (pathParams m.http.uri).map fixSeg) :
    Agree m b := by
  intro n hn
  unfold queryParams httpOpt Unbound
  simp only [hp, hc, if_false]
  rw [hb]
  by_cases hbe : m.http.body = []
  · simp [hbe, hn, hvars n hn]
  · by_cases hstar : m.http.body = ['*']
    · simp [hstar]
    · simp only [hbe, if_false, Option.some.injEq, hstar, List.mem_filter, hn, true_and, Bool.and_eq_true,
        Bool.not_eq_true', ne_eq, not_false_eq_true, and_true]
      rw [hvars n hn]
      simp only [List.contains_eq_mem, decide_eq_false_iff_not, beq_eq_false_iff_ne, ne_eq,
        Option.some.injEq]

/-- **a default is added exactly for the required fields that the binding in use leaves unbound and the
caller left unset** — when the generator's table agrees with that binding (field names distinct) -/
theorem added_iff_unbound_unset (m : MethodD) (b : HttpRule) (hag : Agree m b) (q : List JLeaf) (f : FieldD)
    (hf : f ∈ m.fields) (hreq : f.required = true)
    (huniq : ∀ g ∈ m.fields, fixSeg g.name = fixSeg f.name → g = f) :
    fixSeg f.name ∈ addedFields m q ↔
      (Unbound b (fixSeg f.name) ∧ camelKey (fixSeg f.name) ∉ topKeys q) := by
  have hrt : fixSeg f.name ∈ rtNames m := List.mem_map.mpr ⟨f, hf, rfl⟩
  constructor
  · intro hn
    refine ⟨no_duplication m b hag q _ hn, ?_⟩
    unfold addedFields at hn
    rw [List.mem_map] at hn
    obtain ⟨g, hg, hge⟩ := hn
    rw [List.mem_filter, List.mem_filter] at hg
    obtain ⟨⟨hgm, _⟩, hgk⟩ := hg
    have := huniq g hgm hge
    subst this
    simpa using hgk
  · rintro ⟨hu, hk⟩
    unfold addedFields
    rw [List.mem_map]
    refine ⟨f, ?_, rfl⟩
    rw [List.mem_filter, List.mem_filter]
    refine ⟨⟨hf, ?_⟩, by simpa using hk⟩
    have := (hag _ hrt).mpr hu
    simp [hreq, this]

/-! ## Binding order and the reply -/

/-- **the reference transcoder uses the FIRST declared binding that applies** (transcode order =
declaration order: the `http` rule, then its additional bindings) -/
theorem transcode_first_match (fields : List Str) (opts : List HttpRule) (msg : Msg) (t : Transcoded)
    (h : refTranscode fields opts msg = some t) :
    ∃ pre b post, opts = pre ++ b :: post ∧ tryBinding fields b msg = some t ∧
      ∀ b' ∈ pre, tryBinding fields b' msg = none := by
  unfold refTranscode at h
  induction opts with
  | nil => simp at h
  | cons a r ih =>
    rw [List.findSome?_cons] at h
    split at h
    · rename_i x hx
      simp at h
      subst h
      exact ⟨[], a, r, rfl, hx, by simp⟩
    · rename_i hx
      obtain ⟨pre, b, post, he, hb, hpre⟩ := ih h
      refine ⟨a :: pre, b, post, by simp [he], hb, ?_⟩
      intro b' hb'
      simp at hb'
      rcases hb' with rfl | hb'
      · exact hx
      · exact hpre b' hb'

/-- a reply is parsed iff its status is below 400; otherwise the call raises -/
theorem reply_parsed_iff (status : Nat) : replyOutcome status = .parsed ↔ status < 400 := by
  unfold replyOutcome
  split
  · constructor
    · intro h; simp at h
    · intro h; omega
  · constructor
    · intro _; omega
    · intro _; rfl

/-! ## `$alt` and the NotImplemented rule -/

theorem selects_query_subset (b : HttpRule) (msg : Msg) (t : Transcoded) (h : Selects b msg t) :
    ∀ l ∈ t.query, l ∈ msg := by
  obtain ⟨_, _, _, hb⟩ := h
  intro l hl
  split at hb
  · rw [hb.2] at hl
    exact (List.mem_filter.mp hl).1
  · split at hb
    · rw [hb.2] at hl; simp at hl
    · rw [hb.2] at hl
      unfold deleteField at hl
      exact (List.mem_filter.mp (List.mem_filter.mp hl).1).1

/-- **`$alt=json;enum-encoding=int` is sent iff numeric enums are requested** (no request field or
required field being itself called `$alt`) -/
theorem numeric_enum_switch (tr : Transcode) (htr : TranscodeSpec tr) (m : MethodD) (numeric : Bool) (req : Msg) (w : Wire)
    (h : restCall tr m numeric req = .ok w)
    (hreq : ∀ l ∈ req, l.path.map (fun s => toJsonName (fixSeg s)) ≠ [['$', 'a', 'l', 't']])
    (hfld : ∀ f ∈ m.fields, camelKey (fixSeg f.name) ≠ ['$', 'a', 'l', 't']) :
    altLeaf ∈ w.query ↔ numeric = true := by
  obtain ⟨_, t, ht, _, _, hq, _⟩ := restCall_ok tr m numeric req w h
  obtain ⟨b, _, hsel⟩ := htr _ _ _ ht
  rw [hq]
  constructor
  · intro hm
    unfold queryOf at hm
    simp only [List.mem_append] at hm
    rcases hm with (hm | hm) | hm
    · exfalso
      rw [List.mem_map] at hm
      obtain ⟨l, hl, he⟩ := hm
      have hl' := selects_query_subset b _ t hsel l hl
      unfold rtMsg at hl'
      rw [List.mem_map] at hl'
      obtain ⟨l0, hl0, rfl⟩ := hl'
      apply hreq l0 hl0
      have : (jsonLeaf numeric (rtLeaf l0)).path = altLeaf.path := by rw [he]
      simpa [jsonLeaf, rtLeaf, altLeaf, List.map_map] using this
    · exfalso
      unfold addedDefaults requiredDefaults at hm
      simp only [List.mem_map, List.mem_filter] at hm
      obtain ⟨kd, ⟨⟨f, ⟨hf, _⟩, rfl⟩, _⟩, he⟩ := hm
      apply hfld f hf
      have : (JLeaf.mk [camelKey (fixSeg f.name)] (defaultText f.kind).toList).path = altLeaf.path := by rw [he]
      simpa [altLeaf] using this
    · split at hm
      · assumption
      · simp at hm
  · intro hn
    simp [queryOf, hn]

/-- **a method without a usable binding refuses the REST transport** -/
theorem no_binding_refuses (tr : Transcode) (m : MethodD) (numeric : Bool) (req : Msg)
    (h : httpOptions m = []) : restCall tr m numeric req = .error .notImplemented := by
  unfold restCall restAvailable
  simp [h]

/-- `NotImplementedError` exactly for methods without binding and client-streaming methods -/
theorem refuses_iff (tr : Transcode) (m : MethodD) (numeric : Bool) (req : Msg) :
    restCall tr m numeric req = .error .notImplemented ↔ (httpOptions m = [] ∨ m.clientStreaming = true) := by
  unfold restCall
  simp only
  constructor
  · intro h
    split at h
    · rename_i hav
      unfold restAvailable at hav
      simp at hav
      exact hav
    · split at h
      · simp at h
      · split at h <;> simp at h
  · intro h
    have : (!restAvailable m) = true := by
      unfold restAvailable
      rcases h with h | h <;> simp [h]
    simp [this]

/-- which annotations give no binding: every rule is absent, `custom`, or has an empty path -/
theorem no_binding_iff (m : MethodD) :
    httpOptions m = [] ↔ ∀ r ∈ m.http :: m.additional,
      r.pattern = none ∨ r.pattern = some ['c', 'u', 's', 't', 'o', 'm'] ∨ r.uri = [] := by
  unfold httpOptions
  rw [List.filterMap_eq_nil_iff]
  constructor
  · intro h r hr
    have := h r hr
    unfold parseHttpRule at this
    split at this
    · rename_i hp; exact Or.inl hp
    · rename_i p hp
      split at this
      · rename_i hc; exact Or.inr (Or.inl (by rw [hp, hc]))
      · split at this
        · rename_i hu; exact Or.inr (Or.inr hu)
        · simp at this
  · intro h r hr
    unfold parseHttpRule
    rcases h r hr with h1 | h1 | h1
    · simp [h1]
    · simp [h1]
    · cases hp : r.pattern with
      | none => rfl
      | some p => simp [h1]


/-! ## Concrete instances: non-vacuity, regression inputs of the repaired defects, and the inputs on which
the real code still violates the statement -/
section Examples

/-- `§"abc"` is the explicit character list `['a', 'b', 'c']` (no `String.toList` for the kernel to evaluate) -/
local macro "§" s:str : term => do
  let elems := s.getString.toList.toArray.map fun c => Lean.Syntax.mkCharLit c
  `([$elems,*])

deriving instance DecidableEq for Except

instance : Decidable (LowerSnake s) := by unfold LowerSnake; infer_instance

/-- the standard Update shape: nested path variable, named body, required scalar left to the query -/
def mUpdate : MethodD :=
  { http := ⟨some (§"patch"), §"/v1/{book.name=shelves/*/books/*}", §"book"⟩, additional := [],
    fields := [⟨§"book", .msg, false, true, .implicit⟩, ⟨§"update_mask", .msg, false, false, .implicit⟩, ⟨§"force", .bool, false, true, .implicit⟩,
               ⟨§"kind", .enum, false, false, .implicit⟩],
    clientStreaming := false }

def reqUpdate : Msg :=
  [⟨[§"book", §"name"], [.plain (§"shelves/s/books/b")]⟩, ⟨[§"book", §"title"], [.plain (§"T")]⟩,
   ⟨[§"book", §"genre"], [.enum (§"POETRY") (§"2")]⟩, ⟨[§"update_mask"], [.plain (§"title")]⟩,
   ⟨[§"kind"], [.enum (§"FICTION") (§"1")]⟩]

example : restCall (refTranscode (rtNames mUpdate)) mUpdate true reqUpdate =
    .ok ⟨§"patch", §"/v1/shelves/s/books/b",
         some [⟨[§"title"], [§"T"]⟩, ⟨[§"genre"], [§"2"]⟩],
         [⟨[§"updateMask"], [§"title"]⟩, ⟨[§"kind"], [§"1"]⟩, ⟨[§"force"], [§"false"]⟩, altLeaf]⟩ := by decide +kernel

example : restCall (refTranscode (rtNames mUpdate)) mUpdate false reqUpdate =
    .ok ⟨§"patch", §"/v1/shelves/s/books/b",
         some [⟨[§"title"], [§"T"]⟩, ⟨[§"genre"], [§"POETRY"]⟩],
         [⟨[§"updateMask"], [§"title"]⟩, ⟨[§"kind"], [§"FICTION"]⟩, ⟨[§"force"], [§"false"]⟩]⟩ := by decide +kernel

/-- hypotheses of `agree_primary`, `numeric_enum_switch`, `required_default_present`, `uri_rewrite_invertible` are met -/
example : Agree mUpdate ⟨§"patch", §"/v1/{book.name=shelves/*/books/*}", some (§"book")⟩ := by decide +kernel
example : ∀ n ∈ rtNames mUpdate, [n] ∈ varPaths (scan (§"/v1/{book.name=shelves/*/books/*}")) ↔
    n ∈ (pathParams mUpdate.http.uri).map fixSeg := by decide +kernel
example : ∀ l ∈ reqUpdate, l.path.map (fun s => toJsonName (fixSeg s)) ≠ [§"$alt"] := by decide +kernel
example : ∀ f ∈ mUpdate.fields, camelKey (fixSeg f.name) ≠ (§"$alt") := by decide +kernel
example : (§"force") ∈ queryParams mUpdate ∧ LowerSnake (§"force") ∧ LowerSnake (§"update_mask") := by decide +kernel
example : ∀ v ∈ varPaths (scan (§"/v1/{class=classes/*}/x/{book.import}")), ∀ seg ∈ v, ¬ Presuffixed seg := by decide +kernel
example : convertUri (§"/v1/{class=classes/*}/x/{book.import}:get") = (§"/v1/{class_=classes/*}/x/{book.import_}:get") := by decide +kernel

/-- hypothesis of `body_carried` on the same call -/
example : ((httpOptions mUpdate).head?.bind (·.body)).isSome =
    ((refTranscode (rtNames mUpdate) (httpOptions mUpdate) (rtMsg reqUpdate)).bind (·.body)).isSome := by decide +kernel

/-- the point `Presuffixed` excludes: `class` and `class_` are rewritten to the same name (protoc rejects a
message with both: equal JSON names, so this lies outside every valid input) -/
example : fixSeg (§"class") = fixSeg (§"class_") ∧ Presuffixed (§"class_") := by decide +kernel

/-- `transcode_first_match`: both bindings of `mArchive'` apply to this request, the first is used -/
example : refTranscode [§"name", §"alt"]
    [⟨§"get", §"/v1/{name=archives/*}", none⟩, ⟨§"get", §"/v1/archives/{alt}", none⟩]
    [⟨[§"name"], [.plain (§"archives/1")]⟩, ⟨[§"alt"], [.plain (§"7")]⟩] =
    some ⟨§"get", §"/v1/archives/1", none, [⟨[§"alt"], [.plain (§"7")]⟩]⟩ := by decide +kernel

example : replyOutcome 399 = .parsed ∧ replyOutcome 400 = .httpError 400 := by decide

/-- a method without annotation, one with only a `custom` pattern: no binding -/
example : httpOptions ⟨⟨none, [], []⟩, [], [], false⟩ = [] := by decide +kernel
example : httpOptions ⟨⟨some (§"custom"), §"/v1/x", []⟩, [], [], false⟩ = [] := by decide +kernel

/-! ### round 10: required fields with presence (proto3 `optional`, member of a real oneof) left to the query -/

def mListItems : MethodD :=
  { http := ⟨some (§"get"), §"/v1/{parent=shelves/*}/items", []⟩, additional := [],
    fields := [⟨§"parent", .str, false, true, .implicit⟩, ⟨§"depth", .int, false, true, .implicit⟩,
               ⟨§"page_size", .int, false, true, .optional⟩, ⟨§"show_deleted", .bool, false, true, .optional⟩,
               ⟨§"pick_s", .str, false, true, .oneofMember⟩, ⟨§"pick_n", .int, false, true, .oneofMember⟩,
               ⟨§"filter", .str, false, false, .implicit⟩],
    clientStreaming := false }

/-- `GET /v1/shelves/1/items?depth=0&pageSize=0&showDeleted=false&pickS=&pickN=0` (what cc7f824…23a0705 send): every unset
required field left to the query gets its default, the `optional` ones and the oneof members included -/
theorem required_presence_defaults_regression :
    restCall (refTranscode (rtNames mListItems)) mListItems false [⟨[§"parent"], [.plain (§"shelves/1")]⟩] =
      .ok ⟨§"get", §"/v1/shelves/1/items", none,
           [⟨[§"depth"], [§"0"]⟩, ⟨[§"pageSize"], [§"0"]⟩, ⟨[§"showDeleted"], [§"false"]⟩, ⟨[§"pickS"], [[]]⟩, ⟨[§"pickN"], [§"0"]⟩]⟩ ∧
    Agree mListItems ⟨§"get", §"/v1/{parent=shelves/*}/items", none⟩ := by decide +kernel

/-- an explicitly set member (even default-valued: it has presence, so it is serialised) travels as set; only the
unset ones are defaulted -/
theorem required_presence_set_regression :
    restCall (refTranscode (rtNames mListItems)) mListItems false
        [⟨[§"parent"], [.plain (§"shelves/1")]⟩, ⟨[§"page_size"], [.plain (§"0")]⟩, ⟨[§"pick_s"], [.plain (§"x")]⟩] =
      .ok ⟨§"get", §"/v1/shelves/1/items", none,
           [⟨[§"pageSize"], [§"0"]⟩, ⟨[§"pickS"], [§"x"]⟩, ⟨[§"depth"], [§"0"]⟩, ⟨[§"showDeleted"], [§"false"]⟩, ⟨[§"pickN"], [§"0"]⟩]⟩ := by
  decide +kernel

/-- a table that skips fields with `Field.oneof` set (seed10_C04) loses the defaults the statement demands:
`required_default_present` is false of it -/
theorem required_defaults_skipping_oneof_counterexample :
    (§"pageSize", some (§"0")) ∈ requiredDefaults mListItems ∧
    (§"pageSize", some (§"0")) ∉ requiredDefaultsSkippingOneof mListItems ∧
    requiredDefaultsSkippingOneof mListItems = [(§"depth", some (§"0"))] := by decide +kernel

/-! ### §9-F11 (OPEN): a required field bound only by an ADDITIONAL binding -/

def mArchive : MethodD :=
  { http := ⟨some (§"get"), §"/v1/{name=archives/*}", []⟩,
    additional := [⟨some (§"get"), §"/v1/archives/{alt}", []⟩],
    fields := [⟨§"name", .str, false, true, .implicit⟩, ⟨§"alt", .str, false, true, .implicit⟩, ⟨§"view", .str, false, false, .implicit⟩],
    clientStreaming := false }

/-- the second binding is used, `alt` travels in the path — and, default-valued, in the query:
`GET /v1/archives/7?alt=`; the generator's table is wrong about that binding -/
theorem additional_binding_counterexample :
    restCall (refTranscode (rtNames mArchive)) mArchive false [⟨[§"alt"], [.plain (§"7")]⟩] =
      .ok ⟨§"get", §"/v1/archives/7", none, [⟨[§"alt"], [[]]⟩]⟩ ∧
    ¬ Agree mArchive ⟨§"get", §"/v1/archives/{alt}", none⟩ ∧
    (§"alt") ∈ addedFields mArchive [] ∧ ¬ Unbound ⟨§"get", §"/v1/archives/{alt}", none⟩ (§"alt") := by decide +kernel

/-! ### repaired by 151ee10: a required field with a reserved name bound by the PRIMARY binding -/

def mClass : MethodD :=
  { http := ⟨some (§"get"), §"/v1/{class=classes/*}", []⟩, additional := [],
    fields := [⟨§"class", .str, false, true, .implicit⟩, ⟨§"format", .str, false, true, .implicit⟩], clientStreaming := false }

/-- `GET /v1/classes/7?format=`: `class` travels in the path only (it used to be sent again as `class=`),
the generator's table agrees with the binding, and the unbound reserved-name field `format` still gets
its default under its JSON name -/
theorem reserved_path_field_regression :
    restCall (refTranscode (rtNames mClass)) mClass false [⟨[§"class"], [.plain (§"classes/7")]⟩] =
      .ok ⟨§"get", §"/v1/classes/7", none, [⟨[§"format"], [[]]⟩]⟩ ∧
    Agree mClass ⟨§"get", §"/v1/{class_=classes/*}", none⟩ ∧
    (∀ n ∈ rtNames mClass, [n] ∈ varPaths (scan (convertUri mClass.http.uri)) ↔
      n ∈ (pathParams mClass.http.uri).map fixSeg) := by decide +kernel

/-! ### OPEN: the default of a required `bytes` field is the text `b''`; a required REPEATED field is
defaulted like a singular one (a repair was withdrawn: it broke the emitted unit tests) -/

def mBlob : MethodD :=
  { http := ⟨some (§"get"), §"/v1/{name=things/*}", []⟩, additional := [],
    fields := [⟨§"name", .str, false, true, .implicit⟩, ⟨§"blob", .bytes, false, true, .implicit⟩], clientStreaming := false }

/-- `GET /v1/things/1?blob=b''`: the Python repr of empty bytes, not base64 -/
theorem bytes_default_counterexample :
    restCall (refTranscode (rtNames mBlob)) mBlob false [⟨[§"name"], [.plain (§"things/1")]⟩] =
      .ok ⟨§"get", §"/v1/things/1", none, [⟨[§"blob"], [§"b''"]⟩]⟩ := by decide +kernel

def mTags : MethodD :=
  { http := ⟨some (§"get"), §"/v1/{name=things/*}", []⟩, additional := [],
    fields := [⟨§"name", .str, false, true, .implicit⟩, ⟨§"tags", .str, true, true, .implicit⟩], clientStreaming := false }

/-- `GET /v1/things/1?tags=`: an unset required repeated field travels as ONE default element, which a
server reads as a one-element list -/
theorem repeated_default_counterexample :
    restCall (refTranscode (rtNames mTags)) mTags false [⟨[§"name"], [.plain (§"things/1")]⟩] =
      .ok ⟨§"get", §"/v1/things/1", none, [⟨[§"tags"], [[]]⟩]⟩ ∧
    flattenQuery [⟨[§"tags"], [[]]⟩] = [(§"tags", [])] := by decide +kernel

/-! ### OPEN: whether a body is sent is decided from the PRIMARY binding -/

def mBody1 : MethodD :=
  { http := ⟨some (§"post"), §"/v1/{name=things/*}", §"book"⟩,
    additional := [⟨some (§"get"), §"/v1/other/{mask}", []⟩],
    fields := [⟨§"name", .str, false, false, .implicit⟩, ⟨§"book", .msg, false, false, .implicit⟩, ⟨§"mask", .str, false, false, .implicit⟩],
    clientStreaming := false }

def mBody2 : MethodD :=
  { mBody1 with http := ⟨some (§"get"), §"/v1/{name=things/*}", []⟩,
                additional := [⟨some (§"post"), §"/v1/other/{mask}", §"book"⟩] }

def reqBody : Msg := [⟨[§"mask"], [.plain (§"m")]⟩, ⟨[§"book", §"title"], [.plain (§"x")]⟩]

/-- primary binding has a body, the binding used has none: `KeyError: 'body'` -/
theorem body_keyerror_counterexample :
    restCall (refTranscode (rtNames mBody1)) mBody1 false reqBody = .error .keyErrorBody := by decide +kernel

/-- primary binding has no body, the binding used has one: `POST /v1/other/m` with no body; `book` is lost -/
theorem body_lost_counterexample :
    restCall (refTranscode (rtNames mBody2)) mBody2 false reqBody = .ok ⟨§"post", §"/v1/other/m", none, []⟩ ∧
    refTranscode (rtNames mBody2) (httpOptions mBody2) (rtMsg reqBody) =
      some ⟨§"post", §"/v1/other/m", some [⟨[§"title"], [.plain (§"x")]⟩], []⟩ := by decide +kernel

/-! ### repaired by 3aedaba: the body is renamed exactly like the field -/

/-- **a named body always refers to the emitted field**: `try_parse_http_rule` and `Field.name` rename alike
(also for `__peg_parser__`, the reserved word that ends in an underscore) -/
theorem fixBody_eq_fixSeg (b : Str) (h : b ≠ []) : fixBody b = some (fixSeg b) := by
  unfold fixBody fixSeg
  simp only [h, if_false]
  split <;> rfl

def mPeg : MethodD :=
  { http := ⟨some (§"post"), §"/v1/things/{id}", §"__peg_parser__"⟩, additional := [],
    fields := [⟨§"id", .str, false, false, .implicit⟩, ⟨§"__peg_parser__", .msg, false, false, .implicit⟩], clientStreaming := false }

theorem body_rename_regression :
    restCall (refTranscode (rtNames mPeg)) mPeg false
        [⟨[§"id"], [.plain (§"7")]⟩, ⟨[§"__peg_parser__", §"title"], [.plain (§"t")]⟩] =
      .ok ⟨§"post", §"/v1/things/7", some [⟨[§"title"], [§"t"]⟩], []⟩ := by decide +kernel

end Examples
section Translated
open GapicModel.PyRt

/-- `fixSeg` IS the code's current `_fix_name_segment` (translated from gapic/utils/uri_conv.py on every run) -/
theorem fixSeg_is_translated (s : List Char) : fixSeg s = Pinned.Funcs.fix_name_segment s := by
  unfold fixSeg Pinned.Funcs.fix_name_segment strIn reserved
  by_cases h : s ∈ Pinned.reservedNames.map String.toList
  · simp [h]
  · simp [h]

theorem joinWith_is_join (c : Char) (xs : List (List Char)) : joinWith c xs = join [c] xs := by
  induction xs with
  | nil => rfl
  | cons a r ih =>
    cases r with
    | nil => rfl
    | cons b r' => simp only [joinWith, join, ih]; simp

theorem splitAux_splitOn (c : Char) (s : List Char) :
    ∀ (cur h : List Char) (t : List (List Char)), splitOn c s = h :: t →
      splitAux [c] 0 cur s = (cur.reverse ++ h) :: t := by
  induction s with
  | nil =>
    intro cur h t he
    simp [splitOn] at he
    simp [splitAux, he.1, he.2]
  | cons d ds ih =>
    intro cur h t he
    simp only [splitOn] at he
    by_cases hd : d = c
    · subst hd
      simp only [if_true] at he
      simp at he
      obtain ⟨h', t', he'⟩ := List.exists_cons_of_ne_nil (show splitOn d ds ≠ [] by
        cases ds with
        | nil => simp [splitOn]
        | cons x xs => simp only [splitOn]; split <;> (try split) <;> simp)
      have := ih [] h' t' he'
      simp only [splitAux, List.isPrefixOf, beq_self_eq_true, Bool.true_and, if_true, List.length_singleton, Nat.sub_self]
      obtain ⟨rfl, rfl⟩ := he
      rw [this, he']
      simp
    · simp only [hd, if_false] at he
      obtain ⟨h', t', he'⟩ := List.exists_cons_of_ne_nil (show splitOn c ds ≠ [] by
        cases ds with
        | nil => simp [splitOn]
        | cons x xs => simp only [splitOn]; split <;> (try split) <;> simp)
      rw [he'] at he
      simp at he
      have := ih (d :: cur) h' t' he'
      have hne : (c == d) = false := by simp [beq_eq_false_iff_ne]; exact fun e => hd e.symm
      simp only [splitAux, List.isPrefixOf, hne, Bool.false_and]
      simp only [Bool.false_eq_true, if_false]
      obtain ⟨rfl, rfl⟩ := he
      rw [this]
      simp

theorem splitOn_is_split (c : Char) (s : List Char) : splitOn c s = split s [c] := by
  obtain ⟨h, t, he⟩ := List.exists_cons_of_ne_nil (show splitOn c s ≠ [] by
    cases s with
    | nil => simp [splitOn]
    | cons x xs => simp only [splitOn]; split <;> (try split) <;> simp)
  unfold split
  rw [splitAux_splitOn c s [] h t he, he]
  simp

/-- `fixFieldPath` IS the code's current `_fix_field_path` -/
theorem fixFieldPath_is_translated (p : List Char) : fixFieldPath p = Pinned.Funcs.fix_field_path p := by
  unfold fixFieldPath Pinned.Funcs.fix_field_path
  rw [joinWith_is_join, splitOn_is_split]
  congr 1
  apply List.map_congr_left
  intro x _
  exact fixSeg_is_translated x

/-! `camelKey` vs the translated `to_camel_case`: the general statement (`LowerSnake n → camelKey n = to_camel_case n`)
needs "none of the four `re.sub` patterns of `to_snake_case` matches a string without capitals" and "`re.split('[_-]')` is
`split('_')` without `-`", i.e. reasoning about the regex engine's `subLoop`/`reSplitAux`; not done.  What IS proved: the
two agree on every field name the C04 generator uses and on every lower-case reserved word, after `Field.name`
disambiguation (kernel evaluation of the translated function, regex engine included); `camel_eq_json` then gives the JSON
name.  T2 compares `camelKey` with the real function on random lower snake_case names on every run. -/

local macro "§" s:str : term => do
  let elems := s.getString.toList.toArray.map fun c => Lean.Syntax.mkCharLit c
  `([$elems,*])

/-- the field names of the C04 generator's pools (harness/props/c04.py) and of the corpus -/
def genNames : List (List Char) := [§"filter", §"page_size", §"force", §"ratio", §"weight", §"count64", §"ucount", §"big", §"sf", §"sf64",
  §"f32", §"f64", §"si", §"si64", §"blob", §"order_by", §"format", §"max", §"in", §"view", §"tags", §"nums", §"kinds", §"list", §"author",
  §"update_mask", §"read_time", §"ttl", §"limit", §"strict", §"note", §"opt_s", §"opt_n", §"labels", §"chapters", §"meta", §"choice_a",
  §"choice_b", §"name", §"parent", §"shelf_id", §"book_id", §"class", §"type", §"import", §"rev", §"uid", §"book", §"item", §"object",
  §"payload", §"allow_missing", §"validate_only", §"alt", §"mask", §"id", §"q", §"depth", §"opt_count", §"show_deleted", §"opt_ratio",
  §"opt_big", §"opt_label", §"opt_view", §"pick_s", §"pick_n", §"pick_b"]

theorem camelKey_is_translated_on_generated_names :
    ∀ n ∈ genNames, camelKey (fixSeg n) = Pinned.Funcs.to_camel_case (fixSeg n) := by decide +kernel

theorem camelKey_is_translated_on_reserved_words :
    ∀ w ∈ reserved, (w.all fun c => c == '_' || c.isLower || c.isDigit) = true →
      camelKey (fixSeg w) = Pinned.Funcs.to_camel_case (fixSeg w) := by decide +kernel

end Translated

end GapicModel.Props.C04
