import GapicModel.Model.Flatten
/-
C05 — flattened keyword arguments are equivalent to an explicit request object (DESIGN §7.5).

Statements are about the model `GapicModel.Model.Flatten` (tied to /repo by T2/T3 in harness/props/c05.py).
-/
namespace GapicModel.Props.C05
open GapicModel.Model.Flatten
open GapicModel.Model.Flatten.Val

/-! ## Vocabulary of the statements -/

/-- the two paths part ways before either ends (neither is a prefix of the other) -/
def incomp : List Nat → List Nat → Bool
  | a :: p, b :: q => a != b || incomp p q
  | _, _ => false


def isListV : Val → Bool
  | .list _ => true
  | _ => false
def isMapV : Val → Bool
  | .map _ => true
  | _ => false

/-- a bound key the theorems speak about: a real path; `map` implies `repeated` (as in `Field.map`)
and excludes `struct_pb2.Value` (a map field's type is its entry message);
the argument has the kind of the field (list for repeated, dict for map, neither for singular);
an EMPTY list/dict is passed only for a top-level key (FORCED: see `falsy_dotted_counterexample`). -/
def good (b : Bound) : Bool :=
  !b.1.path.isEmpty && (!b.1.isMap || b.1.repeated) && (!b.1.isValue || !b.1.isMap) &&
  match b.2 with
  | none => true
  | some v =>
    (if b.1.isMap then isMapV v else if b.1.repeated then isListV v else !v.isEmptyContainer) &&
    (!v.isEmptyContainer || b.1.path.length == 1)

/-- no flattened key is a prefix of another one (FORCED: see `overlap_counterexample`);
`incomp_iff_not_prefix` relates `incomp` to `<+:` -/
def PrefixFree (bs : List Bound) : Prop := bs.Pairwise (fun a b => incomp a.1.path b.1.path = true)

/-- none of the keys has been written yet -/
def Unset (bs : List Bound) (r : Val) : Prop := ∀ b ∈ bs, slot b.1.path r = none

/-- the pb2-constructor keyword of a key is the key itself: a top-level field addressed by its own name -/
def ctorOk (b : Bound) : Bool :=
  match b.1.ctor, b.1.path with
  | some n, [k] => n == k
  | _, _ => false


/-- the statement's reading of "declared order": every key at the position of its FIRST occurrence -/
def firstSeen (seen : List String) : List String → List String
  | [] => []
  | k :: ks => if seen.contains k then firstSeen seen ks else k :: firstSeen (seen ++ [k]) ks


section Aux
/-! ## helper lemmas: wire-level messages, slots, folds -/

theorem lookup_ins_same (m : Val) (n : Nat) (x : Val) : lookup (ins n x m) n = some x := by
  induction m with
  | mcons k v rest _ ih =>
    simp only [ins]
    split
    · simp [lookup]
    · split
      · simp [lookup]
      · rename_i h1 h2
        simp only [lookup]
        rw [if_neg (by omega)]
        exact ih
  | _ => simp [ins, lookup]

theorem lookup_ins_ne (m : Val) (n j : Nat) (x : Val) (h : j ≠ n) : lookup (ins n x m) j = lookup m j := by
  induction m with
  | mcons k v rest _ ih =>
    simp only [ins]
    split
    · simp only [lookup]; rw [if_neg (by omega)]
    · split
      · rename_i h1 h2; subst h2
        simp only [lookup]; rw [if_neg (by omega), if_neg (by omega)]
      · simp only [lookup]; rw [ih]
  | _ => simp only [ins, lookup]; rw [if_neg (by omega)]

theorem lookup_erase_same (m : Val) (n : Nat) : lookup (erase m n) n = none := by
  induction m with
  | mcons k v rest _ ih =>
    simp only [erase]
    split
    · exact ih
    · rename_i h; simp only [lookup]; rw [if_neg h]; exact ih
  | _ => simp [erase, lookup]

theorem lookup_erase_ne (m : Val) (n j : Nat) (h : j ≠ n) : lookup (erase m n) j = lookup m j := by
  induction m with
  | mcons k v rest _ ih =>
    simp only [erase]
    split
    · rename_i hk; subst hk; simp only [lookup]; rw [if_neg (by omega)]; exact ih
    · simp only [lookup]; rw [ih]
  | _ => simp [erase]

theorem erase_of_lookup_none (m : Val) (n : Nat) (h : lookup m n = none) : erase m n = m := by
  induction m with
  | mcons k v rest _ ih =>
    simp only [lookup] at h
    split at h
    · simp at h
    · rename_i hk; simp only [erase]; rw [if_neg hk, ih h]
  | _ => simp [erase]

theorem ins_ins_same (m : Val) (n : Nat) (x y : Val) : ins n x (ins n y m) = ins n x m := by
  induction m with
  | mcons k v rest _ ih =>
    simp only [ins]
    split
    · simp [ins]
    · split
      · simp [ins]
      · rename_i h1 h2
        simp only [ins]; rw [if_neg h1, if_neg h2, ih]
  | _ => simp [ins]

theorem ins_ins_comm (m : Val) (a b : Nat) (x y : Val) (h : a ≠ b) :
    ins a x (ins b y m) = ins b y (ins a x m) := by
  induction m with
  | mcons k v rest _ ih =>
    by_cases hak : a < k <;> by_cases hbk : b < k <;> by_cases hab : a < b
    all_goals (simp only [ins, hak, hbk, if_true, if_false]; try grind [ins])
  | _ =>
    by_cases hab : a < b
    · have : ¬ b < a := by omega
      simp [ins, hab, this, Ne.symm h]
    · have : b < a := by omega
      simp [ins, hab, this, h]


theorem incomp_symm : ∀ (p q : List Nat), incomp p q = true → incomp q p = true
  | [], _, h => by simp [incomp] at h
  | _ :: _, [], h => by simp [incomp] at h
  | a :: p, b :: q, h => by
    simp only [incomp, Bool.or_eq_true, bne_iff_ne, ne_eq] at h ⊢
    rcases h with h | h
    · left; exact fun e => h e.symm
    · right; exact incomp_symm p q h

theorem incomp_iff_not_prefix : ∀ (p q : List Nat), incomp p q = true ↔ (¬ p <+: q ∧ ¬ q <+: p)
  | [], q => by simp [incomp]
  | a :: p, [] => by simp [incomp]
  | a :: p, b :: q => by
    have ih := incomp_iff_not_prefix p q
    simp only [incomp, Bool.or_eq_true, bne_iff_ne, ne_eq, List.cons_prefix_cons, ih]
    by_cases h : a = b
    · subst h; simp
    · have : ¬ b = a := fun e => h e.symm
      simp [h, this]

theorem lookup_put_same (m : Val) (k : Nat) (o : Option Val) : lookup (put m k o) k = o := by
  cases o with
  | none => exact lookup_erase_same m k
  | some v => exact lookup_ins_same m k v

theorem lookup_put_ne (m : Val) (k j : Nat) (o : Option Val) (h : j ≠ k) : lookup (put m k o) j = lookup m j := by
  cases o with
  | none => exact lookup_erase_ne m k j h
  | some v => exact lookup_ins_ne m k j v h

theorem atPath_congr (p : List Nat) (f g : Option Val → Option Val) (s : Option Val)
    (h : f (lookupAt p s) = g (lookupAt p s)) : atPath p f s = atPath p g s := by
  induction p generalizing s with
  | nil => simpa [atPath, lookupAt] using h
  | cons k rest ih =>
    simp only [atPath]
    rw [ih]
    simpa [lookupAt] using h

/-- L1: rewriting one slot leaves every slot on a diverging path alone -/
theorem lookupAt_atPath (p q : List Nat) (f : Option Val → Option Val) (s : Option Val)
    (h : incomp p q = true) : lookupAt p (atPath q f s) = lookupAt p s := by
  induction p generalizing q s with
  | nil => simp [incomp] at h
  | cons a p ih =>
    cases q with
    | nil => simp [incomp] at h
    | cons b q =>
      simp only [incomp, Bool.or_eq_true, bne_iff_ne, ne_eq] at h
      simp only [atPath, lookupAt, asMsg]
      by_cases hab : a = b
      · subst hab
        rw [lookup_put_same]
        exact ih q _ (by simpa using h)
      · rw [lookup_put_ne _ _ _ _ hab]

/-- put value `v` at path `p` of message `m` (the closed form of an assignment that stores something) -/
def setAt : List Nat → Val → Val → Val
  | [], v, _ => v
  | k :: rest, v, m => ins k (setAt rest v (asMsg (lookup m k))) m

theorem atPath_const (p : List Nat) (v : Val) (s : Option Val) :
    atPath p (fun _ => some v) s = some (setAt p v (asMsg s)) := by
  induction p generalizing s with
  | nil => simp [atPath, setAt]
  | cons k rest ih => simp only [atPath, setAt, ih, put]

theorem modifyAt_const (p : List Nat) (v r : Val) : modifyAt p (fun _ => some v) r = setAt p v r := by
  simp [modifyAt, atPath_const, asMsg]

theorem slot_modifyAt (p q : List Nat) (f : Option Val → Option Val) (r : Val) (hq : q ≠ [])
    (h : incomp p q = true) : slot p (modifyAt q f r) = slot p r := by
  cases q with
  | nil => exact absurd rfl hq
  | cons b q =>
    have := lookupAt_atPath p (b :: q) f (some r) h
    simpa [slot, modifyAt, atPath, asMsg] using this

theorem slot_setAt (p q : List Nat) (v r : Val) (h : incomp p q = true) : slot p (setAt q v r) = slot p r := by
  cases q with
  | nil => cases p <;> simp [incomp] at h
  | cons b q => rw [← modifyAt_const]; exact slot_modifyAt p (b :: q) _ r (by simp) h

theorem setAt_comm (p q : List Nat) (x y m : Val) (h : incomp p q = true) :
    setAt p x (setAt q y m) = setAt q y (setAt p x m) := by
  induction p generalizing q m with
  | nil => simp [incomp] at h
  | cons a p ih =>
    cases q with
    | nil => simp [incomp] at h
    | cons b q =>
      simp only [incomp, Bool.or_eq_true, bne_iff_ne, ne_eq] at h
      simp only [setAt]
      by_cases hab : a = b
      · subst hab
        rw [lookup_ins_same, lookup_ins_same, ins_ins_same, ins_ins_same]
        simp only [asMsg]
        rw [ih q _ (by simpa using h)]
      · have hba : b ≠ a := fun e => hab e.symm
        rw [lookup_ins_ne _ _ _ _ hab, lookup_ins_ne _ _ _ _ hba, ins_ins_comm _ _ _ _ _ hab]


/-! ### the four primitive actions on an unset slot -/

theorem assign_nonempty (p : List Nat) (v r : Val) (hv : v.isEmptyContainer = false) :
    modifyAt p (assignOp v) r = setAt p v r := by
  have : assignOp v = fun _ => some v := by funext s; simp [assignOp, norm, hv]
  rw [this, modifyAt_const]

theorem assign_empty_top (k : Nat) (v r : Val) (hv : v.isEmptyContainer = true) (hs : slot [k] r = none) :
    modifyAt [k] (assignOp v) r = r := by
  have hl : lookup r k = none := by simpa [slot, lookupAt, asMsg] using hs
  simp [modifyAt, atPath, assignOp, norm, hv, asMsg, put, erase_of_lookup_none r k hl]

theorem extend_eq_assign (p : List Nat) (xs : List String) (r : Val) (hs : slot p r = none) :
    modifyAt p (extendOp (.list xs)) r = modifyAt p (assignOp (.list xs)) r := by
  unfold modifyAt
  rw [atPath_congr p (extendOp (.list xs)) (assignOp (.list xs)) (some r)]
  have : lookupAt p (some r) = none := hs
  simp [this, extendOp, assignOp, asMsg, items]

theorem update_eq_assign (p : List Nat) (kv : List (String × String)) (r : Val) (hs : slot p r = none) :
    modifyAt p (updateOp (.map kv)) r = modifyAt p (assignOp (.map kv)) r := by
  unfold modifyAt
  rw [atPath_congr p (updateOp (.map kv)) (assignOp (.map kv)) (some r)]
  have : lookupAt p (some r) = none := hs
  simp [this, updateOp, assignOp, asMsg, entries, upd]

/-- closed form of one step: store the value unless it is absent or an empty container -/
def effStep (r : Val) (b : Bound) : Val :=
  match b.2 with
  | none => r
  | some v => if v.isEmptyContainer then r else setAt b.1.path v r

theorem refStep_eq_eff (r : Val) (b : Bound) (hg : good b = true) (hs : slot b.1.path r = none) :
    refStep r b = effStep r b := by
  obtain ⟨s, a⟩ := b
  cases a with
  | none => simp [refStep, effStep]
  | some v =>
    simp only [refStep, effStep]
    by_cases hv : v.isEmptyContainer = true
    · simp only [hv, if_true]
      simp only [good, hv, Bool.not_true, Bool.false_or, Bool.and_eq_true, beq_iff_eq] at hg
      obtain ⟨k, hk⟩ : ∃ k, s.path = [k] := by
        have := hg.2.2
        match hp : s.path, this with
        | [k], _ => exact ⟨k, rfl⟩
        | [], h => simp at h
        | _ :: _ :: _, h => simp at h
      simp only [hk] at hs ⊢
      exact assign_empty_top k v r hv hs
    · have hv' : v.isEmptyContainer = false := by simpa using hv
      simp only [hv', Bool.false_eq_true, if_false]
      exact assign_nonempty _ _ _ hv'


/-! ### folds -/

theorem effStep_slot (r : Val) (b c : Bound) (h : incomp c.1.path b.1.path = true) :
    slot c.1.path (effStep r b) = slot c.1.path r := by
  unfold effStep
  split
  · rfl
  · split
    · rfl
    · exact slot_setAt _ _ _ _ h

theorem unset_foldl_eff (l l' : List Bound) (r : Val)
    (hx : ∀ a ∈ l, ∀ c ∈ l', incomp c.1.path a.1.path = true) (hu : Unset l' r) :
    Unset l' (l.foldl effStep r) := by
  induction l generalizing r with
  | nil => exact hu
  | cons a l ih =>
    simp only [List.foldl_cons]
    apply ih
    · intro a' ha' c hc; exact hx a' (by simp [ha']) c hc
    · intro c hc
      rw [effStep_slot r a c (hx a (by simp) c hc)]
      exact hu c hc

/-- SEG: a pass whose every step acts like `effStep` on an unset slot is the `effStep` fold -/
theorem foldl_eq_eff (step : Val → Bound → Val) (l : List Bound) (r : Val)
    (hg : ∀ b ∈ l, good b = true) (hpf : PrefixFree l) (hu : Unset l r)
    (hstep : ∀ r, ∀ b ∈ l, slot b.1.path r = none → step r b = effStep r b) :
    l.foldl step r = l.foldl effStep r := by
  induction l generalizing r with
  | nil => rfl
  | cons b l ih =>
    simp only [List.foldl_cons]
    have hb := hstep r b (by simp) (hu b (by simp))
    rw [hb]
    have hpf' := List.pairwise_cons.mp hpf
    apply ih
    · intro c hc; exact hg c (by simp [hc])
    · exact hpf'.2
    · intro c hc
      rw [effStep_slot r b c (incomp_symm _ _ (hpf'.1 c hc))]
      exact hu c (by simp [hc])
    · intro r' c hc hs; exact hstep r' c (by simp [hc]) hs

theorem effStep_comm (r : Val) (a b : Bound) (h : incomp a.1.path b.1.path = true) :
    effStep (effStep r a) b = effStep (effStep r b) a := by
  unfold effStep
  cases a.2 <;> cases b.2 <;> simp only []
  rename_i x y
  by_cases hx : x.isEmptyContainer = true <;> by_cases hy : y.isEmptyContainer = true <;>
    simp only [hx, hy, if_true, Bool.false_eq_true, if_false]
  rw [setAt_comm _ _ _ _ _ (incomp_symm _ _ h)]

theorem foldl_eff_perm {l l' : List Bound} (hp : l.Perm l') (hpf : PrefixFree l) (r : Val) :
    l.foldl effStep r = l'.foldl effStep r := by
  induction hp generalizing r with
  | nil => rfl
  | cons x _ ih =>
    simp only [List.foldl_cons]
    exact ih (List.pairwise_cons.mp hpf).2 _
  | swap x y l =>
    simp only [List.foldl_cons]
    have h1 := List.pairwise_cons.mp hpf
    have : incomp y.1.path x.1.path = true := h1.1 x (by simp)
    rw [effStep_comm r y x this]
  | trans h1 _ ih1 ih2 =>
    rw [ih1 hpf r]
    apply ih2
    exact (h1.pairwise_iff (fun {a b} hab => incomp_symm _ _ hab)).mp hpf

theorem foldl_ite_filter (act : Val → Bound → Val) (c : Bound → Bool) (l : List Bound) (r : Val) :
    l.foldl (fun r b => if c b then act r b else r) r = (l.filter c).foldl act r := by
  induction l generalizing r with
  | nil => rfl
  | cons b l ih =>
    simp only [List.foldl_cons, List.filter_cons]
    by_cases h : c b = true
    · simp only [h, if_true, List.foldl_cons]; exact ih _
    · simp only [h, Bool.false_eq_true, if_false]; exact ih _


/-- TWO: two consecutive passes over disjoint parts of a prefix-free key set -/
theorem foldl_two (sA sB : Val → Bound → Val) (A B : List Bound) (r : Val)
    (hg : ∀ b ∈ A ++ B, good b = true) (hpf : PrefixFree (A ++ B)) (hu : Unset (A ++ B) r)
    (hA : ∀ r, ∀ b ∈ A, slot b.1.path r = none → sA r b = effStep r b)
    (hB : ∀ r, ∀ b ∈ B, slot b.1.path r = none → sB r b = effStep r b) :
    B.foldl sB (A.foldl sA r) = (A ++ B).foldl effStep r := by
  have hp := List.pairwise_append.mp hpf
  rw [foldl_eq_eff sA A r (fun b hb => hg b (by simp [hb])) hp.1 (fun b hb => hu b (by simp [hb])) hA]
  rw [foldl_eq_eff sB B _ (fun b hb => hg b (by simp [hb])) hp.2.1 _ hB, List.foldl_append]
  apply unset_foldl_eff
  · intro a ha c hc; exact incomp_symm _ _ (hp.2.2 a ha c hc)
  · intro b hb; exact hu b (by simp [hb])

/-! ### the per-class actions of the two templates -/

def syncAct1 (r : Val) (b : Bound) : Val :=
  match b.2 with
  | none => r
  | some v =>
    if b.1.isValue && b.1.repeated then modifyAt b.1.path (extendOp v) r
    else modifyAt b.1.path (assignOp v) r

def syncAct2 (r : Val) (b : Bound) : Val :=
  match b.2 with
  | none => r
  | some v =>
    if truthy (some v) then
      (if b.1.isMap then modifyAt b.1.path (updateOp v) r else modifyAt b.1.path (extendOp v) r)
    else r

theorem syncLoop1_eq (sp : Bool) :
    syncLoop1 sp = fun r b => if (!b.1.repeated || (sp && !b.1.rawOwner)) then syncAct1 r b else r := rfl
theorem syncLoop2_eq (sp : Bool) :
    syncLoop2 sp = fun r b => if (b.1.repeated && (!sp || b.1.rawOwner)) then syncAct2 r b else r := rfl

theorem isListV_elim {v : Val} (h : isListV v = true) : ∃ xs, v = .list xs := by
  cases v <;> simp [isListV] at h; exact ⟨_, rfl⟩
theorem isMapV_elim {v : Val} (h : isMapV v = true) : ∃ kv, v = .map kv := by
  cases v <;> simp [isMapV] at h; exact ⟨_, rfl⟩

theorem syncAct1_eff (r : Val) (b : Bound) (hg : good b = true) (hs : slot b.1.path r = none) :
    syncAct1 r b = effStep r b := by
  rw [← refStep_eq_eff r b hg hs]
  obtain ⟨s, a⟩ := b
  cases a with
  | none => rfl
  | some v =>
    simp only [syncAct1, refStep]
    by_cases hvr : (s.isValue && s.repeated) = true
    · simp only [hvr, if_true]
      simp only [Bool.and_eq_true] at hvr
      have hm : s.isMap = false := by
        simp only [good, Bool.and_eq_true, Bool.or_eq_true, Bool.not_eq_true'] at hg
        rcases hg.1.2 with h | h
        · simp [hvr.1] at h
        · exact h
      have hl : isListV v = true := by
        simp only [good, hm, hvr.2, Bool.and_eq_true] at hg
        simpa using hg.2.1
      obtain ⟨xs, rfl⟩ := isListV_elim hl
      exact extend_eq_assign _ _ _ hs
    · simp only [hvr, Bool.false_eq_true, if_false]

theorem syncAct2_eff (r : Val) (b : Bound) (hg : good b = true) (hrep : b.1.repeated = true)
    (hs : slot b.1.path r = none) : syncAct2 r b = effStep r b := by
  obtain ⟨s, a⟩ := b
  cases a with
  | none => rfl
  | some v =>
    simp only [syncAct2, effStep]
    simp only at hrep
    by_cases hm : s.isMap = true
    · have hl : isMapV v = true := by
        simp only [good, hm, Bool.and_eq_true] at hg
        simpa using hg.2.1
      obtain ⟨kv, rfl⟩ := isMapV_elim hl
      cases kv with
      | nil => simp [truthy, isEmptyContainer]
      | cons x kv =>
        simp only [truthy, isEmptyContainer, Bool.not_false, if_true, hm, Bool.false_eq_true, if_false]
        rw [update_eq_assign _ _ _ hs]
        exact assign_nonempty _ _ _ rfl
    · have hm' : s.isMap = false := by simpa using hm
      have hl : isListV v = true := by
        simp only [good, hm', hrep, Bool.and_eq_true] at hg
        simpa using hg.2.1
      obtain ⟨xs, rfl⟩ := isListV_elim hl
      cases xs with
      | nil => simp [truthy, isEmptyContainer]
      | cons x xs =>
        simp only [truthy, isEmptyContainer, Bool.not_false, if_true, hm', Bool.false_eq_true, if_false]
        rw [extend_eq_assign _ _ _ hs]
        exact assign_nonempty _ _ _ rfl


theorem perm_good {l l' : List Bound} (hp : l'.Perm l) (hg : ∀ b ∈ l, good b = true) : ∀ b ∈ l', good b = true :=
  fun b hb => hg b (hp.mem_iff.mp hb)
theorem perm_unset {l l' : List Bound} {r : Val} (hp : l'.Perm l) (hu : Unset l r) : Unset l' r :=
  fun b hb => hu b (hp.mem_iff.mp hb)
theorem perm_pf {l l' : List Bound} (hp : l'.Perm l) (hpf : PrefixFree l) : PrefixFree l' :=
  (hp.pairwise_iff (fun {_ _} hab => incomp_symm _ _ hab)).mpr hpf

theorem setAll_eq_eff (bs : List Bound) (r : Val)
    (hg : ∀ b ∈ bs, good b = true) (hpf : PrefixFree bs) (hu : Unset bs r) :
    setAll bs r = bs.foldl effStep r :=
  foldl_eq_eff refStep bs r hg hpf hu (fun r b hb hs => refStep_eq_eff r b (hg b hb) hs)

theorem applySync_eq_eff (sp : Bool) (bs : List Bound) (r : Val)
    (hg : ∀ b ∈ bs, good b = true) (hpf : PrefixFree bs) (hu : Unset bs r) :
    applySync sp bs r = bs.foldl effStep r := by
  unfold applySync
  rw [syncLoop1_eq, syncLoop2_eq, foldl_ite_filter, foldl_ite_filter]
  have hc : (fun b : Bound => (b.1.repeated && (!sp || b.1.rawOwner))) =
      fun b => !((fun b : Bound => (!b.1.repeated || (sp && !b.1.rawOwner))) b) := by
    funext b; cases h : b.1.repeated <;> cases sp <;> cases h' : b.1.rawOwner <;> simp [h, h']
  have hperm := List.filter_append_perm (fun b : Bound => (!b.1.repeated || (sp && !b.1.rawOwner))) bs
  rw [hc]
  rw [foldl_two syncAct1 syncAct2 _ _ r (perm_good hperm hg) (perm_pf hperm hpf) (perm_unset hperm hu)]
  · exact foldl_eff_perm hperm (perm_pf hperm hpf) r
  · intro r b hb hs
    exact syncAct1_eff r b (hg b (List.mem_filter.mp hb).1) hs
  · intro r b hb hs
    have hm := List.mem_filter.mp hb
    have hrep : b.1.repeated = true := by
      have := hm.2
      cases h : b.1.repeated
      · simp [h] at this
      · rfl
    exact syncAct2_eff r b (hg b hm.1) hrep hs


def asyncAct2 (r : Val) (b : Bound) : Val :=
  match b.2 with
  | none => r
  | some v => if truthy (some v) then modifyAt b.1.path (updateOp v) r else r

def asyncAct3 (r : Val) (b : Bound) : Val :=
  match b.2 with
  | none => r
  | some v => if truthy (some v) then modifyAt b.1.path (extendOp v) r else r

theorem asyncLoop1_eq : asyncLoop1 = fun r b => if (!b.1.repeated) then refStep r b else r := rfl
theorem asyncLoop2_eq : asyncLoop2 = fun r b => if b.1.isMap then asyncAct2 r b else r := rfl
theorem asyncLoop3_eq : asyncLoop3 = fun r b => if (b.1.repeated && !b.1.isMap) then asyncAct3 r b else r := rfl

theorem good_map_rep {b : Bound} (hg : good b = true) (hm : b.1.isMap = true) : b.1.repeated = true := by
  simp only [good, Bool.and_eq_true, Bool.or_eq_true, Bool.not_eq_true'] at hg
  rcases hg.1.1.2 with h | h
  · simp [hm] at h
  · exact h

theorem asyncAct2_eff (r : Val) (b : Bound) (hg : good b = true) (hm : b.1.isMap = true)
    (hs : slot b.1.path r = none) : asyncAct2 r b = effStep r b := by
  rw [← syncAct2_eff r b hg (good_map_rep hg hm) hs]
  unfold asyncAct2 syncAct2
  cases b.2 <;> simp [hm]

theorem asyncAct3_eff (r : Val) (b : Bound) (hg : good b = true) (hrep : b.1.repeated = true) (hm : b.1.isMap = false)
    (hs : slot b.1.path r = none) : asyncAct3 r b = effStep r b := by
  rw [← syncAct2_eff r b hg hrep hs]
  unfold asyncAct3 syncAct2
  cases b.2 <;> simp [hm]

theorem async_perm (bs : List Bound) (hg : ∀ b ∈ bs, good b = true) :
    ((bs.filter (fun b => !b.1.repeated) ++ bs.filter (fun b => b.1.isMap)) ++
      bs.filter (fun b => b.1.repeated && !b.1.isMap)).Perm bs := by
  have h1 := List.filter_append_perm (fun b : Bound => !b.1.repeated) bs
  have h2 := List.filter_append_perm (fun b : Bound => b.1.isMap) (bs.filter (fun b => !(!b.1.repeated)))
  rw [List.filter_filter, List.filter_filter] at h2
  have e2 : bs.filter (fun b => b.1.isMap && !(!b.1.repeated)) = bs.filter (fun b => b.1.isMap) := by
    apply List.filter_congr
    intro b hb
    cases hm : b.1.isMap
    · simp
    · simp [good_map_rep (hg b hb) hm]
  have e3 : bs.filter (fun b => !b.1.isMap && !(!b.1.repeated)) = bs.filter (fun b => b.1.repeated && !b.1.isMap) := by
    apply List.filter_congr
    intro b _
    cases b.1.isMap <;> cases b.1.repeated <;> rfl
  rw [e2, e3] at h2
  rw [List.append_assoc]
  exact (List.Perm.append_left _ h2).trans h1

theorem applyAsyncSame_eq_eff (bs : List Bound) (r : Val)
    (hg : ∀ b ∈ bs, good b = true) (hpf : PrefixFree bs) (hu : Unset bs r) :
    applyAsyncSame bs r = bs.foldl effStep r := by
  unfold applyAsyncSame
  rw [asyncLoop1_eq, asyncLoop2_eq, asyncLoop3_eq, foldl_ite_filter, foldl_ite_filter, foldl_ite_filter]
  have hperm := async_perm bs hg
  have hG := perm_good hperm hg
  have hP := perm_pf hperm hpf
  have hU := perm_unset (r := r) hperm hu
  have hP12 := (List.pairwise_append.mp hP).1
  rw [foldl_two refStep asyncAct2 _ _ r (fun b hb => hG b (List.mem_append_left _ hb)) hP12
        (fun b hb => hU b (List.mem_append_left _ hb))]
  · rw [foldl_two effStep asyncAct3 _ _ r hG hP hU]
    · exact foldl_eff_perm hperm hP r
    · intro r b _ _; rfl
    · intro r b hb hs
      have hm := List.mem_filter.mp hb
      have h2 : b.1.repeated = true ∧ b.1.isMap = false := by simpa using hm.2
      exact asyncAct3_eff r b (hg b hm.1) h2.1 h2.2 hs
  · intro r b hb hs
    exact refStep_eq_eff r b (hg b (List.mem_filter.mp hb).1) hs
  · intro r b hb hs
    have hm := List.mem_filter.mp hb
    exact asyncAct2_eff r b (hg b hm.1) (by simpa using hm.2) hs


theorem slot_mnil (p : List Nat) (hp : p ≠ []) : slot p .mnil = none := by
  cases p with
  | nil => exact absurd rfl hp
  | cons k rest =>
    simp only [slot, lookupAt, asMsg, lookup]
    induction rest with
    | nil => rfl
    | cons k' rest ih => simpa [lookupAt, asMsg, lookup] using ih

theorem unset_mnil (bs : List Bound) (hg : ∀ b ∈ bs, good b = true) : Unset bs .mnil := by
  intro b hb
  apply slot_mnil
  have := hg b hb
  simp only [good, Bool.and_eq_true, Bool.not_eq_true', List.isEmpty_eq_false_iff] at this
  exact this.1.1.1

/-- a pass all of whose arguments are `None` changes nothing -/
theorem foldl_noargs (step : Val → Bound → Val) (hstep : ∀ r b, b.2 = none → step r b = r)
    (l : List Bound) (r : Val) (h : ∀ b ∈ l, b.2 = none) : l.foldl step r = r := by
  induction l generalizing r with
  | nil => rfl
  | cons b l ih =>
    simp only [List.foldl_cons]
    rw [hstep r b (h b (by simp))]
    exact ih r (fun c hc => h c (by simp [hc]))

theorem hasFlattened_false {bs : List Bound} (h : hasFlattened bs = false) : ∀ b ∈ bs, b.2 = none := by
  intro b hb
  simp only [hasFlattened, List.any_eq_false, given] at h
  have := h b hb
  cases hb2 : b.2 <;> simp_all

theorem applySync_noargs (sp : Bool) (bs : List Bound) (r : Val) (h : ∀ b ∈ bs, b.2 = none) :
    applySync sp bs r = r := by
  unfold applySync
  rw [foldl_noargs (syncLoop1 sp) _ bs r h, foldl_noargs (syncLoop2 sp) _ bs r h]
  · intro r b hb; simp [syncLoop2, hb]
  · intro r b hb; simp [syncLoop1, hb]

theorem applyAsyncSame_noargs (bs : List Bound) (r : Val) (h : ∀ b ∈ bs, b.2 = none) :
    applyAsyncSame bs r = r := by
  unfold applyAsyncSame
  rw [foldl_noargs asyncLoop1 _ bs r h, foldl_noargs asyncLoop2 _ bs r h, foldl_noargs asyncLoop3 _ bs r h]
  · intro r b hb; simp [asyncLoop3, hb]
  · intro r b hb; simp [asyncLoop2, hb]
  · intro r b hb; simp [asyncLoop1, hb]

theorem applyAsyncCross_eq (bs : List Bound) (r : Val) (h : ∀ b ∈ bs, ctorOk b = true) :
    applyAsyncCross bs r = .ok (setAll bs r) := by
  induction bs generalizing r with
  | nil => rfl
  | cons b bs ih =>
    have hb := h b (by simp)
    simp only [applyAsyncCross, ctorStep, setAll, List.foldl_cons]
    unfold ctorOk at hb
    split at hb
    · rename_i n k hc hp
      simp only [beq_iff_eq] at hb
      subst hb
      simp only [hc]
      cases hb2 : b.2 with
      | none =>
        simp only [refStep, hb2]
        exact ih r (fun c hc => h c (by simp [hc]))
      | some v =>
        simp only [refStep, hb2, hp]
        exact ih _ (fun c hc => h c (by simp [hc]))
    · simp at hb

end Aux

/-! ## 1. Parameters are offered in declared order -/

section Aux
theorem odInsert_keys (d : List Entry) (e : Entry) :
    (odInsert d e).map Entry.key =
      if (d.map Entry.key).contains e.key then d.map Entry.key else d.map Entry.key ++ [e.key] := by
  unfold odInsert
  have hany : d.any (fun x => x.key == e.key) = (d.map Entry.key).contains e.key := by
    induction d with
    | nil => rfl
    | cons x d ih => simp only [List.any_cons, List.map_cons, List.contains_cons, ih]; rw [BEq.comm]
  rw [hany]
  split
  · rw [List.map_map]
    apply List.map_congr_left
    intro x _
    simp only [Function.comp]
    split
    · rename_i h; simp only [beq_iff_eq] at h; exact h.symm
    · rfl
  · simp

theorem odBuild_keys_gen (es d : List Entry) :
    (es.foldl odInsert d).map Entry.key = d.map Entry.key ++ firstSeen (d.map Entry.key) (es.map Entry.key) := by
  induction es generalizing d with
  | nil => simp [firstSeen]
  | cons e es ih =>
    simp only [List.foldl_cons, List.map_cons, firstSeen]
    rw [ih, odInsert_keys]
    split <;> simp
end Aux

/-- **The flattened parameters are the declared fields in declared order**: the keys of the mapping
are the keys yielded by the signatures, each at the position of its first occurrence (OrderedDict
semantics), whatever recurs later. -/
theorem params_in_declared_order (es : List Entry) :
    (odBuild es).map Entry.key = firstSeen [] (es.map Entry.key) := by
  simpa [odBuild] using odBuild_keys_gen es []

section Aux
theorem firstSeen_nodup (seen ks : List String) (hn : ks.Nodup) (hd : ∀ k ∈ ks, k ∉ seen) :
    firstSeen seen ks = ks := by
  induction ks generalizing seen with
  | nil => rfl
  | cons k ks ih =>
    have hk : seen.contains k = false := by simpa using hd k (by simp)
    simp only [firstSeen, hk, Bool.false_eq_true, if_false]
    rw [ih]
    · exact (List.nodup_cons.mp hn).2
    · intro x hx hmem
      rcases List.mem_append.mp hmem with h | h
      · exact hd x (by simp [hx]) h
      · simp only [List.mem_singleton] at h
        subst h
        exact (List.nodup_cons.mp hn).1 hx

theorem odBuild_gen_nodup (es d : List Entry) (hn : (es.map Entry.key).Nodup)
    (hd : ∀ e ∈ es, ∀ x ∈ d, x.key ≠ e.key) : es.foldl odInsert d = d ++ es := by
  induction es generalizing d with
  | nil => simp
  | cons e es ih =>
    simp only [List.foldl_cons, List.map_cons] at hn ⊢
    have hnot : d.any (fun x => x.key == e.key) = false := by
      simp only [List.any_eq_false, beq_iff_eq]
      intro x hx; exact hd e (by simp) x hx
    have : odInsert d e = d ++ [e] := by simp [odInsert, hnot]
    rw [this, ih _ (List.nodup_cons.mp hn).2]
    · simp
    · intro e' he' x hx
      rcases List.mem_append.mp hx with h | h
      · exact hd e' (by simp [he']) x h
      · simp only [List.mem_singleton] at h
        subst h
        intro heq
        exact (List.nodup_cons.mp hn).1 (heq ▸ List.mem_map_of_mem (f := Entry.key) he')
end Aux

/-- with distinct keys the mapping IS the yielded list: same entries, same order, hence the emitted
parameter list is `self, request, <declared fields in order>, retry, timeout, metadata`. -/
theorem params_exactly_declared (es : List Entry) (hn : (es.map Entry.key).Nodup) :
    odBuild es = es ∧
    paramList (odBuild es) = ["self", "request"] ++ es.map Entry.param ++ ["retry", "timeout", "metadata"] := by
  have : odBuild es = es := by simpa [odBuild] using odBuild_gen_nodup es [] hn (by simp)
  exact ⟨this, by rw [this]; rfl⟩

/-- the yielded entries follow the signature paths in order (some dropped for a dependency-package
request, none otherwise) -/
theorem yielded_in_order (sch : Schema) (cross : Bool) (input : MsgDef) (paths : List (List String))
    (es : List Entry) (h : yielded sch cross input paths = .ok es) :
    (es.map Entry.segs).Sublist paths ∧ (cross = false → es.map Entry.segs = paths) := by
  induction paths generalizing es with
  | nil => simp [yielded] at h; subst h; simp
  | cons p paths ih =>
    simp only [yielded] at h
    split at h
    · simp at h
    · rename_i pre last _
      split at h
      · simp at h
      · rename_i es' hes'
        have ih' := ih es' hes'
        split at h
        · simp only [Except.ok.injEq] at h; subst h
          rename_i hc
          refine ⟨ih'.1.cons _, fun hcr => ?_⟩
          simp [hcr] at hc
        · simp only [Except.ok.injEq] at h; subst h
          refine ⟨by simpa using ih'.1.cons_cons p, fun hcr => ?_⟩
          simp [ih'.2 hcr]

/-! ## 2. Both application schemes are plain field setting -/

/-- **The sync macro computes the request with the fields set** (same-package and cross-package
branch alike), for keys none of which is a prefix of another, arguments of the field's kind, an
empty list/dict only for a top-level key, on a request none of whose keys is set yet. -/
theorem apply_sync_eq_set (samePkg : Bool) (bs : List Bound) (r : Val)
    (hg : ∀ b ∈ bs, good b = true) (hpf : PrefixFree bs) (hu : Unset bs r) :
    applySync samePkg bs r = setAll bs r := by
  rw [applySync_eq_eff samePkg bs r hg hpf hu, setAll_eq_eff bs r hg hpf hu]

/-- the sync macro of a same-package request without repeated `struct_pb2.Value` keys and without
repeated keys owned by a raw protobuf message (the two cases that are extended, not assigned) is plain
assignment in declared order UNCONDITIONALLY (any base request, overlapping keys, any values). -/
theorem apply_sync_eq_set_unconditional (bs : List Bound) (r : Val)
    (hv : ∀ b ∈ bs, (b.1.isValue && b.1.repeated) = false ∧ (b.1.repeated && b.1.rawOwner) = false) :
    applySync true bs r = setAll bs r := by
  unfold applySync setAll
  have h2 : ∀ (l : List Bound) (r : Val), (∀ b ∈ l, (b.1.repeated && b.1.rawOwner) = false) →
      l.foldl (syncLoop2 true) r = r := by
    intro l r hl; induction l generalizing r with
    | nil => rfl
    | cons b l ih =>
      simp only [List.foldl_cons]
      rw [show syncLoop2 true r b = r by simp [syncLoop2, hl b (by simp)]]
      exact ih r (fun c hc => hl c (by simp [hc]))
  rw [h2 _ _ (fun b hb => (hv b hb).2)]
  induction bs generalizing r with
  | nil => rfl
  | cons b bs ih =>
    simp only [List.foldl_cons]
    have : syncLoop1 true r b = refStep r b := by
      have hb := hv b (by simp)
      have hc : (!b.1.repeated || (true && !b.1.rawOwner)) = true := by
        have := hb.2
        cases h1 : b.1.repeated <;> cases h2 : b.1.rawOwner <;> simp [h1, h2] at this ⊢
      unfold syncLoop1 refStep
      simp only [hc, if_true]
      cases b.2 <;> simp [hb.1]
    rw [this]
    exact ih _ (fun c hc => hv c (by simp [hc]))

/-- **The asyncio template (three passes: singular, maps, lists) computes the same request.** -/
theorem apply_async_eq_set (bs : List Bound) (r : Val)
    (hg : ∀ b ∈ bs, good b = true) (hpf : PrefixFree bs) (hu : Unset bs r) :
    applyAsyncSame bs r = setAll bs r := by
  rw [applyAsyncSame_eq_eff bs r hg hpf hu, setAll_eq_eff bs r hg hpf hu]

/-- the asyncio template for a dependency-package request (`Request(f=f, …)`) computes the same
request when every key is a top-level field addressed by its own name — and only then, see
`async_cross_dotted_counterexample`. -/
theorem apply_async_cross_eq_set (bs : List Bound) (r : Val) (h : ∀ b ∈ bs, ctorOk b = true) :
    applyAsyncCross bs r = .ok (setAll bs r) :=
  applyAsyncCross_eq bs r h

/-! ## 3. The call -/

/-- **Supplying both a request and any flattened argument raises ValueError** — for every request
form, every client, every package situation, also when the argument is falsy (`""`, `0`, `[]`). -/
theorem mixed_call_rejected (samePkg asy : Bool) (req : ReqArg) (bs : List Bound)
    (hr : req.isGiven = true) (hk : ∃ b ∈ bs, b.2 ≠ none) :
    call samePkg asy req bs = .error .valueError := by
  obtain ⟨b, hb, hne⟩ := hk
  have : hasFlattened bs = true := by
    simp only [hasFlattened, List.any_eq_true, given]
    exact ⟨b, hb, by cases h : b.2 <;> simp_all⟩
  simp [call, hr, this]

/-- … **before anything is sent**: the transport sees no request at all. -/
theorem rejected_before_send (samePkg asy : Bool) (req : ReqArg) (bs : List Bound)
    (hr : req.isGiven = true) (hk : ∃ b ∈ bs, b.2 ≠ none) :
    sent samePkg asy req bs = [] := by
  simp [sent, mixed_call_rejected samePkg asy req bs hr hk]

section Aux
theorem applyAsyncCross_ne_valueError (bs : List Bound) (r : Val) :
    applyAsyncCross bs r ≠ .error .valueError := by
  induction bs generalizing r with
  | nil => simp [applyAsyncCross]
  | cons b bs ih =>
    simp only [applyAsyncCross, ctorStep]
    cases b.1.ctor with
    | none => simp
    | some n =>
      cases b.2 with
      | none => exact ih r
      | some v => exact ih _
end Aux

section Aux
theorem applyAsyncCross_ne_attributeError (bs : List Bound) (r : Val) :
    applyAsyncCross bs r ≠ .error .attributeError := by
  induction bs generalizing r with
  | nil => simp [applyAsyncCross]
  | cons b bs ih =>
    simp only [applyAsyncCross, ctorStep]
    cases b.1.ctor with
    | none => simp
    | some n =>
      cases b.2 with
      | none => exact ih r
      | some v => exact ih _

theorem rawAny_noargs (asy : Bool) (bs : List Bound) (h : ∀ b ∈ bs, b.2 = none) :
    bs.any (rawAssignFails asy) = false := by
  simp only [List.any_eq_false]
  intro b hb
  simp [rawAssignFails, given, h b hb]

theorem marshalAny_noargs (bs : List Bound) (h : ∀ b ∈ bs, b.2 = none) :
    bs.any marshalFails = false := by
  simp only [List.any_eq_false]
  intro b hb
  simp [marshalFails, given, truthy, h b hb]

theorem rawAssignFails_async_sync (b : Bound) (h : rawAssignFails false b = false) :
    rawAssignFails true b = false := by
  simpa [rawAssignFails] using h

theorem rawAny_async_sync (bs : List Bound) (h : bs.any (rawAssignFails false) = false) :
    bs.any (rawAssignFails true) = false := by
  simp only [List.any_eq_false] at h ⊢
  intro b hb
  simpa using rawAssignFails_async_sync b (by simpa using h b hb)
end Aux

/-- and ValueError for the exclusion reason is raised ONLY then. -/
theorem value_error_iff_mixed (samePkg asy : Bool) (req : ReqArg) (bs : List Bound) :
    call samePkg asy req bs = .error .valueError ↔ (req.isGiven = true ∧ hasFlattened bs = true) := by
  constructor
  · intro h
    by_cases hm : (req.isGiven && hasFlattened bs) = true
    · simpa using hm
    · exfalso
      simp only [call, hm, Bool.false_eq_true, if_false] at h
      split at h
      · simp at h
      · split at h
        · simp at h
        · cases samePkg <;> cases asy <;> cases req <;> simp at h
          exact applyAsyncCross_ne_valueError bs .mnil h
  · rintro ⟨h1, h2⟩
    simp [call, h1, h2]

/-- **AttributeError is raised exactly when** the call is not mixed and some GIVEN key either ends in a field
owned by a raw protobuf message that protobuf refuses to assign, in a request of the service's own package
(`rawAssignFails`: a singular message field, in both clients; repeated/map fields are extended / updated since
`fix:` 9d33fc0), or runs INTO a marshalled well-known type (`marshalFails`: `ttl.seconds`) in a client that
applies keys by attribute (`appliesByAttr`: every client but the asyncio one of a cross-package request). -/
theorem attribute_error_iff (samePkg asy : Bool) (req : ReqArg) (bs : List Bound) :
    call samePkg asy req bs = .error .attributeError ↔
      ((req.isGiven && hasFlattened bs) = false ∧
       ((samePkg = true ∧ bs.any (rawAssignFails asy) = true) ∨
        (appliesByAttr samePkg asy = true ∧ bs.any marshalFails = true))) := by
  constructor
  · intro h
    by_cases hm : (req.isGiven && hasFlattened bs) = true
    · simp [call, hm] at h
    · simp only [call, hm, Bool.false_eq_true, if_false] at h
      by_cases hr : (samePkg && bs.any (rawAssignFails asy)) = true
      · simp only [Bool.and_eq_true] at hr
        exact ⟨by simpa using hm, Or.inl ⟨hr.1, hr.2⟩⟩
      · by_cases hw : (appliesByAttr samePkg asy && bs.any marshalFails) = true
        · simp only [Bool.and_eq_true] at hw
          exact ⟨by simpa using hm, Or.inr ⟨hw.1, hw.2⟩⟩
        · exfalso
          simp only [hr, hw, Bool.false_eq_true, if_false] at h
          cases samePkg <;> cases asy <;> cases req <;> simp at h
          exact applyAsyncCross_ne_attributeError bs .mnil h
  · rintro ⟨h1, h2 | h2⟩
    · simp [call, h1, h2.1, h2.2]
    · by_cases hr : (samePkg && bs.any (rawAssignFails asy)) = true
      · simp [call, h1, hr]
      · simp [call, h1, hr, h2.1, h2.2]

/-- **kwargs call ≡ request call** (same package, both clients): calling with flattened arguments
sends exactly what is sent when the caller builds the request by setting those fields and passes
it as `request` (object or dict) — provided no given key runs into protobuf's assignment rules for
raw sub-messages (`rawAssignFails`; FORCED, see `raw_owner_message_counterexample`). -/
theorem kwargs_equiv_request (asy : Bool) (bs : List Bound)
    (hg : ∀ b ∈ bs, good b = true) (hpf : PrefixFree bs) (hraw : bs.any (rawAssignFails asy) = false)
    (hmar : bs.any marshalFails = false) :
    call true asy .none bs = .ok (setAll bs .mnil) ∧
    call true asy (.inst (setAll bs .mnil)) (bs.map fun b => (b.1, none)) = .ok (setAll bs .mnil) ∧
    call true asy (.dict (setAll bs .mnil)) (bs.map fun b => (b.1, none)) = .ok (setAll bs .mnil) := by
  have hno : ∀ b ∈ (bs.map fun b : Bound => ((b.1, none) : Bound)), b.2 = none := by
    intro b hb; obtain ⟨c, _, rfl⟩ := List.mem_map.mp hb; rfl
  have hnf : hasFlattened (bs.map fun b : Bound => ((b.1, none) : Bound)) = false := by
    simp [hasFlattened, given]
  have hnr := rawAny_noargs asy _ hno
  have hnm := marshalAny_noargs _ hno
  have hu := unset_mnil bs hg
  cases asy
  · refine ⟨?_, ?_, ?_⟩
    · simp [call, ReqArg.isGiven, hraw, hmar, apply_sync_eq_set true bs .mnil hg hpf hu]
    · simp [call, hnf, hnr, hnm]
    · simp [call, hnf, hnr, hnm, applySync_noargs true _ _ hno]
  · refine ⟨?_, ?_, ?_⟩
    · simp [call, ReqArg.isGiven, hraw, hmar, apply_async_eq_set bs .mnil hg hpf hu]
    · simp [call, hnf, hnr, hnm, applyAsyncSame_noargs _ _ hno]
    · simp [call, hnf, hnr, hnm, applyAsyncSame_noargs _ _ hno]

/-- the same for a dependency-package request (sync: two passes; asyncio: the pb2 constructor). -/
theorem kwargs_equiv_request_cross (asy : Bool) (bs : List Bound)
    (hg : ∀ b ∈ bs, good b = true) (hpf : PrefixFree bs) (hc : asy = true → ∀ b ∈ bs, ctorOk b = true)
    (hmar : asy = false → bs.any marshalFails = false) :
    call false asy .none bs = .ok (setAll bs .mnil) ∧
    call false asy (.inst (setAll bs .mnil)) (bs.map fun b => (b.1, none)) = .ok (setAll bs .mnil) := by
  have hno : ∀ b ∈ (bs.map fun b : Bound => ((b.1, none) : Bound)), b.2 = none := by
    intro b hb; obtain ⟨c, _, rfl⟩ := List.mem_map.mp hb; rfl
  have hnf : hasFlattened (bs.map fun b : Bound => ((b.1, none) : Bound)) = false := by
    simp [hasFlattened, given]
  have hnm := marshalAny_noargs _ hno
  have hu := unset_mnil bs hg
  cases asy
  · exact ⟨by simp [call, ReqArg.isGiven, appliesByAttr, hmar rfl, apply_sync_eq_set false bs .mnil hg hpf hu],
           by simp [call, hnf, hnm]⟩
  · exact ⟨by simp [call, ReqArg.isGiven, appliesByAttr, apply_async_cross_eq_set bs .mnil (hc rfl)],
           by simp [call, hnf, appliesByAttr]⟩

/-- **Sync and asyncio clients behave identically**: same request or same exception, for every form
of `request` and every argument list within the hypotheses (the raw-assignment hypothesis is stated
for the sync client; since `fix:` 9d33fc0 the two clients refuse exactly the same keys). -/
theorem sync_async_agree (samePkg : Bool) (req : ReqArg) (bs : List Bound)
    (hg : ∀ b ∈ bs, good b = true) (hpf : PrefixFree bs)
    (hc : samePkg = false → ∀ b ∈ bs, ctorOk b = true)
    (hraw : samePkg = true → bs.any (rawAssignFails false) = false)
    (hmar : samePkg = false → bs.any marshalFails = false) :
    call samePkg false req bs = call samePkg true req bs := by
  by_cases hm : (req.isGiven && hasFlattened bs) = true
  · simp [call, hm]
  · have hu := unset_mnil bs hg
    cases samePkg
    · have hw := hmar rfl
      cases req with
      | none =>
        simp [call, ReqArg.isGiven, appliesByAttr, hw, apply_sync_eq_set false bs .mnil hg hpf hu,
              apply_async_cross_eq_set bs .mnil (hc rfl)]
      | inst r =>
        have hf : hasFlattened bs = false := by simpa [ReqArg.isGiven] using hm
        simp [call, hf, hw, appliesByAttr]
      | dict r =>
        have hf : hasFlattened bs = false := by simpa [ReqArg.isGiven] using hm
        simp [call, hf, hw, appliesByAttr]
    · have hs := hraw rfl
      have ha := rawAny_async_sync bs hs
      by_cases hw : bs.any marshalFails = true
      · -- a key INTO a marshalled well-known type: both clients raise the same AttributeError
        simp [call, hm, hs, ha, hw, appliesByAttr]
      · have hw : bs.any marshalFails = false := by simpa using hw
        cases req with
        | none =>
          simp [call, ReqArg.isGiven, hs, ha, hw, apply_sync_eq_set true bs .mnil hg hpf hu,
                apply_async_eq_set bs .mnil hg hpf hu]
        | inst r =>
          have hf : hasFlattened bs = false := by simpa [ReqArg.isGiven] using hm
          simp [call, hf, hs, ha, hw, applyAsyncSame_noargs bs r (hasFlattened_false hf)]
        | dict r =>
          have hf : hasFlattened bs = false := by simpa [ReqArg.isGiven] using hm
          simp [call, hf, hs, ha, hw, applyAsyncSame_noargs bs r (hasFlattened_false hf),
                applySync_noargs true bs r (hasFlattened_false hf)]

/-- what the sync client may assign to a raw sub-message, the asyncio client may too (since `fix:`
9d33fc0 also conversely: `rawAssignFails` no longer depends on the client). -/
theorem async_raw_ok_of_sync (bs : List Bound) (h : bs.any (rawAssignFails false) = false) :
    bs.any (rawAssignFails true) = false := rawAny_async_sync bs h


/-! ## 4. The rendered attribute path -/

section Aux
theorem pyKeyword_reserved (s : String) (h : pyKeyword s = true) : reserved s = true := by
  have key : ∀ w ∈ Pinned.pyKeywords, Pinned.reservedNames.contains w = true := by decide
  simp only [pyKeyword, List.contains_iff_mem] at h
  exact key s h

theorem reserved_suffix_not_keyword (s : String) (h : reserved s = true) : pyKeyword (s ++ "_") = false := by
  have key : ∀ w ∈ Pinned.reservedNames, Pinned.pyKeywords.contains (w ++ "_") = false := by decide
  simp only [reserved, List.contains_iff_mem] at h
  exact key s h

theorem segKey_not_keyword (s : String) : pyKeyword (segKey s) = false := by
  unfold segKey
  by_cases hr : reserved s = true
  · simp only [hr, if_true]; exact reserved_suffix_not_keyword s hr
  · simp only [hr, Bool.false_eq_true, if_false]
    cases hk : pyKeyword s
    · rfl
    · exact absurd (pyKeyword_reserved s hk) hr

theorem resolve_of_getField (sch : Schema) :
    ∀ (segs : List String) (m : MsgDef) (pre : List Link) (last : Link),
      getField sch m segs = .ok (pre, last) →
      resolveAttrs sch m (segs.map segKey) = some ((pre ++ [last]).map (·.field))
  | [], m, pre, last, h => by simp [getField] at h
  | [l], m, pre, last, h => by
    simp only [getField] at h
    split at h
    · simp at h
    · rename_i f hf
      simp only [Except.ok.injEq, Prod.mk.injEq] at h
      obtain ⟨rfl, rfl⟩ := h
      simp only [List.map_cons, List.map_nil, resolveAttrs, attrResolves, hf]
      rfl
  | a :: b :: rest, m, pre, last, h => by
    simp only [getField] at h
    split at h
    · simp at h
    · rename_i f hf
      split at h
      · simp at h
      · split at h
        · rename_i full hk
          split at h
          · simp at h
          · rename_i sub hsub
            split at h
            · simp at h
            · rename_i pre' last' hrec
              simp only [Except.ok.injEq, Prod.mk.injEq] at h
              obtain ⟨rfl, rfl⟩ := h
              have ih := resolve_of_getField sch (b :: rest) sub pre' last' hrec
              simp only [List.map_cons] at ih ⊢
              simp only [resolveAttrs, attrResolves, hf, hk, hsub, ih]
              rfl
        · simp at h
end Aux

/-- **Every rendered `request.<key>` is a legal attribute path that resolves to the very fields
`get_field` found** — for EVERY signature path `get_field` accepts, reserved words and keywords in
any position included (since the `fix:` commit a0434d5 every reserved segment is suffixed; before it
this needed "no reserved word before the last segment", DESIGN §9-F2). -/
theorem key_attr_resolves (sch : Schema) (input : MsgDef) (segs : List String) (pre : List Link) (last : Link)
    (h : getField sch input segs = .ok (pre, last)) :
    (∀ a ∈ (⟨segs, pre, last⟩ : Entry).keySegs, pyKeyword a = false) ∧
    resolveAttrs sch input (⟨segs, pre, last⟩ : Entry).keySegs = some ((⟨segs, pre, last⟩ : Entry).links.map (·.field)) := by
  refine ⟨?_, resolve_of_getField sch segs input pre last h⟩
  intro a ha
  obtain ⟨s, _, rfl⟩ := List.mem_map.mp ha
  exact segKey_not_keyword s

/-- hence the emitted module never fails on a keyword used as an attribute name: `emitCheck` can only
object to a duplicated parameter name. -/
theorem emit_never_keyword_attr (es : List Entry) (k : String) : emitCheck es ≠ .error (.keywordAttr k) := by
  unfold emitCheck
  split
  · simp
  · split
    · rename_i e he
      have := List.find?_some he
      simp only [List.any_eq_true] at this
      obtain ⟨a, ha, hk⟩ := this
      obtain ⟨s, _, rfl⟩ := List.mem_map.mp ha
      rw [segKey_not_keyword s] at hk; cases hk
    · simp

/-! ## Concrete inputs: non-vacuity and counterexamples -/

def exInner : MsgDef := ⟨"acme.Inner", true,
  [⟨"title", 4, .prim, false, false, false⟩, ⟨"marks", 7, .prim, true, false, false⟩,
   ⟨"class", 1, .prim, false, false, false⟩, ⟨"tags", 10, .prim, true, false, false⟩]⟩
def exBook : MsgDef := ⟨"acme.Book", true,
  [⟨"name", 2, .prim, false, false, false⟩, ⟨"inner", 5, .message "acme.Inner", false, false, false⟩,
   ⟨"type", 1, .message "acme.Inner", false, false, false⟩, ⟨"import", 9, .message "acme.Inner", false, false, false⟩]⟩
def exReq : MsgDef := ⟨"acme.Req", true,
  [⟨"parent", 1, .prim, false, false, false⟩, ⟨"book", 2, .message "acme.Book", false, false, false⟩,
   ⟨"class", 3, .prim, false, false, false⟩, ⟨"tags", 4, .prim, true, false, false⟩,
   ⟨"labels", 5, .message "acme.Req.LabelsEntry", true, true, false⟩,
   ⟨"import", 6, .message "acme.Inner", false, false, false⟩, ⟨"inner", 7, .message "acme.Inner", false, false, false⟩]⟩
/-- a dependency-package (pb2) request with a reserved word as a field name -/
def exDep : MsgDef := ⟨"google.api.ResourceDescriptor", false,
  [⟨"type", 1, .prim, false, false, false⟩, ⟨"pattern", 2, .prim, true, false, false⟩]⟩
def exSchema : Schema := [exReq, exBook, exInner, exDep]

/-- declared order, first occurrence, terminal reserved word suffixed, dotted path resolved -/
example : (match fieldsMappingP exSchema false exReq [["parent"], ["book", "inner", "title"], ["class"], ["parent"], ["book", "type", "class"]] with
    | .ok es => es.map (fun e => (e.key, e.param, e.path))
    | .error _ => []) =
    [("parent", "parent", [1]), ("book.inner.title", "title", [2, 5, 4]), ("class_", "class_", [3]),
     ("book.type_.class_", "class_", [2, 1, 1])] := by decide

/-- **regression for §9-F2** (`fix:` a0434d5): a keyword in a non-terminal position. The key is now
rendered `import_.title`, the emitted `def` is accepted and the path resolves to the fields found. -/
theorem keyword_segment_regression :
    (match fieldsMappingP exSchema false exReq [["import", "title"]] with
     | .ok [e] => (e.key, decide (emitCheck [e] = .ok ()), resolveAttrs exSchema exReq e.keySegs == some (e.links.map (·.field)))
     | _ => ("", false, false)) = ("import_.title", true, true) := by decide

/-- a reserved word that is not a keyword (`type`) is suffixed in the same way -/
example : (match fieldsMappingP exSchema false exReq [["book", "type", "title"]] with
    | .ok [e] => (e.key, decide (emitCheck [e] = .ok ()))
    | _ => ("", false)) = ("book.type_.title", true) := by decide

/-- two keys, one parameter name: `tags` and `inner.tags` -/
theorem duplicate_param_counterexample :
    (match fieldsMappingP exSchema false exReq [["tags"], ["inner", "tags"]] with
     | .ok es => (es.map Entry.param, emitCheck es)
     | .error _ => ([], .ok ())) = (["tags", "tags"], .error (.duplicateParam "tags")) := by decide

/-- dependency-package request with a reserved field name: `fields` is keyed `type`, `get_field`
asks for `type_` — the generator aborts with KeyError -/
theorem cross_reserved_counterexample :
    fieldsMappingP exSchema true exDep [["type"]] = .error (.keyError "type_") := by decide

/-- slots of `parent`, `book`, `book.inner.marks` (repeated), `tags` (repeated), `labels` (map) -/
def sParent : Slot := ⟨[1], false, false, false, some 1, false, false, false⟩
def sBook : Slot := ⟨[2], false, false, false, some 2, false, false, false⟩
def sMarks : Slot := ⟨[2, 5, 7], true, false, false, none, false, false, false⟩
def sTitle : Slot := ⟨[2, 5, 4], false, false, false, some 4, false, false, false⟩
def sTags : Slot := ⟨[4], true, false, false, some 4, false, false, false⟩
def sLabels : Slot := ⟨[5], true, true, false, some 5, false, false, false⟩

/-- the hypotheses of the equivalence theorems hold on a non-trivial argument list (dotted key,
list, map, a falsy list for a top-level key, an argument left out) and the result is what one expects -/
def exArgs : List Bound := [(sParent, some (.atom "p")), (sTitle, some (.atom "T")), (sMarks, some (.list ["u"])),
                            (sTags, some (.list [])), (sLabels, some (.map [("k", "v")])), (sBook, none)]
example :
    (exArgs.all good = true) ∧ call true false .none exArgs = call true true .none exArgs ∧
    call true true .none exArgs = .ok (.mcons 1 (.atom "p") (.mcons 2 (.mcons 5 (.mcons 4 (.atom "T") (.mcons 7 (.list ["u"]) .mnil)) .mnil)
      (.mcons 5 (.map [("k", "v")]) .mnil))) := by decide

example : PrefixFree [(sParent, some (.atom "p")), (sTitle, some (.atom "T")), (sMarks, some (.list ["u"])), (sTags, some (.list []))] := by
  simp [PrefixFree, sParent, sTitle, sMarks, sTags, incomp]

/-- mixed call: request + a FALSY flattened argument is still rejected, nothing is sent -/
example : call true false (.inst .mnil) [(sParent, some (.atom ""))] = .error .valueError ∧
    sent true true (.dict .mnil) [(sTags, some (.list []))] = [] := by decide

/-- **dependency-package request + dotted key** (`SetIamPolicyRequest`, "resource,policy.version"):
the sync client assigns along the path, the asyncio client passes the terminal name to the pb2
constructor — which has no such top-level field, even when the argument is `None`. -/
def exCross : List Bound := [(⟨[1], false, false, false, some 1, true, false, false⟩, some (.atom "r")), (⟨[2, 1], false, false, false, none, true, false, false⟩, none)]
theorem async_cross_dotted_counterexample :
    call false false .none exCross = .ok (.mcons 1 (.atom "r") .mnil) ∧
    call false true .none exCross = .error .ctorUnknownField := by decide

/-- **overlapping keys** (`book` and `book.inner.marks` given together): sync assigns twice, asyncio
assigns the message and then EXTENDS the list it already carries. -/
def exOverlap : List Bound := [(sBook, some (.mcons 5 (.mcons 7 (.list ["u"]) .mnil) .mnil)), (sMarks, some (.list ["u"]))]
theorem overlap_counterexample :
    call true false .none exOverlap = .ok (.mcons 2 (.mcons 5 (.mcons 7 (.list ["u"]) .mnil) .mnil) .mnil) ∧
    call true true .none exOverlap = .ok (.mcons 2 (.mcons 5 (.mcons 7 (.list ["u", "u"]) .mnil) .mnil) .mnil) := by decide

/-- **an empty list for a dotted repeated key**: the sync assignment makes `book` and `book.inner`
present, the asyncio client skips it. -/
theorem falsy_dotted_counterexample :
    call true false .none [(sMarks, some (.list []))] = .ok (.mcons 2 (.mcons 5 .mnil .mnil) .mnil) ∧
    call true true .none [(sMarks, some (.list []))] = .ok .mnil := by decide

/-- slots of `mask.paths` (repeated, owner `google.protobuf.FieldMask` — a raw protobuf class) and of
`op.error` (singular message, owner `google.longrunning.Operation`) inside a same-package request -/
def sMaskPaths : Slot := ⟨[6, 1], true, false, false, none, true, false, false⟩
def sOpError : Slot := ⟨[7, 4], false, false, false, none, true, true, false⟩
def sStatusCode : Slot := ⟨[8, 1], false, false, false, none, true, false, false⟩

/-- **regression for `fix:` 9d33fc0 — a repeated field of a raw sub-message** (`update_mask.paths`,
`status.details`, `policy.bindings`): the sync client used to execute `request.mask.paths = paths`
(refused by protobuf); both clients now extend and send the same request. -/
theorem raw_owner_repeated_regression :
    call true false .none [(sMaskPaths, some (.list ["a", "b"]))] =
      .ok (.mcons 6 (.mcons 1 (.list ["a", "b"]) .mnil) .mnil) ∧
    call true true .none [(sMaskPaths, some (.list ["a", "b"]))] =
      .ok (.mcons 6 (.mcons 1 (.list ["a", "b"]) .mnil) .mnil) ∧
    call true false .none [(sMaskPaths, some (.list []))] = call true true .none [(sMaskPaths, some (.list []))] := by decide

/-- **a message field of a raw sub-message** (`op.error`): `request.op.error = error` is refused by
protobuf in BOTH clients; the request call with the same field set goes through. -/
theorem raw_owner_message_counterexample :
    call true false .none [(sOpError, some (.mcons 1 (.atom "3") .mnil))] = .error .attributeError ∧
    call true true .none [(sOpError, some (.mcons 1 (.atom "3") .mnil))] = .error .attributeError ∧
    call true true (.inst (.mcons 7 (.mcons 4 (.mcons 1 (.atom "3") .mnil) .mnil) .mnil)) [(sOpError, none)] =
      .ok (.mcons 7 (.mcons 4 (.mcons 1 (.atom "3") .mnil) .mnil) .mnil) := by decide

/-- a SCALAR of a raw sub-message (`status.code`) is fine in both clients: the hypotheses of
`sync_async_agree` / `kwargs_equiv_request` are met by a key with a raw owner -/
example : [(sStatusCode, some (.atom "5"))].any (rawAssignFails false) = false ∧
    call true false .none [(sStatusCode, some (.atom "5"))] = .ok (.mcons 8 (.mcons 1 (.atom "5") .mnil) .mnil) ∧
    call true true .none [(sStatusCode, some (.atom "5"))] = .ok (.mcons 8 (.mcons 1 (.atom "5") .mnil) .mnil) := by decide

/-- a client-streaming method offers no flattened parameter whatever its signatures say -/
example : (match fieldsMappingP exSchema false exReq [["parent"], ["tags"]] with
    | .ok es => (paramListOf true es, paramListOf false es)
    | .error _ => ([], [])) =
    (["self", "requests", "retry", "timeout", "metadata"],
     ["self", "request", "parent", "tags", "retry", "timeout", "metadata"]) := by decide

/-- **regression for `fix:` 9d33fc0 — two repeated keys of a dependency-package request**
(`FileDescriptorProto`: "dependency,public_dependency"): the second pass of the sync macro no longer
shifts the second `if` (client.py used to raise IndentationError). -/
theorem cross_two_repeated_regression (samePkg : Bool) (es : List Entry) : emitIndentOk samePkg es = true := rfl

/-- **every flattened key is applied by exactly one pass of the sync macro**, whatever the package
situation and the owner: the guard of the extend/update pass is the negation of the guard of the
assignment pass.  (A repeated key of a request in a DIFFERENT package whose types are nevertheless
proto-plus — a sub-package of the API, or a `proto-plus-deps` package — is taken by the second pass
through `<different package>`, not through the owner test.) -/
theorem sync_passes_partition (samePkg : Bool) (b : Bound) :
    (b.1.repeated && (!samePkg || b.1.rawOwner)) = !(!b.1.repeated || (samePkg && !b.1.rawOwner)) := by
  cases b.1.repeated <;> cases samePkg <;> cases b.1.rawOwner <;> rfl

/-- sub-package request (`acme.lib.v1.common.Sub0Request`, key `tags`: repeated, proto-plus owner,
package differs from the service's): both clients send the list -/
example : call false false .none [(⟨[2], true, false, false, some 2, false, false, false⟩, some (.list ["a", "b"]))] =
      .ok (.mcons 2 (.list ["a", "b"]) .mnil) ∧
    call false true .none [(⟨[2], true, false, false, some 2, false, false, false⟩, some (.list ["a", "b"]))] =
      .ok (.mcons 2 (.list ["a", "b"]) .mnil) := by decide

/-! ## 5. Packages and layouts (second deepening round)

The templates branch on two facts only: `method.input.ident.package != method.ident.package` and
`field.meta.address.is_proto_plus_type`.  Both are functions of the packages of the declaring files
(`crossPkgOf`, `isProtoPlusType`), so the theorems of §2/§3 — stated for an arbitrary `samePkg` and arbitrary
owner flags — cover every layout; the theorems below say which point of the model each layout is. -/

section Aux
theorem dot_length : (".":String).length = 1 := by decide

theorem append_sub_ne (p sub : String) : p ++ "." ++ sub ≠ p := by
  have : (p ++ "." ++ sub).length ≠ p.length := by
    rw [String.length_append, String.length_append, dot_length]; omega
  intro h; rw [h] at this; exact this rfl
end Aux

/-- `is_proto_plus_type`, exactly: the API's proto package is a STRING prefix of the package, or the package is
listed in `proto-plus-deps`. -/
theorem isProtoPlusType_iff (n : Naming) (pkg : String) :
    isProtoPlusType n pkg = true ↔ (n.protoPackage.toList <+: pkg.toList ∨ pkg ∈ n.protoPlusDeps) := by
  simp [isProtoPlusType, List.isPrefixOf_iff_prefix]

/-- the API's own package holds proto-plus types … -/
theorem api_package_is_proto_plus (n : Naming) : isProtoPlusType n n.protoPackage = true := by
  simp [isProtoPlusType, List.isPrefixOf_iff_prefix]

/-- … and so does **every sub-package of the API, at any depth** (`sub` may itself be dotted). -/
theorem sub_package_is_proto_plus (n : Naming) (sub : String) :
    isProtoPlusType n (n.protoPackage ++ "." ++ sub) = true := by
  simp [isProtoPlusType, String.toList_append, List.isPrefixOf_iff_prefix]

/-- a `proto-plus-deps` package holds proto-plus types whatever it is called -/
theorem proto_plus_dep_is_proto_plus (n : Naming) (pkg : String) (h : pkg ∈ n.protoPlusDeps) :
    isProtoPlusType n pkg = true := by
  simp [isProtoPlusType, h]

/-- the prefix test is made on the dotted STRING, not on the package tuple: a sibling package whose last
segment merely begins like the API's (`acme.lib.v1beta` next to `acme.lib.v1`) counts as proto-plus although it
is not part of the API (run on the real `Address.is_proto_plus_type` by the harness, T2 `c05.packages`). -/
theorem proto_plus_string_prefix_counterexample :
    isProtoPlusType ⟨"acme.lib.v1", []⟩ "acme.lib.v1beta" = true ∧
    isProtoPlusType ⟨"acme.lib.v1", []⟩ "acme.lib" = false ∧
    isProtoPlusType ⟨"acme.lib.v1", ["google.iam.v1"]⟩ "google.iam.v1" = true ∧
    isProtoPlusType ⟨"acme.lib.v1", ["google.iam.v1"]⟩ "google.rpc" = false := by decide

/-- a request declared in the service's own package — wherever that is: the API root or a (nested)
sub-package — is a same-package request -/
theorem same_package_not_cross (p : String) : crossPkgOf p p = false := by simp [crossPkgOf]

/-- **service in a package, request in a sub-package of it** (service `acme.lib.v1`, request
`acme.lib.v1.common`; service `acme.lib.v1.admin`, request `acme.lib.v1.admin.deep`): the
"different package" branch, although the request is a proto-plus type -/
theorem sub_package_request_is_cross (svc sub : String) : crossPkgOf (svc ++ "." ++ sub) svc = true := by
  simp [crossPkgOf, append_sub_ne]

/-- **service in a sub-package, request in the package above** (service `acme.lib.v1.admin`, request
`acme.lib.v1`): the "different package" branch as well -/
theorem parent_package_request_is_cross (inp sub : String) : crossPkgOf inp (inp ++ "." ++ sub) = true := by
  have := append_sub_ne inp sub
  simp only [crossPkgOf, bne_iff_ne, ne_eq]
  exact fun h => this h.symm

theorem callOf_same_package (p : String) (asy : Bool) (req : ReqArg) (bs : List Bound) :
    callOf p p asy req bs = call true asy req bs := by
  simp [callOf, same_package_not_cross]

theorem callOf_sub_package (svc sub : String) (asy : Bool) (req : ReqArg) (bs : List Bound) :
    callOf svc (svc ++ "." ++ sub) asy req bs = call false asy req bs := by
  simp [callOf, sub_package_request_is_cross]

/-- **kwargs call ≡ request call in EVERY package layout** (service and request each in the root package, a
sub-package, a nested or sibling sub-package, or the request in a dependency package), both clients: under
the hypotheses of `kwargs_equiv_request` when the two packages coincide and of `kwargs_equiv_request_cross`
when they differ. -/
theorem kwargs_equiv_request_any_layout (svcPkg inputPkg : String) (asy : Bool) (bs : List Bound)
    (hg : ∀ b ∈ bs, good b = true) (hpf : PrefixFree bs) (hmar : bs.any marshalFails = false)
    (hsame : inputPkg = svcPkg → bs.any (rawAssignFails asy) = false)
    (hcross : inputPkg ≠ svcPkg → asy = true → ∀ b ∈ bs, ctorOk b = true) :
    callOf svcPkg inputPkg asy .none bs = .ok (setAll bs .mnil) ∧
    callOf svcPkg inputPkg asy (.inst (setAll bs .mnil)) (bs.map fun b => (b.1, none)) = .ok (setAll bs .mnil) := by
  by_cases h : inputPkg = svcPkg
  · subst h
    rw [callOf_same_package, callOf_same_package]
    have := kwargs_equiv_request asy bs hg hpf (hsame rfl) hmar
    exact ⟨this.1, this.2.1⟩
  · have hx : crossPkgOf inputPkg svcPkg = true := by simp [crossPkgOf, h]
    simp only [callOf, hx, Bool.not_true]
    exact kwargs_equiv_request_cross asy bs hg hpf (hcross h) (fun _ => hmar)

/-- **sync ≡ asyncio in every package layout** -/
theorem sync_async_agree_any_layout (svcPkg inputPkg : String) (req : ReqArg) (bs : List Bound)
    (hg : ∀ b ∈ bs, good b = true) (hpf : PrefixFree bs)
    (hsame : inputPkg = svcPkg → bs.any (rawAssignFails false) = false)
    (hcross : inputPkg ≠ svcPkg → (∀ b ∈ bs, ctorOk b = true) ∧ bs.any marshalFails = false) :
    callOf svcPkg inputPkg false req bs = callOf svcPkg inputPkg true req bs := by
  by_cases h : inputPkg = svcPkg
  · subst h
    rw [callOf_same_package, callOf_same_package]
    exact sync_async_agree true req bs hg hpf (by simp) (fun _ => hsame rfl) (by simp)
  · have hx : crossPkgOf inputPkg svcPkg = true := by simp [crossPkgOf, h]
    simp only [callOf, hx, Bool.not_true]
    exact sync_async_agree false req bs hg hpf (fun _ => (hcross h).1) (by simp) (fun _ => (hcross h).2)

/-- **request + any flattened argument → ValueError, nothing sent, in every package layout** -/
theorem mixed_call_rejected_any_layout (svcPkg inputPkg : String) (asy : Bool) (req : ReqArg) (bs : List Bound)
    (hr : req.isGiven = true) (hk : ∃ b ∈ bs, b.2 ≠ none) :
    callOf svcPkg inputPkg asy req bs = .error .valueError :=
  mixed_call_rejected _ asy req bs hr hk

/-- non-vacuity: a request of `acme.lib.v1.admin.deep` called through a service of `acme.lib.v1.admin`
(dotted key, list, map, a key left out) -/
example :
    let bs : List Bound := [(sParent, some (.atom "p")), (sTags, some (.list ["a"])), (sLabels, some (.map [("k", "v")])), (sBook, none)]
    (bs.all good = true) ∧ bs.any marshalFails = false ∧ (bs.all ctorOk = true) ∧
    callOf "acme.lib.v1.admin" "acme.lib.v1.admin.deep" true .none bs =
      .ok (.mcons 1 (.atom "p") (.mcons 4 (.list ["a"]) (.mcons 5 (.map [("k", "v")]) .mnil))) ∧
    callOf "acme.lib.v1.admin" "acme.lib.v1.admin.deep" false .none bs =
      callOf "acme.lib.v1.admin" "acme.lib.v1.admin" false .none bs := by decide

/-- **in the "different package" branch the sync macro never ASSIGNS a repeated key** (first pass skips it,
second pass extends / updates it when non-empty) — whatever the owner: also for the proto-plus request of a
sub-package, where assignment would have worked (seeded change seed4_C05 broke exactly this complementarity). -/
theorem cross_repeated_second_pass_only (b : Bound) (r : Val) (h : b.1.repeated = true) :
    syncLoop1 false r b = r ∧
    syncLoop2 false r b = (match b.2 with
      | none => r
      | some v => if truthy (some v) then
          (if b.1.isMap then modifyAt b.1.path (updateOp v) r else modifyAt b.1.path (extendOp v) r) else r) := by
  refine ⟨by simp [syncLoop1, h], ?_⟩
  simp only [syncLoop2, h, Bool.not_false, Bool.true_or, Bool.and_self, if_true]
  cases b.2 <;> rfl

/-! ### the asyncio constructor call, characterised completely -/

/-- the key as the constructor sees it: the TOP-LEVEL field named like the terminal field -/
def retarget (b : Bound) : Bound :=
  match b.1.ctor with
  | some n => ({ b.1 with path := [n] }, b.2)
  | none => b

/-- **The asyncio client of a cross-package request** (`Request(f=f, …)`) raises ValueError iff some key's
terminal name is not a top-level field of the request — given or not —, and otherwise sets, for every given key,
the top-level field of that NAME: the right field when the key is top-level (`apply_async_cross_eq_set`), a
different one when the key is dotted and the request happens to have a top-level field of the same name
(`async_cross_misroute_counterexample`). -/
theorem apply_async_cross_char (bs : List Bound) (r : Val) :
    applyAsyncCross bs r =
      if bs.all (fun b => b.1.ctor.isSome) then .ok (setAll (bs.map retarget) r) else .error .ctorUnknownField := by
  induction bs generalizing r with
  | nil => rfl
  | cons b bs ih =>
    simp only [applyAsyncCross, ctorStep, List.all_cons, List.map_cons, setAll, List.foldl_cons]
    cases hc : b.1.ctor with
    | none => simp
    | some n =>
      have hrt : retarget b = ({ b.1 with path := [n] }, b.2) := by simp [retarget, hc]
      cases hb2 : b.2 with
      | none =>
        simp only [Option.isSome_some, Bool.true_and]
        rw [ih r]
        simp [setAll, hrt, refStep, hb2]
      | some v =>
        simp only [Option.isSome_some, Bool.true_and]
        rw [ih _]
        simp [setAll, hrt, refStep, hb2]

/-- **cross-package request + dotted key whose terminal name is ALSO a top-level field** (request
`acme.lib.v1.common.Sub0Request{parent, part, title}` of a service in `acme.lib.v1`, signature
"parent,part.title"): the sync client sets `part.title`, the asyncio client silently sets the top-level
`title` — no exception, a different request on the wire. -/
def sPartTitle : Slot := ⟨[2, 2], false, false, false, some 7, false, false, false⟩
theorem async_cross_misroute_counterexample :
    call false false .none [(sPartTitle, some (.atom "T"))] = .ok (.mcons 2 (.mcons 2 (.atom "T") .mnil) .mnil) ∧
    call false true .none [(sPartTitle, some (.atom "T"))] = .ok (.mcons 7 (.atom "T") .mnil) ∧
    callOf "acme.lib.v1" "acme.lib.v1.common" true .none [(sPartTitle, some (.atom "T"))] = .ok (.mcons 7 (.atom "T") .mnil) := by
  decide

/-! ### a key INTO a marshalled well-known type -/

/-- `ttl.seconds` (singular, owner `google.protobuf.Duration`) and `lv.values` (repeated, owner
`google.protobuf.ListValue`) in a same-package request -/
def sTtlSeconds : Slot := ⟨[9, 1], false, false, false, none, true, false, true⟩
def sLvValues : Slot := ⟨[10, 1], true, false, false, none, true, false, true⟩

/-- **a signature path into a well-known type that proto-plus marshals** (`ttl.seconds`, `wrapped.value`,
`lv.values`): `request.ttl` is a python value, `request.ttl.seconds = seconds` raises AttributeError — in BOTH
clients of a same-package request and for every value, while the request call with the field set goes through;
an EMPTY list for the repeated key is not applied at all (no error). -/
theorem marshalled_owner_counterexample :
    call true false .none [(sTtlSeconds, some (.atom "5"))] = .error .attributeError ∧
    call true true .none [(sTtlSeconds, some (.atom "5"))] = .error .attributeError ∧
    call true false .none [(sLvValues, some (.list ["1"]))] = .error .attributeError ∧
    call true true .none [(sLvValues, some (.list []))] = .ok .mnil ∧
    call true true (.inst (.mcons 9 (.atom "5s") .mnil)) [(sTtlSeconds, none)] = .ok (.mcons 9 (.atom "5s") .mnil) := by
  decide

/-- a top-level key never runs into a marshalled value: the flag needs a dotted path whose last-but-one field
sits in a proto-plus message -/
theorem marshal_owner_needs_dotted (e : Entry) (h : e.pre = []) : e.marshalOwner = false := by
  simp [Entry.marshalOwner, h]

/-- … and for a request all of whose messages are raw protobuf classes (a dependency-package request) no key
does: `request.timeout.seconds = seconds` assigns to the raw Duration -/
theorem marshal_owner_needs_proto_plus_parent (e : Entry) (h : ∀ l ∈ e.pre, l.ownerPP = false) :
    e.marshalOwner = false := by
  unfold Entry.marshalOwner
  cases hl : e.pre.getLast? with
  | none => simp
  | some l => simp [h l (List.mem_of_getLast? hl)]

/-- the mapping of a path into a Duration: `ttl.seconds` resolves (the generator emits the method), the slot is
flagged -/
example : (match fieldsMappingP
      [⟨"acme.R", true, [⟨"ttl", 9, .message "google.protobuf.Duration", false, false, false⟩]⟩,
       ⟨"google.protobuf.Duration", false, [⟨"seconds", 1, .prim, false, false, false⟩]⟩]
      false ⟨"acme.R", true, [⟨"ttl", 9, .message "google.protobuf.Duration", false, false, false⟩]⟩ [["ttl", "seconds"]] with
    | .ok [e] => (e.key, e.param, e.marshalOwner)
    | _ => ("", "", false)) = ("ttl.seconds", "seconds", true) := by decide

/-! ### what a different-package request offers; where the owner flags come from -/

section Aux
theorem odInsert_mem (d : List Entry) (e x : Entry) (h : x ∈ odInsert d e) : x ∈ d ∨ x = e := by
  unfold odInsert at h
  split at h
  · obtain ⟨y, hy, hxy⟩ := List.mem_map.mp h
    by_cases hk : (y.key == e.key) = true
    · right; simpa [hk] using hxy.symm
    · left
      have : x = y := by simpa [hk] using hxy.symm
      exact this ▸ hy
  · rcases List.mem_append.mp h with h | h
    · exact Or.inl h
    · exact Or.inr (by simpa using h)

theorem odBuild_mem_gen (es d : List Entry) (x : Entry) (h : x ∈ es.foldl odInsert d) : x ∈ d ∨ x ∈ es := by
  induction es generalizing d with
  | nil => exact Or.inl h
  | cons e es ih =>
    rcases ih (odInsert d e) h with h | h
    · rcases odInsert_mem d e x h with h | h
      · exact Or.inl h
      · exact Or.inr (by simp [h])
    · exact Or.inr (by simp [h])

theorem yielded_cross_primitive (sch : Schema) (input : MsgDef) (paths : List (List String)) (es : List Entry)
    (h : yielded sch true input paths = .ok es) : ∀ e ∈ es, e.field.isPrimitive = true := by
  induction paths generalizing es with
  | nil => simp [yielded] at h; subst h; simp
  | cons segs more ih =>
    simp only [yielded] at h
    cases hg : getField sch input segs with
    | error e => simp [hg] at h
    | ok pl =>
      obtain ⟨pre, last⟩ := pl
      simp only [hg] at h
      cases hy : yielded sch true input more with
      | error e => simp [hy] at h
      | ok es' =>
        simp only [hy, Bool.true_and] at h
        by_cases hp : last.field.isPrimitive = true
        · simp [hp] at h
          subst h
          intro e he
          rcases List.mem_cons.mp he with rfl | he
          · exact hp
          · exact ih es' hy e he
        · simp [hp] at h
          subst h
          exact ih es' hy
end Aux

/-- **a request of a DIFFERENT package offers only primitive fields** — whichever layout makes it different
(dependency package, sub-package of the API, the package above the service's): message, enum, map and
`struct_pb2.Value` fields named in a signature are dropped, every parameter that IS offered is a scalar or a
repeated scalar (so the `Value` special case and protobuf's message-assignment rule never apply there). -/
theorem cross_package_offers_only_primitive (sch : Schema) (input : MsgDef) (paths : List (List String))
    (es : List Entry) (h : fieldsMappingP sch true input paths = .ok es) :
    ∀ e ∈ es, e.field.isPrimitive = true ∧ (e.slot input).isMsg = false := by
  unfold fieldsMappingP at h
  cases hy : yielded sch true input paths with
  | error e => simp [hy] at h
  | ok ys =>
    simp only [hy, Except.ok.injEq] at h
    subst h
    intro e he
    have hm : e ∈ ys := by
      rcases odBuild_mem_gen ys [] e he with h | h
      · simp at h
      · exact h
    have hp := yielded_cross_primitive sch input paths ys hy e hm
    refine ⟨hp, ?_⟩
    simp only [Entry.slot, Field.isSingularMessage]
    have : e.field.kind = .prim := by simpa [Field.isPrimitive] using hp
    simp [this]

/-- the same, stated for a layout: the request declared in a sub-package below the service's package -/
theorem sub_package_request_offers_only_primitive (n : Naming) (svc sub : String) (sch : List PMsg) (input : PMsg)
    (sigs : List String) (es : List Entry) (hp : input.pkg = svc ++ "." ++ sub)
    (h : mappingOf n svc sch input sigs = .ok es) : ∀ e ∈ es, e.field.isPrimitive = true := by
  unfold mappingOf fieldsMapping at h
  rw [hp, sub_package_request_is_cross] at h
  exact fun e he => (cross_package_offers_only_primitive _ _ _ es h e he).1


section Aux
theorem getField_links_from (sch : Schema) (segs : List String) : ∀ (m : MsgDef) (pre : List Link) (last : Link),
    getField sch m segs = .ok (pre, last) →
    ∀ l ∈ pre ++ [last], ∃ d, (d = m ∨ d ∈ sch) ∧ d.full = l.owner ∧ d.protoPlus = l.ownerPP := by
  induction segs with
  | nil => intro m pre last h; simp [getField] at h
  | cons seg rest ih =>
    intro m pre last h
    cases rest with
    | nil =>
      simp only [getField] at h
      cases hl : m.lookup (segKey seg) with
      | none => simp [hl] at h
      | some f =>
        simp only [hl, Except.ok.injEq, Prod.mk.injEq] at h
        obtain ⟨rfl, rfl⟩ := h
        intro l hl'
        simp at hl'
        subst hl'
        exact ⟨m, Or.inl rfl, rfl, rfl⟩
    | cons seg' rest' =>
      simp only [getField] at h
      cases hl : m.lookup (segKey seg) with
      | none => simp [hl] at h
      | some f =>
        simp only [hl] at h
        by_cases hr : f.repeated = true
        · simp [hr] at h
        · simp only [hr, Bool.false_eq_true, if_false] at h
          cases hk : f.kind with
          | prim => simp [hk] at h
          | enum => simp [hk] at h
          | message full =>
            simp only [hk] at h
            cases hf : findMsg sch full with
            | none => simp [hf] at h
            | some sub =>
              simp only [hf] at h
              cases hg : getField sch sub (seg' :: rest') with
              | error e => simp [hg] at h
              | ok pl =>
                obtain ⟨pre', last'⟩ := pl
                simp only [hg, Except.ok.injEq, Prod.mk.injEq] at h
                obtain ⟨rfl, rfl⟩ := h
                have hsub : sub ∈ sch := List.mem_of_find?_eq_some hf
                intro l hl'
                simp only [List.cons_append, List.mem_cons] at hl'
                rcases hl' with rfl | hl'
                · exact ⟨m, Or.inl rfl, rfl, rfl⟩
                · obtain ⟨d, hd, h1, h2⟩ := ih sub pre' last' hg l hl'
                  rcases hd with rfl | hd
                  · exact ⟨d, Or.inr hsub, h1, h2⟩
                  · exact ⟨d, Or.inr hd, h1, h2⟩
end Aux

/-- **the owner flag of every link is derived from a package**: in the schema built from the packages of the
declaring files (`PMsg.toMsgDef`), every message `get_field` walks through is a message of the schema (or the
request itself), and its proto-plus flag is `isProtoPlusType` of the package it is declared in. -/
theorem derived_owner_flags (n : Naming) (ps : List PMsg) (input : PMsg) (segs : List String)
    (pre : List Link) (last : Link)
    (h : getField (ps.map (PMsg.toMsgDef n)) (input.toMsgDef n) segs = .ok (pre, last)) :
    ∀ l ∈ pre ++ [last], ∃ pm, (pm = input ∨ pm ∈ ps) ∧ pm.full = l.owner ∧ l.ownerPP = isProtoPlusType n pm.pkg := by
  intro l hl
  obtain ⟨d, hd, h1, h2⟩ := getField_links_from _ segs _ pre last h l hl
  rcases hd with rfl | hd
  · exact ⟨input, Or.inl rfl, h1, h2.symm⟩
  · obtain ⟨pm, hpm, rfl⟩ := List.mem_map.mp hd
    exact ⟨pm, Or.inr hpm, h1, h2.symm⟩

/-- hence **a key that ends in a message declared in the API's package or in any of its sub-packages never has a
raw owner** (message names are unique in a descriptor pool: `hu`), whatever the layout of service and request:
its repeated fields are assigned by the first pass of a same-package sync client and its message fields may be
assigned. -/
theorem api_message_owner_not_raw (n : Naming) (ps : List PMsg) (input : PMsg) (segs : List String)
    (pre : List Link) (last : Link)
    (h : getField (ps.map (PMsg.toMsgDef n)) (input.toMsgDef n) segs = .ok (pre, last))
    (hu : ∀ pm, (pm = input ∨ pm ∈ ps) → pm.full = last.owner →
      pm.pkg = n.protoPackage ∨ ∃ sub, pm.pkg = n.protoPackage ++ "." ++ sub) :
    (Entry.slot (input.toMsgDef n) ⟨segs, pre, last⟩).rawOwner = false := by
  obtain ⟨pm, hpm, h1, h2⟩ := derived_owner_flags n ps input segs pre last h last (by simp)
  have : last.ownerPP = true := by
    rw [h2]
    rcases hu pm hpm h1 with hp | ⟨sub, hp⟩
    · rw [hp]; exact api_package_is_proto_plus n
    · rw [hp]; exact sub_package_is_proto_plus n sub
  simp [Entry.slot, this]

/-- non-vacuity: `part.marks` of a request in `acme.lib.v1.admin` whose `part` is an `acme.lib.v1.common.Part` -/
example :
    let n : Naming := ⟨"acme.lib.v1", []⟩
    let part : PMsg := ⟨"acme.lib.v1.common", "acme.lib.v1.common.Part", [⟨"marks", 1, .prim, true, false, false⟩]⟩
    let rq : PMsg := ⟨"acme.lib.v1.admin", "acme.lib.v1.admin.Req", [⟨"part", 2, .message "acme.lib.v1.common.Part", false, false, false⟩]⟩
    (match getField ([part, rq].map (PMsg.toMsgDef n)) (rq.toMsgDef n) ["part", "marks"] with
     | .ok (pre, last) => (pre.map (·.ownerPP), last.owner, last.ownerPP)
     | .error _ => ([], "", false)) = ([true], "acme.lib.v1.common.Part", true) := by decide

/-- non-vacuity of `cross_package_offers_only_primitive` / `sub_package_request_offers_only_primitive`: a request of
`acme.lib.v1.common` called through a service of `acme.lib.v1`, signature "parent,part,tags,part.marks" — the
message-typed `part` is dropped, the scalars and repeated scalars (top-level and dotted) are offered -/
example :
    let n : Naming := ⟨"acme.lib.v1", []⟩
    let part : PMsg := ⟨"acme.lib.v1.common", "acme.lib.v1.common.Part", [⟨"marks", 1, .prim, true, false, false⟩]⟩
    let rq : PMsg := ⟨"acme.lib.v1.common", "acme.lib.v1.common.Req",
      [⟨"parent", 1, .prim, false, false, false⟩, ⟨"part", 2, .message "acme.lib.v1.common.Part", false, false, false⟩,
       ⟨"tags", 3, .prim, true, false, false⟩]⟩
    (match fieldsMappingP ([part, rq].map (PMsg.toMsgDef n)) (crossPkgOf rq.pkg "acme.lib.v1") (rq.toMsgDef n)
        [["parent"], ["part"], ["tags"], ["part", "marks"]] with
     | .ok es => es.map (fun e => (e.key, e.field.isPrimitive, (e.slot (rq.toMsgDef n)).rawOwner))
     | .error _ => []) = [("parent", true, false), ("tags", true, false), ("part.marks", true, false)] := by decide

end GapicModel.Props.C05
