import GapicModel.Model.Routing
import GapicModel.Lemmas.Regex
import GapicModel.Pinned.CharClass
import GapicModel.Pinned.Funcs
/-
C06 — every call carries an x-goog-request-params header that follows AIP-4222.
Property theorems about `Model/Routing.lean` (helper lemmas specific to them in `section Aux`).
No Mathlib.
-/
namespace GapicModel.Props.C06
open GapicModel.Regex GapicModel.Model.Routing

/-- the value parameter `p` contributes under key `k` for request `r` (nothing if it contributes
    under another key, does not match, or captures the empty string) -/
def contribFor (ct : ClassTables) (r : Request) (k : List Char) (p : Param) : Option (List Char) :=
  match contrib ct r p with
  | some (k', v) => if k' = k then some v else none
  | none => none

/-- AIP-4222 "last one wins": the contribution of the last parameter that contributes under `k` -/
def lastContrib (ct : ClassTables) (r : Request) (k : List Char) (ps : List Param) : Option (List Char) :=
  ps.reverse.findSome? (contribFor ct r k)

section Aux

theorem dictGet_dictSet_same (d : List (List Char × List Char)) (k v : List Char) :
    dictGet (dictSet d k v) k = some v := by
  induction d with
  | nil => simp [dictSet, dictGet]
  | cons kv d ih =>
    obtain ⟨k', v'⟩ := kv
    by_cases h : k' = k
    · simp [dictSet, dictGet, h]
    · simp only [dictSet, h, if_false]
      simp only [dictGet, List.find?, h, decide_false] at ih ⊢
      exact ih

theorem dictGet_dictSet_other (d : List (List Char × List Char)) (k k' v : List Char) (hne : k ≠ k') :
    dictGet (dictSet d k v) k' = dictGet d k' := by
  induction d with
  | nil => simp [dictSet, dictGet, hne]
  | cons kv d ih =>
    obtain ⟨k2, v2⟩ := kv
    by_cases h : k2 = k
    · subst h
      simp [dictSet, dictGet, hne]
    · simp only [dictSet, h, if_false]
      by_cases h2 : k2 = k'
      · simp [dictGet, h2]
      · simp only [dictGet, List.find?, h2, decide_false] at ih ⊢
        exact ih

theorem dictGet_step (ct : ClassTables) (r : Request) (acc) (p : Param) (k : List Char) :
    dictGet (step ct r acc p) k = (contribFor ct r k p).orElse (fun _ => dictGet acc k) := by
  unfold step contribFor
  cases hc : contrib ct r p with
  | none => simp
  | some kv =>
    obtain ⟨k', v⟩ := kv
    by_cases h : k' = k
    · subst h; simp [dictGet_dictSet_same]
    · simp [h, dictGet_dictSet_other _ _ _ _ h]

theorem dictGet_foldl (ct : ClassTables) (r : Request) (k : List Char) :
    ∀ (ps : List Param) (acc : List (List Char × List Char)),
      dictGet (ps.foldl (step ct r) acc) k = (lastContrib ct r k ps).orElse (fun _ => dictGet acc k) := by
  intro ps
  induction ps with
  | nil => intro acc; simp [lastContrib]
  | cons p ps ih =>
    intro acc
    simp only [List.foldl_cons, ih, dictGet_step, lastContrib, List.reverse_cons, List.findSome?_append]
    have h1 : List.findSome? (contribFor ct r k) [p] = contribFor ct r k p := by
      cases h : contribFor ct r k p <;> simp [List.findSome?, h]
    rw [h1]
    generalize List.findSome? (contribFor ct r k) ps.reverse = a
    generalize contribFor ct r k p = c
    cases a <;> cases c <;> simp

theorem dictSet_ne_nil (d : List (List Char × List Char)) (k v : List Char) : dictSet d k v ≠ [] := by
  cases d with
  | nil => simp [dictSet]
  | cons kv d => obtain ⟨k', v'⟩ := kv; simp only [dictSet]; split <;> simp

theorem foldl_eq_nil (ct : ClassTables) (r : Request) :
    ∀ (ps : List Param) (acc : List (List Char × List Char)),
      ps.foldl (step ct r) acc = [] ↔ acc = [] ∧ ∀ p ∈ ps, contrib ct r p = none := by
  intro ps
  induction ps with
  | nil => intro acc; simp
  | cons p ps ih =>
    intro acc
    simp only [List.foldl_cons, ih, List.mem_cons, forall_eq_or_imp]
    unfold step
    cases hc : contrib ct r p with
    | none => simp
    | some kv => obtain ⟨k, v⟩ := kv; simp [dictSet_ne_nil]

theorem mem_dictSet (d : List (List Char × List Char)) (k v : List Char) (kv : List Char × List Char)
    (h : kv ∈ dictSet d k v) : kv = (k, v) ∨ kv ∈ d := by
  induction d with
  | nil => simp [dictSet] at h; exact Or.inl h
  | cons hd d ih =>
    obtain ⟨k', v'⟩ := hd
    simp only [dictSet] at h
    split at h
    · simp only [List.mem_cons] at h ⊢
      rcases h with h | h
      · exact Or.inl h
      · exact Or.inr (Or.inr h)
    · simp only [List.mem_cons] at h ⊢
      rcases h with h | h
      · exact Or.inr (Or.inl h)
      · rcases ih h with h | h
        · exact Or.inl h
        · exact Or.inr (Or.inr h)

theorem keys_dictSet (d : List (List Char × List Char)) (k v : List Char) :
    (dictSet d k v).map (·.1) = if k ∈ d.map (·.1) then d.map (·.1) else d.map (·.1) ++ [k] := by
  induction d with
  | nil => simp [dictSet]
  | cons hd d ih =>
    obtain ⟨k', v'⟩ := hd
    by_cases h : k' = k
    · subst h; simp [dictSet]
    · have h' : ¬ k = k' := fun e => h e.symm
      simp only [dictSet, h, if_false, List.map_cons, ih, List.mem_cons, h', false_or]
      split <;> simp

theorem contrib_nonempty (ct : ClassTables) (r : Request) (p : Param) (k v : List Char)
    (h : contrib ct r p = some (k, v)) : v ≠ [] ∧ k = paramKey p := by
  unfold contrib at h
  unfold paramKey
  cases ht : p.template with
  | none =>
    simp only [ht] at h ⊢
    split at h
    · simp at h
    · simp only [Option.some.injEq, Prod.mk.injEq] at h
      obtain ⟨h1, h2⟩ := h
      subst h1 h2
      exact ⟨by assumption, rfl⟩
  | some t =>
    simp only [ht] at h ⊢
    split at h
    · split at h
      · simp at h
      · simp only [Option.some.injEq, Prod.mk.injEq] at h
        obtain ⟨h1, h2⟩ := h
        subst h1 h2
        exact ⟨by assumption, rfl⟩
    · simp at h

end Aux

/-! ## Explicit routing (google.api.routing) -/

/-- **Last one wins** (flagship).  For every list of routing parameters, every request and every
key, the value stored under the key after the emitted chain is the contribution of the LAST
parameter that contributes under that key (matches its template with a non-empty capture, or —
without template — has a non-empty field); the key is absent iff no parameter contributes. -/
theorem explicit_last_wins (ct : ClassTables) (ps : List Param) (r : Request) (k : List Char) :
    dictGet (resolveExplicit ct ps r) k = lastContrib ct r k ps := by
  have := dictGet_foldl ct r k ps []
  simpa [resolveExplicit, dictGet] using this

/-- the same, spelled out on a decomposition of the parameter list: a contributing parameter
after which no parameter with the same key contributes determines the value. -/
theorem explicit_last_wins_split (ct : ClassTables) (before after : List Param) (p : Param) (r : Request)
    (k v : List Char) (hp : contrib ct r p = some (k, v))
    (hafter : ∀ q ∈ after, paramKey q = k → contrib ct r q = none) :
    dictGet (resolveExplicit ct (before ++ p :: after) r) k = some v := by
  rw [explicit_last_wins]
  simp only [lastContrib, List.reverse_append, List.reverse_cons, List.append_assoc, List.findSome?_append]
  have hnone : List.findSome? (contribFor ct r k) after.reverse = none := by
    rw [List.findSome?_eq_none_iff]
    intro q hq
    have hq' : q ∈ after := by simpa using hq
    unfold contribFor
    cases hc : contrib ct r q with
    | none => rfl
    | some kv =>
      obtain ⟨k', v'⟩ := kv
      by_cases hk : k' = k
      · have := (contrib_nonempty ct r q k' v' hc).2
        rw [hafter q hq' (by rw [← this, hk])] at hc
        cases hc
      · simp [hk]
  simp [hnone, contribFor, hp, List.findSome?]

/-- a key under which no parameter contributes is not sent. -/
theorem explicit_absent (ct : ClassTables) (ps : List Param) (r : Request) (k : List Char)
    (h : ∀ p ∈ ps, paramKey p = k → contrib ct r p = none) :
    dictGet (resolveExplicit ct ps r) k = none := by
  rw [explicit_last_wins]
  simp only [lastContrib]
  rw [List.findSome?_eq_none_iff]
  intro q hq
  have hq' : q ∈ ps := by simpa using hq
  unfold contribFor
  cases hc : contrib ct r q with
  | none => rfl
  | some kv =>
    obtain ⟨k', v'⟩ := kv
    by_cases hk : k' = k
    · have := (contrib_nonempty ct r q k' v' hc).2
      rw [h q hq' (by rw [← this, hk])] at hc
      cases hc
    · simp [hk]

/-- **No header when nothing matches** — and only then. -/
theorem explicit_none_no_header (ct : ClassTables) (ps : List Param) (r : Request) :
    explicitHeader ct ps r = none ↔ ∀ p ∈ ps, contrib ct r p = none := by
  have h := foldl_eq_nil ct r ps []
  simp only [true_and] at h
  unfold explicitHeader
  rw [← h]
  unfold resolveExplicit
  cases List.foldl (step ct r) [] ps <;> simp

/-- a parameter without `path_template` passes the (non-empty) field through under the field's
(raw) name; the value is read from the disambiguated attribute path. -/
theorem no_template_passes_value (ct : ClassTables) (r : Request) (f : List Char) :
    contrib ct r ⟨f, none⟩ =
      if r (disambiguated f) = [] then none else some (f, r (disambiguated f)) := rfl

/-- a parameter with a template contributes its non-empty capture under the template's key. -/
theorem template_contributes_capture (ct : ClassTables) (r : Request) (f : List Char) (t : Template) :
    contrib ct r ⟨f, some t⟩ =
      match capture ct t (r (disambiguated f)) with
      | some v => if v = [] then none else some (t.key, v)
      | none => none := rfl

/-- empty values are never sent, and each pair is sent under its parameter's key. -/
theorem explicit_values_nonempty (ct : ClassTables) (ps : List Param) (r : Request) :
    ∀ kv ∈ resolveExplicit ct ps r, kv.2 ≠ [] ∧ ∃ p ∈ ps, contrib ct r p = some kv := by
  suffices h : ∀ (ps : List Param) (acc : List (List Char × List Char)),
      ∀ kv ∈ ps.foldl (step ct r) acc, kv ∈ acc ∨ (kv.2 ≠ [] ∧ ∃ p ∈ ps, contrib ct r p = some kv) by
    intro kv hkv
    rcases h ps [] kv hkv with h | h
    · simp at h
    · exact h
  intro ps
  induction ps with
  | nil => intro acc kv h; exact Or.inl h
  | cons p ps ih =>
    intro acc kv hkv
    simp only [List.foldl_cons] at hkv
    rcases ih _ kv hkv with h | ⟨h1, q, hq, hq2⟩
    · unfold step at h
      cases hc : contrib ct r p with
      | none => simp only [hc] at h; exact Or.inl h
      | some kv' =>
        obtain ⟨k', v'⟩ := kv'
        simp only [hc] at h
        rcases mem_dictSet _ _ _ _ h with h | h
        · subst h
          exact Or.inr ⟨(contrib_nonempty ct r p k' v' hc).1, p, by simp, hc⟩
        · exact Or.inl h
    · exact Or.inr ⟨h1, q, by simp [hq], hq2⟩

/-- one pair per key: the keys of the header are pairwise distinct. -/
theorem explicit_keys_nodup (ct : ClassTables) (ps : List Param) (r : Request) :
    ((resolveExplicit ct ps r).map (·.1)).Nodup := by
  suffices h : ∀ (ps : List Param) (acc : List (List Char × List Char)),
      (acc.map (·.1)).Nodup → ((ps.foldl (step ct r) acc).map (·.1)).Nodup by
    exact h ps [] (by simp)
  intro ps
  induction ps with
  | nil => intro acc h; exact h
  | cons p ps ih =>
    intro acc h
    simp only [List.foldl_cons]
    apply ih
    unfold step
    cases hc : contrib ct r p with
    | none => exact h
    | some kv =>
      obtain ⟨k, v⟩ := kv
      simp only [keys_dictSet]
      split
      · exact h
      · rename_i hk
        rw [List.nodup_append]
        refine ⟨h, by simp, ?_⟩
        intro a ha b hb
        simp only [List.mem_singleton] at hb
        subst hb
        intro hab; subst hab
        exact hk ha

/-- the key of a parameter is its template's named segment, or the field name without template
    (`RoutingParameter.key`; the regex has exactly that one named group). -/
theorem key_is_named_segment (t : Template) :
    (toRegex t).names = [(String.ofList (templateKey t), 1)] ∧ paramKey ⟨f, some t⟩ = t.key
      ∧ paramKey ⟨f, none⟩ = f := ⟨rfl, rfl, rfl⟩

section AuxRegex

/-- a continuation that fails unless the cursor is at `/` or at the end (on newline-free input) -/
def Good (k : K) : Prop :=
  ∀ (pre : List Char) (c : Char) (tl : List Char) (caps : List (Nat × List Char)),
    c ≠ '/' → '\n' ∉ c :: tl → k ⟨pre, c :: tl, caps⟩ = none

/-- a continuation that succeeds at the end of the input -/
def EndOk (k : K) : Prop :=
  ∀ (pre : List Char) (caps : List (Nat × List Char)), (k ⟨pre, [], caps⟩).isSome = true

theorem orElse_none_right {α} (a : Option α) : (a.orElse fun _ => none) = a := by cases a <;> rfl

theorem m_seqR_append (ct : ClassTables) : ∀ (xs ys : List Re) (s : St) (k : K),
    m ct (seqR (xs ++ ys)) s k = m ct (seqR xs) s (fun s' => m ct (seqR ys) s' k) := by
  intro xs
  induction xs with
  | nil => intro ys s k; simp [seqR, m]
  | cons x xs ih =>
    intro ys s k
    simp only [List.cons_append, m_seqR_cons, ih]

theorem m_alt_eq (ct : ClassTables) (a b : Re) (s : St) (k : K) :
    m ct (.alt a b) s k = (m ct a s k).orElse (fun _ => m ct b s k) := by simp only [m]
theorem m_seq_eq (ct : ClassTables) (a b : Re) (s : St) (k : K) :
    m ct (.seq a b) s k = m ct a s (fun s' => m ct b s' k) := by simp only [m]
theorem m_star_eq (ct : ClassTables) (r : Re) (g : Bool) (s : St) (k : K) :
    m ct (.star r g) s k = starLoop (m ct r) g k s.rest.length s := by simp only [m]
theorem m_eps_eq (ct : ClassTables) (s : St) (k : K) : m ct .eps s k = k s := by simp only [m]
theorem m_chr_cons (ct : ClassTables) (c d : Char) (pre r : List Char) (caps) (k : K) :
    m ct (.chr c) ⟨pre, d :: r, caps⟩ k = if c = d then k ⟨d :: pre, r, caps⟩ else none := by simp only [m]
theorem m_chr_nil (ct : ClassTables) (c : Char) (pre : List Char) (caps) (k : K) :
    m ct (.chr c) ⟨pre, [], caps⟩ k = none := by simp only [m]
theorem m_group_eq (ct : ClassTables) (i : Nat) (r : Re) (s : St) (k : K) :
    m ct (.group i r) s k = m ct r s (fun s' => k { s' with caps := (i, Regex.capture s s') :: s'.caps }) := by
  simp only [m]

theorem m_notSlash (ct : ClassTables) (pre : List Char) (d : Char) (r : List Char) (caps) (k : K) :
    m ct notSlash ⟨pre, d :: r, caps⟩ k = if d ≠ '/' then k ⟨d :: pre, r, caps⟩ else none := by
  by_cases h : d = '/'
  · subst h; simp [m, notSlash, clsTest, CItem.test]
  · have h' : ¬ ('/' = d) := fun e => h e.symm
    simp [m, notSlash, clsTest, CItem.test, h, h']

theorem m_notSlash_nil (ct : ClassTables) (pre : List Char) (caps) (k : K) :
    m ct notSlash ⟨pre, [], caps⟩ k = none := by
  simp [m, notSlash]

theorem spanSeg_cons_ne (d : Char) (r : List Char) (h : d ≠ '/') :
    spanSeg (d :: r) = (d :: (spanSeg r).1, (spanSeg r).2) := by
  simp [spanSeg, h]

theorem spanSeg_cons_slash (r : List Char) : spanSeg ('/' :: r) = ([], '/' :: r) := by
  simp [spanSeg]

/-- greedy `[^/]*` followed by a Good continuation takes the whole run of non-slash characters -/
theorem star_notSlash (ct : ClassTables) (k : K) (hk : Good k) (caps) :
    ∀ (r : List Char) (n : Nat) (p : List Char), r.length ≤ n → '\n' ∉ r →
      starLoop (m ct notSlash) true k n ⟨p, r, caps⟩ = k ⟨(spanSeg r).1.reverse ++ p, (spanSeg r).2, caps⟩ := by
  intro r
  induction r with
  | nil =>
    intro n p _ _
    cases n with
    | zero => simp [starLoop, spanSeg]
    | succ n => simp [starLoop, spanSeg, m_notSlash_nil]
  | cons e r ih =>
    intro n p hn hnl
    cases n with
    | zero => simp at hn
    | succ n =>
      have hr : '\n' ∉ r := by intro h; apply hnl; simp [h]
      by_cases he : e = '/'
      · subst he
        simp [starLoop, m_notSlash, spanSeg_cons_slash]
      · simp only [starLoop, if_true, m_notSlash, ne_eq, he, not_false_eq_true]
        have hlt : r.length < (e :: r).length := by simp
        simp only [hlt, if_true]
        rw [ih n (e :: p) (by simpa using hn) hr, spanSeg_cons_ne e r he]
        rw [hk p e r caps he hnl]
        simp

theorem m_plus (ct : ClassTables) (k : K) (hk : Good k) (pre rest : List Char) (caps) (hnl : '\n' ∉ rest) :
    m ct plusItem ⟨pre, rest, caps⟩ k =
      if (spanSeg rest).1 = [] then none
      else k ⟨(spanSeg rest).1.reverse ++ pre, (spanSeg rest).2, caps⟩ := by
  cases rest with
  | nil => simp [plusItem, m, m_notSlash_nil, spanSeg]
  | cons d r =>
    have hr : '\n' ∉ r := by intro h; apply hnl; simp [h]
    by_cases hd : d = '/'
    · subst hd; simp [plusItem, m, m_notSlash, spanSeg_cons_slash]
    · simp only [plusItem, m, m_notSlash, ne_eq, hd, not_false_eq_true, if_true]
      rw [star_notSlash ct k hk caps r r.length (d :: pre) (Nat.le_refl _) hr, spanSeg_cons_ne d r hd]
      simp

/-- greedy `.*` followed by a continuation that succeeds at the end takes everything -/
theorem star_any_greedy (ct : ClassTables) (k : K) (hk : EndOk k) (caps) :
    ∀ (r : List Char) (n : Nat) (p : List Char), r.length ≤ n → '\n' ∉ r →
      starLoop (m ct .any) true k n ⟨p, r, caps⟩ = k ⟨r.reverse ++ p, [], caps⟩ := by
  intro r
  induction r with
  | nil =>
    intro n p _ _
    cases n with
    | zero => simp [starLoop]
    | succ n => simp [starLoop, m]
  | cons e r ih =>
    intro n p hn hnl
    cases n with
    | zero => simp at hn
    | succ n =>
      have hr : '\n' ∉ r := by intro h; apply hnl; simp [h]
      have he : e ≠ '\n' := by intro h; apply hnl; simp [h]
      simp only [starLoop, if_true, m_any_cons, ne_eq, he, not_false_eq_true]
      have hlt : r.length < (e :: r).length := by simp
      simp only [hlt, if_true]
      rw [ih n (e :: p) (by simpa using hn) hr]
      have := hk (r.reverse ++ e :: p) caps
      cases hx : k ⟨r.reverse ++ e :: p, [], caps⟩ with
      | none => rw [hx] at this; simp at this
      | some x => simp [Option.orElse, hx]

theorem m_dstar (ct : ClassTables) (k : K) (hk : EndOk k) (pre rest : List Char) (caps) (hnl : '\n' ∉ rest) :
    m ct dstarItem ⟨pre, rest, caps⟩ k = k ⟨rest.reverse ++ pre, [], caps⟩ := by
  rw [dstarItem, m_star_eq]
  exact star_any_greedy ct k hk caps rest rest.length pre (Nat.le_refl _) hnl

theorem m_optRest (ct : ClassTables) (k : K) (hk : EndOk k) (pre rest : List Char) (caps) (hnl : '\n' ∉ rest) :
    m ct optRest ⟨pre, rest, caps⟩ k =
      match rest with
      | [] => k ⟨pre, [], caps⟩
      | c :: r => if c = '/' then k ⟨(c :: r).reverse ++ pre, [], caps⟩ else k ⟨pre, c :: r, caps⟩ := by
  cases rest with
  | nil => simp [optRest, m_alt_eq, m_seq_eq, m_chr_nil, m_eps_eq]
  | cons c r =>
    have hr : '\n' ∉ r := by intro h; apply hnl; simp [h]
    by_cases hc : c = '/'
    · subst hc
      rw [optRest, m_alt_eq, m_seq_eq, m_chr_cons, m_eps_eq]
      simp only [if_true, m_star_eq]
      rw [star_any_greedy ct k hk caps r r.length ('/' :: pre) (Nat.le_refl _) hr]
      have := hk (r.reverse ++ '/' :: pre) caps
      cases hx : k ⟨r.reverse ++ '/' :: pre, [], caps⟩ with
      | none => rw [hx] at this; simp at this
      | some x => simp [Option.orElse, hx]
    · have hc' : ¬ ('/' = c) := fun e => hc e.symm
      rw [optRest, m_alt_eq, m_seq_eq, m_chr_cons, m_eps_eq]
      simp [hc, hc']

theorem spanSeg_mem2 (c : Char) : ∀ (r : List Char), c ∈ (spanSeg r).2 → c ∈ r := by
  intro r
  induction r with
  | nil => simp [spanSeg]
  | cons d r ih =>
    by_cases hd : d = '/'
    · subst hd; simp [spanSeg]
    · simp only [spanSeg, hd, if_false]
      intro h; exact List.mem_cons_of_mem _ (ih h)

theorem good_chr_slash (ct : ClassTables) (I : List Re) (k : K) :
    Good (fun s => m ct (seqR (.chr '/' :: I)) s k) := by
  intro pre c tl caps hc _
  have hc' : ¬ ('/' = c) := fun e => hc e.symm
  simp [m_seqR_cons, m_chr_cons, hc']

theorem m_eol_eq (ct : ClassTables) (s : St) (k : K) :
    m ct .eol s k = if s.rest = [] ∨ s.rest = ['\n'] then k s else none := by simp only [m]

theorem good_eol (ct : ClassTables) : Good (fun s => m ct (seqR [.eol]) s some) := by
  intro pre c tl caps _ hnl
  have h1 : ¬ (c = '\n' ∧ tl = []) := by
    intro h; apply hnl; simp [h.1]
  simp [seqR, m_eol_eq, h1]

theorem good_tail (ct : ClassTables) (fin : List Re) (k : K)
    (hgood : Good (fun s => m ct (seqR fin) s k)) :
    ∀ (ts : List Tok), dstarOnlyLast ts = true →
      Good (fun s => m ct (seqR (mergeToksTail ts ++ fin)) s k) := by
  intro ts hts
  cases ts with
  | nil => simpa [mergeToksTail] using hgood
  | cons t ts =>
    cases t with
    | lit cs => simpa [mergeToksTail] using good_chr_slash ct _ k
    | star => simpa [mergeToksTail] using good_chr_slash ct _ k
    | dstar =>
      cases ts with
      | cons t' ts' => simp [dstarOnlyLast] at hts
      | nil =>
        intro pre c tl caps hc hnl
        have hc' : ¬ ('/' = c) := fun e => hc e.symm
        have := hgood pre c tl caps hc hnl
        simp only [mergeToksTail, List.cons_append, List.nil_append, m_seqR_cons]
        rw [optRest, m_alt_eq, m_seq_eq, m_chr_cons, m_eps_eq]
        simp [hc', this]

theorem run_tail (ct : ClassTables) (fin : List Re) (k : K)
    (hgood : Good (fun s => m ct (seqR fin) s k)) :
    ∀ (ts : List Tok), dstarOnlyLast ts = true →
      (noDstar ts = false → EndOk (fun s => m ct (seqR fin) s k)) →
      ∀ (pre rest : List Char) (caps : List (Nat × List Char)), '\n' ∉ rest →
        m ct (seqR (mergeToksTail ts ++ fin)) ⟨pre, rest, caps⟩ k =
          match scanTail ts rest with
          | none => none
          | some (c, r') => m ct (seqR fin) ⟨c.reverse ++ pre, r', caps⟩ k := by
  intro ts
  induction ts with
  | nil => intro _ _ pre rest caps _; simp [mergeToksTail, scanTail]
  | cons t ts ih =>
    intro hts hend pre rest caps hnl
    cases t with
    | dstar =>
      cases ts with
      | cons t' ts' => simp [dstarOnlyLast] at hts
      | nil =>
        have hE := hend (by simp [noDstar])
        simp only [mergeToksTail, List.cons_append, List.nil_append, m_seqR_cons]
        rw [m_optRest ct _ hE pre rest caps hnl]
        cases rest with
        | nil => simp [scanTail]
        | cons c r =>
          by_cases hc : c = '/'
          · subst hc; simp [scanTail, andThen]
          · simp [scanTail, hc]
    | lit cs =>
      have hts' : dstarOnlyLast ts = true := by simpa [dstarOnlyLast] using hts
      have hend' : noDstar ts = false → EndOk (fun s => m ct (seqR fin) s k) := by
        intro h; apply hend; simpa [noDstar] using h
      simp only [mergeToksTail, List.cons_append, List.append_assoc, m_seqR_cons]
      cases rest with
      | nil => simp [m_chr_nil, scanTail, scanSlash, andThen]
      | cons d r =>
        have hr : '\n' ∉ r := by intro h; apply hnl; simp [h]
        by_cases hd : d = '/'
        · subst hd
          simp only [m_chr_cons, if_true]
          rw [m_seqR_chrs]
          by_cases hp : cs <+: r
          · have hdrop : '\n' ∉ r.drop cs.length := fun h => hr (List.mem_of_mem_drop h)
            simp only [hp, if_true, adv]
            rw [ih hts' hend' _ _ caps hdrop]
            simp only [scanTail, scanSlash, if_true, andThen, scanTok, hp]
            cases scanTail ts (List.drop cs.length r) with
            | none => rfl
            | some cr => obtain ⟨c', r''⟩ := cr; simp
          · simp [hp, scanTail, scanSlash, andThen, scanTok]
        · have hd' : ¬ ('/' = d) := fun e => hd e.symm
          simp [m_chr_cons, hd', scanTail, scanSlash, hd, andThen]
    | star =>
      have hts' : dstarOnlyLast ts = true := by simpa [dstarOnlyLast] using hts
      have hend' : noDstar ts = false → EndOk (fun s => m ct (seqR fin) s k) := by
        intro h; apply hend; simpa [noDstar] using h
      simp only [mergeToksTail, List.cons_append, m_seqR_cons]
      cases rest with
      | nil => simp [m_chr_nil, scanTail, scanSlash, andThen]
      | cons d r =>
        have hr : '\n' ∉ r := by intro h; apply hnl; simp [h]
        by_cases hd : d = '/'
        · subst hd
          simp only [m_chr_cons, if_true]
          rw [m_plus ct _ (good_tail ct fin k hgood ts hts') _ _ caps hr]
          by_cases hx : (spanSeg r).1 = []
          · simp [hx, scanTail, scanSlash, andThen, scanTok]
          · have h2 : '\n' ∉ (spanSeg r).2 := fun h => hr (spanSeg_mem2 _ r h)
            simp only [hx, if_false]
            rw [ih hts' hend' _ _ caps h2]
            simp only [scanTail, scanSlash, if_true, andThen, scanTok, hx, if_false]
            cases scanTail ts (spanSeg r).2 with
            | none => rfl
            | some cr => obtain ⟨c', r''⟩ := cr; simp
        · have hd' : ¬ ('/' = d) := fun e => hd e.symm
          simp [m_chr_cons, hd', scanTail, scanSlash, hd, andThen]

theorem run_toks (ct : ClassTables) (fin : List Re) (k : K)
    (hgood : Good (fun s => m ct (seqR fin) s k)) :
    ∀ (ts : List Tok), dstarOnlyLast ts = true →
      (noDstar ts = false → EndOk (fun s => m ct (seqR fin) s k)) →
      ∀ (pre rest : List Char) (caps : List (Nat × List Char)), '\n' ∉ rest →
        m ct (seqR (mergeToks ts ++ fin)) ⟨pre, rest, caps⟩ k =
          match scanToks ts rest with
          | none => none
          | some (c, r') => m ct (seqR fin) ⟨c.reverse ++ pre, r', caps⟩ k := by
  intro ts hts hend pre rest caps hnl
  cases ts with
  | nil => simp [mergeToks, scanToks]
  | cons t ts =>
    cases t with
    | dstar =>
      cases ts with
      | cons t' ts' => simp [dstarOnlyLast] at hts
      | nil =>
        have hE := hend (by simp [noDstar])
        simp only [mergeToks, tokItems, mergeToksTail, List.append_nil, List.cons_append, List.nil_append, m_seqR_cons]
        rw [m_dstar ct _ hE pre rest caps hnl]
        simp [scanToks, scanTok, scanTail, andThen]
    | lit cs =>
      have hts' : dstarOnlyLast ts = true := by simpa [dstarOnlyLast] using hts
      have hend' : noDstar ts = false → EndOk (fun s => m ct (seqR fin) s k) := by
        intro h; apply hend; simpa [noDstar] using h
      simp only [mergeToks, tokItems, List.append_assoc]
      rw [m_seqR_chrs]
      by_cases hp : cs <+: rest
      · have hdrop : '\n' ∉ rest.drop cs.length := fun h => hnl (List.mem_of_mem_drop h)
        simp only [hp, if_true, adv]
        rw [run_tail ct fin k hgood ts hts' hend' _ _ caps hdrop]
        simp only [scanToks, andThen, scanTok, hp, if_true]
        cases scanTail ts (List.drop cs.length rest) with
        | none => rfl
        | some cr => obtain ⟨c', r''⟩ := cr; simp
      · simp [hp, scanToks, andThen, scanTok]
    | star =>
      have hts' : dstarOnlyLast ts = true := by simpa [dstarOnlyLast] using hts
      have hend' : noDstar ts = false → EndOk (fun s => m ct (seqR fin) s k) := by
        intro h; apply hend; simpa [noDstar] using h
      simp only [mergeToks, tokItems, List.cons_append, List.nil_append, m_seqR_cons]
      rw [m_plus ct _ (good_tail ct fin k hgood ts hts') _ _ caps hnl]
      by_cases hx : (spanSeg rest).1 = []
      · simp [hx, scanToks, andThen, scanTok]
      · have h2 : '\n' ∉ (spanSeg rest).2 := fun h => hnl (spanSeg_mem2 _ rest h)
        simp only [hx, if_false]
        rw [run_tail ct fin k hgood ts hts' hend' _ _ caps h2]
        simp only [scanToks, andThen, scanTok, hx, if_false]
        cases scanTail ts (spanSeg rest).2 with
        | none => rfl
        | some cr => obtain ⟨c', r''⟩ := cr; simp

/-- scanners split their input: consumed ++ rest = input (so newline-freeness is inherited) -/
theorem andThen_split (a : Option (List Char × List Char)) (f : List Char → Option (List Char × List Char))
    (v : List Char) (ha : ∀ c r, a = some (c, r) → c ++ r = v)
    (hf : ∀ w c r, f w = some (c, r) → c ++ r = w) :
    ∀ c r, andThen a f = some (c, r) → c ++ r = v := by
  intro c r h
  unfold andThen at h
  cases a with
  | none => simp at h
  | some cr =>
    obtain ⟨c1, r1⟩ := cr
    simp only at h
    cases hfr : f r1 with
    | none => simp [hfr] at h
    | some cr2 =>
      obtain ⟨c2, r2⟩ := cr2
      simp only [hfr, Option.some.injEq, Prod.mk.injEq] at h
      obtain ⟨h1, h2⟩ := h
      subst h1 h2
      have := ha c1 r1 rfl
      have := hf r1 c2 r2 hfr
      simp [List.append_assoc, *]

theorem spanSeg_split : ∀ (v : List Char), (spanSeg v).1 ++ (spanSeg v).2 = v := by
  intro v
  induction v with
  | nil => simp [spanSeg]
  | cons d r ih =>
    by_cases hd : d = '/'
    · subst hd; simp [spanSeg]
    · simp [spanSeg, hd, ih]

theorem scanTok_split (t : Tok) (v c r : List Char) (h : scanTok t v = some (c, r)) : c ++ r = v := by
  cases t with
  | lit cs =>
    simp only [scanTok] at h
    split at h
    · rename_i hp
      simp only [Option.some.injEq, Prod.mk.injEq] at h
      obtain ⟨h1, h2⟩ := h
      subst h1 h2
      obtain ⟨w, hw⟩ := hp
      subst hw; simp
    · simp at h
  | star =>
    simp only [scanTok] at h
    split at h
    · simp at h
    · simp only [Option.some.injEq] at h
      have := spanSeg_split v
      rw [h] at this
      exact this
  | dstar =>
    simp only [scanTok, Option.some.injEq, Prod.mk.injEq] at h
    obtain ⟨h1, h2⟩ := h
    subst h1 h2; simp

theorem scanSlash_split (v c r : List Char) (h : scanSlash v = some (c, r)) : c ++ r = v := by
  cases v with
  | nil => simp [scanSlash] at h
  | cons d tl =>
    simp only [scanSlash] at h
    split at h
    · rename_i hd
      simp only [Option.some.injEq, Prod.mk.injEq] at h
      obtain ⟨h1, h2⟩ := h
      subst h1 h2 hd; simp
    · simp at h

theorem scanTail_split : ∀ (ts : List Tok) (v c r : List Char), scanTail ts v = some (c, r) → c ++ r = v := by
  intro ts
  induction ts with
  | nil => intro v c r h; simp [scanTail] at h; obtain ⟨h1, h2⟩ := h; subst h1 h2; simp
  | cons t ts ih =>
    intro v c r h
    cases t with
    | dstar =>
      cases v with
      | nil => simp only [scanTail] at h; exact ih [] c r h
      | cons d tl =>
        simp only [scanTail] at h
        split at h
        · exact andThen_split _ _ (d :: tl) (by intro c r h; simp at h; obtain ⟨h1, h2⟩ := h; subst h1 h2; simp)
            (fun w c r hw => ih w c r hw) c r h
        · exact ih _ c r h
    | lit cs =>
      simp only [scanTail] at h
      exact andThen_split _ _ v
        (andThen_split _ _ v (fun c r h => scanSlash_split v c r h) (fun w c r h => scanTok_split _ w c r h))
        (fun w c r hw => ih w c r hw) c r h
    | star =>
      simp only [scanTail] at h
      exact andThen_split _ _ v
        (andThen_split _ _ v (fun c r h => scanSlash_split v c r h) (fun w c r h => scanTok_split _ w c r h))
        (fun w c r hw => ih w c r hw) c r h

theorem scanToks_split (ts : List Tok) (v c r : List Char) (h : scanToks ts v = some (c, r)) : c ++ r = v := by
  cases ts with
  | nil => simp [scanToks] at h; obtain ⟨h1, h2⟩ := h; subst h1 h2; simp
  | cons t ts =>
    simp only [scanToks] at h
    exact andThen_split _ _ v (fun c r h => scanTok_split t v c r h) (fun w c r hw => scanTail_split ts w c r hw) c r h

theorem capture_app (p c r r' : List Char) (cs cs' : List (Nat × List Char)) :
    Regex.capture ⟨p, r, cs⟩ ⟨c.reverse ++ p, r', cs'⟩ = c := by
  simp only [Regex.capture]
  have e1 : (c.reverse ++ p).length - p.length = c.reverse.length := by simp
  rw [e1, List.take_left']
  · simp
  · rfl

theorem m_bol_eq (ct : ClassTables) (s : St) (k : K) : m ct .bol s k = if s.pre = [] then k s else none := by
  simp only [m]

theorem good_of_caps (k : K) (f : St → List (Nat × List Char)) (hk : Good k) :
    Good (fun s' => k { s' with caps := f s' }) := by
  intro pre c tl caps hc hnl
  exact hk pre c tl _ hc hnl

/-- from the named group to the end of the pattern -/
theorem run_named (ct : ClassTables) (sub post : List Tok)
    (hsub : dstarOnlyLast sub = true) (hpost : dstarOnlyLast post = true)
    (hor : noDstar sub = true ∨ post = [])
    (pre0 rest : List Char) (hnl : '\n' ∉ rest) :
    m ct (seqR (namedItem sub :: (mergeToksTail post ++ [.eol]))) ⟨pre0, rest, []⟩ some =
      match scanToks sub rest with
      | none => none
      | some (c2, v2) =>
        match scanTail post v2 with
        | some (c3, []) => some ⟨c3.reverse ++ (c2.reverse ++ pre0), [], [(1, c2)]⟩
        | _ => none := by
  have hgC : Good (fun s => m ct (seqR (mergeToksTail post ++ [.eol])) s some) :=
    good_tail ct [.eol] some (good_eol ct) post hpost
  have hC : ∀ (p r : List Char) (caps : List (Nat × List Char)), '\n' ∉ r →
      m ct (seqR (mergeToksTail post ++ [.eol])) ⟨p, r, caps⟩ some =
        match scanTail post r with
        | some (c3, []) => some ⟨c3.reverse ++ p, [], caps⟩
        | _ => none := by
    intro p r caps hr
    rw [run_tail ct [.eol] some (good_eol ct) post hpost
      (fun _ => by intro p caps; simp [seqR, m_eol_eq]) p r caps hr]
    cases hs : scanTail post r with
    | none => rfl
    | some cr =>
      obtain ⟨c3, r'⟩ := cr
      have hsplit := scanTail_split post r c3 r' hs
      cases r' with
      | nil => simp [seqR, m_eol_eq]
      | cons e tl =>
        have : ¬ (e = '\n' ∧ tl = []) := by
          intro h; apply hr; rw [← hsplit]; simp [h.1]
        simp [seqR, m_eol_eq, this]
  rw [m_seqR_cons, namedItem, m_group_eq]
  have happ : seqR (mergeToks sub) = seqR (mergeToks sub ++ []) := by simp
  rw [happ]
  rw [run_toks ct [] _ ?_ sub hsub ?_ pre0 rest [] hnl]
  · cases hs : scanToks sub rest with
    | none => rfl
    | some cr =>
      obtain ⟨c2, v2⟩ := cr
      have hsplit := scanToks_split sub rest c2 v2 hs
      have hv2 : '\n' ∉ v2 := by intro h; apply hnl; rw [← hsplit]; simp [h]
      simp only [seqR, m_eps_eq, capture_app]
      rw [hC _ _ _ hv2]
  · simp only [seqR, m_eps_eq]
    exact good_of_caps _ _ hgC
  · intro hnd
    have hp : post = [] := by
      rcases hor with h | h
      · rw [h] at hnd; cases hnd
      · exact h
    subst hp
    intro p caps
    simp [seqR, m_eps_eq, mergeToksTail, m_eol_eq]

theorem wf_split (t : Template) (h : t.wf = true) :
    noDstar t.pre = true ∧ dstarOnlyLast t.sub = true ∧ dstarOnlyLast t.post = true ∧
      (noDstar t.sub = true ∨ t.post = []) := by
  simp only [Template.wf, Bool.and_eq_true, Bool.or_eq_true, List.isEmpty_iff] at h
  obtain ⟨⟨⟨h1, h2⟩, h3⟩, h4⟩ := h
  exact ⟨h1, h2, h3, h4⟩

theorem noDstar_dstarOnlyLast : ∀ (ts : List Tok), noDstar ts = true → dstarOnlyLast ts = true := by
  intro ts
  induction ts with
  | nil => intro _; rfl
  | cons t ts ih =>
    intro h
    cases t with
    | dstar => simp [noDstar] at h
    | lit cs => simp only [noDstar] at h; simpa [dstarOnlyLast] using ih h
    | star => simp only [noDstar] at h; simpa [dstarOnlyLast] using ih h

end AuxRegex

/-! ## The regex of `RoutingParameter.to_regex` and the template language -/

/-- **The regex built by `RoutingParameter` recognises exactly the template language and captures
the named segment** (sound and complete): for every template of the routing.proto grammar (one
named segment, `**` only as the last segment: `Template.wf`) and every newline-free value, what
`routing_param_regex.match(v).group(key)` returns in the engine model is what the regex-free
segment scanner `scanCapture` returns (literal = the segment itself, `*` = one non-empty segment,
trailing `**` = zero or more segments).  No bound on template or value size. -/
theorem capture_eq_scan (ct : ClassTables) (t : Template) (hwf : t.wf = true)
    (v : List Char) (hnl : '\n' ∉ v) :
    Model.Routing.capture ct t v = scanCapture t v := by
  obtain ⟨hpre, hsub, hpost, hor⟩ := wf_split t hwf
  simp only [Model.Routing.capture, pyMatch, matchAt, toRegex]
  rw [show (Re.bol :: templateItems t ++ [Re.eol]) = Re.bol :: (templateItems t ++ [Re.eol]) from rfl]
  rw [m_seqR_cons, m_bol_eq]
  simp only [if_true]
  unfold scanCapture templateItems
  cases hp : t.pre with
  | nil =>
    simp only [scanPre, List.cons_append]
    rw [run_named ct t.sub t.post hsub hpost hor [] v hnl]
    cases scanToks t.sub v with
    | none => rfl
    | some cr =>
      obtain ⟨c2, v2⟩ := cr
      simp only
      cases scanTail t.post v2 with
      | none => rfl
      | some cr => obtain ⟨c3, r'⟩ := cr; cases r' <;> simp [St.group?]
  | cons p ps =>
    rw [hp] at hpre
    have e : (tokItems p ++ mergeToksTail ps ++ (Re.chr '/' :: namedItem t.sub :: mergeToksTail t.post)) ++ [Re.eol]
        = mergeToks (p :: ps) ++ (Re.chr '/' :: namedItem t.sub :: (mergeToksTail t.post ++ [Re.eol])) := by
      simp [mergeToks, List.append_assoc]
    rw [e]
    rw [run_toks ct _ some (good_chr_slash ct _ some) (p :: ps) (noDstar_dstarOnlyLast _ hpre)
      (by intro h; rw [hpre] at h; cases h) [] v [] hnl]
    simp only [scanPre]
    cases hs : scanToks (p :: ps) v with
    | none => simp [andThen]
    | some cr =>
      obtain ⟨c1, v1⟩ := cr
      have hsplit := scanToks_split (p :: ps) v c1 v1 hs
      have hv1 : '\n' ∉ v1 := by intro h; apply hnl; rw [← hsplit]; simp [h]
      simp only [andThen]
      rw [m_seqR_cons]
      cases v1 with
      | nil => simp [m_chr_nil, scanSlash]
      | cons d r =>
        have hr : '\n' ∉ r := by intro h; apply hv1; simp [h]
        by_cases hd : d = '/'
        · subst hd
          simp only [m_chr_cons, if_true, scanSlash]
          rw [run_named ct t.sub t.post hsub hpost hor _ r hr]
          cases scanToks t.sub r with
          | none => rfl
          | some cr =>
            obtain ⟨c2, v2⟩ := cr
            simp only
            cases scanTail t.post v2 with
            | none => rfl
            | some cr => obtain ⟨c3, r'⟩ := cr; cases r' <;> simp [St.group?]
        · have hd' : ¬ ('/' = d) := fun e => hd e.symm
          simp [m_chr_cons, hd', scanSlash, hd]

section AuxScan

theorem spanSeg_no_slash : ∀ (v : List Char), '/' ∉ v → spanSeg v = (v, []) := by
  intro v
  induction v with
  | nil => intro _; rfl
  | cons d r ih =>
    intro h
    have hd : d ≠ '/' := by intro e; apply h; simp [e]
    have hr : '/' ∉ r := by intro e; apply h; simp [e]
    simp [spanSeg, hd, ih hr]

theorem spanSeg_slash : ∀ (v : List Char), '/' ∈ v → (spanSeg v).2 ≠ [] := by
  intro v
  induction v with
  | nil => intro h; simp at h
  | cons d r ih =>
    intro h
    by_cases hd : d = '/'
    · subst hd; simp [spanSeg]
    · have hr : '/' ∈ r := by
        rcases List.mem_cons.mp h with e | e
        · exact absurd e.symm hd
        · exact e
      simpa [spanSeg, hd] using ih hr

end AuxScan

/-- `{key=**}` captures the whole (newline-free) value … -/
theorem dstar_template_captures_all (ct : ClassTables) (k v : List Char) (hnl : '\n' ∉ v) :
    Model.Routing.capture ct ⟨[], k, [.dstar], []⟩ v = some v := by
  rw [capture_eq_scan ct _ (by rfl) v hnl]
  simp [scanCapture, scanPre, scanToks, scanTok, scanTail, andThen]

/-- … so a parameter without `path_template` is the shorthand for `{field=**}` (routing.proto). -/
theorem no_template_is_dstar_shorthand (ct : ClassTables) (r : Request) (f : List Char)
    (hnl : '\n' ∉ r (disambiguated f)) :
    contrib ct r ⟨f, none⟩ = contrib ct r ⟨f, some ⟨[], f, [.dstar], []⟩⟩ := by
  simp only [contrib, dstar_template_captures_all ct f (r (disambiguated f)) hnl]

/-- `{key=*}` captures the value iff it is one non-empty segment. -/
theorem star_template_exact (ct : ClassTables) (k v : List Char) (hnl : '\n' ∉ v) :
    Model.Routing.capture ct ⟨[], k, [.star], []⟩ v = if v ≠ [] ∧ '/' ∉ v then some v else none := by
  rw [capture_eq_scan ct _ (by rfl) v hnl]
  by_cases hs : '/' ∈ v
  · have h2 := spanSeg_slash v hs
    simp only [scanCapture, scanPre, scanToks, scanTok, scanTail, andThen]
    by_cases hx : (spanSeg v).1 = []
    · simp [hx, hs]
    · simp only [hx, if_false, List.append_nil]
      cases hy : (spanSeg v).2 with
      | nil => exact absurd hy h2
      | cons e tl => simp [hs]
  · have h1 := spanSeg_no_slash v hs
    by_cases hv : v = []
    · subst hv; simp [scanCapture, scanPre, scanToks, scanTok, andThen, spanSeg]
    · simp [scanCapture, scanPre, scanToks, scanTok, scanTail, andThen, h1, hv, hs]

/-! ## Implicit routing (no google.api.routing; variables of the primary http path) -/

/-- well-formed tokenised http path: literal text has no `{`; variable names contain none of
    `= } newline`; the sub-template of a variable has no `{`. -/
def WFPath : List PSeg → Prop
  | [] => True
  | .lit cs :: r => '{' ∉ cs ∧ WFPath r
  | .var n none :: r => ('=' ∉ n ∧ '}' ∉ n ∧ '\n' ∉ n) ∧ WFPath r
  | .var n (some t) :: r => ('=' ∉ n ∧ '}' ∉ n ∧ '\n' ∉ n) ∧ '{' ∉ t ∧ WFPath r

section AuxImplicit

private abbrev fh : Re := Pinned.fieldHeaders.re

/-- the `field_headers` regex does not match at a character other than `{`. -/
theorem fh_fail (ct : ClassTables) (pre : List Char) (c : Char) (cs : List Char) (hc : c ≠ '{') :
    matchAt ct fh pre (c :: cs) = none := by
  simp [matchAt, fh, Pinned.fieldHeaders, m, Ne.symm hc]

theorem findall_skip (ct : ClassTables) : ∀ (junk : List Char), '{' ∉ junk →
    ∀ (n : Nat) (pre rest : List Char),
      findallLoop ct fh 1 (junk.length + n) pre (junk ++ rest) = findallLoop ct fh 1 n (junk.reverse ++ pre) rest := by
  intro junk
  induction junk with
  | nil => intro _ n pre rest; simp
  | cons c cs ih =>
    intro hj n pre rest
    have hc : c ≠ '{' := by intro h; apply hj; simp [h]
    have hcs : '{' ∉ cs := by intro h; apply hj; simp [h]
    have hlen : (c :: cs).length + n = (cs.length + n) + 1 := by simp; omega
    rw [hlen]
    simp only [List.cons_append, findallLoop, fh_fail ct pre c (cs ++ rest) hc]
    rw [ih hcs n (c :: pre) rest]
    simp

/-- at `{name` followed by `=` or `}`, the regex matches lazily up to that character and captures the name. -/
theorem fh_match (ct : ClassTables) (pre name rest : List Char) (d : Char)
    (hd : d = '=' ∨ d = '}') (h1 : '=' ∉ name) (h2 : '}' ∉ name) (h3 : '\n' ∉ name) :
    matchAt ct fh pre ('{' :: name ++ d :: rest)
      = some ⟨d :: (name.reverse ++ '{' :: pre), rest, [(1, name)]⟩ := by
  simp only [matchAt, fh, Pinned.fieldHeaders, m]
  have hstar := star_any_lazy ct
    (fun s' => m ct (.cls false [.ch '=', .ch '}'])
      { s' with caps := (1, Regex.capture ⟨'{' :: pre, name ++ d :: rest, []⟩ s') :: s'.caps } some)
    ⟨'{' :: pre, name ++ d :: rest, []⟩
  simp only [m] at hstar
  simp only [List.cons_append]
  rw [hstar]
  rw [lazySpec_skip _ [] name ('{' :: pre) (d :: rest) h3]
  · have hcap : Regex.capture ⟨'{' :: pre, name ++ d :: rest, []⟩ ⟨name.reverse ++ '{' :: pre, d :: rest, []⟩ = name := by
      simp only [Regex.capture]
      have e1 : (name.reverse ++ '{' :: pre).length - ('{' :: pre).length = name.reverse.length := by simp
      rw [e1, List.take_left']
      · simp
      · rfl
    simp only [lazySpec, hcap]
    have hcls : clsTest ct false [.ch '=', .ch '}'] d = true := by
      rcases hd with hd | hd <;> subst hd <;> simp [clsTest, CItem.test]
    simp [hcls, Option.orElse]
  · intro j hj
    have hne : name.drop j ≠ [] := by simp; omega
    cases hx : name.drop j with
    | nil => exact absurd hx hne
    | cons e tl =>
      have hmem : e ∈ name := List.mem_of_mem_drop (by rw [hx]; simp)
      have he1 : e ≠ '=' := by intro h; subst h; exact h1 hmem
      have he2 : e ≠ '}' := by intro h; subst h; exact h2 hmem
      simp [clsTest, CItem.test, Ne.symm he1, Ne.symm he2]

theorem findall_var (ct : ClassTables) (n : Nat) (pre name rest : List Char) (d : Char)
    (hd : d = '=' ∨ d = '}') (h1 : '=' ∉ name) (h2 : '}' ∉ name) (h3 : '\n' ∉ name) :
    findallLoop ct fh 1 (n + 1) pre ('{' :: name ++ d :: rest)
      = name :: findallLoop ct fh 1 n (d :: (name.reverse ++ '{' :: pre)) rest := by
  have hm := fh_match ct pre name rest d hd h1 h2 h3
  have e : ('{' :: name ++ d :: rest) = '{' :: (name ++ d :: rest) := by simp
  rw [e] at hm ⊢
  rw [findallLoop]
  simp only [hm]
  rw [if_pos (by simp; omega)]
  simp [St.group?]

theorem findall_path (ct : ClassTables) : ∀ (segs : List PSeg), WFPath segs →
    ∀ (n : Nat) (pre : List Char), (renderPath segs).length < n →
      findallLoop ct fh 1 n pre (renderPath segs) = pathVars segs := by
  intro segs
  induction segs with
  | nil =>
    intro _ n pre _
    cases n <;> simp [renderPath, pathVars, findallLoop]
  | cons sg r ih =>
    intro hwf n pre hn
    cases sg with
    | lit cs =>
      simp only [WFPath] at hwf
      simp only [renderPath, pathVars, List.length_append] at hn ⊢
      obtain ⟨n', rfl⟩ : ∃ n', n = cs.length + n' := ⟨n - cs.length, by omega⟩
      rw [findall_skip ct cs hwf.1 n' pre (renderPath r)]
      exact ih hwf.2 n' _ (by omega)
    | var name tmpl =>
      cases tmpl with
      | none =>
        simp only [WFPath] at hwf
        obtain ⟨⟨h1, h2, h3⟩, hr⟩ := hwf
        simp only [renderPath, pathVars] at hn ⊢
        cases n with
        | zero => simp at hn
        | succ n =>
          rw [findall_var ct n pre name (renderPath r) '}' (Or.inr rfl) h1 h2 h3]
          simp only [List.length_cons, List.length_append] at hn
          rw [ih hr n _ (by omega)]
      | some t =>
        simp only [WFPath] at hwf
        obtain ⟨⟨h1, h2, h3⟩, ht, hr⟩ := hwf
        simp only [renderPath, pathVars] at hn ⊢
        cases n with
        | zero => simp at hn
        | succ n =>
          rw [show ('{' :: name ++ '=' :: t ++ '}' :: renderPath r) = ('{' :: name ++ '=' :: ((t ++ ['}']) ++ renderPath r)) from by simp]
          rw [findall_var ct n pre name _ '=' (Or.inl rfl) h1 h2 h3]
          simp only [List.length_cons, List.length_append] at hn
          have hj : '{' ∉ t ++ ['}'] := by
            intro h
            rcases List.mem_append.mp h with h | h
            · exact ht h
            · simp at h
          obtain ⟨n', rfl⟩ : ∃ n', n = (t ++ ['}']).length + n' := ⟨n - (t ++ ['}']).length, by simp; omega⟩
          rw [findall_skip ct (t ++ ['}']) hj n' _ (renderPath r)]
          simp only [List.length_append, List.length_singleton] at hn
          rw [ih hr n' _ (by omega)]

end AuxImplicit

/-- **Implicit routing lists exactly the variables of the primary http path**, in order: the
`{(.*?)[=}]` regex of `Method.field_headers` (bridged: `Bridge.fieldHeaders`), run through the
engine's `findall`, returns the variable names of every well-formed path template. -/
theorem implicit_vars_exact (ct : ClassTables) (segs : List PSeg) (h : WFPath segs) :
    fieldHeaders ct (renderPath segs) = pathVars segs := by
  simp only [fieldHeaders, pyFindall1]
  exact findall_path ct segs h _ [] (by omega)

/-- the primary path is the first non-empty of get, put, post, delete, patch, custom. -/
theorem primary_path_first_nonempty (before : List (List Char)) (p : List Char) (after : List (List Char))
    (hb : ∀ x ∈ before, x = []) (hp : p ≠ []) : primaryPath (before ++ p :: after) = p := by
  induction before with
  | nil => simp [primaryPath, hp]
  | cons b bs ih =>
    have hb0 : b = [] := hb b (by simp)
    have := ih (fun x hx => hb x (by simp [hx]))
    simp only [primaryPath, List.cons_append, List.find?, hb0] at this ⊢
    simpa using this

section AuxAttr

theorem splitDotsAux_nodot (a : List Char) (h : '.' ∉ a) : splitDotsAux a = (a, []) := by
  induction a with
  | nil => rfl
  | cons c cs ih =>
    have hc : c ≠ '.' := by intro e; apply h; simp [e]
    have hcs : '.' ∉ cs := by intro e; apply h; simp [e]
    simp [splitDotsAux, hc, ih hcs]

theorem splitDotsAux_append (a rest : List Char) (h : '.' ∉ a) :
    splitDotsAux (a ++ '.' :: rest) = (a, splitDots rest) := by
  induction a with
  | nil => simp [splitDotsAux, splitDots]
  | cons c cs ih =>
    have hc : c ≠ '.' := by intro e; apply h; simp [e]
    have hcs : '.' ∉ cs := by intro e; apply h; simp [e]
    simp [splitDotsAux, hc, ih hcs]

/-- `".".join(l).split(".") == l` for dot-free components -/
theorem splitDots_joinDots : ∀ (l : List (List Char)), l ≠ [] → (∀ c ∈ l, '.' ∉ c) →
    splitDots (joinDots l) = l := by
  intro l
  induction l with
  | nil => intro h; exact absurd rfl h
  | cons a r ih =>
    intro _ hd
    cases r with
    | nil => simp [joinDots, splitDots, splitDotsAux_nodot a (hd a (by simp))]
    | cons b r' =>
      have := ih (by simp) (fun c hc => hd c (by simp [hc]))
      simp only [splitDots] at this
      simp only [joinDots, splitDots, splitDotsAux_append a _ (hd a (by simp))]
      rw [this]

/-- the components `split(".")` returns contain no dot -/
theorem splitDots_nodot : ∀ (v : List Char), ∀ c ∈ splitDots v, '.' ∉ c := by
  intro v
  induction v with
  | nil => intro c hc; simp [splitDots, splitDotsAux] at hc; subst hc; simp
  | cons d r ih =>
    intro c hc
    by_cases hd : d = '.'
    · subst hd
      simp only [splitDots, splitDotsAux, if_true, List.mem_cons] at hc
      rcases hc with hc | hc
      · subst hc; simp
      · exact ih c (by simpa [splitDots] using hc)
    · simp only [splitDots, splitDotsAux, hd, if_false, List.mem_cons] at hc
      rcases hc with hc | hc
      · subst hc
        intro hm
        rcases List.mem_cons.mp hm with e | e
        · exact hd e.symm
        · exact ih _ (by simp [splitDots]) e
      · exact ih c (by simp [splitDots, hc])

theorem suffixSeg_nodot (c : List Char) (h : '.' ∉ c) : '.' ∉ suffixSeg c := by
  unfold suffixSeg
  split
  · intro hm
    rcases List.mem_append.mp hm with e | e
    · exact h e
    · simp at e
  · exact h

/-- every Python keyword is in RESERVED_NAMES; a reserved word with `_` appended is no keyword
    (finite facts about the bridged tables) -/
theorem keywords_reserved : ∀ w ∈ Pinned.pyKeywords, Pinned.reservedNames.contains w = true := by decide

theorem suffixed_not_keyword : ∀ w ∈ Pinned.reservedNames, Pinned.pyKeywords.contains (w ++ "_") = false := by
  decide

theorem suffixSeg_ok (c : List Char) (hc : c ≠ []) :
    (suffixSeg c ≠ [] && !Pinned.pyKeywords.contains (String.ofList (suffixSeg c))) = true := by
  unfold suffixSeg
  split
  · rename_i hr
    have hmem : String.ofList c ∈ Pinned.reservedNames := List.contains_iff_mem.mp hr
    have h2 := suffixed_not_keyword _ hmem
    have e : String.ofList (c ++ ['_']) = String.ofList c ++ "_" := by
      rw [String.ofList_append]
    rw [e, h2]; simp
  · rename_i hr
    have hk : Pinned.pyKeywords.contains (String.ofList c) = false := by
      cases hkc : Pinned.pyKeywords.contains (String.ofList c) with
      | false => rfl
      | true =>
        have := keywords_reserved _ (List.contains_iff_mem.mp hkc)
        exact absurd this hr
    rw [hk]; simp [hc]

end AuxAttr

/-- **Reserved words are read from the suffixed attribute and sent under the original name**:
every variable contributes exactly one pair whose key is the raw variable name and whose value is
read from the attribute path in which every dot-separated segment that is in `RESERVED_NAMES`
carries the `_` suffix (`FieldHeader.disambiguated` since a11332b). -/
theorem implicit_reads_suffixed_sends_raw (hs : List (List Char)) (r : Request) :
    implicitPairs hs r = hs.map fun h =>
      (h, r (joinDots ((splitDots h).map fun seg =>
        if Pinned.reservedNames.contains (String.ofList seg) then seg ++ ['_'] else seg))) := rfl

/-- for an undotted name this is the familiar rule: `name_` iff the name is reserved. -/
theorem disambiguated_undotted (h : List Char) (hd : '.' ∉ h) :
    disambiguated h = if Pinned.reservedNames.contains (String.ofList h) then h ++ ['_'] else h := by
  simp [disambiguated, splitDots, splitDotsAux_nodot h hd, joinDots, suffixSeg]

/-- the segments of the attribute path are the segments of the field path, each suffixed iff reserved. -/
theorem disambiguated_segments (raw : List Char) :
    splitDots (disambiguated raw) = (splitDots raw).map suffixSeg := by
  unfold disambiguated
  apply splitDots_joinDots
  · simp [splitDots]
  · intro c hc
    obtain ⟨c0, hc0, rfl⟩ := List.mem_map.mp hc
    exact suffixSeg_nodot c0 (splitDots_nodot raw c0 hc0)

/-- **Regression theorem for the repaired defects (§9-F1 and the keyword routing field)**: for
EVERY field path without an empty segment — dotted or not, keywords anywhere — the attribute path
the emitted code reads (`request.<disambiguated>`, implicit and explicit routing alike) is a valid
Python attribute expression: no segment is a keyword. -/
theorem attr_path_valid (raw : List Char) (hne : ∀ c ∈ splitDots raw, c ≠ []) :
    attrPathValid (disambiguated raw) = true := by
  unfold attrPathValid
  rw [disambiguated_segments, List.all_eq_true]
  intro c hc
  obtain ⟨c0, hc0, rfl⟩ := List.mem_map.mp hc
  exact suffixSeg_ok c0 (hne c0 hc0)

/-- a header is sent iff the primary path has a variable; it then has one pair per variable
    (even for empty values). -/
theorem implicit_header_iff (ct : ClassTables) (path : List Char) (r : Request) :
    (implicitHeader ct path r = none ↔ fieldHeaders ct path = []) ∧
    (implicitPairs (fieldHeaders ct path) r).map (·.1) = fieldHeaders ct path := by
  constructor
  · unfold implicitHeader
    cases fieldHeaders ct path <;> simp
  · simp [implicitPairs, Function.comp_def]

/-- the google.api.routing annotation, when present, replaces implicit routing altogether. -/
theorem explicit_replaces_implicit (ct : ClassTables) (ps : List Param) (verbs : List (List Char)) (r : Request) :
    header ct ⟨some ps, verbs, false⟩ r = explicitHeader ct ps r := rfl

/-! ## Encoding (`routing_header.to_routing_header` = `urlencode(…, safe="/")`, external, T2) -/

/-- characters that may occur in an encoded key or value: unreserved, `/`, `%`, `+` -/
def isSafeOut (c : Char) : Bool := isUnreserved c || c = '/' || c = '%' || c = '+'

theorem hexDigit_safe : ∀ n : Fin 16, isUnreserved (hexDigit n.val) = true := by decide

theorem pctByte_safe (b : UInt8) : ∀ c ∈ pctByte b, isSafeOut c = true := by
  intro c hc
  simp only [pctByte, List.mem_cons, List.not_mem_nil, or_false] at hc
  have h1 : b.toNat / 16 < 16 := by have := b.toNat_lt; omega
  have h2 : b.toNat % 16 < 16 := by omega
  rcases hc with h | h | h
  · subst h; decide
  · subst h; have := hexDigit_safe ⟨_, h1⟩; simp [isSafeOut, this]
  · subst h; have := hexDigit_safe ⟨_, h2⟩; simp [isSafeOut, this]

/-- **Values are URL-encoded**: the encoded text only contains unreserved characters, `/`, `%XX`
escapes and `+` … -/
theorem encode_output_safe (s : List Char) : ∀ c ∈ encode s, isSafeOut c = true := by
  intro c hc
  simp only [encode, List.mem_flatMap] at hc
  obtain ⟨a, _, hca⟩ := hc
  unfold encodeChar at hca
  split at hca
  · rename_i h
    simp only [List.mem_singleton] at hca
    subst hca
    simp only [Bool.or_eq_true, decide_eq_true_eq] at h
    rcases h with h | h
    · simp [isSafeOut, h]
    · simp [isSafeOut, h]
  · split at hca
    · simp only [List.mem_singleton] at hca; subst hca; decide
    · simp only [List.mem_flatMap] at hca
      obtain ⟨b, _, hb⟩ := hca
      exact pctByte_safe b c hb

/-- … in particular never the pair separators `=` and `&`, so the header splits uniquely into pairs. -/
theorem encode_no_separators (s : List Char) : '=' ∉ encode s ∧ '&' ∉ encode s := by
  constructor <;> intro h <;> have := encode_output_safe s _ h <;> revert this <;> decide

/-! ## Non-vacuity: the hypotheses are met by non-trivial inputs; the model computes -/

private def tt : ClassTables := ⟨[], [], []⟩

/-- `projects/*/{table_location=instances/*}/tables/*` (routing.proto) is in the grammar -/
example : (⟨[.lit ['p', 'r', 'o', 'j', 'e', 'c', 't', 's'], .star], ['t', 'a', 'b', 'l', 'e', '_', 'l', 'o', 'c', 'a', 't', 'i', 'o', 'n'], [.lit ['i', 'n', 's', 't', 'a', 'n', 'c', 'e', 's'], .star],
    [.lit ['t', 'a', 'b', 'l', 'e', 's'], .star]⟩ : Template).wf = true := by decide

/-- `{routing_id=projects/*}/**` is in the grammar and captures `projects/p1` -/
example : Model.Routing.capture tt ⟨[], ['r', 'o', 'u', 't', 'i', 'n', 'g', '_', 'i', 'd'], [.lit ['p', 'r', 'o', 'j', 'e', 'c', 't', 's'], .star], [.dstar]⟩
    ['p', 'r', 'o', 'j', 'e', 'c', 't', 's', '/', 'p', '1', '/', 'x', '/', 'y'] = some ['p', 'r', 'o', 'j', 'e', 'c', 't', 's', '/', 'p', '1'] := by decide

/-- `/v1/{name=shelves/*}/books/{book.id}:read` is a well-formed path with two variables -/
example : WFPath [.lit ['/', 'v', '1', '/'], .var ['n', 'a', 'm', 'e'] (some ['s', 'h', 'e', 'l', 'v', 'e', 's', '/', '*']), .lit ['/', 'b', 'o', 'o', 'k', 's', '/'],
    .var ['b', 'o', 'o', 'k', '.', 'i', 'd'] none, .lit [':', 'r', 'e', 'a', 'd']] := by
  simp [WFPath]

/-- last one wins, on routing.proto's example: two parameters share the key `routing_id`; the
    later one (`app_profile_id`) overrides the earlier (`table_name`) when both match -/
example :
    resolveExplicit tt
      [⟨['t', 'a', 'b', 'l', 'e', '_', 'n', 'a', 'm', 'e'], some ⟨[], ['r', 'o', 'u', 't', 'i', 'n', 'g', '_', 'i', 'd'], [.lit ['p', 'r', 'o', 'j', 'e', 'c', 't', 's'], .star], [.dstar]⟩⟩,
       ⟨['a', 'p', 'p', '_', 'p', 'r', 'o', 'f', 'i', 'l', 'e', '_', 'i', 'd'], some ⟨[], ['r', 'o', 'u', 't', 'i', 'n', 'g', '_', 'i', 'd'], [.dstar], []⟩⟩]
      (fun f => if f = ['t', 'a', 'b', 'l', 'e', '_', 'n', 'a', 'm', 'e'] then ['p', 'r', 'o', 'j', 'e', 'c', 't', 's', '/', 'p', '/', 'i', 'n', 's', 't', 'a', 'n', 'c', 'e', 's', '/', 'i']
                else if f = ['a', 'p', 'p', '_', 'p', 'r', 'o', 'f', 'i', 'l', 'e', '_', 'i', 'd'] then ['p', 'r', 'o', 'f'] else [])
    = [(['r', 'o', 'u', 't', 'i', 'n', 'g', '_', 'i', 'd'], ['p', 'r', 'o', 'f'])] := by decide

/-- … and the earlier one is sent when the later one's field is empty -/
example :
    resolveExplicit tt
      [⟨['t', 'a', 'b', 'l', 'e', '_', 'n', 'a', 'm', 'e'], some ⟨[], ['r', 'o', 'u', 't', 'i', 'n', 'g', '_', 'i', 'd'], [.lit ['p', 'r', 'o', 'j', 'e', 'c', 't', 's'], .star], [.dstar]⟩⟩,
       ⟨['a', 'p', 'p', '_', 'p', 'r', 'o', 'f', 'i', 'l', 'e', '_', 'i', 'd'], some ⟨[], ['r', 'o', 'u', 't', 'i', 'n', 'g', '_', 'i', 'd'], [.dstar], []⟩⟩]
      (fun f => if f = ['t', 'a', 'b', 'l', 'e', '_', 'n', 'a', 'm', 'e'] then ['p', 'r', 'o', 'j', 'e', 'c', 't', 's', '/', 'p', '/', 'i', 'n', 's', 't', 'a', 'n', 'c', 'e', 's', '/', 'i'] else [])
    = [(['r', 'o', 'u', 't', 'i', 'n', 'g', '_', 'i', 'd'], ['p', 'r', 'o', 'j', 'e', 'c', 't', 's', '/', 'p'])] := by decide

/-- hypotheses of `explicit_last_wins_split` on routing.proto's example: the second parameter
    contributes under `routing_id` and nothing after it does -/
example :
    contrib tt (fun f => if f = ['a', 'p', 'p', '_', 'p', 'r', 'o', 'f', 'i', 'l', 'e', '_', 'i', 'd'] then ['p', 'r', 'o', 'f'] else [])
      ⟨['a', 'p', 'p', '_', 'p', 'r', 'o', 'f', 'i', 'l', 'e', '_', 'i', 'd'], some ⟨[], ['r', 'o', 'u', 't', 'i', 'n', 'g', '_', 'i', 'd'], [.dstar], []⟩⟩
      = some (['r', 'o', 'u', 't', 'i', 'n', 'g', '_', 'i', 'd'], ['p', 'r', 'o', 'f']) ∧
    (∀ q ∈ ([] : List Param), paramKey q = ['r', 'o', 'u', 't', 'i', 'n', 'g', '_', 'i', 'd'] →
      contrib tt (fun f => if f = ['a', 'p', 'p', '_', 'p', 'r', 'o', 'f', 'i', 'l', 'e', '_', 'i', 'd'] then ['p', 'r', 'o', 'f'] else []) q = none) := by
  constructor
  · decide
  · intro q hq; cases hq

/-- hypothesis of `explicit_absent` / `explicit_none_no_header`: a non-matching value contributes nothing -/
example : ∀ p ∈ [(⟨['t', 'a', 'b', 'l', 'e', '_', 'n', 'a', 'm', 'e'], some ⟨[], ['r', 'o', 'u', 't', 'i', 'n', 'g', '_', 'i', 'd'], [.lit ['p', 'r', 'o', 'j', 'e', 'c', 't', 's'], .star], [.dstar]⟩⟩ : Param)],
    contrib tt (fun _ => ['f', 'o', 'l', 'd', 'e', 'r', 's', '/', 'f']) p = none := by
  intro p hp
  simp only [List.mem_singleton] at hp
  subst hp
  decide

/-- hypotheses of `capture_eq_scan`, `dstar_template_captures_all`, `star_template_exact` -/
example : '\n' ∉ ['p', 'r', 'o', 'j', 'e', 'c', 't', 's', '/', 'p', '1', '/', 'x', ' ', 'y', '&', 'z', '/', 'é'] := by decide

/-- hypotheses of `primary_path_first_nonempty`: `post` is the first non-empty verb -/
example : (∀ x ∈ [([] : List Char), []], x = []) ∧ ['/', 'v', '1', '/', '{', 'n', 'a', 'm', 'e', '}'] ≠ [] := by
  constructor
  · intro x hx; simp at hx; exact hx
  · decide


/-- hypothesis of `attr_path_valid`: `book.class` has no empty segment (and `disambiguated_undotted`'s: `class` has no dot) -/
example : (∀ c ∈ splitDots ['b','o','o','k','.','c','l','a','s','s'], c ≠ []) ∧ '.' ∉ ['c','l','a','s','s'] := by decide

example : encodePairs [(['k'], ['a', ' ', 'b', '/', 'c', '&', 'd'])] = ['k', '=', 'a', '+', 'b', '/', 'c', '%', '2', '6', 'd'] := by decide

/-! ## Newly modelled behaviour: templates without named segment, client streaming, schema-side resolve -/

/-- a template WITHOUT named segment (accepted by `to_regex`, excluded by routing.proto) matches
exactly the values the segment scanner consumes entirely. -/
theorem unnamed_match_iff_scan (ct : ClassTables) (ts : List Tok) (hts : dstarOnlyLast ts = true)
    (v : List Char) (hnl : '\n' ∉ v) :
    matchesUnnamed ct ts v = (match scanToks ts v with | some (_, []) => true | _ => false) := by
  simp only [matchesUnnamed, pyMatch, matchAt, toRegexUnnamed]
  rw [show (Re.bol :: mergeToks ts ++ [Re.eol]) = Re.bol :: (mergeToks ts ++ [Re.eol]) from rfl]
  rw [m_seqR_cons, m_bol_eq]
  simp only [if_true]
  rw [run_toks ct [.eol] some (good_eol ct) ts hts
    (fun _ => by intro p caps; simp [seqR, m_eol_eq]) [] v [] hnl]
  cases hs : scanToks ts v with
  | none => rfl
  | some cr =>
    obtain ⟨c, r'⟩ := cr
    have hsplit := scanToks_split ts v c r' hs
    cases r' with
    | nil => simp [seqR, m_eol_eq]
    | cons e tl =>
      have : ¬ (e = '\n' ∧ tl = []) := by
        intro h; apply hnl; rw [← hsplit]; simp [h.1]
      simp [seqR, m_eol_eq, this]

example : dstarOnlyLast [.lit ['p'], .star, .dstar] = true ∧ '\n' ∉ ['p', '/', 'x'] := by decide

/-! ## The template language, declaratively (on the `/`-separated segments of the value) -/

/-- split on `/`: first segment and the remaining ones -/
def splitSlashAux : List Char → List Char × List (List Char)
  | [] => ([], [])
  | c :: cs =>
    if c = '/' then ([], (splitSlashAux cs).1 :: (splitSlashAux cs).2)
    else (c :: (splitSlashAux cs).1, (splitSlashAux cs).2)

/-- `str.split("/")` -/
def splitSlash (v : List Char) : List (List Char) := (splitSlashAux v).1 :: (splitSlashAux v).2

/-- the template language, declaratively, on the `/`-separated segments of the value: a literal
matches the equal segment, `*` one non-empty segment, a final `**` zero or more segments -/
def matchSegs : List Tok → List (List Char) → Bool
  | [], [] => true
  | [.dstar], _ => true
  | .lit cs :: ts, s :: ss => s = cs && matchSegs ts ss
  | .star :: ts, s :: ss => s ≠ [] && matchSegs ts ss
  | _, _ => false

def litsOk : List Tok → Bool
  | [] => true
  | .lit cs :: ts => !cs.contains '/' && litsOk ts
  | _ :: ts => litsOk ts

section AuxLang

def okRes : Option (List Char × List Char) → Bool
  | some (_, []) => true
  | _ => false

theorem okRes_andThen (a : Option (List Char × List Char)) (f : List Char → Option (List Char × List Char)) :
    okRes (andThen a f) = match a with | none => false | some (_, r) => okRes (f r) := by
  cases a with
  | none => rfl
  | some cr =>
    obtain ⟨c, r⟩ := cr
    simp only [andThen]
    cases f r with
    | none => rfl
    | some cr2 => obtain ⟨c2, r2⟩ := cr2; cases r2 <;> rfl

theorem splitSlash_of_span (v : List Char) :
    ((spanSeg v).2 = [] → splitSlash v = [(spanSeg v).1]) ∧
    (∀ w, (spanSeg v).2 = '/' :: w → splitSlash v = (spanSeg v).1 :: splitSlash w) := by
  induction v with
  | nil => simp [spanSeg, splitSlash, splitSlashAux]
  | cons d r ih =>
    by_cases hd : d = '/'
    · subst hd
      simp [spanSeg, splitSlash, splitSlashAux]
    · simp only [spanSeg, hd, if_false, splitSlash, splitSlashAux]
      constructor
      · intro h; have := ih.1 h; simp only [splitSlash] at this; simp_all
      · intro w h; have := ih.2 w h; simp only [splitSlash] at this; simp_all

theorem spanSeg_snd_cases (v : List Char) : (spanSeg v).2 = [] ∨ ∃ w, (spanSeg v).2 = '/' :: w := by
  induction v with
  | nil => simp [spanSeg]
  | cons d r ih =>
    by_cases hd : d = '/'
    · subst hd; simp [spanSeg]
    · simpa [spanSeg, hd] using ih

theorem spanSeg_append_noslash (cs w : List Char) (h : '/' ∉ cs) :
    spanSeg (cs ++ w) = (cs ++ (spanSeg w).1, (spanSeg w).2) := by
  induction cs with
  | nil => simp
  | cons c cs ih =>
    have hc : c ≠ '/' := by intro e; apply h; simp [e]
    have hcs : '/' ∉ cs := by intro e; apply h; simp [e]
    simp [spanSeg, hc, ih hcs]

theorem spanSeg_fst_nil_iff (w : List Char) : (spanSeg w).1 = [] ↔ (w = [] ∨ ∃ w', w = '/' :: w') := by
  cases w with
  | nil => simp [spanSeg]
  | cons d r =>
    by_cases hd : d = '/'
    · subst hd; simp [spanSeg]
    · simp [spanSeg, hd]

theorem splitSlashAux_fst (v : List Char) : (splitSlashAux v).1 = (spanSeg v).1 := by
  induction v with
  | nil => rfl
  | cons d r ih =>
    by_cases hd : d = '/'
    · subst hd; simp [spanSeg, splitSlashAux]
    · simp [spanSeg, splitSlashAux, hd, ih]

theorem matchSegs_nil_cons (s : List Char) (ss : List (List Char)) : matchSegs [] (s :: ss) = false := rfl

structure TailSpec (ts : List Tok) : Prop where
  nil : okRes (scanTail ts []) = matchSegs ts []
  slash : ts ≠ [] → ∀ w, okRes (scanTail ts ('/' :: w)) = matchSegs ts (splitSlash w)
  other : ∀ c w, c ≠ '/' → okRes (scanTail ts (c :: w)) = false

/-- after a token has consumed the first segment `x` of `w` (rest `y`), the tail decides -/
theorem tail_after (ts : List Tok) (hP : TailSpec ts) (w : List Char) :
    okRes (scanTail ts (spanSeg w).2) = matchSegs ts (splitSlashAux w).2 := by
  rcases spanSeg_snd_cases w with h | ⟨w', h⟩
  · have := (splitSlash_of_span w).1 h
    simp only [splitSlash, List.cons.injEq] at this
    rw [h, this.2]; exact hP.nil
  · have := (splitSlash_of_span w).2 w' h
    simp only [splitSlash, List.cons.injEq] at this
    rw [h, this.2]
    by_cases hts : ts = []
    · subst hts; simp [scanTail, okRes, matchSegs_nil_cons]
    · exact hP.slash hts w'

theorem step_star (ts : List Tok) (hP : TailSpec ts) (w : List Char) :
    okRes (andThen (scanTok .star w) (scanTail ts)) = matchSegs (.star :: ts) (splitSlash w) := by
  rw [okRes_andThen]
  simp only [scanTok, splitSlash, splitSlashAux_fst]
  by_cases hx : (spanSeg w).1 = []
  · simp [hx, matchSegs]
  · simp only [hx, if_false]
    have := tail_after ts hP w
    cases ts with
    | nil => simpa [matchSegs, hx] using this
    | cons t ts' => cases t <;> simpa [matchSegs, hx] using this

theorem step_lit (ts : List Tok) (hP : TailSpec ts) (cs : List Char) (hcs : '/' ∉ cs) (w : List Char) :
    okRes (andThen (scanTok (.lit cs) w) (scanTail ts)) = matchSegs (.lit cs :: ts) (splitSlash w) := by
  rw [okRes_andThen]
  simp only [scanTok, splitSlash, splitSlashAux_fst]
  by_cases hp : cs <+: w
  · obtain ⟨w', rfl⟩ := hp
    simp only [List.prefix_append, if_true, List.drop_left']
    have hsp := spanSeg_append_noslash cs w' hcs
    cases w' with
    | nil =>
      have h2 : (spanSeg (cs ++ [])).2 = [] := by rw [hsp]; simp [spanSeg]
      have h1 : (spanSeg (cs ++ [])).1 = cs := by rw [hsp]; simp [spanSeg]
      have := (splitSlash_of_span (cs ++ [])).1 h2
      simp only [splitSlash, List.cons.injEq] at this
      rw [h1, this.2]
      have hn := hP.nil
      cases ts with
      | nil => simpa [matchSegs] using hn
      | cons t ts' => cases t <;> simpa [matchSegs] using hn
    | cons c w'' =>
      by_cases hc : c = '/'
      · subst hc
        have h2 : (spanSeg (cs ++ '/' :: w'')).2 = '/' :: w'' := by rw [hsp]; simp [spanSeg]
        have h1 : (spanSeg (cs ++ '/' :: w'')).1 = cs := by rw [hsp]; simp [spanSeg]
        have := (splitSlash_of_span (cs ++ '/' :: w'')).2 w'' h2
        simp only [splitSlash, List.cons.injEq] at this
        rw [h1, this.2]
        by_cases hts : ts = []
        · subst hts; simp [scanTail, okRes, matchSegs]
        · have hs := hP.slash hts w''
          cases ts with
          | nil => exact absurd rfl hts
          | cons t ts' => cases t <;> simpa [matchSegs, splitSlash] using hs
      · have h1 : (spanSeg (cs ++ c :: w'')).1 ≠ cs := by
          rw [hsp]; simp [spanSeg, hc]
        rw [hP.other c w'' hc]
        cases ts with
        | nil => simp [matchSegs, h1]
        | cons t ts' => cases t <;> simp [matchSegs, h1]
  · simp only [hp, if_false]
    have h1 : (spanSeg w).1 ≠ cs := by
      intro e; apply hp
      have := spanSeg_split w
      rw [e] at this
      exact ⟨_, this⟩
    cases ts with
    | nil => simp [matchSegs, h1]
    | cons t ts' => cases t <;> simp [matchSegs, h1]

theorem okRes_andThen_pre (c0 w : List Char) (g f : List Char → Option (List Char × List Char)) :
    okRes (andThen (andThen (some (c0, w)) g) f) = okRes (andThen (g w) f) := by
  simp only [andThen]
  cases g w with
  | none => rfl
  | some cr =>
    obtain ⟨c, r⟩ := cr
    simp only
    cases f r with
    | none => rfl
    | some cr2 => obtain ⟨c2, r2⟩ := cr2; cases r2 <;> rfl

theorem tailSpec : ∀ (ts : List Tok), dstarOnlyLast ts = true → litsOk ts = true → TailSpec ts := by
  intro ts
  induction ts with
  | nil => intro _ _; exact ⟨rfl, fun h => absurd rfl h, fun c w _ => rfl⟩
  | cons t ts ih =>
    intro hd hl
    cases t with
    | dstar =>
      cases ts with
      | cons t' ts' => simp [dstarOnlyLast] at hd
      | nil =>
        refine ⟨rfl, fun _ w => ?_, fun c w hc => ?_⟩
        · simp [scanTail, andThen, okRes, matchSegs]
        · simp [scanTail, hc, okRes]
    | lit cs =>
      have hd' : dstarOnlyLast ts = true := by simpa [dstarOnlyLast] using hd
      simp only [litsOk, Bool.and_eq_true, Bool.not_eq_true'] at hl
      have hcs : '/' ∉ cs := by
        intro h; have := List.contains_iff_mem.mpr h; rw [hl.1] at this; cases this
      have hP := ih hd' hl.2
      refine ⟨?_, fun _ w => ?_, fun c w hc => ?_⟩
      · simp [scanTail, scanSlash, andThen, okRes, matchSegs]
      · simp only [scanTail, scanSlash, if_true]
        rw [okRes_andThen_pre]
        exact step_lit ts hP cs hcs w
      · simp [scanTail, scanSlash, hc, andThen, okRes]
    | star =>
      have hd' : dstarOnlyLast ts = true := by simpa [dstarOnlyLast] using hd
      have hl' : litsOk ts = true := by simpa [litsOk] using hl
      have hP := ih hd' hl'
      refine ⟨?_, fun _ w => ?_, fun c w hc => ?_⟩
      · simp [scanTail, scanSlash, andThen, okRes, matchSegs]
      · simp only [scanTail, scanSlash, if_true]
        rw [okRes_andThen_pre]
        exact step_star ts hP w
      · simp [scanTail, scanSlash, hc, andThen, okRes]

end AuxLang

/-- the one-pass scanner accepts exactly the declarative template language -/
theorem scanToks_iff_matchSegs (ts : List Tok) (hne : ts ≠ []) (hd : dstarOnlyLast ts = true)
    (hl : litsOk ts = true) (w : List Char) :
    okRes (scanToks ts w) = matchSegs ts (splitSlash w) := by
  cases ts with
  | nil => exact absurd rfl hne
  | cons t ts =>
    cases t with
    | dstar =>
      cases ts with
      | cons t' ts' => simp [dstarOnlyLast] at hd
      | nil => simp [scanToks, scanTok, scanTail, andThen, okRes, matchSegs]
    | lit cs =>
      have hd' : dstarOnlyLast ts = true := by simpa [dstarOnlyLast] using hd
      simp only [litsOk, Bool.and_eq_true, Bool.not_eq_true'] at hl
      have hcs : '/' ∉ cs := by
        intro h; have := List.contains_iff_mem.mpr h; rw [hl.1] at this; cases this
      exact step_lit ts (tailSpec ts hd' hl.2) cs hcs w
    | star =>
      have hd' : dstarOnlyLast ts = true := by simpa [dstarOnlyLast] using hd
      have hl' : litsOk ts = true := by simpa [litsOk] using hl
      exact step_star ts (tailSpec ts hd' hl') w

/-- **The regex of a template (here: without named group) recognises exactly the declarative
template language** on the `/`-separated segments of the value. -/
theorem unnamed_regex_language (ct : ClassTables) (ts : List Tok) (hne : ts ≠ [])
    (hd : dstarOnlyLast ts = true) (hl : litsOk ts = true) (v : List Char) (hnl : '\n' ∉ v) :
    matchesUnnamed ct ts v = matchSegs ts (splitSlash v) := by
  rw [unnamed_match_iff_scan ct ts hd v hnl, ← scanToks_iff_matchSegs ts hne hd hl v]
  cases scanToks ts v with
  | none => rfl
  | some cr => obtain ⟨c, r⟩ := cr; cases r <;> rfl

/-- hypotheses of `scanToks_iff_matchSegs` / `unnamed_regex_language` on `p/*/**` -/
example : ([.lit ['p'], .star, .dstar] : List Tok) ≠ [] ∧ dstarOnlyLast [.lit ['p'], .star, .dstar] = true ∧
    litsOk [.lit ['p'], .star, .dstar] = true := by decide
example : matchSegs [.lit ['p'], .star, .dstar] (splitSlash ['p', '/', 'x']) = true := by decide
example : matchSegs [.lit ['p'], .dstar] (splitSlash ['p', 'X']) = false := by decide

/-- a client-streaming method with explicit routing sends no routing header at all … -/
theorem client_streaming_explicit_sends_nothing (ct : ClassTables) (ps : List Param) (verbs : List (List Char))
    (r : Request) : header ct ⟨some ps, verbs, true⟩ r = none := rfl

/-- … and with implicit routing it sends the header with an EMPTY value when the primary path has
variables (`to_grpc_metadata(())`), nothing otherwise: no request exists when the call starts. -/
theorem client_streaming_implicit_empty_value (ct : ClassTables) (verbs : List (List Char)) (r : Request) :
    header ct ⟨none, verbs, true⟩ r =
      if fieldHeaders ct (primaryPath verbs) = [] then none else some [] := by
  simp only [header]
  cases fieldHeaders ct (primaryPath verbs) <;> simp

section AuxSchema

theorem contribSchema_eq (ct : ClassTables) (r : Request) (r' : DictRequest) (p : Param)
    (hpres : r' p.field = some (r (disambiguated p.field)))
    (hne : ∀ k v, contribSchema ct r' p = some (k, v) → v ≠ []) :
    contribSchema ct r' p = contrib ct r p := by
  unfold contribSchema contrib at *
  rw [hpres] at hne ⊢
  simp only at hne ⊢
  cases ht : p.template with
  | none =>
    simp only [ht] at hne ⊢
    have := hne _ _ rfl
    simp [this]
  | some t =>
    simp only [ht] at hne ⊢
    unfold Model.Routing.capture
    cases hm : pyMatch ct (toRegex t).re (r (disambiguated p.field)) with
    | none => rfl
    | some res =>
      simp only [hm] at hne ⊢
      have h := hne _ _ rfl
      cases hg : St.group? res.caps 1 with
      | none => rw [hg] at h; simp at h
      | some w =>
        rw [hg] at h
        simp only [Option.getD_some] at h ⊢
        simp [h]

theorem foldl_congr_mem {α β} (f g : β → α → β) : ∀ (l : List α) (acc : β),
    (∀ a ∈ l, ∀ b, f b a = g b a) → l.foldl f acc = l.foldl g acc := by
  intro l
  induction l with
  | nil => intro _ _; rfl
  | cons x xs ih =>
    intro acc h
    simp only [List.foldl_cons]
    rw [h x (by simp) acc]
    exact ih _ (fun a ha b => h a (by simp [ha]) b)

end AuxSchema

/-- **`RoutingRule.resolve` (schema side) agrees with the emitted chain** whenever every routing
field is present in the request dict and no parameter yields an empty value: the expected headers
the emitted unit tests compute are then exactly what the emitted client sends. -/
theorem schema_resolve_agrees (ct : ClassTables) (ps : List Param) (r : Request) (r' : DictRequest)
    (hpres : ∀ p ∈ ps, r' p.field = some (r (disambiguated p.field)))
    (hne : ∀ p ∈ ps, ∀ k v, contribSchema ct r' p = some (k, v) → v ≠ []) :
    resolveSchema ct ps r' = resolveExplicit ct ps r := by
  unfold resolveSchema resolveExplicit
  apply foldl_congr_mem
  intro p hp acc
  unfold stepSchema step
  rw [contribSchema_eq ct r r' p (hpres p hp) (hne p hp)]

/-- hypotheses of `schema_resolve_agrees` on `{routing_id=**}` with a non-empty value -/
example :
    (fun _ => some ['p', 'r', 'o', 'f'] : DictRequest) ['a'] = some ((fun _ => ['p', 'r', 'o', 'f'] : Request) (disambiguated ['a'])) ∧
    (∀ k v, contribSchema tt (fun _ => some ['p', 'r', 'o', 'f']) ⟨['a'], some ⟨[], ['k'], [.dstar], []⟩⟩ = some (k, v) → v ≠ []) := by
  constructor
  · rfl
  · intro k v h
    have : contribSchema tt (fun _ => some ['p', 'r', 'o', 'f']) ⟨['a'], some ⟨[], ['k'], [.dstar], []⟩⟩
        = some (['k'], ['p', 'r', 'o', 'f']) := by decide
    rw [this] at h
    simp only [Option.some.injEq, Prod.mk.injEq] at h
    rw [← h.2]; simp

/-- … and the two differ exactly there: on an empty field `resolve` still records `routing_id: ""`
(the repo's own unit test expects that), the emitted client sends nothing. -/
theorem schema_differs_on_empty :
    resolveSchema tt [⟨['a'], some ⟨[], ['k'], [.dstar], []⟩⟩] (fun _ => some []) = [(['k'], [])] ∧
    resolveExplicit tt [⟨['a'], some ⟨[], ['k'], [.dstar], []⟩⟩] (fun _ => []) = [] := by decide

/-! ## What the hypotheses exclude, and regression witnesses of repaired defects
(each input is replayed on the real code by the C06 check: corpus / excluded points) -/

/-- a top-level reserved word is read from the suffixed attribute … -/
theorem implicit_reserved_top_level :
    disambiguated ['c','l','a','s','s'] = ['c','l','a','s','s','_'] ∧
    attrPathValid (disambiguated ['c','l','a','s','s']) = true := by
  decide

/-- … and suffixing never produces another reserved word. -/
theorem suffixed_not_reserved :
    ∀ w ∈ Pinned.reservedNames, Pinned.reservedNames.contains (w ++ "_") = false := by decide

/-- regression witness for the repaired §9-F1 (`{book.class=…}`): the emitted tuple entry now reads
`request.book.class_` (it read `request.book.class` before a11332b).  Instance of `attr_path_valid`. -/
theorem implicit_dotted_keyword_regression :
    disambiguated ['b','o','o','k','.','c','l','a','s','s'] = ['b','o','o','k','.','c','l','a','s','s','_'] ∧
    attrPathValid (disambiguated ['b','o','o','k','.','c','l','a','s','s']) = true := by decide

/-- regression witness for the repaired keyword routing field (`field: "from"`): explicit routing
reads `request.from_` (52dedca) and still sends the key `from`. -/
theorem explicit_field_keyword_regression :
    disambiguated ['f','r','o','m'] = ['f','r','o','m','_'] ∧
    attrPathValid (disambiguated ['f','r','o','m']) = true ∧
    paramKey ⟨['f','r','o','m'], none⟩ = ['f','r','o','m'] := by decide

/-- an empty routing rule (annotation present, no parameters; repaired by 8b196df) sends no header,
    whatever the http rule says. -/
theorem empty_rule_no_header (ct : ClassTables) (verbs : List (List Char)) (r : Request) :
    header ct ⟨some [], verbs, false⟩ r = none := rfl

/-- outside the quantifier (hypothesis of `capture_eq_scan`): a value containing a newline is not
matched by `.*`; the template language would accept it. -/
theorem newline_counterexample :
    Model.Routing.capture tt ⟨[], ['k'], [.dstar], []⟩ ['a', '\n', 'b'] = none ∧
    scanCapture ⟨[], ['k'], [.dstar], []⟩ ['a', '\n', 'b'] = some ['a', '\n', 'b'] := by decide

/-- outside the grammar (`Template.wf`): with `**` before the last segment the regex backtracks
(`{k=a/**}/b` on `a/x/b` captures `a/x`), which the one-pass scanner does not follow. -/
theorem dstar_not_last_counterexample :
    (⟨[], ['k'], [.lit ['a'], .dstar], [.lit ['b']]⟩ : Template).wf = false ∧
    Model.Routing.capture tt ⟨[], ['k'], [.lit ['a'], .dstar], [.lit ['b']]⟩ ['a', '/', 'x', '/', 'b']
      = some ['a', '/', 'x'] ∧
    scanCapture ⟨[], ['k'], [.lit ['a'], .dstar], [.lit ['b']]⟩ ['a', '/', 'x', '/', 'b'] = none := by decide

/-- two named segments: the code raises `ValueError` at generation time (model: `manyNamed`). -/
theorem many_named_rejected :
    ofSegs [.named ['a'] [.star], .tok (.lit ['x']), .named ['b'] [.star]] = .error (.manyNamed 2) := by
  rfl

/-! ## Second deepening round: the http rule (custom verbs, additional bindings), `{key}`,
what the transports do with the metadata, templates without named segment in the emitted chain -/

private def tt2 : ClassTables := ⟨[], [], []⟩

/-- whatever member of the `pattern` oneof carries the path (get / put / post / delete / patch /
`custom {kind, path}`), `field_headers` reads that path -/
theorem primary_path_of_rule (h : HttpRule) : primaryPath h.verbs = h.path := by
  obtain ⟨v, p, a⟩ := h
  cases v <;> cases p <;> simp [HttpRule.verbs, primaryPath, List.find?]

/-- **Implicit routing depends on the http rule only through the path of its primary binding**:
the verb (in particular a `custom` verb: `custom { kind: "HEAD" path: … }`) and the additional
bindings do not influence the header. -/
theorem implicit_depends_on_primary_path_only (ct : ClassTables) (h1 h2 : HttpRule) (hp : h1.path = h2.path)
    (cs : Bool) (r : Request) :
    header ct (methodOf none (some h1) cs) r = header ct (methodOf none (some h2) cs) r := by
  simp only [header, methodOf, verbsOf, primary_path_of_rule, hp]

/-- instance: a custom verb routes like `get` with the same path, additional bindings or not -/
theorem custom_verb_routes_like_get (ct : ClassTables) (kind path : List Char)
    (bs : List (Verb × List Char)) (cs : Bool) (r : Request) :
    header ct (methodOf none (some ⟨.custom kind, path, bs⟩) cs) r
      = header ct (methodOf none (some ⟨.get, path, []⟩) cs) r :=
  implicit_depends_on_primary_path_only ct _ _ rfl cs r

/-- the variables sent for a method are exactly those of the primary binding's path, for every
member of the oneof (`implicit_vars_exact` through `HttpRule`) -/
theorem implicit_rule_vars_exact (ct : ClassTables) (h : HttpRule) (segs : List PSeg) (hw : WFPath segs)
    (hp : h.path = renderPath segs) :
    fieldHeaders ct (primaryPath (verbsOf (some h))) = pathVars segs := by
  simp only [verbsOf, primary_path_of_rule, hp]
  exact implicit_vars_exact ct segs hw

/-- hypotheses of `implicit_rule_vars_exact` on `custom {kind: "HEAD", path: "/v1/{name=shelves/*}"}` with an
additional binding on another variable -/
example :
    let h : HttpRule := ⟨.custom ['H','E','A','D'], ['/','v','1','/','{','n','a','m','e','=','s','h','e','l','v','e','s','/','*','}'],
      [(.get, ['/','v','1','/','{','p','a','r','e','n','t','}'])]⟩
    let segs : List PSeg := [.lit ['/','v','1','/'], .var ['n','a','m','e'] (some ['s','h','e','l','v','e','s','/','*'])]
    WFPath segs ∧ h.path = renderPath segs ∧ pathVars segs = [['n','a','m','e']] := by
  simp [WFPath, renderPath, pathVars]

/-- no `google.api.http` option and no routing annotation: no header -/
theorem no_http_rule_no_header (ct : ClassTables) (cs : Bool) (r : Request) :
    header ct (methodOf none none cs) r = none := by
  have h : fieldHeaders ct (primaryPath (verbsOf none)) = [] := by
    have := implicit_vars_exact ct [] trivial
    simpa [verbsOf, primaryPath, renderPath, pathVars] using this
  cases cs <;> simp [header, methodOf, implicitHeader, h]

/-! ### `{key}` -/

section AuxBare
theorem isNamed_unbare (s : Seg) : s.unbare.isNamed = s.isNamed := by cases s <;> rfl
theorem tok?_unbare (s : Seg) : s.unbare.tok? = s.tok? := by cases s <;> rfl

theorem filter_isNamed_unbare (r : List Seg) :
    ((r.map Seg.unbare).filter Seg.isNamed).length = (r.filter Seg.isNamed).length := by
  induction r with
  | nil => rfl
  | cons s r ih =>
    simp only [List.map_cons, List.filter_cons, isNamed_unbare]
    split <;> simp [ih]

theorem filterMap_tok?_unbare (r : List Seg) :
    (r.map Seg.unbare).filterMap Seg.tok? = r.filterMap Seg.tok? := by
  induction r with
  | nil => rfl
  | cons s r ih => simp only [List.map_cons, List.filterMap_cons, tok?_unbare, ih]

theorem ofSegsAux_unbare : ∀ (segs : List Seg) (acc : List Tok),
    ofSegsAux (segs.map Seg.unbare) acc = ofSegsAux segs acc := by
  intro segs
  induction segs with
  | nil => intro acc; rfl
  | cons s r ih =>
    intro acc
    cases s with
    | tok t => simp only [List.map_cons, Seg.unbare, ofSegsAux, ih]
    | named k sub =>
      simp only [List.map_cons, Seg.unbare, ofSegsAux, filter_isNamed_unbare, filterMap_tok?_unbare]
    | bare k =>
      simp only [List.map_cons, Seg.unbare, ofSegsAux, filter_isNamed_unbare, filterMap_tok?_unbare]
end AuxBare

/-- **`{key}` is `{key=*}`**: a template with the short form parses to the same `Template` (hence the
same regex, key and captures) as the one with every `{key}` written `{key=*}`; two named segments
of either form are rejected alike. -/
theorem bare_is_star (segs : List Seg) : ofSegs (segs.map Seg.unbare) = ofSegs segs :=
  ofSegsAux_unbare segs []

/-- `projects/{k}` captures one non-empty segment … -/
example : (ofSegs [.tok (.lit ['p']), .bare ['k']]).toOption.map (fun t => Model.Routing.capture tt2 t ['p', '/', 'x'])
    = some (some ['x']) := by decide
/-- … and is rejected next to another named segment -/
example : ofSegs [.bare ['a'], .named ['b'] [.star]] = .error (.manyNamed 2) := rfl

/-! ### transports: the metadata sequence, gRPC (every pair) and REST (`dict(metadata)`) -/

section AuxTransport
theorem getLast?_cons_orElse (v : List Char) (l : List (List Char)) :
    (v :: l).getLast? = l.getLast?.orElse (fun _ => some v) := by
  cases l with
  | nil => rfl
  | cons a l =>
    rw [List.getLast?_cons_cons]
    cases h : (a :: l).getLast? with
    | none => simp at h
    | some w => rfl

theorem dictGet_restFold (k : List Char) : ∀ (md : List (List Char × List Char)) (acc : List (List Char × List Char)),
    dictGet (md.foldl (fun d kv => dictSet d kv.1 kv.2) acc) k
      = ((grpcValues md k).getLast?).orElse (fun _ => dictGet acc k) := by
  intro md
  induction md with
  | nil => intro acc; simp [grpcValues]
  | cons kv md ih =>
    intro acc
    obtain ⟨k', v⟩ := kv
    simp only [List.foldl_cons, ih]
    by_cases h : k' = k
    · subst h
      simp only [grpcValues, List.filter_cons, decide_true, if_true, List.map_cons, dictGet_dictSet_same,
        getLast?_cons_orElse]
      cases ((List.filter (fun x => decide (x.1 = k')) md).map (·.2)).getLast? <;> rfl
    · simp only [grpcValues, List.filter_cons, h, decide_false, Bool.false_eq_true, if_false,
        dictGet_dictSet_other _ _ _ _ h]

theorem grpcValues_append (a b : List (List Char × List Char)) (k : List Char) :
    grpcValues (a ++ b) k = grpcValues a k ++ grpcValues b k := by
  simp [grpcValues]

theorem grpcValues_absent (a : List (List Char × List Char)) (k : List Char) (h : ∀ kv ∈ a, kv.1 ≠ k) :
    grpcValues a k = [] := by
  simp only [grpcValues, List.map_eq_nil_iff, List.filter_eq_nil_iff]
  intro kv hkv
  simpa using h kv hkv
end AuxTransport

/-- **What an HTTP server sees under a header name is the LAST value a gRPC server sees under
it**: the REST transports send `dict(metadata)`, the gRPC transports every pair. -/
theorem rest_value_is_last_grpc_value (md : List (List Char × List Char)) (k : List Char) :
    restValue md k = (grpcValues md k).getLast? := by
  unfold restValue restHeaders
  rw [dictGet_restFold k md []]
  cases (grpcValues md k).getLast? <;> rfl

/-- **gRPC (sync, asyncio) and REST (sync, asyncio) carry the same routing header**: when neither
the caller's metadata nor what the wrapped method appends uses the header name, a gRPC server sees
exactly the value `create_metadata` computed (once, or no such header) and an HTTP server sees the
same. -/
theorem transports_agree_on_routing_header (user extra : List (List Char × List Char))
    (routing : Option (List Char))
    (hu : ∀ kv ∈ user, kv.1 ≠ hdrName) (he : ∀ kv ∈ extra, kv.1 ≠ hdrName) :
    grpcValues (callMetadata user routing extra) hdrName = routing.toList ∧
    restValue (callMetadata user routing extra) hdrName = routing := by
  have hg : grpcValues (callMetadata user routing extra) hdrName = routing.toList := by
    unfold callMetadata
    rw [grpcValues_append, grpcValues_append, grpcValues_absent user _ hu, grpcValues_absent extra _ he]
    cases routing <;> simp [grpcValues]
  refine ⟨hg, ?_⟩
  rw [rest_value_is_last_grpc_value, hg]
  cases routing <;> rfl

/-- **"sync, asyncio and REST paths agree"**, end to end in the model: for every method and request, a
gRPC server and an HTTP server both see exactly the header `create_metadata` computes (`header`:
explicit fold, implicit pairs, or none), whatever else the caller and the wrapped method put into
the metadata under other names. -/
theorem every_transport_carries_the_header (ct : ClassTables) (m : Method) (r : Request)
    (user extra : List (List Char × List Char))
    (hu : ∀ kv ∈ user, kv.1 ≠ hdrName) (he : ∀ kv ∈ extra, kv.1 ≠ hdrName) :
    grpcValues (callMetadata user (header ct m r) extra) hdrName = (header ct m r).toList ∧
    restValue (callMetadata user (header ct m r) extra) hdrName = header ct m r :=
  transports_agree_on_routing_header user extra (header ct m r) hu he

/-- hypotheses of `transports_agree_on_routing_header`: the caller's `x-verif` pair and api-core's
`x-goog-api-client` pair do not use the header name -/
example : (∀ kv ∈ [(['x','-','v','e','r','i','f'], ['1'])], kv.1 ≠ hdrName) ∧
    (∀ kv ∈ [("x-goog-api-client".toList, ['g'])], kv.1 ≠ hdrName) := by decide

/-- the REST transports keep every other metadata key of the call -/
theorem rest_keeps_other_metadata (user extra : List (List Char × List Char)) (routing : Option (List Char))
    (k : List Char) (hk : k ≠ hdrName) :
    restValue (callMetadata user routing extra) k = (grpcValues (user ++ extra) k).getLast? := by
  rw [rest_value_is_last_grpc_value]
  have hne : ¬ (hdrName = k) := fun e => hk e.symm
  cases routing with
  | none => simp [callMetadata]
  | some h =>
    simp only [callMetadata, grpcValues_append]
    have hmid : grpcValues [(hdrName, h)] k = [] := by simp [grpcValues, hne]
    rw [hmid, List.append_nil]

/-- outside the statement (hypothesis `hu` of `transports_agree_on_routing_header`): a caller who passes an own
`x-goog-request-params` pair gets BOTH values on gRPC and only the computed one on REST. -/
theorem caller_supplied_header_counterexample :
    grpcValues (callMetadata [(hdrName, ['a','=','1'])] (some ['k','=','v']) []) hdrName = [['a','=','1'], ['k','=','v']] ∧
    restValue (callMetadata [(hdrName, ['a','=','1'])] (some ['k','=','v']) []) hdrName = some ['k','=','v'] := by
  decide

/-! ### programs: the header of a call depends on that call's own request only -/

/-- **The caller's metadata objects are never written**, whatever the program. -/
theorem program_store_unchanged (extra : List (List Char × List Char)) :
    ∀ (cs : List Call) (st : MdStore), (runProgram extra st cs).2 = st := by
  intro cs
  induction cs with
  | nil => intro st; rfl
  | cons c cs ih => intro st; simp only [runProgram, callStep, ih]

/-- **No state between calls**: what the transport receives in the k-th call is computed from the
k-th call alone — the object the caller passes (as the caller built it) and the header of that
call's own request; earlier calls, and passing the same object again, have no influence. -/
theorem program_wire_stateless (extra : List (List Char × List Char)) :
    ∀ (cs : List Call) (st : MdStore),
      (runProgram extra st cs).1 = cs.map fun c => callMetadata (st.read c.md) c.routing extra := by
  intro cs
  induction cs with
  | nil => intro st; rfl
  | cons c cs ih => intro st; simp only [runProgram, callStep, ih, List.map_cons]

/-- **Every call of every program carries exactly the header of its own request**, once (or not at
all when `create_metadata` computes none), on gRPC and on REST: for programs over any methods and
requests, with caller objects and appended pairs that do not use the header name. -/
theorem program_one_header_per_call (ct : ClassTables) (extra : List (List Char × List Char)) (st : MdStore)
    (calls : List (Method × Request × Option Nat))
    (hst : ∀ o ∈ st, ∀ kv ∈ o, kv.1 ≠ hdrName) (he : ∀ kv ∈ extra, kv.1 ≠ hdrName) :
    ∀ w ∈ (calls.zip (runProgram extra st (calls.map fun c => ⟨header ct c.1 c.2.1, c.2.2⟩)).1),
      grpcValues w.2 hdrName = (header ct w.1.1 w.1.2.1).toList ∧
      restValue w.2 hdrName = header ct w.1.1 w.1.2.1 := by
  rw [program_wire_stateless, List.map_map]
  intro w hw
  obtain ⟨c, wire⟩ := w
  have hmem := List.of_mem_zip hw
  have hw2 : wire = callMetadata (st.read c.2.2) (header ct c.1 c.2.1) extra := by
    have := List.mem_iff_getElem.mp hw
    obtain ⟨i, hi, hget⟩ := this
    simp only [List.getElem_zip, List.getElem_map, Function.comp] at hget
    have h1 := congrArg Prod.fst hget
    have h2 := congrArg Prod.snd hget
    simp only at h1 h2
    rw [← h2, ← h1]
  subst hw2
  have hu : ∀ kv ∈ st.read c.2.2, kv.1 ≠ hdrName := by
    cases hc : c.2.2 with
    | none => intro kv hkv; simp [MdStore.read] at hkv
    | some i =>
      intro kv hkv
      simp only [MdStore.read, List.getD_eq_getElem?_getD] at hkv
      cases hg : st[i]? with
      | none => simp [hg] at hkv
      | some o =>
        simp only [hg, Option.getD_some] at hkv
        exact hst o (List.mem_of_getElem? hg) kv hkv
  exact every_transport_carries_the_header ct c.1 c.2.1 _ extra hu he

/-- hypotheses of `program_one_header_per_call`: two caller objects without the header name -/
example : ∀ o ∈ ([[(['x','-','v','e','r','i','f'], ['1'])], []] : MdStore), ∀ kv ∈ o, kv.1 ≠ hdrName := by decide

/-- a program that passes object 0 three times: the third call's wire carries ONE routing header,
that of the third call, and object 0 is what it was -/
example :
    let st : MdStore := [[(['x'], ['1'])]]
    let p := runProgram [] st [⟨some ['a','=','1'], some 0⟩, ⟨some ['a','=','2'], some 0⟩, ⟨some ['b','=','3'], some 0⟩]
    p.1.map (fun w => grpcValues w hdrName) = [[['a','=','1']], [['a','=','2']], [['b','=','3']]] ∧ p.2 = st := by
  decide

/-! ### a template without named segment in the emitted chain -/

/-- outside routing.proto ("exactly one named segment"), accepted by the generator: the emitted
`regex_match.group("<field>")` raises IndexError exactly for the values of the template's language
(declaratively: `matchSegs`); every other value contributes nothing. -/
theorem unnamed_chain_raises_iff_language (ct : ClassTables) (ts : List Tok) (hne : ts ≠ [])
    (hd : dstarOnlyLast ts = true) (hl : litsOk ts = true) (v : List Char) (hnl : '\n' ∉ v) :
    chainRaises ct ts v = matchSegs ts (splitSlash v) :=
  unnamed_regex_language ct ts hne hd hl v hnl

example : chainRaises tt2 [.lit ['p'], .star] ['p', '/', 'x'] = true ∧
    chainRaises tt2 [.lit ['p'], .star] ['q', '/', 'x'] = false := by decide

/-! ### literal segments are copied into the pattern unescaped -/

/-- a collection id without `.` is inserted as the characters themselves (what `tokItems` models) -/
theorem lit_items_plain (cs : List Char) (h : '.' ∉ cs) : litItemsReal cs = tokItems (.lit cs) := by
  unfold litItemsReal tokItems
  apply List.map_congr_left
  intro c hc
  have : c ≠ '.' := fun e => h (e ▸ hc)
  simp [this]

example : '.' ∉ ['k','8','s','-','i','t','e','m','s'] := by decide

/-- outside the generated space (hypothesis of `lit_items_plain`): the literal `v1.0` also accepts
`v1x0`; the template language does not. -/
theorem dot_literal_counterexample :
    (pyMatch tt2 (seqR (.bol :: litItemsReal ['v','1','.','0'] ++ [.eol])) ['v','1','x','0']).isSome = true ∧
    scanTok (.lit ['v','1','.','0']) ['v','1','x','0'] = none := by decide

/-! ## Link to the functions translated from /repo's source (harness/pyfun2lean.py) -/

section Translated
open GapicModel.PyRt

theorem splitAux_splitDotsAux : ∀ (s cur : List Char),
    splitAux ['.'] 0 cur s = (cur.reverse ++ (splitDotsAux s).1) :: (splitDotsAux s).2 := by
  intro s
  induction s with
  | nil => intro cur; simp [splitAux, splitDotsAux]
  | cons d ds ih =>
    intro cur
    by_cases hd : d = '.'
    · subst hd
      simp only [splitAux, List.isPrefixOf, beq_self_eq_true, Bool.true_and, if_true, List.length_singleton,
        Nat.sub_self, splitDotsAux]
      rw [ih []]
      simp
    · have hne : ('.' == d) = false := by simp [beq_eq_false_iff_ne]; exact fun e => hd e.symm
      simp only [splitAux, List.isPrefixOf, hne, Bool.false_and, Bool.false_eq_true, if_false, splitDotsAux, hd]
      rw [ih (d :: cur)]
      simp

/-- the model's `str.split(".")` is the translator run-time library's -/
theorem splitDots_is_split (s : List Char) : splitDots s = split s ['.'] := by
  unfold split splitDots
  rw [splitAux_splitDotsAux s []]
  simp

/-- the model's `".".join` is the translator run-time library's -/
theorem joinDots_is_join (xs : List (List Char)) : joinDots xs = join ['.'] xs := by
  induction xs with
  | nil => rfl
  | cons a r ih =>
    cases r with
    | nil => rfl
    | cons b r' => simp only [joinDots, join, ih]; simp

theorem reserved_contains_strIn (seg : List Char) :
    Pinned.reservedNames.contains (String.ofList seg) = strIn seg (Pinned.reservedNames.map String.toList) := by
  generalize Pinned.reservedNames = tbl
  induction tbl with
  | nil => simp [strIn]
  | cons a t ih =>
    simp only [strIn, List.map_cons, List.contains_cons] at ih ⊢
    rw [ih]
    congr 1
    rw [Bool.eq_iff_iff]
    simp only [beq_iff_eq]
    constructor
    · intro h; rw [← h]; simp
    · intro h; rw [h]; simp

theorem suffixSeg_is_translated (seg : List Char) :
    suffixSeg seg = (if strIn seg (Pinned.reservedNames.map String.toList) then seg ++ ['_'] else seg) := by
  unfold suffixSeg
  rw [reserved_contains_strIn]

/-- `disambiguated` IS the code's current `FieldHeader.disambiguated`
    (translated from gapic/schema/wrappers.py on every run; bridge lemma `Bridge.Funcs`) -/
theorem disambiguated_is_field_header (raw : List Char) :
    disambiguated raw = Pinned.Funcs.field_header_disambiguated raw := by
  unfold disambiguated Pinned.Funcs.field_header_disambiguated
  rw [joinDots_is_join, splitDots_is_split]
  congr 1
  apply List.map_congr_left
  intro seg _
  exact suffixSeg_is_translated seg

/-- … and the code's current `RoutingParameter.disambiguated_field` -/
theorem disambiguated_is_routing_param_field (field : List Char) :
    disambiguated field = Pinned.Funcs.routing_param_disambiguated_field field := by
  unfold disambiguated Pinned.Funcs.routing_param_disambiguated_field
  rw [joinDots_is_join, splitDots_is_split]
  congr 1
  apply List.map_congr_left
  intro seg _
  exact suffixSeg_is_translated seg

end Translated

end GapicModel.Props.C06
