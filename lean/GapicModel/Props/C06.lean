import GapicModel.Model.Routing
import GapicModel.Lemmas.Regex
import GapicModel.Pinned.CharClass
/-
C06 — every call carries an x-goog-request-params header that follows AIP-4222.
Property theorems about `Model/Routing.lean` (helper lemmas specific to them in `section Aux`).
No Mathlib.
-/
namespace GapicModel.Props.C06
open GapicModel.Regex GapicModel.Model.Routing

/-- the value parameter `p` contributes under key `k` for request `r` (nothing if it contributes
    under another key, does not match, or captures the empty string) -/
def contribFor (ct : ClassTables) (r : Request) (k : List Char) (p : Param) : Option (List Char) :=
  match contrib ct r p with
  | some (k', v) => if k' = k then some v else none
  | none => none

/-- AIP-4222 "last one wins": the contribution of the last parameter that contributes under `k` -/
def lastContrib (ct : ClassTables) (r : Request) (k : List Char) (ps : List Param) : Option (List Char) :=
  ps.reverse.findSome? (contribFor ct r k)

section Aux

theorem dictGet_dictSet_same (d : List (List Char × List Char)) (k v : List Char) :
    dictGet (dictSet d k v) k = some v := by
  induction d with
  | nil => simp [dictSet, dictGet]
  | cons kv d ih =>
    obtain ⟨k', v'⟩ := kv
    by_cases h : k' = k
    · simp [dictSet, dictGet, h]
    · simp only [dictSet, h, if_false]
      simp only [dictGet, List.find?, h, decide_false] at ih ⊢
      exact ih

theorem dictGet_dictSet_other (d : List (List Char × List Char)) (k k' v : List Char) (hne : k ≠ k') :
    dictGet (dictSet d k v) k' = dictGet d k' := by
  induction d with
  | nil => simp [dictSet, dictGet, hne]
  | cons kv d ih =>
    obtain ⟨k2, v2⟩ := kv
    by_cases h : k2 = k
    · subst h
      simp [dictSet, dictGet, hne]
    · simp only [dictSet, h, if_false]
      by_cases h2 : k2 = k'
      · simp [dictGet, h2]
      · simp only [dictGet, List.find?, h2, decide_false] at ih ⊢
        exact ih

theorem dictGet_step (ct : ClassTables) (r : Request) (acc) (p : Param) (k : List Char) :
    dictGet (step ct r acc p) k = (contribFor ct r k p).orElse (fun _ => dictGet acc k) := by
  unfold step contribFor
  cases hc : contrib ct r p with
  | none => simp
  | some kv =>
    obtain ⟨k', v⟩ := kv
    by_cases h : k' = k
    · subst h; simp [dictGet_dictSet_same]
    · simp [h, dictGet_dictSet_other _ _ _ _ h]

theorem dictGet_foldl (ct : ClassTables) (r : Request) (k : List Char) :
    ∀ (ps : List Param) (acc : List (List Char × List Char)),
      dictGet (ps.foldl (step ct r) acc) k = (lastContrib ct r k ps).orElse (fun _ => dictGet acc k) := by
  intro ps
  induction ps with
  | nil => intro acc; simp [lastContrib]
  | cons p ps ih =>
    intro acc
    simp only [List.foldl_cons, ih, dictGet_step, lastContrib, List.reverse_cons, List.findSome?_append]
    have h1 : List.findSome? (contribFor ct r k) [p] = contribFor ct r k p := by
      cases h : contribFor ct r k p <;> simp [List.findSome?, h]
    rw [h1]
    generalize List.findSome? (contribFor ct r k) ps.reverse = a
    generalize contribFor ct r k p = c
    cases a <;> cases c <;> simp

theorem dictSet_ne_nil (d : List (List Char × List Char)) (k v : List Char) : dictSet d k v ≠ [] := by
  cases d with
  | nil => simp [dictSet]
  | cons kv d => obtain ⟨k', v'⟩ := kv; simp only [dictSet]; split <;> simp

theorem foldl_eq_nil (ct : ClassTables) (r : Request) :
    ∀ (ps : List Param) (acc : List (List Char × List Char)),
      ps.foldl (step ct r) acc = [] ↔ acc = [] ∧ ∀ p ∈ ps, contrib ct r p = none := by
  intro ps
  induction ps with
  | nil => intro acc; simp
  | cons p ps ih =>
    intro acc
    simp only [List.foldl_cons, ih, List.mem_cons, forall_eq_or_imp]
    unfold step
    cases hc : contrib ct r p with
    | none => simp
    | some kv => obtain ⟨k, v⟩ := kv; simp [dictSet_ne_nil]

theorem mem_dictSet (d : List (List Char × List Char)) (k v : List Char) (kv : List Char × List Char)
    (h : kv ∈ dictSet d k v) : kv = (k, v) ∨ kv ∈ d := by
  induction d with
  | nil => simp [dictSet] at h; exact Or.inl h
  | cons hd d ih =>
    obtain ⟨k', v'⟩ := hd
    simp only [dictSet] at h
    split at h
    · simp only [List.mem_cons] at h ⊢
      rcases h with h | h
      · exact Or.inl h
      · exact Or.inr (Or.inr h)
    · simp only [List.mem_cons] at h ⊢
      rcases h with h | h
      · exact Or.inr (Or.inl h)
      · rcases ih h with h | h
        · exact Or.inl h
        · exact Or.inr (Or.inr h)

theorem keys_dictSet (d : List (List Char × List Char)) (k v : List Char) :
    (dictSet d k v).map (·.1) = if k ∈ d.map (·.1) then d.map (·.1) else d.map (·.1) ++ [k] := by
  induction d with
  | nil => simp [dictSet]
  | cons hd d ih =>
    obtain ⟨k', v'⟩ := hd
    by_cases h : k' = k
    · subst h; simp [dictSet]
    · have h' : ¬ k = k' := fun e => h e.symm
      simp only [dictSet, h, if_false, List.map_cons, ih, List.mem_cons, h', false_or]
      split <;> simp

theorem contrib_nonempty (ct : ClassTables) (r : Request) (p : Param) (k v : List Char)
    (h : contrib ct r p = some (k, v)) : v ≠ [] ∧ k = paramKey p := by
  unfold contrib at h
  unfold paramKey
  cases ht : p.template with
  | none =>
    simp only [ht] at h ⊢
    split at h
    · simp at h
    · simp only [Option.some.injEq, Prod.mk.injEq] at h
      obtain ⟨h1, h2⟩ := h
      subst h1 h2
      exact ⟨by assumption, rfl⟩
  | some t =>
    simp only [ht] at h ⊢
    split at h
    · split at h
      · simp at h
      · simp only [Option.some.injEq, Prod.mk.injEq] at h
        obtain ⟨h1, h2⟩ := h
        subst h1 h2
        exact ⟨by assumption, rfl⟩
    · simp at h

end Aux

/-! ## Explicit routing (google.api.routing) -/

/-- **Last one wins** (flagship).  For every list of routing parameters, every request and every
key, the value stored under the key after the emitted chain is the contribution of the LAST
parameter that contributes under that key (matches its template with a non-empty capture, or —
without template — has a non-empty field); the key is absent iff no parameter contributes. -/
theorem explicit_last_wins (ct : ClassTables) (ps : List Param) (r : Request) (k : List Char) :
    dictGet (resolveExplicit ct ps r) k = lastContrib ct r k ps := by
  have := dictGet_foldl ct r k ps []
  simpa [resolveExplicit, dictGet] using this

/-- the same, spelled out on a decomposition of the parameter list: a contributing parameter
after which no parameter with the same key contributes determines the value. -/
theorem explicit_last_wins_split (ct : ClassTables) (before after : List Param) (p : Param) (r : Request)
    (k v : List Char) (hp : contrib ct r p = some (k, v))
    (hafter : ∀ q ∈ after, paramKey q = k → contrib ct r q = none) :
    dictGet (resolveExplicit ct (before ++ p :: after) r) k = some v := by
  rw [explicit_last_wins]
  simp only [lastContrib, List.reverse_append, List.reverse_cons, List.append_assoc, List.findSome?_append]
  have hnone : List.findSome? (contribFor ct r k) after.reverse = none := by
    rw [List.findSome?_eq_none_iff]
    intro q hq
    have hq' : q ∈ after := by simpa using hq
    unfold contribFor
    cases hc : contrib ct r q with
    | none => rfl
    | some kv =>
      obtain ⟨k', v'⟩ := kv
      by_cases hk : k' = k
      · have := (contrib_nonempty ct r q k' v' hc).2
        rw [hafter q hq' (by rw [← this, hk])] at hc
        cases hc
      · simp [hk]
  simp [hnone, contribFor, hp, List.findSome?]

/-- a key under which no parameter contributes is not sent. -/
theorem explicit_absent (ct : ClassTables) (ps : List Param) (r : Request) (k : List Char)
    (h : ∀ p ∈ ps, paramKey p = k → contrib ct r p = none) :
    dictGet (resolveExplicit ct ps r) k = none := by
  rw [explicit_last_wins]
  simp only [lastContrib]
  rw [List.findSome?_eq_none_iff]
  intro q hq
  have hq' : q ∈ ps := by simpa using hq
  unfold contribFor
  cases hc : contrib ct r q with
  | none => rfl
  | some kv =>
    obtain ⟨k', v'⟩ := kv
    by_cases hk : k' = k
    · have := (contrib_nonempty ct r q k' v' hc).2
      rw [h q hq' (by rw [← this, hk])] at hc
      cases hc
    · simp [hk]

/-- **No header when nothing matches** — and only then. -/
theorem explicit_none_no_header (ct : ClassTables) (ps : List Param) (r : Request) :
    explicitHeader ct ps r = none ↔ ∀ p ∈ ps, contrib ct r p = none := by
  have h := foldl_eq_nil ct r ps []
  simp only [true_and] at h
  unfold explicitHeader
  rw [← h]
  unfold resolveExplicit
  cases List.foldl (step ct r) [] ps <;> simp

/-- a parameter without `path_template` passes the (non-empty) field through under the field's name. -/
theorem no_template_passes_value (ct : ClassTables) (r : Request) (f : List Char) :
    contrib ct r ⟨f, none⟩ = if r f = [] then none else some (f, r f) := rfl

/-- a parameter with a template contributes its non-empty capture under the template's key. -/
theorem template_contributes_capture (ct : ClassTables) (r : Request) (f : List Char) (t : Template) :
    contrib ct r ⟨f, some t⟩ =
      match capture ct t (r f) with
      | some v => if v = [] then none else some (t.key, v)
      | none => none := rfl

/-- empty values are never sent, and each pair is sent under its parameter's key. -/
theorem explicit_values_nonempty (ct : ClassTables) (ps : List Param) (r : Request) :
    ∀ kv ∈ resolveExplicit ct ps r, kv.2 ≠ [] ∧ ∃ p ∈ ps, contrib ct r p = some kv := by
  suffices h : ∀ (ps : List Param) (acc : List (List Char × List Char)),
      ∀ kv ∈ ps.foldl (step ct r) acc, kv ∈ acc ∨ (kv.2 ≠ [] ∧ ∃ p ∈ ps, contrib ct r p = some kv) by
    intro kv hkv
    rcases h ps [] kv hkv with h | h
    · simp at h
    · exact h
  intro ps
  induction ps with
  | nil => intro acc kv h; exact Or.inl h
  | cons p ps ih =>
    intro acc kv hkv
    simp only [List.foldl_cons] at hkv
    rcases ih _ kv hkv with h | ⟨h1, q, hq, hq2⟩
    · unfold step at h
      cases hc : contrib ct r p with
      | none => simp only [hc] at h; exact Or.inl h
      | some kv' =>
        obtain ⟨k', v'⟩ := kv'
        simp only [hc] at h
        rcases mem_dictSet _ _ _ _ h with h | h
        · subst h
          exact Or.inr ⟨(contrib_nonempty ct r p k' v' hc).1, p, by simp, hc⟩
        · exact Or.inl h
    · exact Or.inr ⟨h1, q, by simp [hq], hq2⟩

/-- one pair per key: the keys of the header are pairwise distinct. -/
theorem explicit_keys_nodup (ct : ClassTables) (ps : List Param) (r : Request) :
    ((resolveExplicit ct ps r).map (·.1)).Nodup := by
  suffices h : ∀ (ps : List Param) (acc : List (List Char × List Char)),
      (acc.map (·.1)).Nodup → ((ps.foldl (step ct r) acc).map (·.1)).Nodup by
    exact h ps [] (by simp)
  intro ps
  induction ps with
  | nil => intro acc h; exact h
  | cons p ps ih =>
    intro acc h
    simp only [List.foldl_cons]
    apply ih
    unfold step
    cases hc : contrib ct r p with
    | none => exact h
    | some kv =>
      obtain ⟨k, v⟩ := kv
      simp only [keys_dictSet]
      split
      · exact h
      · rename_i hk
        rw [List.nodup_append]
        refine ⟨h, by simp, ?_⟩
        intro a ha b hb
        simp only [List.mem_singleton] at hb
        subst hb
        intro hab; subst hab
        exact hk ha

/-- the key of a parameter is its template's named segment, or the field name without template
    (`RoutingParameter.key`; the regex has exactly that one named group). -/
theorem key_is_named_segment (t : Template) :
    (toRegex t).names = [(String.ofList (templateKey t), 1)] ∧ paramKey ⟨f, some t⟩ = t.key
      ∧ paramKey ⟨f, none⟩ = f := ⟨rfl, rfl, rfl⟩

/-! ## Implicit routing (no google.api.routing; variables of the primary http path) -/

/-- well-formed tokenised http path: literal text has no `{`; variable names contain none of
    `= } newline`; the sub-template of a variable has no `{`. -/
def WFPath : List PSeg → Prop
  | [] => True
  | .lit cs :: r => '{' ∉ cs ∧ WFPath r
  | .var n none :: r => ('=' ∉ n ∧ '}' ∉ n ∧ '\n' ∉ n) ∧ WFPath r
  | .var n (some t) :: r => ('=' ∉ n ∧ '}' ∉ n ∧ '\n' ∉ n) ∧ '{' ∉ t ∧ WFPath r

section AuxImplicit

private abbrev fh : Re := Pinned.fieldHeaders.re

/-- the `field_headers` regex does not match at a character other than `{`. -/
theorem fh_fail (ct : ClassTables) (pre : List Char) (c : Char) (cs : List Char) (hc : c ≠ '{') :
    matchAt ct fh pre (c :: cs) = none := by
  simp [matchAt, fh, Pinned.fieldHeaders, m, Ne.symm hc]

theorem findall_skip (ct : ClassTables) : ∀ (junk : List Char), '{' ∉ junk →
    ∀ (n : Nat) (pre rest : List Char),
      findallLoop ct fh 1 (junk.length + n) pre (junk ++ rest) = findallLoop ct fh 1 n (junk.reverse ++ pre) rest := by
  intro junk
  induction junk with
  | nil => intro _ n pre rest; simp
  | cons c cs ih =>
    intro hj n pre rest
    have hc : c ≠ '{' := by intro h; apply hj; simp [h]
    have hcs : '{' ∉ cs := by intro h; apply hj; simp [h]
    have hlen : (c :: cs).length + n = (cs.length + n) + 1 := by simp; omega
    rw [hlen]
    simp only [List.cons_append, findallLoop, fh_fail ct pre c (cs ++ rest) hc]
    rw [ih hcs n (c :: pre) rest]
    simp

/-- at `{name` followed by `=` or `}`, the regex matches lazily up to that character and captures the name. -/
theorem fh_match (ct : ClassTables) (pre name rest : List Char) (d : Char)
    (hd : d = '=' ∨ d = '}') (h1 : '=' ∉ name) (h2 : '}' ∉ name) (h3 : '\n' ∉ name) :
    matchAt ct fh pre ('{' :: name ++ d :: rest)
      = some ⟨d :: (name.reverse ++ '{' :: pre), rest, [(1, name)]⟩ := by
  simp only [matchAt, fh, Pinned.fieldHeaders, m]
  have hstar := star_any_lazy ct
    (fun s' => m ct (.cls false [.ch '=', .ch '}'])
      { s' with caps := (1, Regex.capture ⟨'{' :: pre, name ++ d :: rest, []⟩ s') :: s'.caps } some)
    ⟨'{' :: pre, name ++ d :: rest, []⟩
  simp only [m] at hstar
  simp only [List.cons_append]
  rw [hstar]
  rw [lazySpec_skip _ [] name ('{' :: pre) (d :: rest) h3]
  · have hcap : Regex.capture ⟨'{' :: pre, name ++ d :: rest, []⟩ ⟨name.reverse ++ '{' :: pre, d :: rest, []⟩ = name := by
      simp only [Regex.capture]
      have e1 : (name.reverse ++ '{' :: pre).length - ('{' :: pre).length = name.reverse.length := by simp
      rw [e1, List.take_left']
      · simp
      · rfl
    simp only [lazySpec, hcap]
    have hcls : clsTest ct false [.ch '=', .ch '}'] d = true := by
      rcases hd with hd | hd <;> subst hd <;> simp [clsTest, CItem.test]
    simp [hcls, Option.orElse]
  · intro j hj
    have hne : name.drop j ≠ [] := by simp; omega
    cases hx : name.drop j with
    | nil => exact absurd hx hne
    | cons e tl =>
      have hmem : e ∈ name := List.mem_of_mem_drop (by rw [hx]; simp)
      have he1 : e ≠ '=' := by intro h; subst h; exact h1 hmem
      have he2 : e ≠ '}' := by intro h; subst h; exact h2 hmem
      simp [clsTest, CItem.test, Ne.symm he1, Ne.symm he2]

theorem findall_var (ct : ClassTables) (n : Nat) (pre name rest : List Char) (d : Char)
    (hd : d = '=' ∨ d = '}') (h1 : '=' ∉ name) (h2 : '}' ∉ name) (h3 : '\n' ∉ name) :
    findallLoop ct fh 1 (n + 1) pre ('{' :: name ++ d :: rest)
      = name :: findallLoop ct fh 1 n (d :: (name.reverse ++ '{' :: pre)) rest := by
  have hm := fh_match ct pre name rest d hd h1 h2 h3
  have e : ('{' :: name ++ d :: rest) = '{' :: (name ++ d :: rest) := by simp
  rw [e] at hm ⊢
  rw [findallLoop]
  simp only [hm]
  rw [if_pos (by simp; omega)]
  simp [St.group?]

theorem findall_path (ct : ClassTables) : ∀ (segs : List PSeg), WFPath segs →
    ∀ (n : Nat) (pre : List Char), (renderPath segs).length < n →
      findallLoop ct fh 1 n pre (renderPath segs) = pathVars segs := by
  intro segs
  induction segs with
  | nil =>
    intro _ n pre _
    cases n <;> simp [renderPath, pathVars, findallLoop]
  | cons sg r ih =>
    intro hwf n pre hn
    cases sg with
    | lit cs =>
      simp only [WFPath] at hwf
      simp only [renderPath, pathVars, List.length_append] at hn ⊢
      obtain ⟨n', rfl⟩ : ∃ n', n = cs.length + n' := ⟨n - cs.length, by omega⟩
      rw [findall_skip ct cs hwf.1 n' pre (renderPath r)]
      exact ih hwf.2 n' _ (by omega)
    | var name tmpl =>
      cases tmpl with
      | none =>
        simp only [WFPath] at hwf
        obtain ⟨⟨h1, h2, h3⟩, hr⟩ := hwf
        simp only [renderPath, pathVars] at hn ⊢
        cases n with
        | zero => simp at hn
        | succ n =>
          rw [findall_var ct n pre name (renderPath r) '}' (Or.inr rfl) h1 h2 h3]
          simp only [List.length_cons, List.length_append] at hn
          rw [ih hr n _ (by omega)]
      | some t =>
        simp only [WFPath] at hwf
        obtain ⟨⟨h1, h2, h3⟩, ht, hr⟩ := hwf
        simp only [renderPath, pathVars] at hn ⊢
        cases n with
        | zero => simp at hn
        | succ n =>
          rw [show ('{' :: name ++ '=' :: t ++ '}' :: renderPath r) = ('{' :: name ++ '=' :: ((t ++ ['}']) ++ renderPath r)) from by simp]
          rw [findall_var ct n pre name _ '=' (Or.inl rfl) h1 h2 h3]
          simp only [List.length_cons, List.length_append] at hn
          have hj : '{' ∉ t ++ ['}'] := by
            intro h
            rcases List.mem_append.mp h with h | h
            · exact ht h
            · simp at h
          obtain ⟨n', rfl⟩ : ∃ n', n = (t ++ ['}']).length + n' := ⟨n - (t ++ ['}']).length, by simp; omega⟩
          rw [findall_skip ct (t ++ ['}']) hj n' _ (renderPath r)]
          simp only [List.length_append, List.length_singleton] at hn
          rw [ih hr n' _ (by omega)]

end AuxImplicit

/-- **Implicit routing lists exactly the variables of the primary http path**, in order: the
`{(.*?)[=}]` regex of `Method.field_headers` (bridged: `Bridge.fieldHeaders`), run through the
engine's `findall`, returns the variable names of every well-formed path template. -/
theorem implicit_vars_exact (ct : ClassTables) (segs : List PSeg) (h : WFPath segs) :
    fieldHeaders ct (renderPath segs) = pathVars segs := by
  simp only [fieldHeaders, pyFindall1]
  exact findall_path ct segs h _ [] (by omega)

/-- the primary path is the first non-empty of get, put, post, delete, patch, custom. -/
theorem primary_path_first_nonempty (before : List (List Char)) (p : List Char) (after : List (List Char))
    (hb : ∀ x ∈ before, x = []) (hp : p ≠ []) : primaryPath (before ++ p :: after) = p := by
  induction before with
  | nil => simp [primaryPath, hp]
  | cons b bs ih =>
    have hb0 : b = [] := hb b (by simp)
    have := ih (fun x hx => hb x (by simp [hx]))
    simp only [primaryPath, List.cons_append, List.find?, hb0] at this ⊢
    simpa using this

/-- **Reserved words are read from the suffixed attribute and sent under the original name**:
every variable contributes exactly one pair whose key is the raw variable name and whose value is
read from `request.<name>_` if the (whole) name is in `RESERVED_NAMES`, from `request.<name>`
otherwise. -/
theorem implicit_reads_suffixed_sends_raw (hs : List (List Char)) (r : Request) :
    implicitPairs hs r = hs.map fun h =>
      (h, if Pinned.reservedNames.contains (String.ofList h) then r (h ++ ['_']) else r h) := by
  unfold implicitPairs disambiguated
  apply List.map_congr_left
  intro h _
  split <;> rfl

/-- a header is sent iff the primary path has a variable; it then has one pair per variable
    (even for empty values). -/
theorem implicit_header_iff (ct : ClassTables) (path : List Char) (r : Request) :
    (implicitHeader ct path r = none ↔ fieldHeaders ct path = []) ∧
    (implicitPairs (fieldHeaders ct path) r).map (·.1) = fieldHeaders ct path := by
  constructor
  · unfold implicitHeader
    cases fieldHeaders ct path <;> simp
  · simp [implicitPairs, Function.comp_def]

/-- the google.api.routing annotation, when present, replaces implicit routing altogether. -/
theorem explicit_replaces_implicit (ct : ClassTables) (ps : List Param) (verbs : List (List Char)) (r : Request) :
    header ct ⟨some ps, verbs⟩ r = explicitHeader ct ps r := rfl

end GapicModel.Props.C06
