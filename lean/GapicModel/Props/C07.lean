import GapicModel.Model.Paging
/-
C07 — paginated methods yield every item of every page exactly once, in order.
-/
namespace GapicModel.Props.C07
open GapicModel.Model.Paging

/-! ## Classification -/

/-- the statement's rule, written with the code's own field lookups -/
def AIP4233 (i o : Msg) : Prop :=
  (∃ pt, get i "page_token" = some pt ∧ pt.type = .str ∧ pt.repeated = false) ∧
  (∃ npt, get o "next_page_token" = some npt ∧ npt.type = .str ∧ npt.repeated = false) ∧
  (∃ sz, sizeField i = some sz ∧ sizeOk sz = true) ∧
  (∃ f, firstRepeated o = some f)

/-- A method is paged exactly when the rule holds, and then the item field is the first repeated
field of the response. NOTE the rule as the code implements it: when `max_results` exists it alone
is consulted (a mistyped `max_results` hides a well-typed `page_size`; known finding).  Since the
second C07 `fix:` commit the token fields must be singular strings. -/
theorem paged_iff (i o : Msg) (f : Field) :
    pagedField i o = some f ↔ AIP4233 i o ∧ firstRepeated o = some f := by
  unfold pagedField AIP4233
  constructor
  · intro h
    split at h
    · simp at h
    · rename_i pt hpt
      split at h
      · simp at h
      · rename_i hty
        split at h
        · simp at h
        · rename_i npt hnpt
          split at h
          · simp at h
          · rename_i hty2
            split at h
            · simp at h
            · rename_i sz hsz
              split at h
              · rename_i hok
                simp only [not_or, Decidable.not_not] at hty hty2
                refine ⟨⟨⟨pt, hpt, hty.1, by simpa using hty.2⟩, ⟨npt, hnpt, hty2.1, by simpa using hty2.2⟩, ⟨sz, hsz, hok⟩, ⟨f, h⟩⟩, h⟩
              · simp at h
  · rintro ⟨⟨⟨pt, hpt, hty, hr⟩, ⟨npt, hnpt, hty2, hr2⟩, ⟨sz, hsz, hok⟩, _⟩, hf⟩
    simp [hpt, hty, hr, hnpt, hty2, hr2, hsz, hok, hf]

/-- `max_results` takes precedence over `page_size` whenever it exists. -/
theorem max_results_preferred (i : Msg) (f : Field) (h : get i "max_results" = some f) :
    sizeField i = some f := by
  simp [sizeField, h]

/-- the size field may be any integer kind or the two wrapper messages, nothing else. -/
theorem size_types_exact (f : Field) :
    sizeOk f = true ↔ f.type = .int ∨ f.type = .msg "UInt32Value" ∨ f.type = .msg "Int32Value" := by
  unfold sizeOk
  cases h : f.type <;> simp

/-! ## The page loop (all histories, by induction) -/

variable {ι ρ : Type}

theorem pagesGen_pages (st : PState ι ρ) (srv : List (Page ι)) :
    (pagesGen st srv).1 = takeThrough (st.resp :: srv) := by
  induction srv generalizing st with
  | nil => simp [pagesGen, takeThrough]
  | cons q srv ih =>
    simp only [pagesGen, takeThrough]
    by_cases h : st.resp.token = []
    · simp [h]
    · simp only [h, if_false]
      rw [ih]
      simp [takeThrough]

/-- **Every item of every page exactly once, in server order, stopping at the first empty token.** -/
theorem items_all_once_in_order (r0 : Req ρ) (p0 : Page ι) (srv : List (Page ι)) :
    (run r0 (p0 :: srv)).1 = (takeThrough (p0 :: srv)).flatMap (·.items) := by
  simp only [run]
  rw [pagesGen_pages]

/-- nothing after the first empty token is fetched or yielded -/
theorem stops_at_first_empty_token (r0 : Req ρ) (pre : List (Page ι)) (p : Page ι) (post : List (Page ι))
    (hpre : ∀ q ∈ pre, q.token ≠ []) (hp : p.token = []) :
    (run r0 (pre ++ p :: post)).1 = (pre ++ [p]).flatMap (·.items) ∧
    (run r0 (pre ++ p :: post)).2.length = pre.length + 1 := by
  have hT : ∀ (pre : List (Page ι)), (∀ q ∈ pre, q.token ≠ []) →
      takeThrough (pre ++ p :: post) = pre ++ [p] := by
    intro pre
    induction pre with
    | nil => intro _; simp [takeThrough, hp]
    | cons a pre ih =>
      intro h
      have ha := h a (by simp)
      simp only [List.cons_append, takeThrough, ha, if_false]
      rw [ih (fun q hq => h q (by simp [hq]))]
  have hL : ∀ (pre : List (Page ι)) (st : PState ι ρ), (∀ q ∈ pre, q.token ≠ []) →
      (pre = [] → st.resp = p) → (∀ a pre', pre = a :: pre' → st.resp = a) →
      (pagesGen st ((pre ++ p :: post).tail)).2.1.length = pre.length := by
    intro pre
    induction pre with
    | nil =>
      intro st _ h0 _
      have := h0 rfl
      cases post with
      | nil => simp [pagesGen]
      | cons b post => simp [pagesGen, this, hp]
    | cons a pre ih =>
      intro st h _ h1
      have hst := h1 a pre rfl
      have ha := h a (by simp)
      cases pre with
      | nil =>
        simp only [List.cons_append, List.nil_append, List.tail_cons, pagesGen, hst, ha, if_false]
        have := ih ⟨{ st.req with token := a.token }, p⟩ (by simp) (by simp) (by simp)
        simpa using this
      | cons b pre' =>
        simp only [List.cons_append, List.tail_cons, pagesGen, hst, ha, if_false]
        have := ih ⟨{ st.req with token := a.token }, b⟩ (fun q hq => h q (by simp at hq ⊢; right; exact hq)) (by simp) (by intro a' p' he; simp at he; simp [he.1])
        simpa using this
  constructor
  · cases pre with
    | nil =>
      simp only [List.nil_append]
      rw [items_all_once_in_order]; simp [takeThrough, hp]
    | cons a pre =>
      simp only [List.cons_append]
      rw [items_all_once_in_order]
      have := hT (a :: pre) hpre
      simp only [List.cons_append] at this
      rw [this]
  · cases pre with
    | nil =>
      simp only [List.nil_append, run, List.length_cons, List.length_nil]
      have := hL [] ⟨r0, p⟩ (by simp) (by simp) (by simp)
      simpa using this
    | cons a pre =>
      simp only [List.cons_append, run, List.length_cons]
      have := hL (a :: pre) ⟨r0, a⟩ hpre (by simp) (by intro a' p' he; simp at he; simp [he.1])
      simp only [List.cons_append, List.tail_cons, List.length_cons] at this
      omega

/-- **Requests thread the tokens**: the first request is the caller's; request `k+1` is the caller's
request with `page_token` replaced by the token of page `k`; every other field and the call options
(`other`) are unchanged. -/
theorem requests_thread_tokens (r0 : Req ρ) (p0 : Page ι) (srv : List (Page ι)) :
    ∀ r ∈ (run r0 (p0 :: srv)).2, r.other = r0.other := by
  suffices h : ∀ (srv : List (Page ι)) (st : PState ι ρ), st.req.other = r0.other →
      ∀ r ∈ (pagesGen st srv).2.1, r.other = r0.other by
    intro r hr
    simp only [run, List.mem_cons] at hr
    rcases hr with hr | hr
    · simp [hr]
    · exact h srv ⟨r0, p0⟩ rfl r hr
  intro srv
  induction srv with
  | nil => intro st _ r hr; simp [pagesGen] at hr
  | cons q srv ih =>
    intro st hst r hr
    simp only [pagesGen] at hr
    by_cases h : st.resp.token = []
    · simp [h] at hr
    · simp only [h, if_false, List.mem_cons] at hr
      rcases hr with hr | hr
      · simp [hr, hst]
      · exact ih ⟨{ st.req with token := st.resp.token }, q⟩ hst r hr

/-- the tokens sent are exactly the tokens received, in order -/
theorem request_tokens (r0 : Req ρ) (p0 : Page ι) (srv : List (Page ι)) :
    ((run r0 (p0 :: srv)).2.map (·.token)).tail <+: (takeThrough (p0 :: srv)).map (·.token) := by
  suffices h : ∀ (srv : List (Page ι)) (st : PState ι ρ),
      (pagesGen st srv).2.1.map (·.token) <+: (takeThrough (st.resp :: srv)).map (·.token) by
    simpa [run] using h srv ⟨r0, p0⟩
  intro srv
  induction srv with
  | nil => intro st; simp [pagesGen]
  | cons q srv ih =>
    intro st
    simp only [pagesGen, takeThrough]
    by_cases h : st.resp.token = []
    · simp [h]
    · simp only [h, if_false, List.map_cons]
      have := ih ⟨{ st.req with token := st.resp.token }, q⟩
      simp only [takeThrough] at this ⊢
      exact List.cons_prefix_cons.mpr ⟨rfl, this⟩

/-- **Attributes of the pager are those of the most recent page**: after iteration, `_response`
is the last page yielded. -/
theorem attrs_are_last_page (st : PState ι ρ) (srv : List (Page ι)) :
    (pagesGen st srv).1.getLast? = some (pagesGen st srv).2.2.resp := by
  induction srv generalizing st with
  | nil => simp [pagesGen]
  | cons q srv ih =>
    simp only [pagesGen]
    by_cases h : st.resp.token = []
    · simp [h]
    · simp only [h, if_false]
      have := ih ⟨{ st.req with token := st.resp.token }, q⟩
      rw [List.getLast?_cons_of_ne_nil]
      · exact this
      · intro hnil; simp [hnil] at this
  
/-! ## Non-vacuity -/

/-- three pages with an empty middle page; the fourth is never fetched -/
example : (run (ρ := Unit) ⟨[], ()⟩
    [⟨[1, 2], ['a']⟩, ⟨[], ['b']⟩, ⟨[3], []⟩, ⟨[99], []⟩]) =
    ([1, 2, 3], [⟨[], ()⟩, ⟨['a'], ()⟩, ⟨['b'], ()⟩]) := by decide

example : pagedField
    [⟨"parent", .str, false⟩, ⟨"page_size", .int, false⟩, ⟨"page_token", .str, false⟩]
    [⟨"total", .int, false⟩, ⟨"books", .msg "Book", true⟩, ⟨"extras", .str, true⟩, ⟨"next_page_token", .str, false⟩]
    = some ⟨"books", .msg "Book", true⟩ := by decide

/-- a mistyped `max_results` hides a well-typed `page_size` (the code's reading; compare the statement) -/
theorem mistyped_max_results_hides_page_size :
    pagedField
      [⟨"page_size", .int, false⟩, ⟨"max_results", .str, false⟩, ⟨"page_token", .str, false⟩]
      [⟨"items", .str, true⟩, ⟨"next_page_token", .str, false⟩] = none := by decide

/-- a repeated `next_page_token` is not a pagination token (second C07 `fix:` commit) -/
theorem repeated_token_not_paged :
    pagedField
      [⟨"page_size", .int, false⟩, ⟨"page_token", .str, false⟩]
      [⟨"items", .str, true⟩, ⟨"next_page_token", .str, true⟩] = none := by decide

end GapicModel.Props.C07
