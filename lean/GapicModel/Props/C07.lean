import GapicModel.Model.Paging
import GapicModel.Lemmas.C07Steps
/-
C07 — paginated methods yield every item of every page exactly once, in order.
-/
namespace GapicModel.Props.C07
open GapicModel.Model.Paging
open GapicModel.Lemmas.C07Steps

/-! ## Classification -/

/-- the statement's rule, written with the code's own field lookups -/
def AIP4233 (i o : Msg) : Prop :=
  (∃ pt, get i "page_token" = some pt ∧ pt.type = .str ∧ pt.repeated = false) ∧
  (∃ npt, get o "next_page_token" = some npt ∧ npt.type = .str ∧ npt.repeated = false) ∧
  (∃ sz, sizeField i = some sz ∧ sizeOk sz = true) ∧
  (∃ f, firstRepeated o = some f)

/-- A method is paged exactly when the rule holds, and then the item field is the first repeated
field of the response. NOTE the rule as the code implements it: when `max_results` exists it alone
is consulted (a mistyped `max_results` hides a well-typed `page_size`; known finding).  Since the
second C07 `fix:` commit the token fields must be singular strings. -/
theorem paged_iff (i o : Msg) (f : Field) :
    pagedField i o = some f ↔ AIP4233 i o ∧ firstRepeated o = some f := by
  unfold pagedField AIP4233
  constructor
  · intro h
    split at h
    · simp at h
    · rename_i pt hpt
      split at h
      · simp at h
      · rename_i hty
        split at h
        · simp at h
        · rename_i npt hnpt
          split at h
          · simp at h
          · rename_i hty2
            split at h
            · simp at h
            · rename_i sz hsz
              split at h
              · rename_i hok
                simp only [not_or, Decidable.not_not] at hty hty2
                refine ⟨⟨⟨pt, hpt, hty.1, by simpa using hty.2⟩, ⟨npt, hnpt, hty2.1, by simpa using hty2.2⟩, ⟨sz, hsz, hok⟩, ⟨f, h⟩⟩, h⟩
              · simp at h
  · rintro ⟨⟨⟨pt, hpt, hty, hr⟩, ⟨npt, hnpt, hty2, hr2⟩, ⟨sz, hsz, hok⟩, _⟩, hf⟩
    simp [hpt, hty, hr, hnpt, hty2, hr2, hsz, hok, hf]

/-- `max_results` takes precedence over `page_size` whenever it exists. -/
theorem max_results_preferred (i : Msg) (f : Field) (h : get i "max_results" = some f) :
    sizeField i = some f := by
  simp [sizeField, h]

/-- the size field may be any integer kind or the two wrapper messages, nothing else. -/
theorem size_types_exact (f : Field) :
    sizeOk f = true ↔ f.type = .int ∨ f.type = .msg "UInt32Value" ∨ f.type = .msg "Int32Value" := by
  unfold sizeOk
  cases h : f.type <;> simp

/-! ## The page loop (all histories, by induction) -/

variable {ι ρ : Type}

theorem pagesGen_pages (st : PState ι ρ) (srv : List (Page ι)) :
    (pagesGen st srv).1 = takeThrough (st.resp :: srv) := by
  induction srv generalizing st with
  | nil => simp [pagesGen, takeThrough]
  | cons q srv ih =>
    simp only [pagesGen, takeThrough]
    by_cases h : st.resp.token = []
    · simp [h]
    · simp only [h, if_false]
      rw [ih]
      simp [takeThrough]

/-- **Every item of every page exactly once, in server order, stopping at the first empty token.** -/
theorem items_all_once_in_order (r0 : Req ρ) (p0 : Page ι) (srv : List (Page ι)) :
    (run r0 (p0 :: srv)).1 = (takeThrough (p0 :: srv)).flatMap (·.items) := by
  simp only [run]
  rw [pagesGen_pages]

/-- nothing after the first empty token is fetched or yielded -/
theorem stops_at_first_empty_token (r0 : Req ρ) (pre : List (Page ι)) (p : Page ι) (post : List (Page ι))
    (hpre : ∀ q ∈ pre, q.token ≠ []) (hp : p.token = []) :
    (run r0 (pre ++ p :: post)).1 = (pre ++ [p]).flatMap (·.items) ∧
    (run r0 (pre ++ p :: post)).2.length = pre.length + 1 := by
  have hT : ∀ (pre : List (Page ι)), (∀ q ∈ pre, q.token ≠ []) →
      takeThrough (pre ++ p :: post) = pre ++ [p] := by
    intro pre
    induction pre with
    | nil => intro _; simp [takeThrough, hp]
    | cons a pre ih =>
      intro h
      have ha := h a (by simp)
      simp only [List.cons_append, takeThrough, ha, if_false]
      rw [ih (fun q hq => h q (by simp [hq]))]
  have hL : ∀ (pre : List (Page ι)) (st : PState ι ρ), (∀ q ∈ pre, q.token ≠ []) →
      (pre = [] → st.resp = p) → (∀ a pre', pre = a :: pre' → st.resp = a) →
      (pagesGen st ((pre ++ p :: post).tail)).2.1.length = pre.length := by
    intro pre
    induction pre with
    | nil =>
      intro st _ h0 _
      have := h0 rfl
      cases post with
      | nil => simp [pagesGen]
      | cons b post => simp [pagesGen, this, hp]
    | cons a pre ih =>
      intro st h _ h1
      have hst := h1 a pre rfl
      have ha := h a (by simp)
      cases pre with
      | nil =>
        simp only [List.cons_append, List.nil_append, List.tail_cons, pagesGen, hst, ha, if_false]
        have := ih ⟨{ st.req with token := a.token }, p⟩ (by simp) (by simp) (by simp)
        simpa using this
      | cons b pre' =>
        simp only [List.cons_append, List.tail_cons, pagesGen, hst, ha, if_false]
        have := ih ⟨{ st.req with token := a.token }, b⟩ (fun q hq => h q (by simp at hq ⊢; right; exact hq)) (by simp) (by intro a' p' he; simp at he; simp [he.1])
        simpa using this
  constructor
  · cases pre with
    | nil =>
      simp only [List.nil_append]
      rw [items_all_once_in_order]; simp [takeThrough, hp]
    | cons a pre =>
      simp only [List.cons_append]
      rw [items_all_once_in_order]
      have := hT (a :: pre) hpre
      simp only [List.cons_append] at this
      rw [this]
  · cases pre with
    | nil =>
      simp only [List.nil_append, run, List.length_cons, List.length_nil]
      have := hL [] ⟨r0, p⟩ (by simp) (by simp) (by simp)
      simpa using this
    | cons a pre =>
      simp only [List.cons_append, run, List.length_cons]
      have := hL (a :: pre) ⟨r0, a⟩ hpre (by simp) (by intro a' p' he; simp at he; simp [he.1])
      simp only [List.cons_append, List.tail_cons, List.length_cons] at this
      omega

/-- **Requests thread the tokens**: the first request is the caller's; request `k+1` is the caller's
request with `page_token` replaced by the token of page `k`; every other field and the call options
(`other`) are unchanged. -/
theorem requests_thread_tokens (r0 : Req ρ) (p0 : Page ι) (srv : List (Page ι)) :
    ∀ r ∈ (run r0 (p0 :: srv)).2, r.other = r0.other := by
  suffices h : ∀ (srv : List (Page ι)) (st : PState ι ρ), st.req.other = r0.other →
      ∀ r ∈ (pagesGen st srv).2.1, r.other = r0.other by
    intro r hr
    simp only [run, List.mem_cons] at hr
    rcases hr with hr | hr
    · simp [hr]
    · exact h srv ⟨r0, p0⟩ rfl r hr
  intro srv
  induction srv with
  | nil => intro st _ r hr; simp [pagesGen] at hr
  | cons q srv ih =>
    intro st hst r hr
    simp only [pagesGen] at hr
    by_cases h : st.resp.token = []
    · simp [h] at hr
    · simp only [h, if_false, List.mem_cons] at hr
      rcases hr with hr | hr
      · simp [hr, hst]
      · exact ih ⟨{ st.req with token := st.resp.token }, q⟩ hst r hr

/-- the tokens sent are exactly the tokens received, in order -/
theorem request_tokens (r0 : Req ρ) (p0 : Page ι) (srv : List (Page ι)) :
    ((run r0 (p0 :: srv)).2.map (·.token)).tail <+: (takeThrough (p0 :: srv)).map (·.token) := by
  suffices h : ∀ (srv : List (Page ι)) (st : PState ι ρ),
      (pagesGen st srv).2.1.map (·.token) <+: (takeThrough (st.resp :: srv)).map (·.token) by
    simpa [run] using h srv ⟨r0, p0⟩
  intro srv
  induction srv with
  | nil => intro st; simp [pagesGen]
  | cons q srv ih =>
    intro st
    simp only [pagesGen, takeThrough]
    by_cases h : st.resp.token = []
    · simp [h]
    · simp only [h, if_false, List.map_cons]
      have := ih ⟨{ st.req with token := st.resp.token }, q⟩
      simp only [takeThrough] at this ⊢
      exact List.cons_prefix_cons.mpr ⟨rfl, this⟩

/-- **The requests, exactly**: the caller's request, then one request per page received before the
last one, each the caller's request with `page_token` replaced by that page's token (so: call
count = page count, tokens threaded in order, every other field and the call options unchanged).
Unconditional: also when the scripted history runs out. -/
theorem requests_exact (r0 : Req ρ) (p0 : Page ι) (srv : List (Page ι)) :
    (run r0 (p0 :: srv)).2 =
      r0 :: (takeThrough (p0 :: srv)).dropLast.map (fun p => (⟨p.token, r0.other⟩ : Req ρ)) := by
  suffices h : ∀ (srv : List (Page ι)) (st : PState ι ρ),
      (pagesGen st srv).2.1 = (takeThrough (st.resp :: srv)).dropLast.map (fun p => (⟨p.token, st.req.other⟩ : Req ρ)) by
    simp only [run]
    rw [h srv ⟨r0, p0⟩]
  intro srv
  induction srv with
  | nil => intro st; by_cases h : st.resp.token = [] <;> simp [pagesGen, takeThrough, h]
  | cons q srv ih =>
    intro st
    by_cases h : st.resp.token = []
    · simp [pagesGen, takeThrough, h]
    · have hne : takeThrough (q :: srv) ≠ [] := by
        simp only [takeThrough]; split <;> simp
      simp only [pagesGen, h, if_false]
      rw [ih ⟨{ st.req with token := st.resp.token }, q⟩]
      have : takeThrough (st.resp :: q :: srv) = st.resp :: takeThrough (q :: srv) := by
        simp [takeThrough, h]
      rw [this, List.dropLast_cons_of_ne_nil hne]
      simp

/-- call count = page count -/
theorem call_count_eq_page_count (r0 : Req ρ) (p0 : Page ι) (srv : List (Page ι)) :
    (run r0 (p0 :: srv)).2.length = (takeThrough (p0 :: srv)).length := by
  rw [requests_exact]
  have : takeThrough (p0 :: srv) ≠ [] := by simp only [takeThrough]; split <;> simp
  simp only [List.length_cons, List.length_map, List.length_dropLast]
  have : 0 < (takeThrough (p0 :: srv)).length := List.length_pos_iff.mpr this
  omega

/-- **Token VALUES carry no meaning**: no theorem above assumes the tokens of a history distinct.  In
particular a page that carries the same (non-empty) token as the page before it — or as the caller's own
`page_token` (`r0.token` is arbitrary) — does not end the listing: both pages and everything up to the
first EMPTY token are yielded, one request per page. -/
theorem repeated_token_does_not_stop (r0 : Req ρ) (p q : Page ι) (rest : List (Page ι))
    (hp : p.token ≠ []) (hq : q.token = p.token) :
    (run r0 (p :: q :: rest)).1 = p.items ++ q.items ++ (takeThrough rest).flatMap (·.items) ∧
    (run r0 (p :: q :: rest)).2.length = 2 + (takeThrough rest).length := by
  have hq' : q.token ≠ [] := hq ▸ hp
  have hT : takeThrough (p :: q :: rest) = p :: q :: takeThrough rest := by
    cases rest <;> simp [takeThrough, hp, hq']
  constructor
  · rw [items_all_once_in_order, hT]; simp
  · rw [call_count_eq_page_count, hT]; simp; omega

/-- **`page_size` is just another request field** (it lives in `Req.other`): what the pager yields does not
depend on the caller's request at all — in particular a non-final page SHORTER than the requested page size
(AIP-158 allows short and empty pages with a token) does not end the listing — and by `requests_exact` /
`requests_thread_tokens` every request carries it unchanged. -/
theorem page_size_does_not_stop (r0 r0' : Req ρ) (p0 : Page ι) (srv : List (Page ι)) :
    (run r0 (p0 :: srv)).1 = (run r0' (p0 :: srv)).1 ∧ ∀ r ∈ (run r0 (p0 :: srv)).2, r.other = r0.other :=
  ⟨by rw [items_all_once_in_order, items_all_once_in_order], requests_thread_tokens r0 p0 srv⟩

/-- **Attributes of the pager are those of the most recent page**: after iteration, `_response`
is the last page yielded. -/
theorem attrs_are_last_page (st : PState ι ρ) (srv : List (Page ι)) :
    (pagesGen st srv).1.getLast? = some (pagesGen st srv).2.2.resp := by
  induction srv generalizing st with
  | nil => simp [pagesGen]
  | cons q srv ih =>
    simp only [pagesGen]
    by_cases h : st.resp.token = []
    · simp [h]
    · simp only [h, if_false]
      have := ih ⟨{ st.req with token := st.resp.token }, q⟩
      rw [List.getLast?_cons_of_ne_nil]
      · exact this
      · intro hnil; simp [hnil] at this
  

/-! ## The pager as an object: every PROGRAM over its generators (small-step model)

`pager.pages` and `iter(pager)` / `pager.__aiter__()` create generator objects that share the pager's
`_request` / `_response`.  A program is any finite sequence of `Op`s: create a generator, advance
generator `i` once, read an attribute — any number of generators, in any interleaving, consumed as
far as the caller likes. -/

section Aux

theorem takeThrough_append (pre : List (Page ι)) (x : Page ι) (rest : List (Page ι))
    (h : ∀ q ∈ pre, q.token ≠ []) :
    takeThrough (pre ++ x :: rest) = pre ++ takeThrough (x :: rest) := by
  induction pre with
  | nil => simp
  | cons a pre ih =>
    have ha := h a (by simp)
    have ih' := ih (fun q hq => h q (by simp [hq]))
    show takeThrough (a :: (pre ++ x :: rest)) = a :: (pre ++ takeThrough (x :: rest))
    rw [← ih']
    simp [takeThrough, ha]

theorem takeThrough_head (x : Page ι) (rest : List (Page ι)) :
    (takeThrough (x :: rest))[0]? = some x := by
  simp only [takeThrough]
  split <;> simp

end Aux

/-- **For every program, tokens are threaded and nothing else changes**: the pages received before
the current one (`pre`) all carried a token; the pager sent exactly those tokens, in that order, one
request per page, each on a request whose other fields and call options are the caller's; the pages
are taken from the server in server order. -/
theorem program_requests_thread_tokens (r0 : Req ρ) (p0 : Page ι) (srv : List (Page ι)) (prog : List Op) :
    ∃ pre, p0 :: srv = pre ++ (exec (World.init r0 p0 srv) prog).2.resp :: (exec (World.init r0 p0 srv) prog).2.srv ∧
      (∀ p ∈ pre, p.token ≠ []) ∧
      (exec (World.init r0 p0 srv) prog).2.sent.map (·.token) = pre.map (·.token) ∧
      (∀ r ∈ (exec (World.init r0 p0 srv) prog).2.sent, r.other = r0.other) := by
  obtain ⟨pre, h1, h2, h3, h4, _⟩ := (Good.init r0 p0 srv).exec prog
  exact ⟨pre, h1, h2, h3, h4⟩

/-- **For every program, the pager never goes past the first empty token, and its attributes are
those of the most recent page**: after `n` requests of the pager, `_response` is page `n` of the
history cut after the first empty token (in particular `n` is a valid index of that cut). -/
theorem program_attrs_most_recent_page (r0 : Req ρ) (p0 : Page ι) (srv : List (Page ι)) (prog : List Op) :
    (takeThrough (p0 :: srv))[(exec (World.init r0 p0 srv) prog).2.sent.length]? =
      some (exec (World.init r0 p0 srv) prog).2.resp := by
  obtain ⟨pre, h1, h2, h3, _⟩ := program_requests_thread_tokens r0 p0 srv prog
  have hl : (exec (World.init r0 p0 srv) prog).2.sent.length = pre.length := by
    have := congrArg List.length h3
    simpa using this
  rw [h1, takeThrough_append pre _ _ h2, hl, List.getElem?_append_right (Nat.le_refl _)]
  simp only [Nat.sub_self]
  exact takeThrough_head _ _

/-- `pager.<attr>` reads the current `_response` and sends nothing. -/
theorem attr_reads_current_page (w : World ι ρ) :
    step w .attr = (.tok w.resp.token, w) := rfl

/-- **Advancing item iterator `i` `k` times** returns the first `k` items of its future (what it still
holds of its page, then the items of the pages of the big-step loop from the pager's current
state), then `StopIteration` for ever. -/
theorem iterate_k_times (k : Nat) (w : World ι ρ) (i : Nat) (it : GenSt × List ι) (h : w.its[i]? = some it) :
    (exec w (List.replicate k (.nextItem i))).1 =
      ((future it w).take k).map .item ++ List.replicate (k - (future it w).length) .stop := by
  induction k generalizing w it with
  | zero => simp [exec]
  | succ k ih =>
    simp only [List.replicate_succ, exec, step, h]
    obtain ⟨g, buf⟩ := it
    have hs := itemNext_spec (w.srv.length + 2) g buf w (need_le g w)
    have hits := itemNext_its (w.srv.length + 2) (g, buf) w
    have hi : i < w.its.length := by
      rcases Nat.lt_or_ge i w.its.length with hlt | hge
      · exact hlt
      · simp [List.getElem?_eq_none hge] at h
    generalize hr : itemNext (w.srv.length + 2) (g, buf) w = r at hs hits
    have hset : ({ r.2.2 with its := r.2.2.its.set i r.2.1 } : World ι ρ).its[i]? = some r.2.1 := by
      simp [hits, hi]
    have hfut := future_congr r.2.1 r.2.2 { r.2.2 with its := r.2.2.its.set i r.2.1 } rfl rfl rfl
    have := ih _ r.2.1 hset
    rw [this, hfut, hs.2]
    cases hfu : future (g, buf) w with
    | nil =>
      have h1 : r.1 = none := by simpa [hfu] using hs.1
      simp [h1, List.replicate_succ]
    | cons x xs =>
      have h1 : r.1 = some x := by simpa [hfu] using hs.1
      simp [h1]

/-- **Refinement: `list(pager)` on a fresh pager, consumed `k` items far, is the big-step `run`**
(all items when `k` exceeds their number; a caller that stops early has seen a prefix). -/
theorem list_pager_eq_run (r0 : Req ρ) (p0 : Page ι) (srv : List (Page ι)) (k : Nat) :
    (exec (World.init r0 p0 srv) (.newIter :: List.replicate k (.nextItem 0))).1 =
      .unit :: (((run r0 (p0 :: srv)).1.take k).map .item ++
                List.replicate (k - (run r0 (p0 :: srv)).1.length) .stop) := by
  simp only [exec, step]
  rw [iterate_k_times k _ 0 (.fresh, []) (by simp [World.init])]
  simp [future, pagesFrom, run, World.init]

/-- a generator created while another one is under way starts at the pager's CURRENT page (the
cursor is the pager's, not the generator's) and walks on to the first empty token. -/
theorem fresh_iterator_starts_at_current_page (w : World ι ρ) :
    future (.fresh, []) w = (takeThrough (w.resp :: w.srv)).flatMap (·.items) := by
  simp [future, pagesFrom, pagesGen_pages]

/-- iterating a pager that has been consumed to the end once more yields the items of the LAST page
again (not all items, not nothing), and sends nothing. -/
theorem reiteration_yields_last_page (k : Nat) (w : World ι ρ) (h : w.resp.token = []) :
    (exec w (.newIter :: List.replicate k (.nextItem w.its.length))).1 =
      .unit :: ((w.resp.items.take k).map .item ++ List.replicate (k - w.resp.items.length) .stop) := by
  simp only [exec, step]
  rw [iterate_k_times k _ w.its.length (.fresh, []) (by simp)]
  have : future (.fresh, ([] : List ι)) ({ w with its := w.its ++ [(.fresh, [])] } : World ι ρ) = w.resp.items := by
    simp [future, pagesFrom, pagesGen_stop (ρ := ρ) ⟨w.req, w.resp⟩ w.srv (Or.inl h)]
  rw [this]

/-- **Pages are fetched on demand only**: creating generators and reading attributes send nothing; an
item iterator that still holds an item of its page returns it and sends nothing; one `next` on a
`pages` generator sends at most one request. -/
theorem requests_only_on_demand (w : World ι ρ) :
    (step w .newPages).2.sent = w.sent ∧ (step w .newIter).2.sent = w.sent ∧ (step w .attr).2.sent = w.sent ∧
    (∀ i g x buf, w.its[i]? = some (g, x :: buf) →
        (step w (.nextItem i)).1 = .item x ∧ (step w (.nextItem i)).2.sent = w.sent ∧
        (step w (.nextItem i)).2.resp = w.resp ∧ (step w (.nextItem i)).2.srv = w.srv) ∧
    (∀ j, (step w (.nextPage j)).2.sent.length ≤ w.sent.length + 1) := by
  refine ⟨rfl, rfl, rfl, ?_, ?_⟩
  · intro i g x buf h
    simp [step, h, itemNext]
  · intro j
    simp only [step]
    cases hj : w.gens[j]? with
    | none => simp
    | some g =>
      cases g with
      | fresh => simp [genNext]
      | done => simp [genNext]
      | running =>
        simp only [genNext]
        cases hfe : fetch w with
        | none => simp
        | some qw =>
          unfold fetch at hfe
          split at hfe
          · simp at hfe
          · split at hfe
            · simp at hfe
            · simp only [Option.some.injEq] at hfe
              subst hfe
              simp

/-! ## Wiring: which methods return a pager -/

/-- **A method is exposed as paginated exactly when the rule holds** (and it is not a
google.longrunning method, whose response is an Operation): the wrapping branch of both client
templates, composed with the classifier. -/
theorem exposed_as_paginated_iff (k : MethodKind) (i o : Msg) (fullExt : Bool) :
    wrapOf k (pagedField i o).isSome fullExt = .pager ↔ k.lro = false ∧ AIP4233 i o := by
  have hp : (pagedField i o).isSome = true ↔ AIP4233 i o := by
    constructor
    · intro h
      obtain ⟨f, hf⟩ := Option.isSome_iff_exists.mp h
      exact ((paged_iff i o f).mp hf).1
    · intro h
      obtain ⟨f, hf⟩ := h.2.2.2
      exact Option.isSome_iff_exists.mpr ⟨f, (paged_iff i o f).mpr ⟨h, hf⟩⟩
  by_cases ha : AIP4233 i o
  · have hpg := hp.mpr ha
    cases hl : k.lro <;> simp [wrapOf, hpg, ha, hl]
  · have hpg : (pagedField i o).isSome = false := by
      cases h : (pagedField i o).isSome
      · rfl
      · exact absurd (hp.mp h) ha
    cases hl : k.lro <;> cases he : k.extLro <;> cases fullExt <;> simp [wrapOf, hpg, he, ha, hl]

/-- the pager built by the wrapping branch is the pager of this file (a first response MESSAGE and
the caller's request) exactly for unary methods. -/
theorem pager_gets_first_response_iff_unary (k : MethodKind) :
    pagerArgs k = .firstResponse ↔ k.clientStreaming = false ∧ k.serverStreaming = false := by
  unfold pagerArgs
  cases k.clientStreaming <;> cases k.serverStreaming <;> simp

/-- a server-streaming method whose messages satisfy the rule is classified and wrapped like any
other, but its pager is built around the stream object: iterating it raises (run on the real code:
`AttributeError: '_StreamingResponseIterator' object has no attribute …`); a client-streaming one
raises `NameError: name 'request' is not defined` in the client method. -/
theorem streaming_paged_pager_unusable_counterexample :
    wrapOf ⟨false, false, false, false, true⟩ true true = .pager ∧
    pagerArgs ⟨false, false, false, false, true⟩ = .streamAsResponse ∧
    wrapOf ⟨false, false, false, true, false⟩ true false = .pager ∧
    pagerArgs ⟨false, false, false, true, false⟩ = .nameError := by decide

/-- what the client method builds agrees with the type `Method.client_output` announces … -/
def Agrees : Wrap → OutKind → Prop
  | .operation, .operation => True
  | .pager, .pager => True
  | .extOperation, .extOperation => True
  | .raw, .message => True
  | .raw, .none_ => True
  | _, _ => False

instance : ∀ a b, Decidable (Agrees a b) := by
  intro a b; cases a <;> cases b <;> simp only [Agrees] <;> infer_instance

/-- … for the sync client, unless the method is an extended operation whose messages also satisfy the
pagination rule, or is void with an annotation that needs a response. -/
theorem wrap_agrees_with_client_output_partial (k : MethodKind) (paged : Bool)
    (h1 : ¬ (k.extLro = true ∧ paged = true)) (h2 : k.void = true → k.lro = false ∧ k.extLro = false ∧ paged = false) :
    Agrees (wrapOf k paged true) (clientOutput k paged) := by
  obtain ⟨v, l, e, cs, ss⟩ := k
  cases v <;> cases l <;> cases e <;> cases paged <;> simp_all [wrapOf, clientOutput, Agrees]

/-- the excluded point: the template takes the `paged_result_field` branch but instantiates
`method.client_output` = `ExtendedOperation` with a pager's arguments (run on the real code:
`TypeError: ExtendedOperation.__init__() missing 3 required positional arguments`). -/
theorem extended_operation_paged_mismatch_counterexample :
    ¬ Agrees (wrapOf ⟨false, false, true, false, false⟩ true true) (clientOutput ⟨false, false, true, false, false⟩ true) := by
  decide

/-! ## Non-vacuity -/

/-- three pages with an empty middle page; the fourth is never fetched -/
example : (run (ρ := Unit) ⟨[], ()⟩
    [⟨[1, 2], ['a']⟩, ⟨[], ['b']⟩, ⟨[3], []⟩, ⟨[99], []⟩]) =
    ([1, 2, 3], [⟨[], ()⟩, ⟨['a'], ()⟩, ⟨['b'], ()⟩]) := by decide

example : pagedField
    [⟨"parent", .str, false⟩, ⟨"page_size", .int, false⟩, ⟨"page_token", .str, false⟩]
    [⟨"total", .int, false⟩, ⟨"books", .msg "Book", true⟩, ⟨"extras", .str, true⟩, ⟨"next_page_token", .str, false⟩]
    = some ⟨"books", .msg "Book", true⟩ := by decide

/-- a mistyped `max_results` hides a well-typed `page_size` (the code's reading; compare the statement) -/
theorem mistyped_max_results_hides_page_size :
    pagedField
      [⟨"page_size", .int, false⟩, ⟨"max_results", .str, false⟩, ⟨"page_token", .str, false⟩]
      [⟨"items", .str, true⟩, ⟨"next_page_token", .str, false⟩] = none := by decide

/-- a repeated `next_page_token` is not a pagination token (second C07 `fix:` commit) -/
theorem repeated_token_not_paged :
    pagedField
      [⟨"page_size", .int, false⟩, ⟨"page_token", .str, false⟩]
      [⟨"items", .str, true⟩, ⟨"next_page_token", .str, true⟩] = none := by decide

/-- a program with two interleaved item iterators and a `pages` generator over a 4-page history with an
empty middle page: what each `next` returns, and the three requests the pager sent -/
example :
    let r := exec (ρ := Unit) (World.init ⟨[], ()⟩ ⟨[1, 2], ['a']⟩ [⟨[], ['b']⟩, ⟨[3], ['c']⟩, ⟨[4], []⟩, ⟨[99], []⟩])
      [.newIter, .nextItem 0, .attr, .newIter, .nextItem 1, .nextItem 0, .nextItem 0, .attr, .nextItem 1, .nextItem 1,
       .newPages, .nextPage 0, .nextPage 0, .nextPage 0, .nextItem 0, .nextItem 0, .attr]
    r.1 = [.unit, .item 1, .tok ['a'], .unit, .item 1, .item 2, .item 3, .tok ['c'], .item 2, .item 4,
           .unit, .page ⟨[4], []⟩, .stop, .stop, .stop, .stop, .tok []] ∧
    r.2.sent = [⟨['a'], ()⟩, ⟨['b'], ()⟩, ⟨['c'], ()⟩] := by decide

/-- `iterate_k_times` / `reiteration_yields_last_page`: hypotheses met -/
example : (World.init (ι := Nat) (ρ := Unit) ⟨[], ()⟩ ⟨[7, 8], []⟩ [⟨[9], []⟩]).resp.token = [] := rfl
example : ({ World.init (ι := Nat) (ρ := Unit) ⟨[], ()⟩ ⟨[7], ['t']⟩ [⟨[9], []⟩] with its := [(.fresh, [])] } : World Nat Unit).its[0]?
    = some (.fresh, []) := rfl

/-- `requests_only_on_demand`: an iterator holding an item -/
example : ({ World.init (ι := Nat) (ρ := Unit) ⟨[], ()⟩ ⟨[7], ['t']⟩ [⟨[9], []⟩] with its := [(.running, [7])] } : World Nat Unit).its[0]?
    = some (.running, 7 :: []) := rfl

/-- `wrap_agrees_with_client_output_partial`: a plain paged unary method meets the hypotheses -/
example : ¬ ((⟨false, false, false, false, false⟩ : MethodKind).extLro = true ∧ true = true) ∧
    ((⟨false, false, false, false, false⟩ : MethodKind).void = true → False) := by decide

/-- `repeated_token_does_not_stop`: the history of seeded change seed10_C07 — `[b1,b2]/"cur-2"`, `[]/"cur-2"`, `[b3]/""` —
listed by a caller who resumes with that very token: all three items, three requests, the token sent twice more -/
example : (run (ρ := Unit) ⟨"cur-2".toList, ()⟩
    [⟨[1, 2], "cur-2".toList⟩, ⟨[], "cur-2".toList⟩, ⟨[3], []⟩]) =
    ([1, 2, 3], [⟨"cur-2".toList, ()⟩, ⟨"cur-2".toList, ()⟩, ⟨"cur-2".toList, ()⟩]) := by decide
example : (⟨[1, 2], "cur-2".toList⟩ : Page Nat).token ≠ [] ∧
    (⟨[], "cur-2".toList⟩ : Page Nat).token = (⟨[1, 2], "cur-2".toList⟩ : Page Nat).token := by decide

/-- `page_size_does_not_stop`: the history of seeded change seed11_C07 — page sizes 2, 3, 1, 2 listed with `page_size = 3`
(`other := 3`): the short first and third pages do not stop the pager, every request carries page_size 3 -/
example : (run (ρ := Nat) ⟨[], 3⟩
    [⟨[1, 2], ['a']⟩, ⟨[3, 4, 5], ['b']⟩, ⟨[6], ['c']⟩, ⟨[7, 8], []⟩]) =
    ([1, 2, 3, 4, 5, 6, 7, 8], [⟨[], 3⟩, ⟨['a'], 3⟩, ⟨['b'], 3⟩, ⟨['c'], 3⟩]) := by decide

end GapicModel.Props.C07
