import GapicModel.Model.Lro
import GapicModel.Pinned.Funcs
/-
C08 — long-running methods return futures typed by google.longrunning.operation_info.
-/
namespace GapicModel.Props.C08
open GapicModel.Model.Lro

section Aux

theorem lookup_eq_some {ms : List Str} {key k : Str} : lookup ms key = some k ↔ k = key ∧ key ∈ ms := by
  unfold lookup
  constructor
  · intro h
    have h1 := List.find?_some h
    have h2 := List.mem_of_find?_eq_some h
    have : k = key := by simpa using h1
    subst this
    exact ⟨rfl, h2⟩
  · rintro ⟨rfl, hm⟩
    cases h : List.find? (· == k) ms with
    | none =>
      have := List.find?_eq_none.mp h k hm
      simp at this
    | some k' =>
      have := List.find?_some h
      simp at this
      simp [this]

theorem lookup_of_mem {ms : List Str} {key : Str} (h : key ∈ ms) : lookup ms key = some key :=
  lookup_eq_some.mpr ⟨rfl, h⟩

theorem lookup_eq_none {ms : List Str} {key : Str} : lookup ms key = none ↔ key ∉ ms := by
  unfold lookup
  simp [List.find?_eq_none]
  constructor
  · intro h hm; exact h key hm rfl
  · intro h x hx he; exact h (he ▸ hx)

theorem mem_visible {api : Api} {f : File} {k : Str} :
    k ∈ visible api f ↔ k ∈ f.messages ∨ ∃ g ∈ api, k ∈ g.messages := by
  simp [visible, allMessages, List.mem_flatMap]

/-- change the import list of a file by an arbitrary function -/
def reimport (g : String → List String → List String) (f : File) : File :=
  { f with deps := g f.name f.deps }

theorem visible_reimport (g : String → List String → List String) (api : Api) (f : File) :
    visible (api.map (reimport g)) (reimport g f) = visible api f := by
  simp only [visible, allMessages, reimport]
  congr 1
  induction api with
  | nil => rfl
  | cons a api ih => simp [List.flatMap_cons, ih, reimport]

end Aux

/-! ## Type resolution (`Address.resolve`) -/

/-- a name without a dot is resolved relative to the package of the method's file -/
theorem resolve_relative (pkg sel : Str) (h : '.' ∉ sel) : resolve pkg sel = pkg ++ '.' :: sel := by
  simp [resolve, h]

/-- a name containing a dot is taken as fully qualified, unchanged -/
theorem resolve_absolute (pkg sel : Str) (h : '.' ∈ sel) : resolve pkg sel = sel := by
  simp [resolve, h]

/-- resolved names are fixed points: resolving twice is resolving once -/
theorem resolve_idempotent (pkg sel : Str) : resolve pkg (resolve pkg sel) = resolve pkg sel := by
  by_cases h : '.' ∈ sel
  · rw [resolve_absolute pkg sel h, resolve_absolute pkg sel h]
  · rw [resolve_relative pkg sel h]
    exact resolve_absolute _ _ (by simp)

/-- relative and absolute spellings of the same message of the method's package resolve alike -/
theorem resolve_relative_eq_absolute (pkg sel : Str) (h : '.' ∉ sel) :
    resolve pkg sel = resolve pkg (pkg ++ '.' :: sel) := by
  rw [resolve_relative pkg sel h]
  exact (resolve_absolute _ _ (by simp)).symm

/-! ## `_maybe_get_lro` -/

/-- **Exact characterisation of a successful LRO annotation**: the method is typed `(r, md)` iff it
returns `google.longrunning.Operation`, carries `operation_info` with both names non-empty, and the
resolved names are messages of SOME file of the request (or of the service's own file); `r`, `md`
are those resolved names. -/
theorem lroInfo_some_iff (api : Api) (f : File) (m : Method) (r md : Str) :
    lroInfo api f m = .ok (some (r, md)) ↔
      isOperation m.output = true ∧ ∃ op, m.opInfo = some op ∧ op.response ≠ [] ∧ op.metadata ≠ [] ∧
        r = resolve f.package op.response ∧ md = resolve f.package op.metadata ∧
        r ∈ visible api f ∧ md ∈ visible api f := by
  unfold lroInfo
  by_cases hop : isOperation m.output = true
  · simp only [hop, Bool.not_true, Bool.false_eq_true, if_false, true_and]
    cases hinfo : m.opInfo with
    | none => simp
    | some op =>
      by_cases he : op.response = [] ∨ op.metadata = []
      · simp only [he, if_true]
        constructor
        · intro h; cases h
        · rintro ⟨op', h1, h2, h3, _⟩
          cases h1
          rcases he with he | he
          · exact absurd he h2
          · exact absurd he h3
      · simp only [he, if_false]
        have he' : op.response ≠ [] ∧ op.metadata ≠ [] := by
          constructor
          · intro h; exact he (Or.inl h)
          · intro h; exact he (Or.inr h)
        cases h1 : lookup (visible api f) (resolve f.package op.response) with
        | none =>
          simp only []
          constructor
          · intro h; cases h
          · rintro ⟨op', h0, _, _, hr, _, hrm, _⟩
            cases h0
            rw [hr] at hrm
            exact absurd hrm (lookup_eq_none.mp h1)
        | some r' =>
          have hr' := lookup_eq_some.mp h1
          cases h2 : lookup (visible api f) (resolve f.package op.metadata) with
          | none =>
            simp only []
            constructor
            · intro h; cases h
            · rintro ⟨op', h0, _, _, _, hm, _, hmm⟩
              cases h0
              rw [hm] at hmm
              exact absurd hmm (lookup_eq_none.mp h2)
          | some md' =>
            have hmd' := lookup_eq_some.mp h2
            simp only []
            constructor
            · intro h
              have h' : r' = r ∧ md' = md := by simpa using h
              refine ⟨op, rfl, he'.1, he'.2, ?_, ?_, ?_, ?_⟩
              · rw [← h'.1]; exact hr'.1
              · rw [← h'.2]; exact hmd'.1
              · rw [← h'.1, hr'.1]; exact hr'.2
              · rw [← h'.2, hmd'.1]; exact hmd'.2
            · rintro ⟨op', h0, _, _, hr, hm, _, _⟩
              cases h0
              rw [hr, hm, hr'.1, hmd'.1]
  · have hop' : isOperation m.output = false := by simpa using hop
    simp only [hop', Bool.not_false, if_true]
    constructor
    · intro h; cases h
    · rintro ⟨h, _⟩; cases h

/-- **Two-pass visibility**: if the (resolved) response and metadata types are defined by ANY file of
the request, the annotation is accepted and typed by them — whatever any file imports.  `deps`
occurs nowhere in the hypotheses. -/
theorem lro_visible_without_import (api : Api) (f : File) (m : Method) (op : OpInfo)
    (hout : isOperation m.output = true) (hinfo : m.opInfo = some op)
    (hr : op.response ≠ []) (hm : op.metadata ≠ [])
    (hrdef : ∃ g ∈ api, resolve f.package op.response ∈ g.messages)
    (hmdef : ∃ g ∈ api, resolve f.package op.metadata ∈ g.messages) :
    lroInfo api f m = .ok (some (resolve f.package op.response, resolve f.package op.metadata)) := by
  rw [lroInfo_some_iff]
  exact ⟨hout, op, hinfo, hr, hm, rfl, rfl, mem_visible.mpr (Or.inr hrdef), mem_visible.mpr (Or.inr hmdef)⟩

/-- the same fact as an invariance: rewriting the import lists of all files in any way changes nothing -/
theorem lroInfo_imports_irrelevant (g : String → List String → List String) (api : Api) (f : File) (m : Method) :
    lroInfo (api.map (reimport g)) (reimport g f) m = lroInfo api f m := by
  unfold lroInfo
  rw [visible_reimport]
  rfl

/-- a relative name denotes the message of that name in the method's package, wherever it is defined.
PARTIAL: proved for relative names that are a single identifier (`'.' ∉ name`).  The full statement
("any name relative to the package") is FALSE for the code: a relative name of a nested message
(`Outer.Inner`) is taken as absolute — see `relative_nested_counterexample` (recorded finding). -/
theorem lro_relative_in_package_partial (api : Api) (f : File) (m : Method) (op : OpInfo)
    (hout : isOperation m.output = true) (hinfo : m.opInfo = some op)
    (hr : op.response ≠ []) (hm : op.metadata ≠ [])
    (hrrel : '.' ∉ op.response) (hmrel : '.' ∉ op.metadata)
    (hrdef : ∃ g ∈ api, f.package ++ '.' :: op.response ∈ g.messages)
    (hmdef : ∃ g ∈ api, f.package ++ '.' :: op.metadata ∈ g.messages) :
    lroInfo api f m = .ok (some (f.package ++ '.' :: op.response, f.package ++ '.' :: op.metadata)) := by
  have := lro_visible_without_import api f m op hout hinfo hr hm
    (by rw [resolve_relative _ _ hrrel]; exact hrdef) (by rw [resolve_relative _ _ hmrel]; exact hmdef)
  rw [resolve_relative _ _ hrrel, resolve_relative _ _ hmrel] at this
  exact this

/-- **Rejection at generation time**: an annotated Operation-returning method lacking either type
name raises `TypeError` while the schema is built. -/
theorem missing_type_rejected (api : Api) (f : File) (m : Method) (op : OpInfo)
    (hout : isOperation m.output = true) (hinfo : m.opInfo = some op)
    (h : op.response = [] ∨ op.metadata = []) :
    lroInfo api f m = .error .typeError ∧ ∀ t, emitted api f m t = .error .typeError := by
  have : lroInfo api f m = .error .typeError := by
    unfold lroInfo
    simp [hout, hinfo, h]
  exact ⟨this, fun t => by simp [emitted, this]⟩

/-- **No annotation ⇒ raw Operation**: `lro = None`, the emitted method returns the transport's
reply unwrapped, and the client-level return type is the output message itself. -/
theorem unannotated_is_raw (api : Api) (f : File) (m : Method) (t : Transport)
    (hinfo : m.opInfo = none) :
    lroInfo api f m = .ok none ∧ emitted api f m t = .ok .raw ∧
    ∀ v : MethodView, v.void = false → v.lro = false → v.extLro = false → v.paged = false →
      ∀ a, clientOutput v a = .message v.output := by
  have : lroInfo api f m = .ok none := by
    unfold lroInfo
    by_cases h : isOperation m.output = true <;> simp [h, hinfo]
  refine ⟨this, by simp [emitted, this], ?_⟩
  intro v h1 h2 h3 h4 a
  simp [clientOutput, h1, h2, h3, h4]

/-- forced hypothesis of the visibility theorem, stated: a well-formed annotation naming a type that
no file of the request defines is NOT rejected with the advertised `TypeError` but with `KeyError`. -/
theorem unknown_type_keyerror (api : Api) (f : File) (m : Method) (op : OpInfo)
    (hout : isOperation m.output = true) (hinfo : m.opInfo = some op)
    (hr : op.response ≠ []) (hm : op.metadata ≠ [])
    (hundef : resolve f.package op.response ∉ visible api f) :
    lroInfo api f m = .error (.keyError (resolve f.package op.response)) := by
  unfold lroInfo
  have : ¬ (op.response = [] ∨ op.metadata = []) := by
    rintro (h | h)
    · exact hr h
    · exact hm h
  simp [hout, hinfo, this, lookup_eq_none.mpr hundef]

/-! ## Client output and the emitted wrapping -/

/-- an LRO method's client-level return type is the operation future of the client's flavour -/
theorem lro_client_output (v : MethodView) (hv : v.void = false) (hl : v.lro = true) :
    clientOutput v false = .operation ∧ clientOutput v true = .asyncOperation := by
  simp [clientOutput, hv, hl]

/-- **The emitted `from_gapic` call names exactly the annotated types** and the transport's own
operations client. -/
theorem future_types (api : Api) (f : File) (m : Method) (t : Transport) (r md : Str)
    (h : lroInfo api f m = .ok (some (r, md))) :
    emitted api f m t = .ok (.future (operationsClient t) r md) := by
  simp [emitted, h]

/-- the emitted method wraps into a future exactly when `lroInfo` says so -/
theorem emitted_future_iff (api : Api) (f : File) (m : Method) (t : Transport) (o : OpsClient) (r md : Str) :
    emitted api f m t = .ok (.future o r md) ↔ lroInfo api f m = .ok (some (r, md)) ∧ o = operationsClient t := by
  unfold emitted
  cases h : lroInfo api f m with
  | error e => simp
  | ok v =>
    cases v with
    | none => simp
    | some p =>
      obtain ⟨r', md'⟩ := p
      simp only [Except.ok.injEq, Wrap.future.injEq, Option.some.injEq, Prod.mk.injEq]
      constructor
      · rintro ⟨h1, h2, h3⟩; exact ⟨⟨h2, h3⟩, h1.symm⟩
      · rintro ⟨⟨h2, h3⟩, h1⟩; exact ⟨h1.symm, h2, h3⟩

/-- **Same channel** (structural): every RPC of a client call — the method itself and every
`GetOperation` poll — travels on the channel the transport was given. -/
theorem ops_client_same_channel (api : Api) (f : File) (m : Method) (t : Transport) (w : Wrap)
    (path : Str) (first : OpState) (replies : List OpState)
    (h : emitted api f m t = .ok w) :
    ∀ e ∈ callTrace t path w first replies, e.1 = t.channel := by
  intro e he
  cases w with
  | raw => simp [callTrace] at he; simp [he]
  | future o r md =>
    have := (emitted_future_iff api f m t o r md).mp h
    simp only [callTrace, List.mem_cons, List.mem_replicate] at he
    rcases he with he | ⟨_, he⟩
    · simp [he]
    · simp [he, this.2, operationsClient]

/-! ## Histories: not-done^k, then done (all k, by induction) -/

/-- the first done operation decides; exactly `k+1` polls for `k` not-done replies; nothing after the
done reply is fetched -/
theorem poll_first_done (first : OpState) (pre : List OpState) (d : OpState) (post : List OpState)
    (hfirst : first.done = false) (hpre : ∀ o ∈ pre, o.done = false) (hd : d.done = true) :
    poll first (pre ++ d :: post) = (d, pre.length + 1) := by
  induction pre generalizing first with
  | nil =>
    cases post with
    | nil => simp [poll, hfirst]
    | cons p post => simp [poll, hfirst, hd]
  | cons a pre ih =>
    have ha := hpre a (by simp)
    have := ih a ha (fun o ho => hpre o (by simp [ho]))
    simp [poll, hfirst, this]

/-- a reply that is already done is never followed by a poll -/
theorem poll_initial_done (first : OpState) (replies : List OpState) (h : first.done = true) :
    poll first replies = (first, 0) := by
  cases replies <;> simp [poll, h]

/-- **Typed result**: after `not-done^k, done(response packed as the annotated response type)` the
future's result is an instance of that type carrying the packed payload, after exactly `k+1` polls,
and `metadata` is the done operation's metadata as an instance of the annotated metadata type. -/
theorem result_typed (rt mt : Str) (first : OpState) (pre : List OpState) (d : OpState) (post : List OpState)
    (p q : Nat)
    (hfirst : first.done = false) (hpre : ∀ o ∈ pre, o.done = false) (hd : d.done = true)
    (hout : d.outcome = .response ⟨rt, p⟩) (hmeta : d.metadata = some ⟨mt, q⟩) :
    let o := runFuture rt mt first (pre ++ d :: post)
    o.result = .ok rt p ∧ o.polls = pre.length + 1 ∧ o.metadataAfter = some (.ok mt q) := by
  simp [runFuture, poll_first_done first pre d post hfirst hpre hd, settle, hd, hout, unpack, metadataOf, hmeta]

/-- done with `error` ⇒ the future raises the API error of that code, after `k+1` polls -/
theorem result_error (rt mt : Str) (first : OpState) (pre : List OpState) (d : OpState) (post : List OpState)
    (c : Nat)
    (hfirst : first.done = false) (hpre : ∀ o ∈ pre, o.done = false) (hd : d.done = true)
    (hout : d.outcome = .error c) :
    let o := runFuture rt mt first (pre ++ d :: post)
    o.result = .apiError c ∧ o.polls = pre.length + 1 := by
  simp [runFuture, poll_first_done first pre d post hfirst hpre hd, settle, hd, hout]

/-- the RPC's own reply is already done ⇒ no poll at all -/
theorem result_immediate (rt mt : Str) (first : OpState) (replies : List OpState) (p : Nat)
    (hd : first.done = true) (hout : first.outcome = .response ⟨rt, p⟩) :
    let o := runFuture rt mt first replies
    o.result = .ok rt p ∧ o.polls = 0 := by
  simp [runFuture, poll_initial_done first replies hd, settle, hd, hout, unpack]

/-- a result is an instance of the annotated response type or it is no result: the future never
hands out a message of another type -/
theorem result_only_annotated_type (rt mt : Str) (first : OpState) (replies : List OpState) (ty : Str) (p : Nat)
    (h : (runFuture rt mt first replies).result = .ok ty p) : ty = rt := by
  simp only [runFuture, settle] at h
  split at h
  · cases h
  · split at h
    · rename_i a _
      simp only [unpack] at h
      split at h
      · cases h; rfl
      · cases h
    · cases h
    · cases h

/-- **End to end**: annotation accepted with resolved types `(r, md)` ⇒ the emitted method returns a
future on the transport's channel whose result, for every history `not-done^k, done(response: r)`,
is an instance of `r` and whose metadata is an instance of `md`. -/
theorem lro_end_to_end (api : Api) (f : File) (m : Method) (t : Transport) (op : OpInfo)
    (hout : isOperation m.output = true) (hinfo : m.opInfo = some op)
    (hr : op.response ≠ []) (hm : op.metadata ≠ [])
    (hrdef : ∃ g ∈ api, resolve f.package op.response ∈ g.messages)
    (hmdef : ∃ g ∈ api, resolve f.package op.metadata ∈ g.messages)
    (first : OpState) (pre : List OpState) (d : OpState) (post : List OpState) (p q : Nat)
    (hfirst : first.done = false) (hpre : ∀ o ∈ pre, o.done = false) (hd : d.done = true)
    (hresp : d.outcome = .response ⟨resolve f.package op.response, p⟩)
    (hmeta : d.metadata = some ⟨resolve f.package op.metadata, q⟩) :
    ∃ rt mt, emitted api f m t = .ok (.future ⟨t.channel⟩ rt mt) ∧
      rt = resolve f.package op.response ∧ mt = resolve f.package op.metadata ∧
      (runFuture rt mt first (pre ++ d :: post)).result = .ok rt p ∧
      (runFuture rt mt first (pre ++ d :: post)).metadataAfter = some (.ok mt q) ∧
      (runFuture rt mt first (pre ++ d :: post)).polls = pre.length + 1 := by
  refine ⟨_, _, ?_, rfl, rfl, ?_⟩
  · have := lro_visible_without_import api f m op hout hinfo hr hm hrdef hmdef
    simpa [operationsClient] using future_types api f m t _ _ this
  · have := result_typed _ _ first pre d post p q hfirst hpre hd hresp hmeta
    exact ⟨this.1, this.2.2, this.2.1⟩

/-! ## Non-vacuity and counterexamples -/

section Examples

def libFile : File :=
  { name := "acme/lib/v1/lib.proto", package := "acme.lib.v1".toList,
    deps := ["google/longrunning/operations.proto"],
    messages := ["acme.lib.v1.Book".toList, "acme.lib.v1.Outer".toList, "acme.lib.v1.Outer.Inner".toList] }

/-- defines `Crate`; imported by nobody -/
def extraFile : File :=
  { name := "acme/lib/v1/extra.proto", package := "acme.lib.v1".toList, deps := [],
    messages := ["acme.lib.v1.Crate".toList] }

def emptyFile : File :=
  { name := "google/protobuf/empty.proto", package := "google.protobuf".toList, deps := [],
    messages := ["google.protobuf.Empty".toList] }

/-- request order: the service's file FIRST, the file defining the metadata type after it -/
def demoApi : Api := [emptyFile, libFile, extraFile]

def opOut : Str := ".google.longrunning.Operation".toList

def move : Method := ⟨"Move", opOut, some ⟨"google.protobuf.Empty".toList, "Crate".toList⟩⟩

/-- hypotheses of `lro_visible_without_import` / `lro_end_to_end` are met by an unimported, later file -/
example : lroInfo demoApi libFile move = .ok (some ("google.protobuf.Empty".toList, "acme.lib.v1.Crate".toList)) := by decide

/-- a single pass in request order would not have seen `Crate` when loading lib.proto (position 1) -/
example : lookup (visibleOnePass demoApi 1) "acme.lib.v1.Crate".toList = none := by decide

example : '.' ∉ "Crate".toList := by decide
example : '.' ∈ "google.protobuf.Empty".toList := by decide
example : isOperation opOut = true := by decide

/-- `missing_type_rejected` -/
example : lroInfo demoApi libFile ⟨"Move", opOut, some ⟨"Book".toList, []⟩⟩ = .error .typeError := by decide

/-- `unannotated_is_raw` -/
example : emitted demoApi libFile ⟨"Move", opOut, none⟩ ⟨7⟩ = .ok .raw := by decide

/-- `unknown_type_keyerror` -/
example : lroInfo demoApi libFile ⟨"Move", opOut, some ⟨"Nope".toList, "Book".toList⟩⟩
    = .error (.keyError "acme.lib.v1.Nope".toList) := by decide

/-- a history with two not-done replies, a done reply and a reply that must never be fetched -/
example : runFuture "acme.lib.v1.Book".toList "acme.lib.v1.Crate".toList
    ⟨false, some ⟨"acme.lib.v1.Crate".toList, 1⟩, .neither⟩
    [⟨false, none, .neither⟩, ⟨false, some ⟨"acme.lib.v1.Crate".toList, 2⟩, .neither⟩,
     ⟨true, some ⟨"acme.lib.v1.Crate".toList, 3⟩, .response ⟨"acme.lib.v1.Book".toList, 42⟩⟩,
     ⟨true, none, .error 5⟩]
    = ⟨3, .ok "acme.lib.v1.Book".toList 42, some (.ok "acme.lib.v1.Crate".toList 1), some (.ok "acme.lib.v1.Crate".toList 3)⟩ := by decide

/-- **The code's reading of "relative"** (confirmed on the real generator; recorded finding): a
relative name of a NESTED message of the method's own package, `Outer.Inner`, contains a dot, is
taken as fully qualified and is not found — although `acme.lib.v1.Outer.Inner` is defined in the
service's own file. -/
theorem relative_nested_counterexample :
    "acme.lib.v1.Outer.Inner".toList ∈ visible demoApi libFile ∧
    lroInfo demoApi libFile ⟨"Move", opOut, some ⟨"Outer.Inner".toList, "Book".toList⟩⟩
      = .error (.keyError "Outer.Inner".toList) := by decide

/-- the fully-qualified spelling of the same nested message is accepted -/
example : lroInfo demoApi libFile ⟨"Move", opOut, some ⟨"acme.lib.v1.Outer.Inner".toList, "Book".toList⟩⟩
    = .ok (some ("acme.lib.v1.Outer.Inner".toList, "acme.lib.v1.Book".toList)) := by decide

/-- a leading dot (descriptor-style fully-qualified name) is not understood either (hypothesis) -/
theorem leading_dot_counterexample :
    lroInfo demoApi libFile ⟨"Move", opOut, some ⟨".acme.lib.v1.Book".toList, "Book".toList⟩⟩
      = .error (.keyError ".acme.lib.v1.Book".toList) := by decide

end Examples

/-! ## `resolve` IS the code's current `Address.resolve`
`Pinned.Funcs.address_resolve` is the Lean translation of `gapic/schema/metadata.py: Address.resolve` produced by
harness/pyfun2lean.py; `Bridge.Funcs.address_resolve` re-proves on every run that translating /repo's current source
gives the same definition. -/

section Translated
open GapicModel.PyRt

theorem contains_dot (s : List Char) : PyRt.contains ['.'] s = s.contains '.' := by
  induction s with
  | nil => simp [PyRt.contains]
  | cons c cs ih =>
    have hp : List.isPrefixOf ['.'] (c :: cs) = (c == '.') := by
      simp only [List.isPrefixOf, Bool.and_true]
      rw [Bool.eq_iff_iff]; simp only [beq_iff_eq]; exact eq_comm
    rw [PyRt.contains, hp, ih, List.contains_cons]
    rw [Bool.eq_iff_iff]; simp only [Bool.or_eq_true, beq_iff_eq]
    constructor
    · rintro (h | h); exact Or.inl h.symm; exact Or.inr h
    · rintro (h | h); exact Or.inl h.symm; exact Or.inr h

theorem resolve_is_translated (pkg : List (List Char)) (sel : List Char) :
    GapicModel.Model.Lro.resolve (PyRt.join ['.'] pkg) sel = Pinned.Funcs.address_resolve pkg sel := by
  simp only [GapicModel.Model.Lro.resolve, Pinned.Funcs.address_resolve, contains_dot]
  cases h : sel.contains '.' <;> simp

end Translated

end GapicModel.Props.C08
