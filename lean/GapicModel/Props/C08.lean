import GapicModel.Model.Lro
import GapicModel.Pinned.Funcs
/-
C08 — long-running methods return futures typed by google.longrunning.operation_info.
-/
namespace GapicModel.Props.C08
open GapicModel.Model.Lro

section Aux

theorem lookup_eq_some {ms : List Str} {key k : Str} : lookup ms key = some k ↔ k = key ∧ key ∈ ms := by
  unfold lookup
  constructor
  · intro h
    have h1 := List.find?_some h
    have h2 := List.mem_of_find?_eq_some h
    have : k = key := by simpa using h1
    subst this
    exact ⟨rfl, h2⟩
  · rintro ⟨rfl, hm⟩
    cases h : List.find? (· == k) ms with
    | none =>
      have := List.find?_eq_none.mp h k hm
      simp at this
    | some k' =>
      have := List.find?_some h
      simp at this
      simp [this]

theorem lookup_of_mem {ms : List Str} {key : Str} (h : key ∈ ms) : lookup ms key = some key :=
  lookup_eq_some.mpr ⟨rfl, h⟩

theorem lookup_eq_none {ms : List Str} {key : Str} : lookup ms key = none ↔ key ∉ ms := by
  unfold lookup
  simp [List.find?_eq_none]
  constructor
  · intro h hm; exact h key hm rfl
  · intro h x hx he; exact h (he ▸ hx)

theorem mem_visible {api : Api} {f : File} {k : Str} :
    k ∈ visible api f ↔ k ∈ f.messages ∨ ∃ g ∈ api, k ∈ g.messages := by
  simp [visible, allMessages, List.mem_flatMap]

/-- change the import list of a file by an arbitrary function -/
def reimport (g : String → List String → List String) (f : File) : File :=
  { f with deps := g f.name f.deps }

theorem visible_reimport (g : String → List String → List String) (api : Api) (f : File) :
    visible (api.map (reimport g)) (reimport g f) = visible api f := by
  simp only [visible, allMessages, reimport]
  congr 1
  induction api with
  | nil => rfl
  | cons a api ih => simp [List.flatMap_cons, ih, reimport]

end Aux

/-! ## Type resolution (`Address.resolve`) -/

/-- a name without a dot is resolved relative to the package of the method's file -/
theorem resolve_relative (pkg sel : Str) (h : '.' ∉ sel) : resolve pkg sel = pkg ++ '.' :: sel := by
  simp [resolve, h]

/-- a name containing a dot is taken as fully qualified, unchanged -/
theorem resolve_absolute (pkg sel : Str) (h : '.' ∈ sel) : resolve pkg sel = sel := by
  simp [resolve, h]

/-- resolved names are fixed points: resolving twice is resolving once -/
theorem resolve_idempotent (pkg sel : Str) : resolve pkg (resolve pkg sel) = resolve pkg sel := by
  by_cases h : '.' ∈ sel
  · rw [resolve_absolute pkg sel h, resolve_absolute pkg sel h]
  · rw [resolve_relative pkg sel h]
    exact resolve_absolute _ _ (by simp)

/-- relative and absolute spellings of the same message of the method's package resolve alike -/
theorem resolve_relative_eq_absolute (pkg sel : Str) (h : '.' ∉ sel) :
    resolve pkg sel = resolve pkg (pkg ++ '.' :: sel) := by
  rw [resolve_relative pkg sel h]
  exact (resolve_absolute _ _ (by simp)).symm

/-! ## `_maybe_get_lro` -/

/-- **Exact characterisation of a successful LRO annotation**: the method is typed `(r, md)` iff it
returns `google.longrunning.Operation`, carries `operation_info` with both names non-empty, and the
resolved names are messages of SOME file of the request (or of the service's own file); `r`, `md`
are those resolved names. -/
theorem lroInfo_some_iff (api : Api) (f : File) (m : Method) (r md : Str) :
    lroInfo api f m = .ok (some (r, md)) ↔
      isOperation m.output = true ∧ ∃ op, m.opInfo = some op ∧ op.response ≠ [] ∧ op.metadata ≠ [] ∧
        r = resolve f.package op.response ∧ md = resolve f.package op.metadata ∧
        r ∈ visible api f ∧ md ∈ visible api f := by
  unfold lroInfo
  by_cases hop : isOperation m.output = true
  · simp only [hop, Bool.not_true, Bool.false_eq_true, if_false, true_and]
    cases hinfo : m.opInfo with
    | none => simp
    | some op =>
      by_cases he : op.response = [] ∨ op.metadata = []
      · simp only [he, if_true]
        constructor
        · intro h; cases h
        · rintro ⟨op', h1, h2, h3, _⟩
          cases h1
          rcases he with he | he
          · exact absurd he h2
          · exact absurd he h3
      · simp only [he, if_false]
        have he' : op.response ≠ [] ∧ op.metadata ≠ [] := by
          constructor
          · intro h; exact he (Or.inl h)
          · intro h; exact he (Or.inr h)
        cases h1 : lookup (visible api f) (resolve f.package op.response) with
        | none =>
          simp only []
          constructor
          · intro h; cases h
          · rintro ⟨op', h0, _, _, hr, _, hrm, _⟩
            cases h0
            rw [hr] at hrm
            exact absurd hrm (lookup_eq_none.mp h1)
        | some r' =>
          have hr' := lookup_eq_some.mp h1
          cases h2 : lookup (visible api f) (resolve f.package op.metadata) with
          | none =>
            simp only []
            constructor
            · intro h; cases h
            · rintro ⟨op', h0, _, _, _, hm, _, hmm⟩
              cases h0
              rw [hm] at hmm
              exact absurd hmm (lookup_eq_none.mp h2)
          | some md' =>
            have hmd' := lookup_eq_some.mp h2
            simp only []
            constructor
            · intro h
              have h' : r' = r ∧ md' = md := by simpa using h
              refine ⟨op, rfl, he'.1, he'.2, ?_, ?_, ?_, ?_⟩
              · rw [← h'.1]; exact hr'.1
              · rw [← h'.2]; exact hmd'.1
              · rw [← h'.1, hr'.1]; exact hr'.2
              · rw [← h'.2, hmd'.1]; exact hmd'.2
            · rintro ⟨op', h0, _, _, hr, hm, _, _⟩
              cases h0
              rw [hr, hm, hr'.1, hmd'.1]
  · have hop' : isOperation m.output = false := by simpa using hop
    simp only [hop', Bool.not_false, if_true]
    constructor
    · intro h; cases h
    · rintro ⟨h, _⟩; cases h

/-- **Two-pass visibility**: if the (resolved) response and metadata types are defined by ANY file of
the request, the annotation is accepted and typed by them — whatever any file imports.  `deps`
occurs nowhere in the hypotheses. -/
theorem lro_visible_without_import (api : Api) (f : File) (m : Method) (op : OpInfo)
    (hout : isOperation m.output = true) (hinfo : m.opInfo = some op)
    (hr : op.response ≠ []) (hm : op.metadata ≠ [])
    (hrdef : ∃ g ∈ api, resolve f.package op.response ∈ g.messages)
    (hmdef : ∃ g ∈ api, resolve f.package op.metadata ∈ g.messages) :
    lroInfo api f m = .ok (some (resolve f.package op.response, resolve f.package op.metadata)) := by
  rw [lroInfo_some_iff]
  exact ⟨hout, op, hinfo, hr, hm, rfl, rfl, mem_visible.mpr (Or.inr hrdef), mem_visible.mpr (Or.inr hmdef)⟩

/-- the same fact as an invariance: rewriting the import lists of all files in any way changes nothing -/
theorem lroInfo_imports_irrelevant (g : String → List String → List String) (api : Api) (f : File) (m : Method) :
    lroInfo (api.map (reimport g)) (reimport g f) m = lroInfo api f m := by
  unfold lroInfo
  rw [visible_reimport]
  rfl

/-- a relative name denotes the message of that name in the method's package, wherever it is defined.
PARTIAL: proved for relative names that are a single identifier (`'.' ∉ name`).  The full statement
("any name relative to the package") is FALSE for the code: a relative name of a nested message
(`Outer.Inner`) is taken as absolute — see `relative_nested_counterexample` (recorded finding). -/
theorem lro_relative_in_package_partial (api : Api) (f : File) (m : Method) (op : OpInfo)
    (hout : isOperation m.output = true) (hinfo : m.opInfo = some op)
    (hr : op.response ≠ []) (hm : op.metadata ≠ [])
    (hrrel : '.' ∉ op.response) (hmrel : '.' ∉ op.metadata)
    (hrdef : ∃ g ∈ api, f.package ++ '.' :: op.response ∈ g.messages)
    (hmdef : ∃ g ∈ api, f.package ++ '.' :: op.metadata ∈ g.messages) :
    lroInfo api f m = .ok (some (f.package ++ '.' :: op.response, f.package ++ '.' :: op.metadata)) := by
  have := lro_visible_without_import api f m op hout hinfo hr hm
    (by rw [resolve_relative _ _ hrrel]; exact hrdef) (by rw [resolve_relative _ _ hmrel]; exact hmdef)
  rw [resolve_relative _ _ hrrel, resolve_relative _ _ hmrel] at this
  exact this

/-- **Rejection at generation time**: an annotated Operation-returning method lacking either type
name raises `TypeError` while the schema is built. -/
theorem missing_type_rejected (api : Api) (f : File) (m : Method) (op : OpInfo)
    (hout : isOperation m.output = true) (hinfo : m.opInfo = some op)
    (h : op.response = [] ∨ op.metadata = []) :
    lroInfo api f m = .error .typeError ∧ ∀ t, emitted api f m t = .error .typeError := by
  have : lroInfo api f m = .error .typeError := by
    unfold lroInfo
    simp [hout, hinfo, h]
  exact ⟨this, fun t => by simp [emitted, this]⟩

/-- **No annotation ⇒ raw Operation**: `lro = None`, the emitted method returns the transport's
reply unwrapped, and the client-level return type is the output message itself. -/
theorem unannotated_is_raw (api : Api) (f : File) (m : Method) (t : Transport)
    (hinfo : m.opInfo = none) :
    lroInfo api f m = .ok none ∧ emitted api f m t = .ok .raw ∧
    ∀ v : MethodView, v.void = false → v.lro = false → v.extLro = false → v.paged = false →
      ∀ a, clientOutput v a = .message v.output := by
  have : lroInfo api f m = .ok none := by
    unfold lroInfo
    by_cases h : isOperation m.output = true <;> simp [h, hinfo]
  refine ⟨this, by simp [emitted, this], ?_⟩
  intro v h1 h2 h3 h4 a
  simp [clientOutput, h1, h2, h3, h4]

/-- forced hypothesis of the visibility theorem, stated: a well-formed annotation naming a type that
no file of the request defines is NOT rejected with the advertised `TypeError` but with `KeyError`. -/
theorem unknown_type_keyerror (api : Api) (f : File) (m : Method) (op : OpInfo)
    (hout : isOperation m.output = true) (hinfo : m.opInfo = some op)
    (hr : op.response ≠ []) (hm : op.metadata ≠ [])
    (hundef : resolve f.package op.response ∉ visible api f) :
    lroInfo api f m = .error (.keyError (resolve f.package op.response)) := by
  unfold lroInfo
  have : ¬ (op.response = [] ∨ op.metadata = []) := by
    rintro (h | h)
    · exact hr h
    · exact hm h
  simp [hout, hinfo, this, lookup_eq_none.mpr hundef]

/-! ## Client output and the emitted wrapping -/

/-- an LRO method's client-level return type is the operation future of the client's flavour -/
theorem lro_client_output (v : MethodView) (hv : v.void = false) (hl : v.lro = true) :
    clientOutput v false = .operation ∧ clientOutput v true = .asyncOperation := by
  simp [clientOutput, hv, hl]

/-- **The emitted `from_gapic` call names exactly the annotated types** and the transport's own
operations client. -/
theorem future_types (api : Api) (f : File) (m : Method) (t : Transport) (r md : Str)
    (h : lroInfo api f m = .ok (some (r, md))) :
    emitted api f m t = .ok (.future (operationsClient t) r md) := by
  simp [emitted, h]

/-- the emitted method wraps into a future exactly when `lroInfo` says so -/
theorem emitted_future_iff (api : Api) (f : File) (m : Method) (t : Transport) (o : OpsClient) (r md : Str) :
    emitted api f m t = .ok (.future o r md) ↔ lroInfo api f m = .ok (some (r, md)) ∧ o = operationsClient t := by
  unfold emitted
  cases h : lroInfo api f m with
  | error e => simp
  | ok v =>
    cases v with
    | none => simp
    | some p =>
      obtain ⟨r', md'⟩ := p
      simp only [Except.ok.injEq, Wrap.future.injEq, Option.some.injEq, Prod.mk.injEq]
      constructor
      · rintro ⟨h1, h2, h3⟩; exact ⟨⟨h2, h3⟩, h1.symm⟩
      · rintro ⟨⟨h2, h3⟩, h1⟩; exact ⟨h1.symm, h2, h3⟩

/-- **Same channel** (structural): every RPC of a client call — the method itself and every
`GetOperation` poll — travels on the channel the transport was given. -/
theorem ops_client_same_channel (api : Api) (f : File) (m : Method) (t : Transport) (w : Wrap)
    (path : Str) (first : OpState) (replies : List OpState)
    (h : emitted api f m t = .ok w) :
    ∀ e ∈ callTrace t path w first replies, e.1 = t.channel := by
  intro e he
  cases w with
  | raw => simp [callTrace] at he; simp [he]
  | future o r md =>
    have := (emitted_future_iff api f m t o r md).mp h
    simp only [callTrace, List.mem_cons, List.mem_replicate] at he
    rcases he with he | ⟨_, he⟩
    · simp [he]
    · simp [he, this.2, operationsClient]

/-! ## Histories: not-done^k, then done (all k, by induction) -/

/-- the first done operation decides; exactly `k+1` polls for `k` not-done replies; nothing after the
done reply is fetched -/
theorem poll_first_done (first : OpState) (pre : List OpState) (d : OpState) (post : List OpState)
    (hfirst : first.done = false) (hpre : ∀ o ∈ pre, o.done = false) (hd : d.done = true) :
    poll first (pre ++ d :: post) = (d, pre.length + 1) := by
  induction pre generalizing first with
  | nil =>
    cases post with
    | nil => simp [poll, hfirst]
    | cons p post => simp [poll, hfirst, hd]
  | cons a pre ih =>
    have ha := hpre a (by simp)
    have := ih a ha (fun o ho => hpre o (by simp [ho]))
    simp [poll, hfirst, this]

/-- a reply that is already done is never followed by a poll -/
theorem poll_initial_done (first : OpState) (replies : List OpState) (h : first.done = true) :
    poll first replies = (first, 0) := by
  cases replies <;> simp [poll, h]

/-- **Typed result**: after `not-done^k, done(response packed as the annotated response type)` the
future's result is an instance of that type carrying the packed payload, after exactly `k+1` polls,
and `metadata` is the done operation's metadata as an instance of the annotated metadata type. -/
theorem result_typed (rt mt : Str) (first : OpState) (pre : List OpState) (d : OpState) (post : List OpState)
    (p q : Nat)
    (hfirst : first.done = false) (hpre : ∀ o ∈ pre, o.done = false) (hd : d.done = true)
    (hout : d.outcome = .response ⟨rt, p⟩) (hmeta : d.metadata = some ⟨mt, q⟩) :
    let o := runFuture rt mt first (pre ++ d :: post)
    o.result = .ok rt p ∧ o.polls = pre.length + 1 ∧ o.metadataAfter = some (.ok mt q) := by
  simp [runFuture, poll_first_done first pre d post hfirst hpre hd, settle, hd, hout, unpack, metadataOf, hmeta]

/-- done with `error` ⇒ the future raises the API error of that code, after `k+1` polls -/
theorem result_error (rt mt : Str) (first : OpState) (pre : List OpState) (d : OpState) (post : List OpState)
    (c : Nat)
    (hfirst : first.done = false) (hpre : ∀ o ∈ pre, o.done = false) (hd : d.done = true)
    (hout : d.outcome = .error c) :
    let o := runFuture rt mt first (pre ++ d :: post)
    o.result = .apiError c ∧ o.polls = pre.length + 1 := by
  simp [runFuture, poll_first_done first pre d post hfirst hpre hd, settle, hd, hout]

/-- the RPC's own reply is already done ⇒ no poll at all -/
theorem result_immediate (rt mt : Str) (first : OpState) (replies : List OpState) (p : Nat)
    (hd : first.done = true) (hout : first.outcome = .response ⟨rt, p⟩) :
    let o := runFuture rt mt first replies
    o.result = .ok rt p ∧ o.polls = 0 := by
  simp [runFuture, poll_initial_done first replies hd, settle, hd, hout, unpack]

/-- a result is an instance of the annotated response type or it is no result: the future never
hands out a message of another type -/
theorem result_only_annotated_type (rt mt : Str) (first : OpState) (replies : List OpState) (ty : Str) (p : Nat)
    (h : (runFuture rt mt first replies).result = .ok ty p) : ty = rt := by
  simp only [runFuture, settle] at h
  split at h
  · cases h
  · split at h
    · rename_i a _
      simp only [unpack] at h
      split at h
      · cases h; rfl
      · cases h
    · cases h
    · cases h

/-- **End to end**: annotation accepted with resolved types `(r, md)` ⇒ the emitted method returns a
future on the transport's channel whose result, for every history `not-done^k, done(response: r)`,
is an instance of `r` and whose metadata is an instance of `md`. -/
theorem lro_end_to_end (api : Api) (f : File) (m : Method) (t : Transport) (op : OpInfo)
    (hout : isOperation m.output = true) (hinfo : m.opInfo = some op)
    (hr : op.response ≠ []) (hm : op.metadata ≠ [])
    (hrdef : ∃ g ∈ api, resolve f.package op.response ∈ g.messages)
    (hmdef : ∃ g ∈ api, resolve f.package op.metadata ∈ g.messages)
    (first : OpState) (pre : List OpState) (d : OpState) (post : List OpState) (p q : Nat)
    (hfirst : first.done = false) (hpre : ∀ o ∈ pre, o.done = false) (hd : d.done = true)
    (hresp : d.outcome = .response ⟨resolve f.package op.response, p⟩)
    (hmeta : d.metadata = some ⟨resolve f.package op.metadata, q⟩) :
    ∃ rt mt, emitted api f m t = .ok (.future ⟨t.channel⟩ rt mt) ∧
      rt = resolve f.package op.response ∧ mt = resolve f.package op.metadata ∧
      (runFuture rt mt first (pre ++ d :: post)).result = .ok rt p ∧
      (runFuture rt mt first (pre ++ d :: post)).metadataAfter = some (.ok mt q) ∧
      (runFuture rt mt first (pre ++ d :: post)).polls = pre.length + 1 := by
  refine ⟨_, _, ?_, rfl, rfl, ?_⟩
  · have := lro_visible_without_import api f m op hout hinfo hr hm hrdef hmdef
    simpa [operationsClient] using future_types api f m t _ _ this
  · have := result_typed _ _ first pre d post p q hfirst hpre hd hresp hmeta
    exact ⟨this.1, this.2.2, this.2.1⟩

/-! ## Non-vacuity and counterexamples -/

section Examples

def libFile : File :=
  { name := "acme/lib/v1/lib.proto", package := "acme.lib.v1".toList,
    deps := ["google/longrunning/operations.proto"],
    messages := ["acme.lib.v1.Book".toList, "acme.lib.v1.Outer".toList, "acme.lib.v1.Outer.Inner".toList] }

/-- defines `Crate`; imported by nobody -/
def extraFile : File :=
  { name := "acme/lib/v1/extra.proto", package := "acme.lib.v1".toList, deps := [],
    messages := ["acme.lib.v1.Crate".toList] }

def emptyFile : File :=
  { name := "google/protobuf/empty.proto", package := "google.protobuf".toList, deps := [],
    messages := ["google.protobuf.Empty".toList] }

/-- request order: the service's file FIRST, the file defining the metadata type after it -/
def demoApi : Api := [emptyFile, libFile, extraFile]

def opOut : Str := ".google.longrunning.Operation".toList

def move : Method := ⟨"Move", opOut, some ⟨"google.protobuf.Empty".toList, "Crate".toList⟩⟩

/-- hypotheses of `lro_visible_without_import` / `lro_end_to_end` are met by an unimported, later file -/
example : lroInfo demoApi libFile move = .ok (some ("google.protobuf.Empty".toList, "acme.lib.v1.Crate".toList)) := by decide

/-- a single pass in request order would not have seen `Crate` when loading lib.proto (position 1) -/
example : lookup (visibleOnePass demoApi 1) "acme.lib.v1.Crate".toList = none := by decide

example : '.' ∉ "Crate".toList := by decide
example : '.' ∈ "google.protobuf.Empty".toList := by decide
example : isOperation opOut = true := by decide

/-- `missing_type_rejected` -/
example : lroInfo demoApi libFile ⟨"Move", opOut, some ⟨"Book".toList, []⟩⟩ = .error .typeError := by decide

/-- `unannotated_is_raw` -/
example : emitted demoApi libFile ⟨"Move", opOut, none⟩ ⟨7⟩ = .ok .raw := by decide

/-- `unknown_type_keyerror` -/
example : lroInfo demoApi libFile ⟨"Move", opOut, some ⟨"Nope".toList, "Book".toList⟩⟩
    = .error (.keyError "acme.lib.v1.Nope".toList) := by decide

/-- a history with two not-done replies, a done reply and a reply that must never be fetched -/
example : runFuture "acme.lib.v1.Book".toList "acme.lib.v1.Crate".toList
    ⟨false, some ⟨"acme.lib.v1.Crate".toList, 1⟩, .neither⟩
    [⟨false, none, .neither⟩, ⟨false, some ⟨"acme.lib.v1.Crate".toList, 2⟩, .neither⟩,
     ⟨true, some ⟨"acme.lib.v1.Crate".toList, 3⟩, .response ⟨"acme.lib.v1.Book".toList, 42⟩⟩,
     ⟨true, none, .error 5⟩]
    = ⟨3, .ok "acme.lib.v1.Book".toList 42, some (.ok "acme.lib.v1.Crate".toList 1), some (.ok "acme.lib.v1.Crate".toList 3)⟩ := by decide

/-- **The code's reading of "relative"** (confirmed on the real generator; recorded finding): a
relative name of a NESTED message of the method's own package, `Outer.Inner`, contains a dot, is
taken as fully qualified and is not found — although `acme.lib.v1.Outer.Inner` is defined in the
service's own file. -/
theorem relative_nested_counterexample :
    "acme.lib.v1.Outer.Inner".toList ∈ visible demoApi libFile ∧
    lroInfo demoApi libFile ⟨"Move", opOut, some ⟨"Outer.Inner".toList, "Book".toList⟩⟩
      = .error (.keyError "Outer.Inner".toList) := by decide

/-- the fully-qualified spelling of the same nested message is accepted -/
example : lroInfo demoApi libFile ⟨"Move", opOut, some ⟨"acme.lib.v1.Outer.Inner".toList, "Book".toList⟩⟩
    = .ok (some ("acme.lib.v1.Outer.Inner".toList, "acme.lib.v1.Book".toList)) := by decide

/-- a leading dot (descriptor-style fully-qualified name) is not understood either (hypothesis) -/
theorem leading_dot_counterexample :
    lroInfo demoApi libFile ⟨"Move", opOut, some ⟨".acme.lib.v1.Book".toList, "Book".toList⟩⟩
      = .error (.keyError ".acme.lib.v1.Book".toList) := by decide

end Examples

/-! ## Whole service: methods are judged one by one (no state shared between methods) -/

/-- **Per-method independence**: a service loads iff every method loads, and entry `i` of the result is
`lroInfo` of method `i` alone — whatever annotations the other methods carry (two methods sharing a
response type but not a metadata type, the same type as response of one and metadata of another, …). -/
theorem loadService_ok_iff (api : Api) (f : File) (ms : List Method) (xs : List (Option (Str × Str))) :
    loadService api f ms = .ok xs ↔ ms.map (lroInfo api f) = xs.map .ok := by
  induction ms generalizing xs with
  | nil =>
    cases xs <;> simp [loadService]
  | cons m ms ih =>
    simp only [loadService, List.map_cons]
    cases h1 : lroInfo api f m with
    | error e => cases xs <;> simp
    | ok x =>
      cases h2 : loadService api f ms with
      | error e =>
        cases xs with
        | nil => simp
        | cons y ys =>
          simp only [List.map_cons, List.cons.injEq, Except.ok.injEq]
          constructor
          · intro h; cases h
          · rintro ⟨_, h⟩
            have := (ih ys).mpr h
            rw [h2] at this; cases this
      | ok zs =>
        have hz := (ih zs).mp h2
        cases xs with
        | nil => simp
        | cons y ys =>
          simp only [List.map_cons, List.cons.injEq, Except.ok.injEq]
          constructor
          · rintro ⟨rfl, rfl⟩; exact ⟨rfl, hz⟩
          · rintro ⟨rfl, h⟩
            have := (ih ys).mpr h
            rw [h2] at this
            cases this; exact ⟨rfl, rfl⟩

/-- the first method that cannot be loaded decides the generation outcome -/
theorem loadService_first_error (api : Api) (f : File) (pre : List Method) (m : Method) (post : List Method) (e : Err)
    (hpre : ∀ p ∈ pre, ∃ x, lroInfo api f p = .ok x) (hm : lroInfo api f m = .error e) :
    loadService api f (pre ++ m :: post) = .error e := by
  induction pre with
  | nil => simp [loadService, hm]
  | cons a pre ih =>
    obtain ⟨x, hx⟩ := hpre a (by simp)
    have := ih (fun p hp => hpre p (by simp [hp]))
    simp [loadService, hx, this]

/-- **Rejection at the level of the service**: one annotated Operation-returning method lacking a type name
(annotation present with both names empty included) makes the whole build raise `TypeError`, provided
the methods before it load. -/
theorem service_with_incomplete_annotation_rejected (api : Api) (f : File) (pre : List Method) (m : Method)
    (post : List Method) (op : OpInfo)
    (hpre : ∀ p ∈ pre, ∃ x, lroInfo api f p = .ok x)
    (hout : isOperation m.output = true) (hinfo : m.opInfo = some op) (h : op.response = [] ∨ op.metadata = []) :
    loadService api f (pre ++ m :: post) = .error .typeError :=
  loadService_first_error api f pre m post _ hpre (missing_type_rejected api f m op hout hinfo h).1

/-- the transport has an operations client iff some method is an LRO -/
theorem hasLro_iff (xs : List (Option (Str × Str))) : hasLro xs = true ↔ ∃ p, some p ∈ xs := by
  simp only [hasLro, List.any_eq_true]
  constructor
  · rintro ⟨x, hx, hs⟩
    cases x with
    | none => simp at hs
    | some p => exact ⟨p, hx⟩
  · rintro ⟨p, hp⟩; exact ⟨some p, hp, rfl⟩

/-! ## The name of api-core's `operation` module in the emitted client -/

/-- **The constructor call uses the name the import binds** — with or without an alias. -/
theorem futureCode_callee_bound (async : Bool) (v : Str) (coll res : List Str) (c : FutureCode)
    (h : futureCode async v coll res = some c) : c.callee = c.importAs ∧ c.importModule = futureModule async := by
  simp only [futureCode, Option.map_eq_some_iff] at h
  obtain ⟨a, _, rfl⟩ := h
  exact ⟨rfl, rfl⟩

/-- no collision ⇒ no alias: `from google.api_core import operation`, `operation.from_gapic(…)` -/
theorem futureCode_plain (async : Bool) (v : Str) (coll res : List Str)
    (h1 : futureModule async ∉ coll) (h2 : futureModule async ∉ res) :
    futureCode async v coll res = some ⟨futureModule async, futureModule async, futureModule async⟩ := by
  simp [futureCode, moduleAlias, h1, h2, boundName]

/-- a collision on `operation` (a proto file `operation.proto` whose types the service uses, an rpc named
`Operation`) ⇒ import AND call use `gac_operation` -/
theorem futureCode_collision (v : Str) (coll res : List Str)
    (hv1 : v ≠ ['g','o','o','g','l','e']) (hv2 : v ≠ ['a','p','i','_','c','o','r','e'])
    (h : ['o','p','e','r','a','t','i','o','n'] ∈ coll) :
    futureCode false v coll res = some ⟨['o','p','e','r','a','t','i','o','n'],
      ['g','a','c','_','o','p','e','r','a','t','i','o','n'], ['g','a','c','_','o','p','e','r','a','t','i','o','n']⟩ := by
  have c1 : coll.contains (futureModule false) = true := by simpa [futureModule] using h
  have f1 : ((['g','o','o','g','l','e'] : Str) != v) = true := by simpa using fun h => hv1 h.symm
  have f2 : ((['a','p','i','_','c','o','r','e'] : Str) != v) = true := by simpa using fun h => hv2 h.symm
  have hi : initials apiCorePackage v = some ['g','a','c'] := by
    simp only [initials, apiCorePackage, List.filter, f1, f2]
    decide
  simp only [futureCode, moduleAlias, c1, Bool.true_or, if_true, hi]
  decide

/-! ## REST: which URL the operations client polls -/

/-- only `google.longrunning.Operations.*` rules reach the operations transport -/
theorem opsHttpTable_only_operations (res : List Str) (rules : List YamlRule) :
    ∀ e ∈ opsHttpTable res rules, "google.longrunning.Operations".toList.isPrefixOf e.1 = true := by
  intro e he
  simp only [opsHttpTable, List.mem_filter] at he
  exact he.2

/-- a GetOperation rule of the service config replaces the built-in default -/
theorem yaml_rule_overrides_default (table : List (Str × List Row)) (rows : List Row) (pfx name : Str)
    (h : table.find? (·.1 == getOperationSelector) = some (getOperationSelector, rows)) :
    opsGetPath table pfx name = transcodeName rows name := by
  simp [opsGetPath, h]

/-- without one, the default `/{version}/{name=**/operations/*}` is used -/
theorem default_rule_without_yaml (table : List (Str × List Row)) (pfx name : Str)
    (h : table.find? (·.1 == getOperationSelector) = none) :
    opsGetPath table pfx name =
      transcodeName [⟨"get".toList, '/' :: pfx ++ "/{name=**/operations/*}".toList, none⟩] name := by
  simp [opsGetPath, h]

/-! ### Every declared binding reaches the operations client -/

/-- `d.get(k)` -/
def lookupSel {β : Type} (d : List (Str × β)) (k : Str) : Option β := (d.find? (·.1 == k)).map (·.2)

theorem find_map_set_same {β : Type} (d : List (Str × β)) (k : Str) (v : β) :
    (d.map (fun e => if e.1 == k then (k, v) else e)).find? (·.1 == k) = (d.find? (·.1 == k)).map (fun _ => (k, v)) := by
  induction d with
  | nil => rfl
  | cons e es ih =>
    rw [List.map_cons, List.find?_cons, List.find?_cons]
    cases hb : (e.1 == k) with
    | true =>
      have : ((k, v) : Str × β).1 == k := by simp
      simp only [if_true, this, Option.map_some]
    | false =>
      simp only [Bool.false_eq_true, if_false, hb]
      exact ih

theorem find_map_set_other {β : Type} (d : List (Str × β)) (k k' : Str) (v : β) (hk : k' ≠ k) :
    (d.map (fun e => if e.1 == k then (k, v) else e)).find? (·.1 == k') = d.find? (·.1 == k') := by
  induction d with
  | nil => rfl
  | cons e es ih =>
    rw [List.map_cons, List.find?_cons, List.find?_cons]
    cases hb : (e.1 == k) with
    | true =>
      have h1 : (((k, v) : Str × β).1 == k') = false := by
        simp only [beq_eq_false_iff_ne, ne_eq]; exact fun h => hk h.symm
      have h2 : (e.1 == k') = false := by
        have : e.1 = k := by simpa using hb
        rw [this]; simp only [beq_eq_false_iff_ne, ne_eq]; exact fun h => hk h.symm
      simp only [if_true, h1, h2]
      exact ih
    | false =>
      simp only [Bool.false_eq_true, if_false]
      cases (e.1 == k') with
      | true => rfl
      | false => exact ih

theorem lookupSel_dictSet_same {β : Type} (d : List (Str × β)) (k : Str) (v : β) : lookupSel (dictSet d k v) k = some v := by
  unfold lookupSel dictSet
  split
  · rename_i h
    rw [find_map_set_same]
    obtain ⟨x, hx, hk⟩ := List.any_eq_true.mp h
    cases hf : d.find? (·.1 == k) with
    | none => exact absurd hk (List.find?_eq_none.mp hf x hx)
    | some e => rfl
  · rename_i h
    have hn : ∀ x ∈ d, ¬ (x.1 == k) = true := by
      intro x hx hk
      exact h (List.any_eq_true.mpr ⟨x, hx, hk⟩)
    rw [List.find?_append, List.find?_eq_none.mpr hn]
    simp

theorem lookupSel_dictSet_other {β : Type} (d : List (Str × β)) (k k' : Str) (v : β) (hk : k' ≠ k) :
    lookupSel (dictSet d k v) k' = lookupSel d k' := by
  unfold lookupSel dictSet
  split
  · rw [find_map_set_other d k k' v hk]
  · rw [List.find?_append]
    have : ¬ k = k' := fun h => hk h.symm
    cases h : List.find? (fun x => x.1 == k') d <;> simp [this]

/-- `API.http_options` is a dict comprehension: the entry of a selector is the binding list of the LAST rule that names it -/
theorem httpOptions_lookup (res : List Str) (rules : List YamlRule) (d : List (Str × List Row)) (s : Str) :
    lookupSel (rules.foldl (fun d r => dictSet d r.selector (ruleRows res r)) d) s =
      match rules.reverse.find? (·.selector == s) with
      | some r => some (ruleRows res r)
      | none => lookupSel d s := by
  induction rules generalizing d with
  | nil => simp
  | cons r rs ih =>
    simp only [List.foldl_cons, List.reverse_cons, List.find?_append]
    rw [ih]
    cases h : List.find? (fun x => x.selector == s) rs.reverse with
    | some r' => simp
    | none =>
      by_cases hs : r.selector = s
      · subst hs
        simp [lookupSel_dictSet_same]
      · have : s ≠ r.selector := fun e => hs e.symm
        simp [hs, lookupSel_dictSet_other _ _ _ _ this]

theorem mem_of_lookupSel {β : Type} {d : List (Str × β)} {k : Str} {v : β} (h : lookupSel d k = some v) : (k, v) ∈ d := by
  unfold lookupSel at h
  cases hf : d.find? (·.1 == k) with
  | none => simp [hf] at h
  | some e =>
    simp [hf] at h
    have h1 := List.find?_some hf
    have h2 := List.mem_of_find?_eq_some hf
    have : e = (k, v) := by
      cases e with
      | mk a b => simp at h1 h; simp [h1, h]
    exact this ▸ h2

/-- **every declared binding is in the table handed to the operations client**: for the last rule `r` that names an
`google.longrunning.Operations.*` selector, the table's entry is the WHOLE list `primary :: additional_bindings`
(those api-core can parse), in declaration order — not just one of them -/
theorem declared_bindings_in_table (res : List Str) (pre post : List YamlRule) (r : YamlRule)
    (hsel : "google.longrunning.Operations".toList.isPrefixOf r.selector = true)
    (hlast : ∀ r' ∈ post, r'.selector ≠ r.selector) :
    (r.selector, ruleRows res r) ∈ opsHttpTable res (pre ++ r :: post) ∧
    ∀ b ∈ r.primary :: r.additional, ∀ row, parseBinding res b = some row →
      ∃ e ∈ opsHttpTable res (pre ++ r :: post), e.1 = r.selector ∧ row ∈ e.2 := by
  have hfind : (pre ++ r :: post).reverse.find? (·.selector == r.selector) = some r := by
    simp only [List.reverse_append, List.reverse_cons, List.append_assoc, List.find?_append]
    have : post.reverse.find? (fun x => x.selector == r.selector) = none := by
      apply List.find?_eq_none.mpr
      intro x hx
      simpa using hlast x (List.mem_reverse.mp hx)
    simp [this]
  have hl : lookupSel (httpOptions res (pre ++ r :: post)) r.selector = some (ruleRows res r) := by
    unfold httpOptions
    rw [httpOptions_lookup, hfind]
  have hmem : (r.selector, ruleRows res r) ∈ opsHttpTable res (pre ++ r :: post) := by
    simp only [opsHttpTable, List.mem_filter]
    exact ⟨mem_of_lookupSel hl, hsel⟩
  refine ⟨hmem, ?_⟩
  intro b hb row hrow
  refine ⟨_, hmem, rfl, ?_⟩
  simp only [ruleRows, List.mem_filterMap]
  exact ⟨b, hb, hrow⟩

theorem find_filter_of_imp {α : Type} (p q : α → Bool) (l : List α) (h : ∀ a, q a = true → p a = true) :
    (l.filter p).find? q = l.find? q := by
  induction l with
  | nil => rfl
  | cons a as ih =>
    cases hp : p a with
    | true =>
      rw [List.filter_cons_of_pos hp, List.find?_cons, List.find?_cons, ih]
    | false =>
      have hq : q a = false := by
        cases hq : q a with
        | false => rfl
        | true => rw [h a hq] at hp; cases hp
      rw [List.filter_cons_of_neg (by simp [hp]), List.find?_cons, hq, ih]

/-- a name accepted by the template of ANY row of the table gets a URL: the poll is sent -/
theorem transcodeName_isSome_of_row (rows : List Row) (row : Row) (t : NameTemplate) (name : Str)
    (hrow : row ∈ rows) (ht : parseNameTemplate row.uri = some t) (hm : matchSegs t.pattern (splitOn '/' name) = true) :
    (transcodeName rows name).isSome = true := by
  unfold transcodeName
  rw [List.findSome?_isSome_iff]
  exact ⟨row, hrow, by simp [ht, hm]⟩

/-- **an operation whose name fits any declared GetOperation binding can be polled** (primary, middle or last) -/
theorem declared_get_binding_is_pollable (res : List Str) (pre post : List YamlRule) (r : YamlRule) (pfx name : Str)
    (hsel : r.selector = getOperationSelector)
    (hlast : ∀ r' ∈ post, r'.selector ≠ r.selector)
    (b : Binding) (hb : b ∈ r.primary :: r.additional) (row : Row) (hrow : parseBinding res b = some row)
    (t : NameTemplate) (ht : parseNameTemplate row.uri = some t) (hm : matchSegs t.pattern (splitOn '/' name) = true) :
    (opsGetPath (opsHttpTable res (pre ++ r :: post)) pfx name).isSome = true := by
  have hp : "google.longrunning.Operations".toList.isPrefixOf r.selector = true := by rw [hsel]; decide
  have hmem := (declared_bindings_in_table res pre post r hp hlast).1
  have hrows : row ∈ ruleRows res r := by
    simp only [ruleRows, List.mem_filterMap]
    exact ⟨b, hb, hrow⟩
  -- the filter keeps every entry the GetOperation lookup can find
  have hl : lookupSel (opsHttpTable res (pre ++ r :: post)) getOperationSelector = some (ruleRows res r) := by
    have hfind : (pre ++ r :: post).reverse.find? (·.selector == r.selector) = some r := by
      simp only [List.reverse_append, List.reverse_cons, List.append_assoc, List.find?_append]
      have : post.reverse.find? (fun x => x.selector == r.selector) = none := by
        apply List.find?_eq_none.mpr
        intro x hx
        simpa using hlast x (List.mem_reverse.mp hx)
      simp [this]
    have h0 : lookupSel (httpOptions res (pre ++ r :: post)) r.selector = some (ruleRows res r) := by
      unfold httpOptions
      rw [httpOptions_lookup, hfind]
    rw [hsel] at h0
    unfold lookupSel opsHttpTable at *
    rw [find_filter_of_imp]
    · exact h0
    · intro x hx
      have : x.1 = getOperationSelector := by simpa using hx
      rw [this]; decide
  unfold opsGetPath
  unfold lookupSel at hl
  cases hf : (opsHttpTable res (pre ++ r :: post)).find? (·.1 == getOperationSelector) with
  | none => simp [hf] at hl
  | some e =>
    simp [hf] at hl
    simp only [hl]
    exact transcodeName_isSome_of_row _ row t name hrows ht hm

/-! ### Sub-packages: every package the LRO code uses is the package of the file that DECLARES the service -/

theorem splitOn_ne_nil (c : Char) (s : Str) : splitOn c s ≠ [] := by
  induction s with
  | nil => simp [splitOn]
  | cons x xs ih =>
    simp only [splitOn]
    split
    · simp
    · cases h : splitOn c xs with
      | nil => exact absurd h ih
      | cons a t => simp

theorem splitOn_no_sep (c : Char) (s : Str) (h : c ∉ s) : splitOn c s = [s] := by
  induction s with
  | nil => simp [splitOn]
  | cons x xs ih =>
    have hx : x ≠ c := fun e => h (by simp [e])
    have hxs : c ∉ xs := fun e => h (by simp [e])
    simp [splitOn, hx, ih hxs]

theorem splitOn_append_sep (c : Char) (p s : Str) : splitOn c (p ++ c :: s) = splitOn c p ++ splitOn c s := by
  induction p with
  | nil => simp [splitOn]
  | cons x xs ih =>
    by_cases hx : x = c
    · simp [splitOn, hx, ih]
    · simp only [List.cons_append, splitOn, hx, if_false, ih]
      cases h : splitOn c xs with
      | nil => exact absurd h (splitOn_ne_nil c xs)
      | cons a t => simp

/-- `client_package_version` of a service declared in package `p.s` is `s`, its LAST segment: for a sub-package service
that is the sub-package's own name, whatever the API's version segment is -/
theorem clientPackageVersion_last_segment (p s : Str) (hs : '.' ∉ s) : clientPackageVersion (p ++ '.' :: s) = s := by
  simp [clientPackageVersion, splitOn_append_sep, splitOn_no_sep '.' s hs]

/-- **the default poll URL follows the declaring file's package**: without a GetOperation rule in the service config the
REST operations client of a service declared in `p.s` polls `/s/{name=**/operations/*}` -/
theorem default_poll_url_of_declaring_package (table : List (Str × List Row)) (f : File) (p s name : Str)
    (hf : f.package = p ++ '.' :: s) (hs : '.' ∉ s)
    (h : table.find? (·.1 == getOperationSelector) = none) :
    opsGetPathOf table f name =
      transcodeName [⟨"get".toList, '/' :: s ++ "/{name=**/operations/*}".toList, none⟩] name := by
  rw [opsGetPathOf, hf, clientPackageVersion_last_segment p s hs, default_rule_without_yaml table s name h]

/-- with a GetOperation rule the declaring package plays no role -/
theorem yaml_poll_url_package_free (table : List (Str × List Row)) (rows : List Row) (f g : File) (name : Str)
    (h : table.find? (·.1 == getOperationSelector) = some (getOperationSelector, rows)) :
    opsGetPathOf table f name = opsGetPathOf table g name := by
  simp [opsGetPathOf, yaml_rule_overrides_default table rows _ name h]

/-- **relative names follow the declaring file's package, not the API's**: a method of a service declared in the
sub-package `p.sub` that names `X` gets `p.sub.X` (defined by any file of the request), also when the API package `p`
declares a message `X` of its own -/
theorem lro_relative_in_subpackage (api : Api) (f : File) (m : Method) (op : OpInfo) (p sub : Str)
    (hf : f.package = p ++ '.' :: sub)
    (hout : isOperation m.output = true) (hinfo : m.opInfo = some op)
    (hr : op.response ≠ []) (hm : op.metadata ≠ [])
    (hrrel : '.' ∉ op.response) (hmrel : '.' ∉ op.metadata)
    (hrdef : ∃ g ∈ api, (p ++ '.' :: sub) ++ '.' :: op.response ∈ g.messages)
    (hmdef : ∃ g ∈ api, (p ++ '.' :: sub) ++ '.' :: op.metadata ∈ g.messages) :
    lroInfo api f m = .ok (some ((p ++ '.' :: sub) ++ '.' :: op.response, (p ++ '.' :: sub) ++ '.' :: op.metadata)) := by
  have := lro_relative_in_package_partial api f m op hout hinfo hr hm hrrel hmrel (by rw [hf]; exact hrdef) (by rw [hf]; exact hmdef)
  rw [hf] at this
  exact this

/-- the default pattern accepts exactly-shaped names `<one or more segments>/operations/<id>` -/
theorem default_pattern_accepts (pre : List Str) (x : Str) (hpre : pre ≠ []) :
    matchSegs [.dstar, .lit "operations".toList, .star] (pre ++ ["operations".toList, x]) = true := by
  have unfold1 : ∀ (ps : List Seg) (a : Str) (xs : List Str),
      matchSegs (.dstar :: ps) (a :: xs) = (matchSegs ps xs || matchSegs (.dstar :: ps) xs) := by
    intro ps a xs; rw [matchSegs]
  induction pre with
  | nil => exact absurd rfl hpre
  | cons a pre ih =>
    cases pre with
    | nil => simp [matchSegs]
    | cons b pre =>
      have := ih (by simp)
      rw [List.cons_append, unfold1, this]
      simp

/-! ## The future as an object: observing does not change the outcome -/

section Aux

def finalOp (s : Fut) : OpState := (poll s.cached s.pending).1
def total (s : Fut) : Nat := s.polls + (poll s.cached s.pending).2

theorem poll_done (cur : OpState) (rs : List OpState) (h : cur.done = true) : poll cur rs = (cur, 0) := by
  cases rs <;> simp [poll, h]

theorem refresh_inv (s : Fut) : finalOp s.refresh = finalOp s ∧ total s.refresh = total s ∧ s.refresh.cancels = s.cancels := by
  obtain ⟨cached, pending, polls, cancels⟩ := s
  unfold Fut.refresh finalOp total
  by_cases hd : cached.done = true
  · simp [hd]
  · cases pending with
    | nil => simp [hd]
    | cons r rs =>
      simp only [hd, Bool.false_eq_true, if_false, poll]
      refine ⟨trivial, ?_, trivial⟩
      omega

theorem poll_fix (cur : OpState) (rs : List OpState) :
    poll (poll cur rs).1 (rs.drop (poll cur rs).2) = ((poll cur rs).1, 0) := by
  induction rs generalizing cur with
  | nil => simp [poll]
  | cons r rs ih =>
    by_cases hd : cur.done = true
    · rw [poll_done cur (r :: rs) hd]
      exact poll_done cur _ hd
    · simp only [poll, hd, Bool.false_eq_true, if_false, List.drop_succ_cons]
      exact ih r

theorem drain_inv (s : Fut) : finalOp s.drain = finalOp s ∧ total s.drain = total s ∧
    s.drain.cached = finalOp s ∧ s.drain.polls = total s ∧ s.drain.cancels = s.cancels := by
  obtain ⟨cached, pending, polls, cancels⟩ := s
  simp [Fut.drain, finalOp, total, poll_fix]

theorem step_inv (rt mt : Str) (s : Fut) (c : Cmd) :
    finalOp (step rt mt s c).1 = finalOp s ∧ total (step rt mt s c).1 = total s := by
  cases c
  · exact ⟨rfl, rfl⟩
  · exact ⟨(refresh_inv s).1, (refresh_inv s).2.1⟩
  · exact ⟨(refresh_inv s).1, (refresh_inv s).2.1⟩
  · simp only [step]
    split
    · exact ⟨(refresh_inv s).1, (refresh_inv s).2.1⟩
    · exact ⟨(refresh_inv s).1, (refresh_inv s).2.1⟩
  · exact ⟨(drain_inv s).1, (drain_inv s).2.1⟩
  · exact ⟨(drain_inv s).1, (drain_inv s).2.1⟩

theorem exec_inv (rt mt : Str) (s : Fut) (cs : List Cmd) :
    finalOp (exec rt mt s cs).1 = finalOp s ∧ total (exec rt mt s cs).1 = total s := by
  induction cs generalizing s with
  | nil => exact ⟨rfl, rfl⟩
  | cons c cs ih =>
    simp only [exec]
    have h1 := step_inv rt mt s c
    have h2 := ih (step rt mt s c).1
    exact ⟨h2.1.trans h1.1, h2.2.trans h1.2⟩

theorem exec_append (rt mt : Str) (s : Fut) (a b : List Cmd) :
    exec rt mt s (a ++ b) = ((exec rt mt (exec rt mt s a).1 b).1, (exec rt mt s a).2 ++ (exec rt mt (exec rt mt s a).1 b).2) := by
  induction a generalizing s with
  | nil => simp [exec]
  | cons c a ih => simp [exec, ih]

end Aux

/-- **Observation is transparent**: whatever the caller does with the future before asking for the
result (`metadata`, `done()`, `running()`, `cancel()`, `exception()`, `result()` in any order and
number), `result()` finally gives exactly what a bare `result()` gives, and the total number of
`GetOperation` polls is the same: the polls up to the first done operation, never more. -/
theorem observation_transparent (rt mt : Str) (first : OpState) (replies : List OpState) (cmds : List Cmd) :
    let r := exec rt mt (Fut.init first replies) (cmds ++ [.result])
    r.2.getLast? = some (.res (runFuture rt mt first replies).result) ∧
    r.1.polls = (runFuture rt mt first replies).polls := by
  simp only [exec_append, exec, step]
  have hi := exec_inv rt mt (Fut.init first replies) cmds
  have hd := drain_inv (exec rt mt (Fut.init first replies) cmds).1
  constructor
  · simp only [List.getLast?_append, List.getLast?_singleton, Option.some_or]
    rw [hd.2.2.1, hi.1]
    simp [finalOp, Fut.init, runFuture]
  · rw [hd.2.2.2.1, hi.2]
    simp [total, Fut.init, runFuture]

/-- no command ever polls beyond the first done operation -/
theorem polls_never_exceed_history (rt mt : Str) (first : OpState) (replies : List OpState) (cmds : List Cmd) :
    (exec rt mt (Fut.init first replies) cmds).1.polls ≤ (poll first replies).2 := by
  have h := (exec_inv rt mt (Fut.init first replies) cmds).2
  unfold total at h
  have h0 : (Fut.init first replies).polls = 0 := rfl
  have h1 : (Fut.init first replies).cached = first := rfl
  have h2 : (Fut.init first replies).pending = replies := rfl
  rw [h0, h1, h2] at h
  omega

/-- **A completed future is inert**: once the cached operation is done, no command sends anything
(no poll, no cancel) and `cancel()` answers False. -/
theorem done_future_is_inert (rt mt : Str) (s : Fut) (h : s.cached.done = true) (cmds : List Cmd) :
    (exec rt mt s cmds).1 = s := by
  have hr : s.refresh = s := by simp [Fut.refresh, h]
  have hdr : s.drain = s := by simp [Fut.drain, poll_done s.cached s.pending h]
  induction cmds with
  | nil => rfl
  | cons c cs ih =>
    have : (step rt mt s c).1 = s := by
      cases c <;> simp [step, hr, hdr, h]
    simp [exec, this, ih]

/-- `cancel()` sends `CancelOperation` exactly when the operation is still not done after one refresh -/
theorem cancel_sends_iff_running (rt mt : Str) (s : Fut) :
    (step rt mt s .cancel).1.cancels = s.cancels + (if s.refresh.cached.done then 0 else 1) ∧
    (step rt mt s .cancel).2 = .flag (!s.refresh.cached.done) := by
  have := (refresh_inv s).2.2
  simp only [step]
  split <;> rename_i h <;> simp [h, this]

/-! ### Non-vacuity for the service / alias / REST / future-object theorems -/

section Examples2

def metaFile : File :=
  { name := "acme/lib/v1/meta.proto", package := "acme.lib.v1".toList, deps := [],
    messages := ["acme.lib.v1.DeleteBookMetadata".toList, "acme.lib.v1.DeleteShelfMetadata".toList, "acme.lib.v1.Book".toList] }

def delApi : Api := [emptyFile, metaFile]

def delBook : Method := ⟨"DeleteBook", opOut, some ⟨"google.protobuf.Empty".toList, "DeleteBookMetadata".toList⟩⟩
def delShelf : Method := ⟨"DeleteShelf", opOut, some ⟨"google.protobuf.Empty".toList, "DeleteShelfMetadata".toList⟩⟩
/-- the response type of this one is the metadata type of nobody, its metadata type is the response type of `delBook` -/
def crossed : Method := ⟨"Crossed", opOut, some ⟨"Book".toList, "google.protobuf.Empty".toList⟩⟩

/-- two methods sharing the response type keep their own metadata types; raw methods stay raw -/
example : loadService delApi metaFile [delBook, ⟨"Raw", opOut, none⟩, delShelf, crossed] =
    .ok [some ("google.protobuf.Empty".toList, "acme.lib.v1.DeleteBookMetadata".toList), none,
         some ("google.protobuf.Empty".toList, "acme.lib.v1.DeleteShelfMetadata".toList),
         some ("acme.lib.v1.Book".toList, "google.protobuf.Empty".toList)] := by decide

/-- annotation present, both names empty, after a good method: the build raises TypeError -/
example : loadService delApi metaFile [delBook, ⟨"Bad", opOut, some ⟨[], []⟩⟩, delShelf] = .error .typeError := by decide

example : hasLro [none, some ([], [])] = true ∧ hasLro [none, none] = false := by decide

example : futureCode true ['v','1'] [['o','p','e','r','a','t','i','o','n']] [] =
    some ⟨futureModule true, futureModule true, futureModule true⟩ := by decide

example : futureCode false ['v','1'] [['l','i','b'], ['o','p','e','r','a','t','i','o','n']] [] =
    some ⟨['o','p','e','r','a','t','i','o','n'], ['g','a','c','_','o','p','e','r','a','t','i','o','n'],
          ['g','a','c','_','o','p','e','r','a','t','i','o','n']⟩ := by decide

def getRule (uri : String) (more : List Binding := []) : YamlRule :=
  ⟨getOperationSelector, ⟨"get".toList, uri.toList, []⟩, more⟩

/-- default rule; a yaml rule; an additional binding that fits when the primary does not; the last of two
rules with the same selector wins; rules of other services never reach the operations client -/
example : opsGetPath (opsHttpTable [] []) "v2".toList "shelves/s1/operations/op7".toList
    = some ("get".toList, "/v2/shelves/s1/operations/op7".toList) := by decide
example : opsGetPath (opsHttpTable [] [getRule "/v9/{name=shelves/*/operations/*}"]) "v2".toList "shelves/s1/operations/op7".toList
    = some ("get".toList, "/v9/shelves/s1/operations/op7".toList) := by decide
example : opsGetPath (opsHttpTable [] [getRule "/v9/{name=operations/*}" [⟨"get".toList, "/v8/{name=shelves/*/operations/*}:poll".toList, []⟩]])
    "v2".toList "shelves/s1/operations/op7".toList = some ("get".toList, "/v8/shelves/s1/operations/op7:poll".toList) := by decide
example : opsGetPath (opsHttpTable [] [getRule "/v9/{name=**}", getRule "/v7/{name=**}"]) "v2".toList "a/operations/b".toList
    = some ("get".toList, "/v7/a/operations/b".toList) := by decide
example : opsHttpTable [] [⟨"acme.lib.v1.Library.GetOperation".toList, ⟨"get".toList, "/x/{name=**}".toList, []⟩, []⟩] = [] := by decide
/-- sub-package layouts.  Service `Keepers` declared in `acme.zoo.v1.keepers`, messages `Result` in BOTH `acme.zoo.v1`
(API package, another file, not imported) and `acme.zoo.v1.keepers`: the relative name denotes the sub-package's message,
the fully-qualified one the API package's; with only the API package's `Result` the relative name is a KeyError; the
default REST poll URL starts with `/keepers/`, with `/deeper/` for `acme.zoo.v1.sub.deeper` (hypotheses of
`lro_relative_in_subpackage` / `default_poll_url_of_declaring_package` are met by these inputs) -/
def zooRoot : File := ⟨"acme/zoo/v1/common.proto", "acme.zoo.v1".toList, [], ["acme.zoo.v1.Result".toList, "acme.zoo.v1.Meta".toList]⟩
def zooSub : File := ⟨"acme/zoo/v1/keepers/keepers.proto", "acme.zoo.v1.keepers".toList, [],
  ["acme.zoo.v1.keepers.Result".toList, "acme.zoo.v1.keepers.Meta".toList]⟩
def zooBare : File := ⟨"acme/zoo/v1/keepers/keepers.proto", "acme.zoo.v1.keepers".toList, ["acme/zoo/v1/common.proto"], []⟩
def zooOp (r m : String) : Method := ⟨"Feed", ".google.longrunning.Operation".toList, some ⟨r.toList, m.toList⟩⟩
example : lroInfo [zooRoot, zooSub] zooSub (zooOp "Result" "acme.zoo.v1.Meta")
    = .ok (some ("acme.zoo.v1.keepers.Result".toList, "acme.zoo.v1.Meta".toList)) := by decide
example : lroInfo [zooSub, zooRoot] zooRoot (zooOp "Result" "acme.zoo.v1.keepers.Meta")
    = .ok (some ("acme.zoo.v1.Result".toList, "acme.zoo.v1.keepers.Meta".toList)) := by decide
example : lroInfo [zooRoot, zooBare] zooBare (zooOp "acme.zoo.v1.Result" "acme.zoo.v1.Meta")
    = .ok (some ("acme.zoo.v1.Result".toList, "acme.zoo.v1.Meta".toList)) := by decide
example : lroInfo [zooRoot, zooBare] zooBare (zooOp "Result" "acme.zoo.v1.Meta")
    = .error (.keyError "acme.zoo.v1.keepers.Result".toList) := by decide
example : clientPackageVersion "acme.zoo.v1.keepers".toList = "keepers".toList ∧ clientPackageVersion "acme.zoo.v1".toList = "v1".toList
    ∧ clientPackageVersion "acme.zoo.v1.sub.deeper".toList = "deeper".toList ∧ clientPackageVersion [] = [] := by decide
example : opsGetPathOf (opsHttpTable [] []) zooSub "shelves/s1/operations/op7".toList
    = some ("get".toList, "/keepers/shelves/s1/operations/op7".toList) := by decide
example : opsGetPathOf (opsHttpTable [] [getRule "/v1/{name=shelves/*/operations/*}"]) zooSub "shelves/s1/operations/op7".toList
    = some ("get".toList, "/v1/shelves/s1/operations/op7".toList) := by decide
/-- a GetOperation rule with three bindings (operations under shelves, archives, projects/locations): names fitting the
primary, the middle and the last binding are all polled, each at its own URL (hypotheses of `declared_bindings_in_table` /
`declared_get_binding_is_pollable` are met); a table that kept only the LAST binding would have no URL for the first two -/
def getRule3 : YamlRule := getRule "/v1/{name=shelves/*/operations/*}"
  [⟨"get".toList, "/v1/{name=archives/*/operations/*}".toList, []⟩, ⟨"get".toList, "/v2/{name=projects/*/locations/*/operations/*}".toList, []⟩]
example : (opsHttpTable [] [getRule3]).map (fun e => e.2.length) = [3] := by decide
example : opsGetPath (opsHttpTable [] [getRule3]) "v1".toList "shelves/s1/operations/op7".toList
    = some ("get".toList, "/v1/shelves/s1/operations/op7".toList) := by decide
example : opsGetPath (opsHttpTable [] [getRule3]) "v1".toList "archives/a1/operations/op7".toList
    = some ("get".toList, "/v1/archives/a1/operations/op7".toList) := by decide
example : opsGetPath (opsHttpTable [] [getRule3]) "v1".toList "projects/p/locations/l/operations/op7".toList
    = some ("get".toList, "/v2/projects/p/locations/l/operations/op7".toList) := by decide
example : opsGetPath (opsHttpTable [] [getRule "/v2/{name=projects/*/locations/*/operations/*}"]) "v1".toList "shelves/s1/operations/op7".toList
    = none := by decide
/-- a name the default pattern does not accept: no URL (api-core raises ValueError) -/
example : opsGetPath (opsHttpTable [] []) "v1".toList "operations/op1".toList = none := by decide

/-- a caller who looks at the future before asking for the result: 3 polls in total, one CancelOperation,
and the same result as a bare `result()`; afterwards the future is inert -/
example : exec "B".toList "M".toList
    (Fut.init ⟨false, some ⟨"M".toList, 1⟩, .neither⟩
      [⟨false, some ⟨"M".toList, 2⟩, .neither⟩, ⟨false, none, .neither⟩, ⟨true, some ⟨"M".toList, 4⟩, .response ⟨"B".toList, 9⟩⟩, ⟨true, none, .error 13⟩])
    [.metadata, .done, .metadata, .cancel, .result, .cancel, .exception, .running]
  = (⟨⟨true, some ⟨"M".toList, 4⟩, .response ⟨"B".toList, 9⟩⟩, [⟨true, none, .error 13⟩], 3, 1⟩,
     [.md (some (.ok "M".toList 1)), .flag false, .md (some (.ok "M".toList 2)), .flag true, .res (.ok "B".toList 9),
      .flag false, .exc none, .flag false]) := by decide

/-- `exception()` on a failed operation returns the error; `result()` raises it -/
example : (exec "B".toList "M".toList (Fut.init ⟨false, none, .neither⟩ [⟨true, none, .error 5⟩]) [.exception, .result]).2
    = [.exc (some (.apiError 5)), .res (.apiError 5)] := by decide

end Examples2

/-! ## `resolve` IS the code's current `Address.resolve`
`Pinned.Funcs.address_resolve` is the Lean translation of `gapic/schema/metadata.py: Address.resolve` produced by
harness/pyfun2lean.py; `Bridge.Funcs.address_resolve` re-proves on every run that translating /repo's current source
gives the same definition. -/

section Translated
open GapicModel.PyRt

theorem contains_dot (s : List Char) : PyRt.contains ['.'] s = s.contains '.' := by
  induction s with
  | nil => simp [PyRt.contains]
  | cons c cs ih =>
    have hp : List.isPrefixOf ['.'] (c :: cs) = (c == '.') := by
      simp only [List.isPrefixOf, Bool.and_true]
      rw [Bool.eq_iff_iff]; simp only [beq_iff_eq]; exact eq_comm
    rw [PyRt.contains, hp, ih, List.contains_cons]
    rw [Bool.eq_iff_iff]; simp only [Bool.or_eq_true, beq_iff_eq]
    constructor
    · rintro (h | h); exact Or.inl h.symm; exact Or.inr h
    · rintro (h | h); exact Or.inl h.symm; exact Or.inr h

theorem resolve_is_translated (pkg : List (List Char)) (sel : List Char) :
    GapicModel.Model.Lro.resolve (PyRt.join ['.'] pkg) sel = Pinned.Funcs.address_resolve pkg sel := by
  simp only [GapicModel.Model.Lro.resolve, Pinned.Funcs.address_resolve, contains_dot]
  cases h : sel.contains '.' <;> simp

end Translated

end GapicModel.Props.C08
