import GapicModel.Model.Retry
import GapicModel.Lemmas.C09
/-
C09 — default retry and timeout of each method equal its gRPC service-config entry (DESIGN §7.9).

The generator half (`selectConfig`, `toFloat?`, `classesOf`, `methodDefaults`, `emittedDefaults`) models
/repo; the run-time half (`effective`, `bound`, `attemptTimeout`, `run`, `call`) is a reference model of
google-api-core (trusted shell, validated by T3).  All quantities are exact rationals.
-/
namespace GapicModel.Props.C09
open GapicModel.Model.Retry

section Aux

theorem ofName_name (c : Code) : Code.ofName? c.name = some c := by
  cases c <;> decide

theorem excOfCode_injective (a b : Code) (h : excOfCode a = excOfCode b) : a = b := by
  cases a <;> cases b <;> first | rfl | (exact absurd h (by decide))

theorem excOfCode_base_iff (c : Code) : excOfCode c = .googleAPICallError ↔ c = .ok := by
  cases c <;> decide

/-- sum of the sleep bounds `i, i+1, …, i+k-1` -/
def sumBounds (p : Params) : Nat → Nat → Rat
  | _, 0 => 0
  | i, k + 1 => bound p i + sumBounds p (i + 1) k

/-- `0 ≤ initial, maximum, multiplier` — what a service config gives (`truthy` values or api-core's 1, 60, 2) -/
def NonNeg (p : Params) : Prop := 0 ≤ p.initial ∧ 0 ≤ p.maximum ∧ 0 ≤ p.multiplier

def Jitter (jit : Nat → Rat) : Prop := ∀ i, 0 ≤ jit i ∧ jit i ≤ 1

theorem bound_nonneg (p : Params) (hp : NonNeg p) (i : Nat) : 0 ≤ bound p i := by
  induction i with
  | zero => simp only [bound]; have := hp.1; have := hp.2.1; grind
  | succ i ih =>
    simp only [bound]
    have h1 : 0 ≤ bound p i * p.multiplier := Rat.mul_nonneg ih hp.2.2
    have := hp.2.1
    grind

theorem bound_le_maximum (p : Params) (i : Nat) : bound p i ≤ p.maximum := by
  cases i <;> simp only [bound] <;> grind

theorem bound_le_geometric (p : Params) (hp : NonNeg p) (i : Nat) :
    bound p i ≤ p.initial * p.multiplier ^ i := by
  induction i with
  | zero => simp only [bound]; simp; grind
  | succ i ih =>
    simp only [bound]
    have h1 : bound p i * p.multiplier ≤ p.initial * p.multiplier ^ i * p.multiplier :=
      Rat.mul_le_mul_of_nonneg_right ih hp.2.2
    have h2 : p.initial * p.multiplier ^ (i + 1) = p.initial * p.multiplier ^ i * p.multiplier := by
      rw [Rat.pow_succ, Rat.mul_assoc]
    rw [h2]
    grind

theorem wait_le_bound (p : Params) (hp : NonNeg p) (jit : Nat → Rat) (hj : Jitter jit) (i : Nat) :
    0 ≤ jit i * bound p i ∧ jit i * bound p i ≤ bound p i := by
  have hb := bound_nonneg p hp i
  refine ⟨Rat.mul_nonneg (hj i).1 hb, ?_⟩
  have := Rat.mul_le_mul_of_nonneg_right (hj i).2 hb
  simpa using this

theorem sumBounds_nonneg (p : Params) (hp : NonNeg p) (i k : Nat) : 0 ≤ sumBounds p i k := by
  induction k generalizing i with
  | zero => simp [sumBounds]
  | succ k ih =>
    simp only [sumBounds]
    have := bound_nonneg p hp i
    have := ih (i + 1)
    grind

/-- prepend `k` failed-and-retried attempts to a trace -/
def Within (p : Params) (el : Rat) (i k : Nat) : Prop :=
  ∀ D, p.deadline = some D → el + sumBounds p i k ≤ D

/-- Core unfolding lemma: while the replies are retryable errors and the budget is not exhausted, the loop
performs one attempt and one wait per reply and continues with the rest. -/
theorem run_retryable_prefix (p : Params) (hp : NonNeg p) (timeout : Option Rat) (jit : Nat → Rat)
    (hj : Jitter jit) (cs : List Code) (hc : ∀ c ∈ cs, p.retryable c = true) (tail : List Reply)
    (i : Nat) (el : Rat) (hw : Within p el i cs.length) :
    ∃ el', el ≤ el' ∧ el' ≤ el + sumBounds p i cs.length ∧
      (run (some p) timeout jit (cs.map .err ++ tail) i el).result
        = (run (some p) timeout jit tail (i + cs.length) el').result ∧
      (run (some p) timeout jit (cs.map .err ++ tail) i el).attempts.length
        = cs.length + (run (some p) timeout jit tail (i + cs.length) el').attempts.length ∧
      (run (some p) timeout jit (cs.map .err ++ tail) i el).waits.length
        = cs.length + (run (some p) timeout jit tail (i + cs.length) el').waits.length := by
  induction cs generalizing i el with
  | nil => exact ⟨el, by grind, by simp only [List.length_nil, sumBounds]; grind, by simp, by simp, by simp⟩
  | cons c cs ih =>
    have hc0 : p.retryable c = true := hc c (by simp)
    have hcs : ∀ c ∈ cs, p.retryable c = true := fun c h => hc c (by simp [h])
    have ⟨hw0, hw1⟩ := wait_le_bound p hp jit hj i
    have hsn := sumBounds_nonneg p hp (i + 1) cs.length
    have hw' : Within p (el + jit i * bound p i) (i + 1) cs.length := by
      intro D hD
      have := hw D hD
      simp only [List.length_cons, sumBounds] at this
      grind
    obtain ⟨el', h1, h2, h3, h4, h5⟩ := ih hcs (i + 1) (el + jit i * bound p i) hw'
    refine ⟨el', by grind, ?_, ?_, ?_, ?_⟩
    · simp only [List.length_cons, sumBounds]; grind
    all_goals
      simp only [List.map_cons, List.cons_append, run, hc0, if_true]
      cases hD : p.deadline with
      | none => simp only [List.length_cons]; grind
      | some D =>
        have hle : ¬ (el + jit i * bound p i > D) := by
          have := hw D hD
          simp only [List.length_cons, sumBounds] at this
          grind
        simp only [hle, if_false, List.length_cons]
        grind

end Aux

/-! ## Entry selection -/

/-- **The entry that applies is the first one whose `name` list contains exactly `{service, method}`.** -/
theorem select_named_first (cfg : ServiceConfig) (svc meth : String) (mc : MethodConfig) :
    selectConfig cfg svc meth = some mc ↔
      mc.namesMethod svc meth = true ∧
      ∃ pre post, cfg = pre ++ mc :: post ∧ ∀ c ∈ pre, c.namesMethod svc meth = false := by
  unfold selectConfig
  rw [List.find?_eq_some_iff_append]
  constructor
  · rintro ⟨h, pre, post, he, hn⟩
    exact ⟨h, pre, post, he, fun c hc => by simpa using hn c hc⟩
  · rintro ⟨h, pre, post, he, hn⟩
    exact ⟨h, pre, post, he, fun c hc => by simp [hn c hc]⟩

/-- no entry names the method ⇔ nothing is selected -/
theorem select_none_iff (cfg : ServiceConfig) (svc meth : String) :
    selectConfig cfg svc meth = none ↔ ∀ c ∈ cfg, c.namesMethod svc meth = false := by
  unfold selectConfig
  simp [List.find?_eq_none]

/-- a name matches only when BOTH keys are present and equal: a service-wide name (no `method`), a name
of another service, or of another method, does not name the method. -/
theorem names_method_iff (c : MethodConfig) (svc meth : String) :
    c.namesMethod svc meth = true ↔ ∃ n ∈ c.names, n.service = some svc ∧ n.method = some meth := by
  unfold MethodConfig.namesMethod
  rw [List.contains_iff_mem]
  constructor
  · intro h; exact ⟨_, h, rfl, rfl⟩
  · rintro ⟨⟨s, m⟩, hn, hs, hm⟩
    simp only at hs hm
    subst hs hm
    exact hn

/-- entries that name OTHER services never apply — in particular, for a service declared in a file of a proto
sub-package (`acme.lib.v1.admin`), an entry that spells the service under the API's root package
(`acme.lib.v1.Admin`): the selector carries the package of the declaring file (`selectorService`). -/
theorem select_only_own_service (cfg : ServiceConfig) (svc meth : String)
    (h : ∀ c ∈ cfg, ∀ n ∈ c.names, n.service ≠ some svc) : selectConfig cfg svc meth = none := by
  rw [select_none_iff]
  intro c hc
  cases hn : c.namesMethod svc meth with
  | false => rfl
  | true =>
    obtain ⟨n, hmem, hs, _⟩ := (names_method_iff c svc meth).1 hn
    exact absurd hs (h c hc n hmem)

/-- sub-package services: the name to use is the proto full name of the service (kernel-evaluated instances) -/
theorem selector_sub_package_samples :
    selectorService ["acme", "lib", "v1", "admin"] "Admin" = "acme.lib.v1.admin.Admin" ∧
    selectorService ["acme", "lib", "v1"] "Library" = "acme.lib.v1.Library" ∧
    (selectConfig [⟨[⟨some "acme.lib.v1.admin.Admin", some "Get"⟩], some "5s".toList, none⟩]
      (selectorService ["acme", "lib", "v1", "admin"] "Admin") "Get").isSome = true ∧
    selectConfig [⟨[⟨some "acme.lib.v1.Admin", some "Get"⟩, ⟨some "acme.lib_v1.admin.Admin", some "Get"⟩], some "5s".toList, none⟩]
      (selectorService ["acme", "lib", "v1", "admin"] "Admin") "Get" = none := by
  decide +kernel

example : ∀ c ∈ ([⟨[⟨some "acme.lib.v1.Admin", some "Get"⟩], some "5s".toList, none⟩] : ServiceConfig),
    ∀ n ∈ c.names, n.service ≠ some (selectorService ["acme", "lib", "v1", "admin"] "Admin") := by decide +kernel

/-! ## Unnamed methods -/

/-- **A method no entry names gets no default retry and no default timeout: exactly one attempt is made,
it carries no deadline, no wait is requested, and whatever the server answered surfaces.** -/
theorem unnamed_single_attempt_no_deadline (cfg : ServiceConfig) (svc meth : String)
    (h : ∀ c ∈ cfg, c.namesMethod svc meth = false) (jit : Nat → Rat) (r : Reply) (rest : List Reply) :
    methodDefaults cfg svc meth = .ok (none, none) ∧
    emittedDefaults (none, none) = ⟨none, none⟩ ∧
    call ⟨none, none⟩ .default .default jit (r :: rest) =
      ⟨[⟨0, none⟩], [], match r with | .ok => .success | .err c => .failed c⟩ := by
  refine ⟨?_, rfl, ?_⟩
  · have := (select_none_iff cfg svc meth).2 h
    simp [methodDefaults, this]
  · cases r <;> simp [call, Arg.resolve, run, attemptTimeout]

example : ∀ c ∈ ([⟨[⟨some "a.B", none⟩, ⟨some "a.B", some "Other"⟩], some "5s".toList, none⟩] : ServiceConfig),
    c.namesMethod "a.B" "Get" = false := by decide

/-! ## Conversion and emission -/

/-- the classes of a list of status-code names are exactly the classes of those codes, in order -/
theorem classesOf_codes (cs : List Code) : classesOf (cs.map Code.name) = .ok (cs.map excOfCode) := by
  induction cs with
  | nil => rfl
  | cons c cs ih =>
    simp only [List.map_cons, classesOf, ofName_name, ih]
    rfl

/-- `_to_float` on the decimal spellings a service config uses (kernel-evaluated instances, incl. the
`n` branch and the fact that the final character is dropped unchecked). -/
theorem toFloat_samples :
    toFloat? "1.5s".toList = some (3/2) ∧ toFloat? "30s".toList = some 30 ∧
    toFloat? "0.250s".toList = some (1/4) ∧ toFloat? "250000000n".toList = some (1/4) ∧
    toFloat? "0.000000001s".toList = some (1/1000000000) ∧ toFloat? "7.s".toList = some 7 ∧
    toFloat? ".5s".toList = some (1/2) ∧ toFloat? "30m".toList = some 30 ∧
    toFloat? "s".toList = none ∧ toFloat? "".toList = none ∧ toFloat? "-1s".toList = some (-1) ∧
    toFloat? "1.05s".toList = some (21/20) ∧ toFloat? "2.025s".toList = some (81/40) ∧
    toFloat? "1.000000001s".toList = some (1000000001/1000000000) ∧ toFloat? "3n".toList = some (3/1000000000) := by
  decide +kernel

/-! ### `_to_float` on every well-formed literal (second deepening round) -/

section ToFloat
open GapicModel.Lemmas.C09

/-- **Every decimal duration `d+.d*u` / `.d+u` is read at exactly its decimal value** — any number of integer and
fraction digits (leading zeros of the fraction count: `1.05s` is 1 + 5/100), any final character but `n`. -/
theorem to_float_decimal_value (ip fp : List Char) (hi : AllDigits ip) (hf : AllDigits fp)
    (hne : ip ≠ [] ∨ fp ≠ []) (u : Char) (hu : u ≠ 'n') :
    toFloat? (ip ++ '.' :: fp ++ [u]) = some ((digitsVal ip : Rat) + (digitsVal fp : Rat) / pow10 fp.length) := by
  have e : ip ++ '.' :: fp ++ [u] = (ip ++ '.' :: fp) ++ [u] := by simp
  rw [e, toFloat_snoc, if_neg hu, parseFloat_plain _ (plain_frac ip fp hi hf), parseDecimal_frac ip fp hi hf hne]

/-- whole seconds `d+u` -/
theorem to_float_whole_value (ip : List Char) (hi : AllDigits ip) (hne : ip ≠ []) (u : Char) (hu : u ≠ 'n') :
    toFloat? (ip ++ [u]) = some (digitsVal ip : Rat) := by
  rw [toFloat_snoc, if_neg hu, parseFloat_plain _ (plain_of_digits ip hi), parseDecimal_whole ip hi hne]

/-- the nanosecond spelling `d+n` denotes that many nanoseconds -/
theorem to_float_nanos_value (ds : List Char) (hd : AllDigits ds) (hne : ds ≠ []) :
    toFloat? (ds ++ ['n']) = some ((digitsVal ds : Rat) / pow10 9) := by
  rw [toFloat_snoc, if_pos rfl, parseInt_digits ds hd hne]
  rfl

/-- a leading `-` negates (JSON durations may be negative; a service config has no use for them — the reader
accepts them all the same), a leading `+` is dropped -/
theorem to_float_signed_value (ip fp : List Char) (hi : AllDigits ip) (hf : AllDigits fp)
    (hne : ip ≠ [] ∨ fp ≠ []) (u : Char) (hu : u ≠ 'n') :
    toFloat? ('-' :: ip ++ '.' :: fp ++ [u]) = some (-((digitsVal ip : Rat) + (digitsVal fp : Rat) / pow10 fp.length)) ∧
    toFloat? ('+' :: ip ++ '.' :: fp ++ [u]) = some ((digitsVal ip : Rat) + (digitsVal fp : Rat) / pow10 fp.length) := by
  have e1 : '-' :: ip ++ '.' :: fp ++ [u] = ('-' :: (ip ++ '.' :: fp)) ++ [u] := by simp
  have e2 : '+' :: ip ++ '.' :: fp ++ [u] = ('+' :: (ip ++ '.' :: fp)) ++ [u] := by simp
  constructor
  · rw [e1, toFloat_snoc, if_neg hu, parseFloat_minus _ (plain_frac ip fp hi hf), parseDecimal_frac ip fp hi hf hne]
    rfl
  · rw [e2, toFloat_snoc, if_neg hu, parseFloat_plus _ (plain_frac ip fp hi hf), parseDecimal_frac ip fp hi hf hne]

/-- the unit is never looked at: any final character but `n` gives the same reading (`30m` is thirty SECONDS) -/
theorem to_float_unit_unchecked (body : List Char) (u v : Char) (hu : u ≠ 'n') (hv : v ≠ 'n') :
    toFloat? (body ++ [u]) = toFloat? (body ++ [v]) := by
  rw [toFloat_snoc, toFloat_snoc, if_neg hu, if_neg hv]

/-- **Round trip through the canonical rendering**: `s` seconds written with `w ≥ 1` digits and a fraction of
`f` zero-padded digits worth `n / 10^f` is read as exactly `s + n / 10^f` (protobuf's JSON printer uses
f ∈ {0 (no point), 3, 6, 9}). -/
theorem to_float_canonical_roundtrip (w f s n : Nat) (hw : 0 < w) (hs : s < 10 ^ w) (hn : n < 10 ^ f) :
    toFloat? (digitsOf w s ++ '.' :: digitsOf f n ++ ['s']) = some ((s : Rat) + (n : Rat) / pow10 f) := by
  rw [to_float_decimal_value _ _ (digitsOf_allDigits w s) (digitsOf_allDigits f n)
        (Or.inl (digitsOf_ne_nil w s hw)) 's' (by decide),
      digitsVal_digitsOf, digitsVal_digitsOf, digitsOf_length, Nat.mod_eq_of_lt hs, Nat.mod_eq_of_lt hn]

theorem to_float_nanos_roundtrip (w n : Nat) (hw : 0 < w) (hn : n < 10 ^ w) :
    toFloat? (digitsOf w n ++ ['n']) = some ((n : Rat) / pow10 9) := by
  rw [to_float_nanos_value _ (digitsOf_allDigits w n) (digitsOf_ne_nil w n hw), digitsVal_digitsOf,
      Nat.mod_eq_of_lt hn]

/-- the two spellings of one duration agree: `S.NNNNNNNNNs` and `(S·10⁹+N)n` -/
theorem seconds_nanos_spellings_agree (w s n : Nat) (hw : 0 < w) (hs : s < 10 ^ w) (hn : n < 10 ^ 9) :
    toFloat? (digitsOf w s ++ '.' :: digitsOf 9 n ++ ['s']) = toFloat? (digitsOf (w + 9) (s * 10 ^ 9 + n) ++ ['n']) := by
  have hlt : s * 10 ^ 9 + n < 10 ^ (w + 9) := by
    rw [Nat.pow_add]
    have : (10:Nat) ^ 9 = 1000000000 := by decide
    rw [this] at hn ⊢
    omega
  rw [to_float_canonical_roundtrip w 9 s n hw hs hn, to_float_nanos_roundtrip (w + 9) _ (by omega) hlt, rat_split]

example : digitsOf 1 1 ++ '.' :: digitsOf 2 5 ++ ['s'] = "1.05s".toList ∧
    digitsOf 1 0 ++ '.' :: digitsOf 9 1 ++ ['s'] = "0.000000001s".toList ∧ digitsOf 1 3 ++ ['n'] = "3n".toList ∧
    AllDigits "0123456789".toList ∧ (0 < 1 ∧ 1 < 10 ^ 1 ∧ 5 < 10 ^ 2) := by
  refine ⟨by decide +kernel, by decide +kernel, by decide +kernel, by decide +kernel, by decide⟩

/-- exponents, signs and what the model leaves out (`none`): kernel-evaluated instances, each run on the real
`_to_float` by the harness (`DUR_SAMPLES`). -/
theorem toFloat_exponent_samples :
    toFloat? "1e3s".toList = some 1000 ∧ toFloat? "1.5E-3s".toList = some (3/2000) ∧
    toFloat? "-2.5e+1s".toList = some (-25) ∧ toFloat? "+.5s".toList = some (1/2) ∧
    toFloat? "-5n".toList = some (-5/1000000000) ∧ toFloat? "+7n".toList = some (7/1000000000) ∧
    toFloat? "1es".toList = none ∧ toFloat? "e5s".toList = none ∧ toFloat? ".e1s".toList = none ∧
    toFloat? "+-1s".toList = none ∧ toFloat? "-s".toList = none ∧ toFloat? "1e5e5s".toList = none ∧
    toFloat? "1.5n".toList = none ∧ toFloat? "1e3n".toList = none ∧
    toFloat? "1_0s".toList = none ∧ toFloat? " 1s".toList = none ∧ toFloat? "infs".toList = none := by
  decide +kernel

end ToFloat

/-- **The emitted table entry carries exactly the entry's values**: `initial`/`maximum`/`multiplier` are
the parsed `initialBackoff`/`maxBackoff`/`backoffMultiplier` (keyword omitted when the value is 0), the
predicate lists the classes of `retryableStatusCodes`, `deadline` and `default_timeout` are the entry's
`timeout`. -/
theorem emitted_params_exact (cfg : ServiceConfig) (svc meth : String) (mc : MethodConfig) (rp : RetryPolicy)
    (i m : Rat) (cls : List Exc) (t : Option Rat)
    (hsel : selectConfig cfg svc meth = some mc) (hrp : mc.retryPolicy = some rp)
    (hi : toFloat? (rp.initialBackoff.getD "0s".toList) = some i)
    (hm : toFloat? (rp.maxBackoff.getD "0s".toList) = some m)
    (hc : classesOf rp.codes = .ok cls) (ht : timeoutOf mc = .ok t) :
    (methodDefaults cfg svc meth).map emittedDefaults = .ok
      { retry := some { initial := truthy i, maximum := truthy m,
                        multiplier := truthy (rp.backoffMultiplier.getD 0),
                        predicate := cls.eraseDups, deadline := t },
        timeout := t } := by
  simp only [methodDefaults, hsel, ht, hrp, retryInfoOf, dur, hi, hm, hc]
  rfl

example : selectConfig [⟨[⟨some "a.B", some "Get"⟩], some "5s".toList,
    some ⟨none, some "0.1s".toList, some "2s".toList, some (13/10), ["UNAVAILABLE"]⟩⟩] "a.B" "Get" ≠ none := by
  decide

/-- an entry with a timeout and no retryPolicy: no default retry, `default_timeout` = the timeout -/
theorem timeout_without_retry (cfg : ServiceConfig) (svc meth : String) (mc : MethodConfig) (t : Option Rat)
    (hsel : selectConfig cfg svc meth = some mc) (hrp : mc.retryPolicy = none) (ht : timeoutOf mc = .ok t) :
    (methodDefaults cfg svc meth).map emittedDefaults = .ok ⟨none, t⟩ := by
  simp only [methodDefaults, hsel, ht, hrp]
  rfl

/-- the parameters the `Retry` object ends up with: a value of 0 is not emitted and api-core's own
default (1 s, 60 s, ×2) applies — the forced hypothesis of DESIGN §7.9, stated. -/
theorem effective_params (e : EmittedRetry) :
    (effective e).initial = e.initial.getD 1 ∧ (effective e).maximum = e.maximum.getD 60 ∧
    (effective e).multiplier = e.multiplier.getD 2 ∧ (effective e).predicate = e.predicate ∧
    (effective e).deadline = e.deadline := ⟨rfl, rfl, rfl, rfl, rfl⟩

theorem truthy_eq (r : Rat) : truthy r = if r = 0 then none else some r := rfl

/-- **`deadline` and `default_timeout` are both the entry's timeout.** -/
theorem deadline_is_timeout (d : Option RetryInfo × Option Rat) :
    (emittedDefaults d).timeout = d.2 ∧
    ∀ r, (emittedDefaults d).retry = some r → r.deadline = d.2 ∧ (effective r).deadline = d.2 := by
  refine ⟨rfl, ?_⟩
  intro r hr
  cases h : d.1 with
  | none => simp [emittedDefaults, h] at hr
  | some ri =>
    simp only [emittedDefaults, h, Option.map_some, Option.some.injEq] at hr
    subst hr
    exact ⟨rfl, rfl⟩

/-! ## From the text of the config to the table (second deepening round) -/

section Literals
open GapicModel.Lemmas.C09

section Aux
theorem timeoutOf_literal (mc : MethodConfig) (lit : List Char) (r : Rat) (ht : mc.timeout = some lit)
    (hv : toFloat? lit = some r) : timeoutOf mc = .ok (some r) := by
  cases lit with
  | nil => simp [toFloat?] at hv
  | cons c cs => simp [timeoutOf, ht, dur, hv, Except.map]
end Aux

/-- **An entry whose `timeout` is the decimal literal of `s + n/10^f`** (any widths, zero padded — `1.05s`,
`0.000000001s`, `4.050s`) **makes `default_timeout`, and with a retryPolicy the overall `deadline`, exactly that number.** -/
theorem timeout_literal_reaches_table (cfg : ServiceConfig) (svc meth : String) (mc : MethodConfig)
    (w f s n : Nat) (hw : 0 < w) (hs : s < 10 ^ w) (hn : n < 10 ^ f)
    (hsel : selectConfig cfg svc meth = some mc)
    (ht : mc.timeout = some (digitsOf w s ++ '.' :: digitsOf f n ++ ['s']))
    (e : Emitted) (he : (methodDefaults cfg svc meth).map emittedDefaults = .ok e) :
    e.timeout = some ((s : Rat) + (n : Rat) / pow10 f) ∧
    ∀ r, e.retry = some r → r.deadline = some ((s : Rat) + (n : Rat) / pow10 f) := by
  have hto := timeoutOf_literal mc _ _ ht (to_float_canonical_roundtrip w f s n hw hs hn)
  have key : ∃ ri?, methodDefaults cfg svc meth = .ok (ri?, some ((s : Rat) + (n : Rat) / pow10 f)) := by
    simp only [methodDefaults, hsel, hto] at he ⊢
    cases hrp : mc.retryPolicy with
    | none => exact ⟨none, rfl⟩
    | some rp =>
      simp only [hrp] at he ⊢
      cases hri : retryInfoOf rp with
      | error x => simp [hri, bind, Except.bind, Except.map] at he
      | ok ri => exact ⟨some ri, rfl⟩
  obtain ⟨ri?, hk⟩ := key
  rw [hk] at he
  simp only [Except.map, Except.ok.injEq] at he
  subst he
  exact deadline_is_timeout (ri?, _) |>.imp id (fun h r hr => (h r hr).1)

/-- the same for the back-off fields: the decimal literals of `initialBackoff` / `maxBackoff` reach
`initial=` / `maximum=` as exactly their values (0 = keyword omitted) -/
theorem backoff_literals_reach_table (cfg : ServiceConfig) (svc meth : String) (mc : MethodConfig) (rp : RetryPolicy)
    (w₁ f₁ s₁ n₁ w₂ f₂ s₂ n₂ : Nat) (hw₁ : 0 < w₁) (hs₁ : s₁ < 10 ^ w₁) (hn₁ : n₁ < 10 ^ f₁)
    (hw₂ : 0 < w₂) (hs₂ : s₂ < 10 ^ w₂) (hn₂ : n₂ < 10 ^ f₂) (cls : List Exc) (t : Option Rat)
    (hsel : selectConfig cfg svc meth = some mc) (hrp : mc.retryPolicy = some rp)
    (hi : rp.initialBackoff = some (digitsOf w₁ s₁ ++ '.' :: digitsOf f₁ n₁ ++ ['s']))
    (hm : rp.maxBackoff = some (digitsOf w₂ s₂ ++ '.' :: digitsOf f₂ n₂ ++ ['s']))
    (hc : classesOf rp.codes = .ok cls) (ht : timeoutOf mc = .ok t) :
    (methodDefaults cfg svc meth).map emittedDefaults = .ok
      { retry := some { initial := truthy ((s₁ : Rat) + (n₁ : Rat) / pow10 f₁),
                        maximum := truthy ((s₂ : Rat) + (n₂ : Rat) / pow10 f₂),
                        multiplier := truthy (rp.backoffMultiplier.getD 0),
                        predicate := cls.eraseDups, deadline := t },
        timeout := t } :=
  emitted_params_exact cfg svc meth mc rp _ _ cls t hsel hrp
    (by rw [hi]; exact to_float_canonical_roundtrip w₁ f₁ s₁ n₁ hw₁ hs₁ hn₁)
    (by rw [hm]; exact to_float_canonical_roundtrip w₂ f₂ s₂ n₂ hw₂ hs₂ hn₂) hc ht

/-- hypotheses met: the entry of `a.B/Get` with timeout `4.050s`, back-off `0.05s` … `2.025000s` -/
example :
    let mc : MethodConfig := ⟨[⟨some "a.B", some "Get"⟩], some (digitsOf 1 4 ++ '.' :: digitsOf 3 50 ++ ['s']),
      some ⟨none, some (digitsOf 1 0 ++ '.' :: digitsOf 2 5 ++ ['s']), some (digitsOf 1 2 ++ '.' :: digitsOf 6 25000 ++ ['s']),
            some 3, ["UNAVAILABLE"]⟩⟩
    selectConfig [mc] "a.B" "Get" = some mc ∧ mc.timeout = some "4.050s".toList ∧
    ((methodDefaults [mc] "a.B" "Get").map emittedDefaults).toOption =
      some ⟨some ⟨some (1/20), some (81/40), some 3, [.serviceUnavailable], some (81/20)⟩, some (81/20)⟩ := by
  decide +kernel

end Literals

/-! ## Which errors are retried -/

/-- **Retried exactly on the listed codes**: when the predicate is built from a list of codes that does
not contain `OK`, an error status is retryable iff it is listed. -/
theorem retryable_iff_listed (p : Params) (cs : List Code) (hpred : p.predicate = (cs.map excOfCode).eraseDups)
    (hok : Code.ok ∉ cs) (c : Code) : p.retryable c = true ↔ c ∈ cs := by
  unfold Params.retryable
  rw [hpred, List.any_eq_true]
  constructor
  · rintro ⟨cls, hcls, hi⟩
    rw [List.mem_eraseDups, List.mem_map] at hcls
    obtain ⟨c', hc', rfl⟩ := hcls
    simp only [Exc.isInstance, Bool.or_eq_true, beq_iff_eq] at hi
    rcases hi with hi | hi
    · exact (excOfCode_injective _ _ hi) ▸ hc'
    · rw [excOfCode_base_iff] at hi
      exact absurd (hi ▸ hc') hok
  · intro hc
    exact ⟨excOfCode c, by rw [List.mem_eraseDups, List.mem_map]; exact ⟨c, hc, rfl⟩, by simp [Exc.isInstance]⟩

example : Code.ok ∉ [Code.unavailable, Code.deadlineExceeded] := by decide

/-- `OK` among `retryableStatusCodes` puts the BASE class into the predicate, and then every error is
retried, listed or not (real code: reproduced, finding `ok-code-retries-every-error`). -/
theorem ok_listed_retries_every_error_counterexample :
    ∃ (p : Params) (cs : List Code), p.predicate = (cs.map excOfCode).eraseDups ∧
      Code.notFound ∉ cs ∧ p.retryable .notFound = true :=
  ⟨⟨1, 60, 2, [.googleAPICallError, .serviceUnavailable], none⟩, [.ok, .unavailable], by decide, by decide, by decide⟩

/-! ## The retry loop -/

/-- **`retryable^k` then `OK`, inside the deadline: exactly `k+1` attempts, `k` waits, success.**
"Inside the deadline" is stated on the upper bounds: the sum of the first `k` back-off bounds does not
exceed the deadline (or there is none). -/
theorem retry_on_exact_codes (p : Params) (hp : NonNeg p) (timeout : Option Rat) (jit : Nat → Rat)
    (hj : Jitter jit) (cs : List Code) (hc : ∀ c ∈ cs, p.retryable c = true) (tail : List Reply)
    (hw : ∀ D, p.deadline = some D → sumBounds p 0 cs.length ≤ D) :
    let t := run (some p) timeout jit (cs.map .err ++ .ok :: tail) 0 0
    t.result = .success ∧ t.attempts.length = cs.length + 1 ∧ t.waits.length = cs.length := by
  have hw' : Within p 0 0 cs.length := fun D hD => by have := hw D hD; grind
  obtain ⟨el', _, _, h3, h4, h5⟩ := run_retryable_prefix p hp timeout jit hj cs hc (.ok :: tail) 0 0 hw'
  simp only [h3, h4, h5, run]
  simp

example : NonNeg (⟨1/4, 2, 3/2, [.serviceUnavailable], some 5⟩ : Params) ∧
    sumBounds ⟨1/4, 2, 3/2, [.serviceUnavailable], some 5⟩ 0 3 ≤ 5 := by
  refine ⟨⟨?_, ?_, ?_⟩, ?_⟩ <;> decide +kernel

/-- the DESIGN's wording: `faults = replicate k (err c) ++ [ok]` -/
theorem retry_on_exact_codes_replicate (p : Params) (hp : NonNeg p) (timeout : Option Rat) (jit : Nat → Rat)
    (hj : Jitter jit) (c : Code) (k : Nat) (hc : p.retryable c = true)
    (hw : ∀ D, p.deadline = some D → sumBounds p 0 k ≤ D) :
    (run (some p) timeout jit (List.replicate k (.err c) ++ [.ok]) 0 0).attempts.length = k + 1 := by
  have := retry_on_exact_codes p hp timeout jit hj (List.replicate k c)
    (fun c' h => by rw [List.eq_of_mem_replicate h]; exact hc) [] (by simpa using hw)
  simpa using this.2.1

/-- **Any other error surfaces after one attempt** (no wait, the error itself is the result) — also in
the middle of a sequence: `retryable^k` then a non-retryable error gives `k+1` attempts. -/
theorem other_error_one_attempt (p : Params) (timeout : Option Rat) (jit : Nat → Rat) (c : Code)
    (hc : p.retryable c = false) (rest : List Reply) (i : Nat) (el : Rat) :
    run (some p) timeout jit (.err c :: rest) i el = ⟨[⟨el, attemptTimeout timeout el⟩], [], .failed c⟩ := by
  simp [run, hc]

theorem other_error_after_retries (p : Params) (hp : NonNeg p) (timeout : Option Rat) (jit : Nat → Rat)
    (hj : Jitter jit) (cs : List Code) (hcs : ∀ c ∈ cs, p.retryable c = true) (c : Code)
    (hc : p.retryable c = false) (tail : List Reply)
    (hw : ∀ D, p.deadline = some D → sumBounds p 0 cs.length ≤ D) :
    let t := run (some p) timeout jit (cs.map .err ++ .err c :: tail) 0 0
    t.result = .failed c ∧ t.attempts.length = cs.length + 1 ∧ t.waits.length = cs.length := by
  have hw' : Within p 0 0 cs.length := fun D hD => by have := hw D hD; grind
  obtain ⟨el', _, _, h3, h4, h5⟩ := run_retryable_prefix p hp timeout jit hj cs hcs (.err c :: tail) 0 0 hw'
  simp only [h3, h4, h5, other_error_one_attempt p timeout jit c hc]
  simp

/-- without a default retry (entry with timeout only, or `retry=None`) every error surfaces at once -/
theorem no_retry_one_attempt (timeout : Option Rat) (jit : Nat → Rat) (r : Reply) (rest : List Reply)
    (i : Nat) (el : Rat) :
    (run none timeout jit (r :: rest) i el).attempts = [⟨el, attemptTimeout timeout el⟩] ∧
    (run none timeout jit (r :: rest) i el).waits = [] := by
  cases r <;> simp [run]

/-- **Waits follow `initialBackoff`, `maxBackoff`, `backoffMultiplier`**: the `k`-th wait of any run is
non-negative and at most `min (initial * multiplier^k) maximum`. -/
theorem waits_bounded (p : Params) (hp : NonNeg p) (timeout : Option Rat) (jit : Nat → Rat) (hj : Jitter jit)
    (replies : List Reply) (i : Nat) (el : Rat) (k : Nat) (w : Rat)
    (h : (run (some p) timeout jit replies i el).waits[k]? = some w) :
    0 ≤ w ∧ w ≤ min (p.initial * p.multiplier ^ (i + k)) p.maximum := by
  induction replies generalizing i el k with
  | nil => simp [run] at h
  | cons r rest ih =>
    have key : ∀ (t : Trace), t = run (some p) timeout jit rest (i + 1) (el + jit i * bound p i) →
        (jit i * bound p i :: t.waits)[k]? = some w →
        0 ≤ w ∧ w ≤ min (p.initial * p.multiplier ^ (i + k)) p.maximum := by
      intro t ht hk
      cases k with
      | zero =>
        simp only [List.getElem?_cons_zero, Option.some.injEq] at hk
        subst hk
        have ⟨h0, h1⟩ := wait_le_bound p hp jit hj i
        have := bound_le_geometric p hp i
        have := bound_le_maximum p i
        refine ⟨h0, ?_⟩
        simp only [Nat.add_zero]
        grind
      | succ k =>
        simp only [List.getElem?_cons_succ] at hk
        subst ht
        have := ih (i + 1) _ k hk
        have e : i + 1 + k = i + (k + 1) := by omega
        rw [e] at this
        exact this
    cases r with
    | ok => simp [run] at h
    | err c =>
      simp only [run] at h
      split at h
      · split at h
        · exact key _ rfl h
        · split at h
          · simp at h
          · exact key _ rfl h
      · simp at h

/-- when the multiplier is at least 1 the bound IS the familiar closed form -/
theorem bound_closed_form (p : Params) (hp : NonNeg p) (hm : 1 ≤ p.multiplier) (i : Nat) :
    bound p i = min (p.initial * p.multiplier ^ i) p.maximum := by
  induction i with
  | zero => simp [bound]
  | succ i ih =>
    simp only [bound, ih]
    have h2 : p.initial * p.multiplier ^ (i + 1) = p.initial * p.multiplier ^ i * p.multiplier := by
      rw [Rat.pow_succ, Rat.mul_assoc]
    rw [h2]
    have hM : p.maximum ≤ p.maximum * p.multiplier := by
      have := Rat.mul_le_mul_of_nonneg_left hm hp.2.1
      simpa using this
    by_cases hle : p.initial * p.multiplier ^ i ≤ p.maximum
    · have : min (p.initial * p.multiplier ^ i) p.maximum = p.initial * p.multiplier ^ i := by grind
      rw [this]
    · have hmin : min (p.initial * p.multiplier ^ i) p.maximum = p.maximum := by grind
      rw [hmin]
      have : p.maximum * p.multiplier ≤ p.initial * p.multiplier ^ i * p.multiplier :=
        Rat.mul_le_mul_of_nonneg_right (by grind) hp.2.2
      grind

/-! ## Deadlines -/

/-- **The first attempt of a default call carries the entry's timeout as its deadline**; every attempt
carries a deadline iff the entry has a timeout, and never more than it. -/
theorem first_attempt_carries_timeout (e : Emitted) (jit : Nat → Rat) (r : Reply) (rest : List Reply) :
    (call e .default .default jit (r :: rest)).attempts.head? = some ⟨0, e.timeout⟩ := by
  have h0 : attemptTimeout e.timeout 0 = e.timeout := by
    cases h : e.timeout <;> simp [attemptTimeout] <;> grind
  cases r with
  | ok => simp [call, Arg.resolve, run, h0]
  | err c =>
    simp only [call, Arg.resolve, run]
    split
    · simp [h0]
    · split
      · split
        · simp [h0]
        · split <;> simp [h0]
      · simp [h0]

theorem attempt_timeout_le (T el : Rat) (hel : 0 ≤ el) :
    ∃ d, attemptTimeout (some T) el = some d ∧ d ≤ T ∧ (d = T ∨ (d = T - el ∧ 1 ≤ d)) := by
  simp only [attemptTimeout, Option.map_some]
  split
  · exact ⟨T, rfl, by grind, Or.inl rfl⟩
  · exact ⟨T - el, rfl, by grind, Or.inr ⟨rfl, by grind⟩⟩

/-- **The timeout is the overall retry deadline**: no wait is ever requested that would end after it … -/
theorem deadline_respected (p : Params) (timeout : Option Rat) (jit : Nat → Rat)
    (D : Rat) (hD : p.deadline = some D) (replies : List Reply) (i : Nat) (el : Rat) (hel : el ≤ D) :
    el + (run (some p) timeout jit replies i el).waits.sum ≤ D := by
  induction replies generalizing i el with
  | nil => simp only [run, List.sum_nil]; grind
  | cons r rest ih =>
    cases r with
    | ok => simp only [run, List.sum_nil]; grind
    | err c =>
      simp only [run, hD]
      split
      · split
        · simp only [List.sum_nil]; grind
        · rename_i hle
          have hle' : el + jit i * bound p i ≤ D := by grind
          have := ih (i + 1) (el + jit i * bound p i) hle'
          simp only [List.sum_cons]
          grind
      · simp only [List.sum_nil]; grind

/-- … and a retryable error whose back-off would cross the deadline ends the call with `RetryError`. -/
theorem deadline_exceeded_stops (p : Params) (timeout : Option Rat) (jit : Nat → Rat) (c : Code)
    (hc : p.retryable c = true) (D : Rat) (hD : p.deadline = some D) (rest : List Reply) (i : Nat) (el : Rat)
    (hx : el + jit i * bound p i > D) :
    run (some p) timeout jit (.err c :: rest) i el = ⟨[⟨el, attemptTimeout timeout el⟩], [], .retryError c⟩ := by
  simp [run, hc, hD, hx]

example : (⟨4, 4, 2, [.serviceUnavailable], some 3⟩ : Params).retryable .unavailable = true ∧
    (0 : Rat) + (fun _ => (1 : Rat)) 0 * bound ⟨4, 4, 2, [.serviceUnavailable], some 3⟩ 0 > 3 := by
  refine ⟨by decide, by decide +kernel⟩

/-- without a deadline (`timeout` absent from the entry) retrying never gives up by itself -/
theorem no_deadline_never_retry_error (p : Params) (hD : p.deadline = none) (timeout : Option Rat)
    (jit : Nat → Rat) (replies : List Reply) (i : Nat) (el : Rat) (c : Code) :
    (run (some p) timeout jit replies i el).result ≠ .retryError c := by
  induction replies generalizing i el with
  | nil => simp [run]
  | cons r rest ih =>
    cases r with
    | ok => simp [run]
    | err c' =>
      simp only [run, hD]
      split
      · exact ih _ _
      · simp

/-! ## Explicit per-call arguments -/

/-- **An explicit `retry=` / `timeout=` overrides the default**: the call then does not depend on the
table entry at all … -/
theorem explicit_overrides_default (e e' : Emitted) (r : Option Params) (t : Option Rat)
    (jit : Nat → Rat) (replies : List Reply) :
    call e (.given r) (.given t) jit replies = call e' (.given r) (.given t) jit replies := rfl

/-- … each argument independently: an explicit retry keeps the default timeout and vice versa … -/
theorem explicit_each_independent (e : Emitted) (r : Option Params) (t : Option Rat)
    (jit : Nat → Rat) (replies : List Reply) :
    call e (.given r) .default jit replies = run r e.timeout jit replies 0 0 ∧
    call e .default (.given t) jit replies = run (e.retry.map effective) t jit replies 0 0 := ⟨rfl, rfl⟩

/-- … `retry=None` means a single attempt whatever the entry says, and an explicit timeout is the
deadline the attempt carries. -/
theorem explicit_none_single_attempt (e : Emitted) (t : Option Rat) (jit : Nat → Rat) (r : Reply) (rest : List Reply) :
    (call e (.given none) (.given t) jit (r :: rest)).attempts = [⟨0, t⟩] := by
  have h0 : attemptTimeout t 0 = t := by cases h : t <;> simp [attemptTimeout] <;> grind
  cases r <;> simp [call, Arg.resolve, run, h0]

/-! ## Options, the whole table, mixins (deepening round) -/

/-- of several `retry-config=` options the last file is the one that counts … -/
theorem last_retry_config_wins (cs : List ServiceConfig) (c : ServiceConfig) : optsRetry (cs ++ [c]) = c := by
  simp [optsRetry]

/-- … and without the option every method is unnamed. -/
theorem no_retry_config_all_unnamed (svc meth : String) :
    methodDefaults (optsRetry []) svc meth = .ok (none, none) := by
  simp [optsRetry, methodDefaults, selectConfig]

/-- entries that carry only service-wide names (`{"service": S}`), the catch-all `{}` or names without a
service never apply to any method: the generator implements method-level entries only. -/
theorem service_level_entries_select_nothing (cfg : ServiceConfig) (svc meth : String)
    (h : ∀ c ∈ cfg, ∀ n ∈ c.names, n.method = none ∨ n.service = none) :
    selectConfig cfg svc meth = none := by
  rw [select_none_iff]
  intro c hc
  cases hn : c.namesMethod svc meth with
  | false => rfl
  | true =>
    obtain ⟨n, hmem, hs, hm⟩ := (names_method_iff c svc meth).1 hn
    rcases h c hc n hmem with h1 | h1 <;> simp_all

example : ∀ c ∈ ([⟨[⟨some "a.B", none⟩, ⟨none, none⟩, ⟨none, some "Get"⟩], some ['5', 's'], none⟩] : ServiceConfig),
    ∀ n ∈ c.names, n.method = none ∨ n.service = none := by decide

/-- `if mc.get("timeout")`: an empty string is no timeout -/
theorem empty_timeout_is_none (ns : List Name) (r : Option RetryPolicy) :
    timeoutOf ⟨ns, some [], r⟩ = .ok none ∧ timeoutOf ⟨ns, none, r⟩ = .ok none := ⟨rfl, rfl⟩

section Aux
theorem ownEntries_spec (cfg : ServiceConfig) (svc : String) (ms : List String) (own : List (String × Emitted))
    (h : ownEntries cfg svc ms = .ok own) :
    own.map (·.1) = ms ∧ ∀ m ∈ ms, ∃ d, methodDefaults cfg svc m = .ok d ∧ (m, emittedDefaults d) ∈ own := by
  induction ms generalizing own with
  | nil => simp [ownEntries] at h; subst h; simp
  | cons m ms ih =>
    simp only [ownEntries] at h
    split at h
    · simp at h
    · rename_i d hd
      split at h
      · simp at h
      · rename_i rest hrest
        simp only [Except.ok.injEq] at h
        subst h
        obtain ⟨h1, h2⟩ := ih rest hrest
        refine ⟨by simp [h1], ?_⟩
        intro m' hm'
        rcases List.mem_cons.1 hm' with rfl | hm'
        · exact ⟨d, hd, by simp⟩
        · obtain ⟨d', hd', hmem⟩ := h2 m' hm'
          exact ⟨d', hd', List.mem_cons_of_mem _ hmem⟩
end Aux

/-- **The whole `_wrapped_methods` table**: one entry per RPC of the service, in order, carrying exactly that
method's defaults, followed by one entry per mixin RPC — and a mixin entry has no default retry and no default
timeout WHATEVER the service config says (also when an entry names `google.longrunning.Operations/GetOperation`). -/
theorem wrapped_table_spec (cfg : ServiceConfig) (svc : String) (methods mixins : List String)
    (tab : List (String × Emitted)) (h : wrappedTable cfg svc methods mixins = .ok tab) :
    tab.map (·.1) = methods ++ mixins ∧
    (∀ m ∈ methods, ∃ d, methodDefaults cfg svc m = .ok d ∧ (m, emittedDefaults d) ∈ tab) ∧
    (∀ m ∈ mixins, (m, mixinEntry) ∈ tab) := by
  simp only [wrappedTable] at h
  split at h
  · simp at h
  · rename_i own hown
    simp only [Except.ok.injEq] at h
    subst h
    obtain ⟨h1, h2⟩ := ownEntries_spec cfg svc methods own hown
    refine ⟨by simp [h1, Function.comp_def], ?_, ?_⟩
    · intro m hm
      obtain ⟨d, hd, hmem⟩ := h2 m hm
      exact ⟨d, hd, List.mem_append_left _ hmem⟩
    · intro m hm
      exact List.mem_append_right _ (List.mem_map.2 ⟨m, hm, rfl⟩)

/-- a mixin call made with defaults: one attempt, no deadline, no wait -/
theorem mixin_single_attempt_no_deadline (jit : Nat → Rat) (r : Reply) (rest : List Reply) :
    call mixinEntry .default .default jit (r :: rest) =
      ⟨[⟨0, none⟩], [], match r with | .ok => .success | .err c => .failed c⟩ := by
  cases r <;> simp [call, mixinEntry, Arg.resolve, run, attemptTimeout]

/-! ## Shape of every run -/

def exP' : Params := ⟨1/4, 2, 3/2, [.serviceUnavailable], some 5⟩

/-- exactly one wait between two consecutive attempts, whatever happens (as long as the server's reply script
did not run out in the middle of the experiment) -/
theorem waits_between_attempts (retry : Option Params) (timeout : Option Rat) (jit : Nat → Rat)
    (replies : List Reply) (i : Nat) (el : Rat)
    (h : (run retry timeout jit replies i el).result ≠ .exhausted) :
    (run retry timeout jit replies i el).attempts.length =
      (run retry timeout jit replies i el).waits.length + 1 := by
  induction replies generalizing i el with
  | nil => simp [run] at h
  | cons r rest ih =>
    cases r with
    | ok => simp [run]
    | err c =>
      cases retry with
      | none => simp [run]
      | some p =>
        by_cases hc : p.retryable c = true
        · cases hD : p.deadline with
          | none =>
            simp only [run, hc, if_true, hD] at h ⊢
            simp only [List.length_cons]; rw [ih _ _ h]
          | some D =>
            by_cases hx : el + jit i * bound p i > D
            · simp [run, hc, hD, hx]
            · simp only [run, hc, if_true, hD, hx, if_false] at h ⊢
              simp only [List.length_cons]; rw [ih _ _ h]
        · simp [run, hc]

example : (run (some exP') none (fun _ => 1) [.err .unavailable, .ok] 0 0).result ≠ .exhausted := by
  decide +kernel

/-- the longest prefix of replies that are retryable errors -/
def retryablePrefix (p : Params) (replies : List Reply) : List Reply :=
  replies.takeWhile fun r => match r with | .ok => false | .err c => p.retryable c

/-- **Never more attempts than the statement allows**: at most one per leading retryable error plus the
attempt that ends the call — with or without a deadline, for any jitter. (Together with
`retry_on_exact_codes` / `other_error_after_retries`: exactly that many inside the deadline.) -/
theorem attempts_le_retryable_prefix (p : Params) (timeout : Option Rat) (jit : Nat → Rat)
    (replies : List Reply) (i : Nat) (el : Rat) :
    (run (some p) timeout jit replies i el).attempts.length ≤ (retryablePrefix p replies).length + 1 := by
  induction replies generalizing i el with
  | nil => simp [run]
  | cons r rest ih =>
    cases r with
    | ok => simp [run]
    | err c =>
      simp only [run, retryablePrefix, List.takeWhile_cons]
      by_cases hc : p.retryable c = true
      · simp only [hc, if_true, List.length_cons]
        have := ih (i + 1) (el + jit i * bound p i)
        simp only [retryablePrefix] at this
        split
        · simp only [List.length_cons]; omega
        · split
          · simp
          · simp only [List.length_cons]; omega
      · simp [hc]

/-- the predicate is a SET of classes: only membership matters (the generator keeps a frozenset, the template
sorts it by name; any order and any duplicates give the same behaviour) -/
theorem retryable_congr_mem (p q : Params) (h : ∀ x, x ∈ p.predicate ↔ x ∈ q.predicate) (c : Code) :
    p.retryable c = q.retryable c := by
  unfold Params.retryable
  rw [Bool.eq_iff_iff, List.any_eq_true, List.any_eq_true]
  constructor
  · rintro ⟨x, hx, hi⟩; exact ⟨x, (h x).1 hx, hi⟩
  · rintro ⟨x, hx, hi⟩; exact ⟨x, (h x).2 hx, hi⟩

example : ∀ x, x ∈ ([.serviceUnavailable, .aborted, .serviceUnavailable] : List Exc) ↔ x ∈ ([.aborted, .serviceUnavailable] : List Exc) := by
  intro x; cases x <;> decide

/-! ## Non-vacuity: one concrete configuration meeting the hypotheses of the theorems above -/

def exCfg : ServiceConfig :=
  [⟨[⟨some "a.B", none⟩, ⟨some "a.B", some "Get"⟩], some "5s".toList,
      some ⟨some 4, some "0.25s".toList, some "2s".toList, some (3/2), ["UNAVAILABLE", "UNAVAILABLE"]⟩⟩,
   ⟨[⟨some "a.B", some "Put"⟩, ⟨some "a.B", some "Get"⟩], some "7.5s".toList, none⟩]

def exP : Params := ⟨1/4, 2, 3/2, [.serviceUnavailable], some 5⟩

/-- hypotheses of `emitted_params_exact` / `timeout_without_retry` / `select_named_first` -/
example : selectConfig exCfg "a.B" "Get" = exCfg[0]? ∧ selectConfig exCfg "a.B" "Put" = exCfg[1]? ∧
    selectConfig exCfg "a.B" "Other" = none ∧
    toFloat? "0.25s".toList = some (1/4) ∧
    (classesOf ["UNAVAILABLE", "UNAVAILABLE"]).toOption = some [.serviceUnavailable, .serviceUnavailable] ∧
    ((methodDefaults exCfg "a.B" "Get").map emittedDefaults).toOption =
      some ⟨some ⟨some (1/4), some 2, some (3/2), [.serviceUnavailable], some 5⟩, some 5⟩ ∧
    ((methodDefaults exCfg "a.B" "Put").map emittedDefaults).toOption = some ⟨none, some (15/2)⟩ := by
  decide +kernel

example : Jitter (fun _ => 1) ∧ Jitter (fun _ => 1/2) :=
  ⟨fun _ => by show (0 : Rat) ≤ 1 ∧ (1 : Rat) ≤ 1; decide +kernel,
   fun _ => by show (0 : Rat) ≤ 1/2 ∧ (1/2 : Rat) ≤ 1; decide +kernel⟩

/-- hypotheses of the loop theorems: non-negative parameters, retryable / not retryable codes, a budget
inside the deadline, a wait that exists, a back-off that crosses the deadline -/
example : NonNeg exP ∧
    (∀ c ∈ [Code.unavailable, Code.unavailable], exP.retryable c = true) ∧ exP.retryable .notFound = false ∧
    exP.deadline = some 5 ∧ sumBounds exP 0 2 ≤ 5 ∧ 1 ≤ exP.multiplier ∧
    (run (some exP) (some 5) (fun _ => 1) [.err .unavailable, .err .unavailable, .ok] 0 0).waits[1]? = some (3/8) ∧
    (run (some exP) (some 5) (fun _ => 1) (List.replicate 9 (.err .unavailable)) 0 0).result = .retryError .unavailable := by
  refine ⟨⟨?_, ?_, ?_⟩, ?_, ?_, ?_, ?_, ?_, ?_, ?_⟩ <;> decide +kernel

/-- hypothesis of `wrapped_table_spec`: a table that exists, with a mixin RPC the config names -/
example : (wrappedTable (exCfg ++ [⟨[⟨some "google.longrunning.Operations", some "GetOperation"⟩], some ['9', 's'], none⟩])
      "a.B" ["Get", "Put", "Other"] ["GetOperation"]).toOption =
    some [("Get", ⟨some ⟨some (1/4), some 2, some (3/2), [.serviceUnavailable], some 5⟩, some 5⟩),
          ("Put", ⟨none, some (15/2)⟩), ("Other", ⟨none, none⟩), ("GetOperation", ⟨none, none⟩)] := by
  decide +kernel

end GapicModel.Props.C09
