import GapicModel.Model.Determinism
import GapicModel.Lemmas.C10Dicts
import GapicModel.Pinned.Funcs
/-
C10 — generation is a pure, deterministic function of the request (DESIGN §7.10).

A Python set is any duplicate-free list with the right members (`IsSetOf`); two processes with
different `PYTHONHASHSEED` iterate two such lists, which are permutations of each other.  Each
theorem says that one class of consumer (S1..S5 of the pinned inventory) returns the same value for
both — or states the hypothesis without which it does not, with a counterexample.
-/
namespace GapicModel.Props.C10
open GapicModel.Model.Determinism
open List

section Aux

theorem leStr_total (a b : Str) : (leStr a b || leStr b a) = true := by
  induction a generalizing b with
  | nil => simp [leStr]
  | cons x xs ih =>
    cases b with
    | nil => simp [leStr]
    | cons y ys =>
      simp only [leStr]
      by_cases h1 : x.toNat < y.toNat
      · simp [h1]
      · by_cases h2 : y.toNat < x.toNat
        · simp [h1, h2]
        · simpa [h1, h2] using ih ys

theorem leStr_trans (a b c : Str) : leStr a b = true → leStr b c = true → leStr a c = true := by
  induction a generalizing b c with
  | nil => simp [leStr]
  | cons x xs ih =>
    cases b with
    | nil => simp [leStr]
    | cons y ys =>
      cases c with
      | nil => simp [leStr]
      | cons z zs =>
        simp only [leStr]
        by_cases h1 : x.toNat < y.toNat
        · by_cases h3 : y.toNat < z.toNat
          · have : x.toNat < z.toNat := by omega
            simp [this]
          · by_cases h4 : z.toNat < y.toNat
            · simp [h3, h4]
            · have : x.toNat < z.toNat := by omega
              simp [this]
        · by_cases h2 : y.toNat < x.toNat
          · simp [h1, h2]
          · have hxy : x.toNat = y.toNat := by omega
            by_cases h3 : y.toNat < z.toNat
            · have : x.toNat < z.toNat := by omega
              simp [this]
            · by_cases h4 : z.toNat < y.toNat
              · simp [h3, h4]
              · have h5 : ¬ x.toNat < z.toNat := by omega
                have h6 : ¬ z.toNat < x.toNat := by omega
                simpa [h1, h2, h3, h4, h5, h6] using ih ys zs

theorem leStr_antisymm (a b : Str) : leStr a b = true → leStr b a = true → a = b := by
  induction a generalizing b with
  | nil => cases b <;> simp [leStr]
  | cons x xs ih =>
    cases b with
    | nil => simp [leStr]
    | cons y ys =>
      simp only [leStr]
      by_cases h1 : x.toNat < y.toNat
      · have : ¬ y.toNat < x.toNat := by omega
        simp [h1, this]
      · by_cases h2 : y.toNat < x.toNat
        · simp [h1, h2]
        · have hxy : x = y := Char.toNat_inj.mp (by omega)
          intro ha hb
          simp only [h1, h2, if_false] at ha hb
          rw [hxy, ih ys ha hb]

/-- the comparison `sorted(key=…)` uses -/
abbrev leKey {α : Type} (key : α → Str) (a b : α) : Bool := leStr (key a) (key b)

theorem sortBy_perm {α : Type} (key : α → Str) (xs : List α) : (sortBy key xs).Perm xs :=
  mergeSort_perm xs _

theorem sortBy_pairwise {α : Type} (key : α → Str) (xs : List α) :
    (sortBy key xs).Pairwise (fun a b => leKey key a b = true) :=
  pairwise_mergeSort (le := leKey key) (fun a b c => leStr_trans (key a) (key b) (key c))
    (fun a b => leStr_total (key a) (key b)) xs

theorem sortedStr_eq_sortBy (xs : List Str) : sortedStr xs = sortBy id xs := rfl

theorem mem_dedup {α : Type} [DecidableEq α] (a : α) (xs : List α) : a ∈ dedup xs ↔ a ∈ xs := by
  induction xs with
  | nil => simp [dedup]
  | cons x xs ih =>
    simp only [dedup, mem_cons, mem_filter, ih, decide_eq_true_eq]
    constructor
    · rintro (h | ⟨h, _⟩)
      · exact Or.inl h
      · exact Or.inr h
    · rintro (h | h)
      · exact Or.inl h
      · by_cases hx : a = x
        · exact Or.inl hx
        · exact Or.inr ⟨h, by simpa using hx⟩

theorem nodup_dedup {α : Type} [DecidableEq α] (xs : List α) : (dedup xs).Nodup := by
  induction xs with
  | nil => simp [dedup]
  | cons x xs ih =>
    simp only [dedup, nodup_cons, mem_filter, decide_eq_true_eq]
    exact ⟨fun h => h.2 rfl, ih.filter _⟩

theorem dedup_isSetOf {α : Type} [DecidableEq α] (xs : List α) : IsSetOf (dedup xs) xs :=
  ⟨nodup_dedup xs, fun a => mem_dedup a xs⟩

/-- two iteration orders of the same set (built from lists with the same members) are permutations
of each other -/
theorem isSetOf_perm {α : Type} {s t xs ys : List α} (hs : IsSetOf s xs) (ht : IsSetOf t ys)
    (h : ∀ a, a ∈ xs ↔ a ∈ ys) : s.Perm t :=
  (perm_ext_iff_of_nodup hs.1 ht.1).mpr fun a => by rw [hs.2, ht.2, h]

theorem isSetOf_perm_of_perm {α : Type} {s t xs ys : List α} (hs : IsSetOf s xs) (ht : IsSetOf t ys)
    (h : xs.Perm ys) : s.Perm t := isSetOf_perm hs ht fun _ => h.mem_iff

/-- every reordering of an iteration order is another admissible iteration order -/
theorem isSetOf_of_perm {α : Type} {s t xs : List α} (hs : IsSetOf s xs) (h : t.Perm s) : IsSetOf t xs :=
  ⟨h.nodup_iff.mpr hs.1, fun a => by rw [h.mem_iff, hs.2]⟩

/-- a consumer that does not see the iteration order -/
def PermInvariant {α β : Type} (f : List α → β) : Prop := ∀ xs ys : List α, xs.Perm ys → f xs = f ys

end Aux

/-! ## S2 (and S1 as its special case): stable sort by key -/

/-- **S2.** `sorted(xs, key=k)` / Jinja `xs|sort(attribute=k)` over a set gives the same list for
every iteration order, PROVIDED the key separates the members of the set. -/
theorem sort_by_key_perm_invariant {α : Type} (key : α → Str) (xs ys : List α) (h : xs.Perm ys)
    (hinj : ∀ a ∈ xs, ∀ b ∈ xs, key a = key b → a = b) : sortBy key xs = sortBy key ys := by
  apply Perm.eq_of_pairwise (le := fun a b => leKey key a b = true)
  · intro a b ha hb hab hba
    have ha' : a ∈ xs := (sortBy_perm key xs).mem_iff.mp ha
    have hb' : b ∈ xs := h.mem_iff.mpr ((sortBy_perm key ys).mem_iff.mp hb)
    exact hinj a ha' b hb' (leStr_antisymm _ _ hab hba)
  · exact sortBy_pairwise key xs
  · exact sortBy_pairwise key ys
  · exact (sortBy_perm key xs).trans (h.trans (sortBy_perm key ys).symm)

example : ([("b".toList, 1), ("a".toList, 2)] : List (Str × Nat)).Perm [("a".toList, 2), ("b".toList, 1)] ∧
    ∀ a ∈ ([("b".toList, 1), ("a".toList, 2)] : List (Str × Nat)), ∀ b ∈ [("b".toList, 1), ("a".toList, 2)],
      a.1 = b.1 → a = b := by
  refine ⟨Perm.swap _ _ _, ?_⟩
  decide

/-- **The hypothesis of S2 is needed**: a stable sort keeps two members with equal keys in the
order in which the set happened to yield them, so the two iteration orders of `{a, b}` give two
different results. -/
theorem sort_by_key_needs_injective {α : Type} (key : α → Str) (a b : α) (hab : a ≠ b)
    (hk : key a = key b) :
    sortBy key [a, b] = [a, b] ∧ sortBy key [b, a] = [b, a] ∧ sortBy key [a, b] ≠ sortBy key [b, a] := by
  have hle : ∀ x y : α, key x = key y → leKey key x y = true := by
    intro x y h
    have := leStr_total (key x) (key y)
    simp only [leKey, h, Bool.or_self] at this ⊢
    exact this
  have h1 : sortBy key [a, b] = [a, b] :=
    mergeSort_of_pairwise (le := leKey key) (by simp [hle a b hk])
  have h2 : sortBy key [b, a] = [b, a] :=
    mergeSort_of_pairwise (le := leKey key) (by simp [hle b a hk.symm])
  refine ⟨h1, h2, ?_⟩
  rw [h1, h2]
  intro h
  exact hab (by simpa using (List.cons.inj h).1)

example : (("Thing".toList, 1) : Str × Nat) ≠ ("Thing".toList, 2) ∧
    (("Thing".toList, 1) : Str × Nat).1 = (("Thing".toList, 2) : Str × Nat).1 := by decide

/-- **S2, exact characterisation.** For a set `xs`, the sort-by-key consumer is independent of the
iteration order if and only if the key is injective on `xs`. -/
theorem sort_by_key_perm_invariant_iff {α : Type} [DecidableEq α] (key : α → Str) (xs : List α) (hnd : xs.Nodup) :
    (∀ ys, ys.Perm xs → sortBy key ys = sortBy key xs) ↔ (∀ a ∈ xs, ∀ b ∈ xs, key a = key b → a = b) := by
  constructor
  · intro hall a ha b hb hk
    apply Classical.byContradiction
    intro hab
    -- stability: [a, b] and [b, a] would both be sublists of the one sorted list
    have hle : ∀ x y : α, key x = key y → leKey key x y = true := by
      intro x y h
      have := leStr_total (key x) (key y)
      simp only [leKey, h, Bool.or_self] at this ⊢
      exact this
    have tr : ∀ (a b c : α), leKey key a b = true → leKey key b c = true → leKey key a c = true :=
      fun a b c => leStr_trans (key a) (key b) (key c)
    have tot : ∀ (a b : α), (leKey key a b || leKey key b a) = true :=
      fun a b => leStr_total (key a) (key b)
    -- an order with a before b and one with b before a
    obtain ⟨rest, hrest⟩ : ∃ rest, xs.Perm (a :: b :: rest) := by
      have hl1 : xs.Perm (a :: xs.erase a) := perm_cons_erase ha
      have hb' : b ∈ xs.erase a := (mem_erase_of_ne (Ne.symm hab)).mpr hb
      exact ⟨(xs.erase a).erase b, hl1.trans ((perm_cons_erase hb').cons a)⟩
    have e1 := hall (a :: b :: rest) hrest.symm
    have e2 := hall (b :: a :: rest) ((Perm.swap a b rest).trans hrest.symm)
    have s1 : [a, b] <+ sortBy key (a :: b :: rest) :=
      sublist_mergeSort (le := leKey key) tr tot (by simp [hle a b hk]) (by simp)
    have s2 : [b, a] <+ sortBy key (b :: a :: rest) :=
      sublist_mergeSort (le := leKey key) tr tot (by simp [hle b a hk.symm]) (by simp)
    rw [e1] at s1
    rw [e2] at s2
    have hnd' : (sortBy key xs).Nodup := (sortBy_perm key xs).nodup_iff.mpr hnd
    -- in a duplicate-free list a cannot be both before and after b
    have key1 : ∀ (l : List α), l.Nodup → [a, b] <+ l → [b, a] <+ l → False := by
      intro l
      induction l with
      | nil => intro _ h; simp at h
      | cons c l ih =>
        intro hn h1 h2
        have hn' := (nodup_cons.mp hn)
        by_cases hca : c = a
        · subst hca
          -- [b, c] <+ c :: l with b ≠ c  →  [b, c] <+ l  →  c ∈ l, contradiction
          have : [b, c] <+ l := by
            cases h2 with
            | cons _ h => exact h
            | cons_cons _ h => exact absurd rfl hab
          exact hn'.1 (this.subset (by simp))
        · by_cases hcb : c = b
          · subst hcb
            have : [a, c] <+ l := by
              cases h1 with
              | cons _ h => exact h
              | cons_cons _ h => exact absurd rfl (Ne.symm hab)
            exact hn'.1 (this.subset (by simp))
          · have h1' : [a, b] <+ l := by
              cases h1 with
              | cons _ h => exact h
              | cons_cons _ h => exact absurd rfl hca
            have h2' : [b, a] <+ l := by
              cases h2 with
              | cons _ h => exact h
              | cons_cons _ h => exact absurd rfl hcb
            exact ih hn'.2 h1' h2'
    exact key1 _ hnd' s1 s2
  · intro hinj ys hp
    exact sort_by_key_perm_invariant key ys xs hp (fun a ha b hb => hinj a (hp.mem_iff.mp ha) b (hp.mem_iff.mp hb))

/-- **S1.** `sorted(lines)` on strings: the key is the identity, hence always injective. -/
theorem sorted_perm_invariant (xs ys : List Str) (h : xs.Perm ys) : sortedStr xs = sortedStr ys :=
  sort_by_key_perm_invariant id xs ys h (fun _ _ _ _ e => e)

/-- **S1, `sort_lines` with `dedupe=True`.** Whatever order `set(lines)` is iterated in — and
whatever order the template block produced the lines in — the output is the same. -/
theorem sort_lines_perm_invariant (leading trailing : Bool) (ls ls' s t : List Str)
    (hls : ls.Perm ls') (hs : IsSetOf s ls) (ht : IsSetOf t ls') :
    sortLinesFrom leading trailing s = sortLinesFrom leading trailing t := by
  unfold sortLinesFrom
  rw [sorted_perm_invariant s t (isSetOf_perm_of_perm hs ht hls)]

/-- the executable `sortLines` is `sortLinesFrom` at one admissible iteration order of the set -/
theorem sort_lines_is_some_set_order (isSpace : Char → Bool) (text : Str) :
    ∃ s, IsSetOf s (linesOf isSpace text) ∧
      sortLines isSpace text true =
        sortLinesFrom (text.head? == some '\n') (text.getLast? == some '\n') s :=
  ⟨dedup (linesOf isSpace text), dedup_isSetOf _, rfl⟩

/-- `sort_lines(dedupe=False)`: no set involved; invariant under the order of the block's lines -/
theorem sort_lines_nodedupe_perm_invariant (leading trailing : Bool) (ls ls' : List Str) (h : ls.Perm ls') :
    sortLinesFrom leading trailing ls = sortLinesFrom leading trailing ls' := by
  unfold sortLinesFrom
  rw [sorted_perm_invariant ls ls' h]

example : IsSetOf (dedup ["a".toList, "b".toList, "a".toList]).reverse ["a".toList, "b".toList, "a".toList] ∧
    IsSetOf (dedup ["b".toList, "a".toList, "a".toList]) ["b".toList, "a".toList, "a".toList] ∧
    (dedup ["a".toList, "b".toList, "a".toList]).reverse ≠ dedup ["a".toList, "b".toList, "a".toList] ∧
    (["a".toList, "b".toList, "a".toList] : List Str).Perm ["b".toList, "a".toList, "a".toList] :=
  ⟨isSetOf_of_perm (dedup_isSetOf _) (reverse_perm _), dedup_isSetOf _, by decide, Perm.swap _ _ _⟩

/-- **S1 for any total order** (`sorted()` over tuples such as `imp.Import`, numbers, …): a sort by a
transitive, total, antisymmetric comparison does not see the iteration order. -/
theorem sort_total_order_perm_invariant {α : Type} (le : α → α → Bool)
    (trans : ∀ a b c, le a b = true → le b c = true → le a c = true)
    (total : ∀ a b, (le a b || le b a) = true)
    (antisymm : ∀ a b, le a b = true → le b a = true → a = b)
    (xs ys : List α) (h : xs.Perm ys) : xs.mergeSort le = ys.mergeSort le := by
  apply Perm.eq_of_pairwise (le := fun a b => le a b = true)
  · intro a b _ _ hab hba
    exact antisymm a b hab hba
  · exact pairwise_mergeSort trans total xs
  · exact pairwise_mergeSort trans total ys
  · exact (mergeSort_perm xs le).trans (h.trans (mergeSort_perm ys le).symm)

example : (∀ a b c : Nat, decide (a ≤ b) = true → decide (b ≤ c) = true → decide (a ≤ c) = true) ∧
    (∀ a b : Nat, (decide (a ≤ b) || decide (b ≤ a)) = true) ∧
    (∀ a b : Nat, decide (a ≤ b) = true → decide (b ≤ a) = true → a = b) ∧ ([2, 1, 3] : List Nat).Perm [3, 2, 1] := by
  refine ⟨?_, ?_, ?_, ?_⟩
  · intro a b c h1 h2; simp at *; omega
  · intro a b; simp; omega
  · intro a b h1 h2; simp at *; omega
  · decide

/-- **Sub-packages (S1 instance)**: the keys of `API.subpackages` — and with them the order in which
`_render_template` appends the sub-packages' files to the response — are the same for every
iteration order of the set of sub-package names. -/
theorem subpackages_order_free (names s t : List Str) (hs : IsSetOf s names) (ht : IsSetOf t names) :
    subpackageOrder s = subpackageOrder t :=
  sorted_perm_invariant s t (isSetOf_perm_of_perm hs ht (Perm.refl _))

/-- … hence so is the `%sub` walk of every template -/
theorem sub_walk_order_free (names s t : List Str) (filesOf : Str → List Str) (own : List Str)
    (hs : IsSetOf s names) (ht : IsSetOf t names) :
    subWalk (subpackageOrder s) filesOf own = subWalk (subpackageOrder t) filesOf own := by
  rw [subpackages_order_free names s t hs ht]

example : IsSetOf (dedup [['b'], ['a'], ['c'], ['a']]).reverse [['b'], ['a'], ['c'], ['a']] ∧
    IsSetOf (dedup [['b'], ['a'], ['c'], ['a']]) [['b'], ['a'], ['c'], ['a']] ∧
    (dedup [['b'], ['a'], ['c'], ['a']]).reverse ≠ dedup [['b'], ['a'], ['c'], ['a']] :=
  ⟨isSetOf_of_perm (dedup_isSetOf _) (reverse_perm _), dedup_isSetOf _, by decide⟩

/-- the hypothesis-free reading on the executable model: two proto orders give the same keys -/
theorem subpackage_names_perm_invariant (view : List Str) (subs subs' : List (List Str)) (h : subs.Perm subs') :
    subpackageOrder (dedup (subpackageNames view subs)) = subpackageOrder (dedup (subpackageNames view subs')) :=
  sorted_perm_invariant _ _ (isSetOf_perm_of_perm (dedup_isSetOf _) (dedup_isSetOf _) (h.filterMap _))

/-- **sub-packages of a sub-package** (`fix: sub-packages of a sub-package are named by their own level`):
every key of `API.subpackages` of the view `view` is the component at the view's OWN level of some proto
below the view — so `view + (key,)` is again a prefix of that proto's sub-package path, and the `%sub` walk
can descend into it. -/
theorem subpackage_names_own_level (view : List Str) (subs : List (List Str)) (n : Str)
    (h : n ∈ subpackageNames view subs) : ∃ sp ∈ subs, sp.take (view.length + 1) = view ++ [n] := by
  simp only [subpackageNames, mem_filterMap] at h
  obtain ⟨sp, hsp, hn⟩ := h
  split at hn
  · rename_i hc
    refine ⟨sp, hsp, ?_⟩
    rw [take_succ, hc.2, hn]
    rfl
  · cases hn

/-- regression for that fix: below `alpha` the nested package `alpha.deep` is listed as `deep` (it was `alpha`) -/
theorem subpackage_names_level_regression :
    subpackageNames ["alpha".toList] [["alpha".toList, "deep".toList], ["beta".toList], ["alpha".toList]] = ["deep".toList] := by
  decide

example : "deep".toList ∈ subpackageNames ["alpha".toList] [["alpha".toList, "deep".toList], ["beta".toList]] := by decide

/-! ## S5: ordered inputs — OAuth scopes keep their declaration order -/

section Aux

theorem splitOn_nosep (sep : Char) (s : Str) (h : sep ∉ s) : Model.Determinism.splitOn sep s = [s] := by
  induction s with
  | nil => rfl
  | cons c s ih =>
    have hc : c ≠ sep := fun e => h (by simp [e])
    have hs : sep ∉ s := fun e => h (by simp [e])
    simp [Model.Determinism.splitOn, hc, ih hs]

theorem splitOn_append_sep (sep : Char) (s rest : Str) (h : sep ∉ s) :
    Model.Determinism.splitOn sep (s ++ sep :: rest) = s :: Model.Determinism.splitOn sep rest := by
  induction s with
  | nil => simp [Model.Determinism.splitOn]
  | cons c s ih =>
    have hc : c ≠ sep := fun e => h (by simp [e])
    have hs : sep ∉ s := fun e => h (by simp [e])
    simp [Model.Determinism.splitOn, hc, ih hs]

theorem splitOn_joinWith (sep : Char) (xs : List Str) (hne : xs ≠ []) (h : ∀ s ∈ xs, sep ∉ s) :
    Model.Determinism.splitOn sep (joinWith sep xs) = xs := by
  induction xs with
  | nil => exact absurd rfl hne
  | cons x xs ih =>
    cases xs with
    | nil => simpa [joinWith] using splitOn_nosep sep x (h x (by simp))
    | cons y ys =>
      simp only [joinWith]
      rw [splitOn_append_sep sep x _ (h x (by simp))]
      rw [ih (by simp) (fun s hs => h s (by simp [hs]))]

end Aux

/-- **OAuth scopes**: `Service.oauth_scopes` returns the scopes of the option in declaration
order, with duplicates kept — a function of the (ordered) option string, no set involved. -/
theorem oauth_scopes_keep_declaration_order (isSpace : Char → Bool) (scopes : List Str)
    (h : ∀ s ∈ scopes, s ≠ [] ∧ ',' ∉ s ∧ strip isSpace s = s) :
    oauthScopes isSpace (joinWith ',' scopes) = scopes := by
  unfold oauthScopes
  cases scopes with
  | nil => simp [joinWith, Model.Determinism.splitOn]
  | cons x xs =>
    rw [splitOn_joinWith ',' (x :: xs) (by simp) (fun s hs => (h s hs).2.1)]
    have hf : (x :: xs).filter (fun i => !i.isEmpty) = x :: xs := by
      apply filter_eq_self.mpr
      intro a ha
      have := (h a ha).1
      cases a with
      | nil => exact absurd rfl this
      | cons _ _ => rfl
    rw [hf]
    calc (x :: xs).map (strip isSpace) = (x :: xs).map id := map_congr_left (fun a ha => (h a ha).2.2)
      _ = x :: xs := by simp

example : ∀ s ∈ ([['a', '/', 'x'], ['b'], ['a', '/', 'x']] : List Str),
    s ≠ [] ∧ ',' ∉ s ∧ strip (fun c => c == ' ') s = s := by decide

/-! ## S3: membership / size only -/

theorem s3_mem_perm_invariant {α : Type} [DecidableEq α] (a : α) : PermInvariant (fun xs : List α => decide (a ∈ xs)) := by
  intro xs ys h
  simp only [h.mem_iff]

theorem s3_length_perm_invariant {α : Type} : PermInvariant (fun xs : List α => xs.length) :=
  fun _ _ h => h.length_eq

theorem s3_any_perm_invariant {α : Type} (p : α → Bool) : PermInvariant (fun xs : List α => xs.any p) := by
  intro xs ys h
  rw [Bool.eq_iff_iff]
  simp only [any_eq_true]
  exact ⟨fun ⟨a, ha, hp⟩ => ⟨a, h.mem_iff.mp ha, hp⟩, fun ⟨a, ha, hp⟩ => ⟨a, h.mem_iff.mpr ha, hp⟩⟩

theorem s3_all_perm_invariant {α : Type} (p : α → Bool) : PermInvariant (fun xs : List α => xs.all p) := by
  intro xs ys h
  rw [Bool.eq_iff_iff]
  simp only [all_eq_true]
  exact ⟨fun hx a ha => hx a (h.mem_iff.mpr ha), fun hx a ha => hx a (h.mem_iff.mp ha)⟩

/-- `Proto.disambiguate` (and `Service`'s collision test) reads `names` through `in` only. -/
theorem disambiguate_perm_invariant (s : Str) : PermInvariant (fun names => disambiguate names s) := by
  intro xs ys h
  have hf : ∀ n s, disambiguateFuel xs n s = disambiguateFuel ys n s := by
    intro n
    induction n with
    | zero => intro s; rfl
    | succ n ih =>
      intro s
      simp only [disambiguateFuel, h.mem_iff, ih]
  simp only [disambiguate, h.length_eq, hf]

theorem module_collides_perm_invariant (reserved : List Str) (m : Str) :
    PermInvariant (fun collisions => moduleCollides collisions reserved m) := by
  intro xs ys h
  simp only [moduleCollides, h.mem_iff]

/-- `Method.query_params` rendered through `|sort`: the same for every iteration order of
`set(self.input.fields)`, given that field names are distinct up to case (protoc enforces this for
proto3 files). -/
theorem query_params_order_free (fields pathParams : List Str) (body : Option Str) (s : List Str)
    (hs : IsSetOf s fields)
    (hinj : ∀ a ∈ fields, ∀ b ∈ fields, lower a = lower b → a = b) :
    jinjaSort (s.filter (fun f => f ∉ pathParams ++ body.toList)) = queryParams fields pathParams body := by
  unfold queryParams jinjaSort
  apply sort_by_key_perm_invariant
  · exact (isSetOf_perm_of_perm hs (dedup_isSetOf fields) (Perm.refl _)).filter _
  · intro a ha b hb
    exact hinj a (hs.2 a |>.mp (mem_filter.mp ha).1) b (hs.2 b |>.mp (mem_filter.mp hb).1)

example : IsSetOf (dedup ["name".toList, "q".toList]).reverse ["name".toList, "q".toList] ∧
    ∀ a ∈ (["name".toList, "q".toList] : List Str), ∀ b ∈ (["name".toList, "q".toList] : List Str),
      lower a = lower b → a = b :=
  ⟨isSetOf_of_perm (dedup_isSetOf _) (reverse_perm _), by decide⟩

/-! ## S4: `tuple(set)` chains ending in an order-free consumer -/

/-- composition: a permutation-respecting transformation followed by an order-free consumer -/
theorem s4_chain {α β γ : Type} (g : List β → γ) (h : List α → List β) (hg : PermInvariant g)
    (hh : ∀ xs ys, xs.Perm ys → (h xs).Perm (h ys)) : PermInvariant (g ∘ h) :=
  fun xs ys p => hg _ _ (hh xs ys p)

/-- `recursive_field_types → _ref_types → {% filter sort_lines %}`: the import block of a client /
test module does not depend on the order of the referenced types, nor on the order in which
`set(lines)` is iterated inside `sort_lines`. -/
theorem import_block_order_free (fixed : List Str) (r1 r2 : List Import) (s t : List Str)
    (hr : r1.Perm r2) (hs : IsSetOf s (fixed ++ r1.map Import.render))
    (ht : IsSetOf t (fixed ++ r2.map Import.render)) : sortedStr s = sortedStr t :=
  sorted_perm_invariant s t (isSetOf_perm_of_perm hs ht ((Perm.refl fixed).append (hr.map _)))

theorem import_block_perm_invariant (fixed : List Str) : PermInvariant (importBlock fixed) :=
  fun r1 r2 hr => import_block_order_free fixed r1 r2 _ _ hr (dedup_isSetOf _) (dedup_isSetOf _)

/-- `Service.names` / `Proto.names`: whether a module name is imported from more than one package
does not depend on the order in which the referenced types are visited. -/
theorem colliding_module_perm_invariant (m : Str) : PermInvariant (fun types => collidingModule types m) := by
  intro xs ys h
  have hp : ((xs.filter (fun t => t.module = m)).map (·.package)).Perm ((ys.filter (fun t => t.module = m)).map (·.package)) :=
    (h.filter _).map _
  have := (isSetOf_perm_of_perm (dedup_isSetOf _) (dedup_isSetOf _) hp).length_eq
  simp only [collidingModule, this]

/-! ## The pipeline -/

/-- **If every site's consumer is order-free, the response does not depend on the schedule** (the
hash seeds of the processes). -/
theorem pipeline_order_free {β γ : Type} (assemble : List β → γ) (sites : List (Site β))
    (hyp : ∀ s ∈ sites, ∀ xs ys : List s.α, xs.Perm ys → s.consume xs = s.consume ys)
    (σ τ : Schedule β) : render assemble sites σ = render assemble sites τ := by
  unfold render
  congr 1
  apply map_congr_left
  intro s hs
  exact hyp s hs _ _ ((σ.perm s).trans (τ.perm s).symm)

/-- conversely one order-dependent site is enough to make two schedules disagree (when the
assembly keeps the site's value, as concatenating rendered text does) -/
theorem pipeline_order_leak {β : Type} (s : Site β) (xs ys : List s.α) (hx : xs.Perm s.members)
    (hy : ys.Perm s.members) (hne : s.consume xs ≠ s.consume ys) :
    ∃ σ τ : Schedule β, render id [s] σ ≠ render id [s] τ := by
  classical
  let mk (zs : List s.α) (hz : zs.Perm s.members) : Schedule β :=
    { order := fun s' => if h : s' = s then h ▸ zs else s'.members
      perm := fun s' => by
        by_cases h : s' = s
        · subst h; simpa using hz
        · simp [h] }
  refine ⟨mk xs hx, mk ys hy, ?_⟩
  simp only [render, map_cons, map_nil, id]
  intro h
  apply hne
  have := (List.cons.inj h).1
  simpa [mk] using this

example : ∃ (s : Site (List Nat)) (xs ys : List s.α), xs.Perm s.members ∧ ys.Perm s.members ∧ s.consume xs ≠ s.consume ys :=
  ⟨⟨Nat, [1, 2], id⟩, [1, 2], [2, 1], Perm.refl _, Perm.swap _ _ _, by decide⟩

/-! ## Instances -/

/-- the 17 exception class names are distinct even after Jinja's case folding -/
theorem exception_keys_injective : (exceptionNames.map (fun n => lower n.toList)).Nodup := by decide

/-- `method.retry.retryable_exceptions|sort(attribute='__name__')` is order-free. -/
theorem retry_order_free (s t : List Str) (h : s.Perm t)
    (hmem : ∀ a ∈ s, a ∈ exceptionNames.map String.toList) : retryOrder s = retryOrder t := by
  apply sort_by_key_perm_invariant lower s t h
  intro a ha b hb hk
  obtain ⟨na, hna, rfl⟩ := mem_map.mp (hmem a ha)
  obtain ⟨nb, hnb, rfl⟩ := mem_map.mp (hmem b hb)
  have hinj : ∀ x ∈ exceptionNames, ∀ y ∈ exceptionNames, lower x.toList = lower y.toList → x = y := by decide
  rw [hinj na hna nb hnb hk]

example : ∀ a ∈ (["ServiceUnavailable".toList, "DeadlineExceeded".toList] : List Str),
    a ∈ exceptionNames.map String.toList := by decide

def thingFoo : Resource := ⟨['f','o','o','.','e','x','a','m','p','l','e','.','c','o','m','/','T','h','i','n','g'], ['a','s','/','{','a','}']⟩
def thingBar : Resource := ⟨['b','a','r','.','e','x','a','m','p','l','e','.','c','o','m','/','T','h','i','n','g'], ['b','s','/','{','b','}']⟩
def thingLower : Resource := ⟨['f','o','o','.','e','x','a','m','p','l','e','.','c','o','m','/','t','h','i','n','g'], ['c','s','/','{','c','}']⟩

/-- **Resource path helpers** (the loop as repaired for §9-F4): the order of the emitted
`<x>_path` helpers is the same for every iteration order of `service.resource_messages`.
The only hypothesis left is that two different resource messages of the service do not declare the
very same full type string (the resource-name specification requires that; the short-type
hypothesis of the former `_partial` theorem is gone). -/
theorem resource_helpers_order_free (s t : List Resource) (h : s.Perm t)
    (hinj : ∀ a ∈ s, ∀ b ∈ s, a.type = b.type → a = b) :
    resourceHelperOrder s = resourceHelperOrder t := by
  unfold resourceHelperOrder
  rw [sort_by_key_perm_invariant (·.type) s t h hinj]

example : ∀ a ∈ [thingFoo, thingBar, thingLower], ∀ b ∈ [thingFoo, thingBar, thingLower], a.type = b.type → a = b := by decide

/-- **Regression for §9-F4** (`foo.example.com/Thing`, `bar.example.com/Thing`, and the case-folded
twin `foo.example.com/thing`): every iteration order of the set yields one and the same order of
definitions. -/
theorem resource_helpers_f4_regression (t : List Resource) (h : t.Perm [thingFoo, thingBar, thingLower]) :
    resourceHelperOrder t = resourceHelperOrder [thingFoo, thingBar, thingLower] :=
  (resource_helpers_order_free _ _ h.symm (by decide)).symm

/-- the first (full-type) stage is what makes it so: with the single-stage loop that the templates
used before the repair, the same two resources come out in set order -/
theorem single_stage_sort_order_dependent :
    resourceHelperOrderSingleStage [thingFoo, thingBar] ≠ resourceHelperOrderSingleStage [thingBar, thingFoo] :=
  (sort_by_key_needs_injective (fun a => lower (resourceType a)) thingFoo thingBar (by decide) (by decide)).2.2

/-- **The repair is conservative**: wherever the single-stage order was well defined (short types
distinct up to case) the two-stage loop emits exactly that order. -/
theorem resource_helpers_two_stage_conservative (s : List Resource)
    (hinj : ∀ a ∈ s, ∀ b ∈ s, lower (resourceType a) = lower (resourceType b) → a = b) :
    resourceHelperOrder s = resourceHelperOrderSingleStage s := by
  unfold resourceHelperOrder resourceHelperOrderSingleStage jinjaSortAttr
  have hp : (sortBy (·.type) s).Perm s := sortBy_perm _ s
  exact sort_by_key_perm_invariant _ _ _ hp
    (fun a ha b hb => hinj a (hp.mem_iff.mp ha) b (hp.mem_iff.mp hb))

example : ∀ a ∈ [thingFoo], ∀ b ∈ [thingFoo], lower (resourceType a) = lower (resourceType b) → a = b := by decide

/-- the hypothesis of `resource_helpers_order_free` cannot be dropped altogether: two distinct set
members with the same full type (and hence the same short type) still come out in set order -/
theorem resource_helpers_needs_distinct_types (a b : Resource) (hab : a ≠ b) (ht : a.type = b.type) :
    resourceHelperOrder [a, b] ≠ resourceHelperOrder [b, a] := by
  unfold resourceHelperOrder jinjaSortAttr
  have h1 := sort_by_key_needs_injective (·.type) a b hab ht
  have hk : lower (resourceType a) = lower (resourceType b) := by simp [resourceType, ht]
  have h2 := sort_by_key_needs_injective (fun r => lower (resourceType r)) a b hab hk
  rw [h1.1, h1.2.1]
  exact h2.2.2

example : (⟨['x','/','T'], ['a']⟩ : Resource) ≠ ⟨['x','/','T'], ['b']⟩ ∧
    (⟨['x','/','T'], ['a']⟩ : Resource).type = (⟨['x','/','T'], ['b']⟩ : Resource).type := by decide

/-! ## S5, round 2: the dictionaries the templates iterate UNSORTED

`api.mixin_api_methods.keys()`, `api.mixin_api_signatures.items()`, `api.mixin_http_options[...]`,
`api.http_options.items()` and `api.all_method_settings` reach `{% for %}` loops without a sort, so the
order of the emitted definitions IS the insertion order of these dicts.  The theorems give that order in
closed form as a function of the ORDER of the service yaml's lists (rules, method settings) — and of
nothing else: not of the order of the descriptor tables, not of `apis`, not of the rules' contents. -/

section Dicts
open Lemmas.C10Dicts

/-- **dict comprehension / `d[k] = v` loop**: the keys are the first occurrences, in order. -/
theorem dict_key_order {V : Type} (ps : List (Str × V)) : (OMap.ofPairs ps).keys = dedup (ps.map (·.1)) :=
  keys_ofPairs ps

/-- **`a.update(b)` / `{**a, **b}`**: `a`'s keys stay in place; `b`'s new keys follow at their first occurrence. -/
theorem dict_update_key_order {V : Type} (a : OMap V) (b : List (Str × V)) :
    (a.update b).keys = a.keys ++ (dedup (b.map (·.1))).filter (fun k => decide (k ∉ a.keys)) :=
  keys_update a b

/-- … the VALUE under a key is the last one written (position and value come from different items). -/
theorem dict_last_writer_wins {V : Type} (ps : List (Str × V)) (k : Str) :
    (OMap.ofPairs ps).get? k = (ps.reverse.find? (fun p => p.1 = k)).map (·.2) :=
  get_ofPairs ps k

/-- the key order of a dict does not look at the values -/
theorem dict_key_order_ignores_values {V W : Type} (ps : List (Str × V)) (qs : List (Str × W))
    (h : ps.map (·.1) = qs.map (·.1)) : (OMap.ofPairs ps).keys = (OMap.ofPairs qs).keys := by
  rw [keys_ofPairs, keys_ofPairs, h]

example : ([("b".toList, 1), ("a".toList, 2)] : List (Str × Nat)).map (·.1) = ([("b".toList, true), ("a".toList, false)] : List (Str × Bool)).map (·.1) := by
  decide

example : (OMap.ofPairs [("b".toList, 1), ("a".toList, 2), ("b".toList, 3)]).keys = ["b".toList, "a".toList] ∧
    (OMap.ofPairs [("b".toList, 1), ("a".toList, 2), ("b".toList, 3)]).get? "b".toList = some 3 := by decide

/-- **`_get_methods_from_service`**: the keys are the method names selected by the yaml's `http.rules`,
in the order of the rules (first occurrence of a repeated selector). -/
theorem methods_from_service_yaml_order (t : MethodTable) (rules : List YamlRule) :
    (methodsFromService t rules).keys = dedup (selNames t (rules.map (·.selector))) := by
  rw [methodsFromService, keys_ofPairs, selNames, map_filterMap, filterMap_map]
  congr 2
  funext r
  simp only [Function.comp, Option.map_map]
  cases t.name? r.selector <;> rfl

/-- … the rule stored under a name is the LAST rule with that selector -/
theorem methods_from_service_last_rule_wins (t : MethodTable) (rules : List YamlRule) (n : Str) :
    (methodsFromService t rules).get? n =
      ((rules.filterMap fun r => (t.name? r.selector).map fun m => (m, r)).reverse.find? (fun p => p.1 = n)).map (·.2) :=
  get_ofPairs _ n

/-- **the descriptor table is only looked up**: the first loop of `_get_methods_from_service` may fill
`methods` in any order (it walks `services_by_name`, a mapping of the descriptor pool) — the result is the same. -/
theorem methods_from_service_table_order_free (t t' : MethodTable) (h : t.Perm t') (hnd : (t.map (·.1)).Nodup)
    (rules : List YamlRule) : methodsFromService t rules = methodsFromService t' rules := by
  simp only [methodsFromService, name?_perm t t' h hnd]

example : ([("p.S.A".toList, "A".toList), ("p.S.B".toList, "B".toList)] : MethodTable).Perm
      [("p.S.B".toList, "B".toList), ("p.S.A".toList, "A".toList)] ∧
    (([("p.S.A".toList, "A".toList), ("p.S.B".toList, "B".toList)] : MethodTable).map (·.1)).Nodup :=
  ⟨Perm.swap _ _ _, by decide⟩

section Aux
/-- one of the three conditional merges of `mixin_api_methods` -/
theorem keys_merge_step (c : Bool) (t : MethodTable) (rules : List YamlRule) (a : OMap YamlRule) (x : List Str)
    (ha : a.keys = dedup x) :
    (if c then a.update (methodsFromService t rules) else a).keys =
      dedup (x ++ if c then selNames t (rules.map (·.selector)) else []) := by
  cases c with
  | false => simpa using ha
  | true =>
    have hn : a.keys.Nodup := ha ▸ Lemmas.C10Dicts.nodup_dedup x
    simp only [if_true]
    rw [keys_update_nodup _ _ hn]
    have e : (methodsFromService t rules).map (·.1) = (methodsFromService t rules).keys := rfl
    rw [e, methods_from_service_yaml_order, ha, dedup_append_dedup_left, dedup_append_dedup_right]

theorem any_perm {α : Type} (p : α → Bool) (xs ys : List α) (h : xs.Perm ys) : xs.any p = ys.any p := by
  rw [Bool.eq_iff_iff, any_eq_true, any_eq_true]
  exact ⟨fun ⟨a, ha, hp⟩ => ⟨a, h.mem_iff.mp ha, hp⟩, fun ⟨a, ha, hp⟩ => ⟨a, h.mem_iff.mpr ha, hp⟩⟩

theorem iamOverrides_congr (T T' : MixinTables) (hi : T.iam.Perm T'.iam) (hin : (T.iam.map (·.1)).Nodup)
    (apis apis' : List Str) (ha : apis.Perm apis') (sm sm' : List (List Str)) (hs : sm.Perm sm')
    (rules rules' : List YamlRule) (hr : rules.map (·.selector) = rules'.map (·.selector)) :
    iamOverrides T apis sm rules = iamOverrides T' apis' sm' rules' := by
  have hf : T.iam.name? = T'.iam.name? := funext (name?_perm _ _ hi hin)
  simp only [iamOverrides, hasApi, any_perm _ _ _ ha, any_perm _ _ _ hs, methods_from_service_yaml_order,
    selNames, hr, hf]
end Aux

/-- **`API.mixin_api_methods`** — the order in which `transports/base.py` wraps the mixin methods:
for the mixins that are switched on, in the FIXED order Locations, IAM, Operations, the methods the
yaml's rules select, in yaml order. -/
theorem mixin_api_methods_yaml_order (T : MixinTables) (apis : List Str) (sm : List (List Str)) (rules : List YamlRule) :
    (mixinApiMethods T apis sm rules).keys =
      dedup ((if hasApi apis locApi then selNames T.loc (rules.map (·.selector)) else []) ++
             (if !iamOverrides T apis sm rules && hasApi apis iamApi then selNames T.iam (rules.map (·.selector)) else []) ++
             (if hasApi apis opsApi then selNames T.ops (rules.map (·.selector)) else [])) := by
  unfold mixinApiMethods
  have h1 := keys_merge_step (hasApi apis locApi) T.loc rules [] [] rfl
  have h2 := keys_merge_step (!iamOverrides T apis sm rules && hasApi apis iamApi) T.iam rules _ _ h1
  have h3 := keys_merge_step (hasApi apis opsApi) T.ops rules _ _ h2
  simpa [append_assoc] using h3

theorem mixin_api_methods_keys_nodup (T : MixinTables) (apis : List Str) (sm : List (List Str)) (rules : List YamlRule) :
    (mixinApiMethods T apis sm rules).keys.Nodup := by
  rw [mixin_api_methods_yaml_order]; exact Lemmas.C10Dicts.nodup_dedup _

/-- **the order is a function of the yaml order only**: permuting the descriptor tables, the yaml's
`apis` list or the API's services, and changing anything in the rules except the SEQUENCE of their
selectors, leaves the order of the mixin methods unchanged. -/
theorem mixin_api_methods_order_function_of_yaml_order (T T' : MixinTables)
    (hl : T.loc.Perm T'.loc) (hi : T.iam.Perm T'.iam) (ho : T.ops.Perm T'.ops)
    (hln : (T.loc.map (·.1)).Nodup) (hin : (T.iam.map (·.1)).Nodup) (hon : (T.ops.map (·.1)).Nodup)
    (apis apis' : List Str) (ha : apis.Perm apis') (sm sm' : List (List Str)) (hs : sm.Perm sm')
    (rules rules' : List YamlRule) (hr : rules.map (·.selector) = rules'.map (·.selector)) :
    (mixinApiMethods T apis sm rules).keys = (mixinApiMethods T' apis' sm' rules').keys := by
  rw [mixin_api_methods_yaml_order, mixin_api_methods_yaml_order,
    iamOverrides_congr T T' hi hin apis apis' ha sm sm' hs rules rules' hr]
  have hfl : T.loc.name? = T'.loc.name? := funext (name?_perm _ _ hl hln)
  have hfi : T.iam.name? = T'.iam.name? := funext (name?_perm _ _ hi hin)
  have hfo : T.ops.name? = T'.ops.name? := funext (name?_perm _ _ ho hon)
  simp only [hasApi, any_perm _ _ _ ha, selNames, hr, hfl, hfi, hfo]
  rfl

def exTables : MixinTables :=
  ⟨[("google.cloud.location.Locations.GetLocation".toList, "GetLocation".toList)],
   [("google.iam.v1.IAMPolicy.GetIamPolicy".toList, "GetIamPolicy".toList)],
   [("google.longrunning.Operations.GetOperation".toList, "GetOperation".toList),
    ("google.longrunning.Operations.ListOperations".toList, "ListOperations".toList)]⟩
def exRule (sel verb : String) : YamlRule := ⟨sel.toList, ⟨verb.toList, "/v1/{name=x/*}".toList, []⟩, []⟩
def exRules : List YamlRule :=
  [exRule "google.longrunning.Operations.ListOperations" "get", exRule "google.cloud.location.Locations.GetLocation" "get",
   exRule "acme.lib.v1.Library.GetBook" "get", exRule "google.longrunning.Operations.GetOperation" "get",
   exRule "google.longrunning.Operations.ListOperations" "post"]

/-- the worked example: Locations first although its rule comes second; `ListOperations` keeps the place of its first rule -/
example : (mixinApiMethods exTables [opsApi, locApi] [["GetBook".toList]] exRules).keys =
    ["GetLocation".toList, "ListOperations".toList, "GetOperation".toList] := by decide

example : exTables.ops.Perm exTables.ops.reverse ∧ (exTables.ops.map (·.1)).Nodup ∧
    ([opsApi, locApi] : List Str).Perm [locApi, opsApi] ∧
    exRules.map (·.selector) = (exRules.map fun r => { r with additional := [r.rule] }).map (·.selector) :=
  ⟨(reverse_perm _).symm, by decide, Perm.swap _ _ _, by decide⟩

/-- **`mixin_api_signatures` and `mixin_http_options`** are re-keyed copies: same keys, same order
(`_rest_mixins_base.py.j2`, `rest.py.j2`, `rest_asyncio.py.j2` and the emitted tests loop over the former
and index the latter). -/
theorem mixin_signatures_same_order (m : OMap YamlRule) (h : m.keys.Nodup) :
    mixinApiSignatures m = m.map fun p => (p.1, p.1) := by
  rw [mixinApiSignatures, ofPairs_of_nodup]
  rw [map_map]; exact h

theorem mixin_http_options_same_order (m : OMap YamlRule) (h : m.keys.Nodup) :
    mixinHttpOptions m = m.map fun p => (p.1, p.2.options) := by
  rw [mixinHttpOptions, ofPairs_of_nodup]
  rw [map_map]; exact h

theorem mixin_dicts_share_key_order (T : MixinTables) (apis : List Str) (sm : List (List Str)) (rules : List YamlRule) :
    (mixinApiSignatures (mixinApiMethods T apis sm rules)).keys = (mixinApiMethods T apis sm rules).keys ∧
    (mixinHttpOptions (mixinApiMethods T apis sm rules)).keys = (mixinApiMethods T apis sm rules).keys := by
  have h := mixin_api_methods_keys_nodup T apis sm rules
  rw [mixin_signatures_same_order _ h, mixin_http_options_same_order _ h]
  simp [OMap.keys, Function.comp]

example : (mixinApiMethods exTables [opsApi, locApi] [["GetBook".toList]] exRules).keys.Nodup := by decide

/-- **`API.http_options`** (the `http_options` dict literal of `operations_client` in `rest.py`): one
entry per DISTINCT selector in yaml order, carrying the bindings of the last rule with that selector. -/
theorem http_options_yaml_order (rules : List YamlRule) :
    (httpOptions rules).keys = dedup (rules.map (·.selector)) := by
  rw [httpOptions, keys_ofPairs, map_map]; rfl

theorem http_options_last_rule_wins (rules : List YamlRule) (sel : Str) :
    (httpOptions rules).get? sel = (rules.reverse.find? (fun r => r.selector = sel)).map (·.options) := by
  rw [httpOptions, get_ofPairs, ← map_reverse, find?_map, Option.map_map]
  rfl

/-- **`API.all_method_settings`**: whenever it does not raise, the dict IS the yaml list (same entries,
same order) — `enforce_valid_method_settings` has already rejected repeated selectors. -/
theorem all_method_settings_is_yaml_list (valid : MethodSetting → Bool) (ms : List MethodSetting) (d : OMap MethodSetting)
    (h : allMethodSettings valid ms = some d) : d = ms.map fun m => (m.selector, m) := by
  unfold allMethodSettings at h
  split at h
  · rename_i hc
    simp only [Bool.and_eq_true, decide_eq_true_eq] at hc
    injection h with h
    rw [← h, ofPairs_of_nodup]
    rw [map_map]; exact hc.1
  · cases h

theorem all_method_settings_raises_iff (valid : MethodSetting → Bool) (ms : List MethodSetting) :
    allMethodSettings valid ms = none ↔ ¬ (ms.map (·.selector)).Nodup ∨ ∃ m ∈ ms, valid m = false := by
  unfold allMethodSettings
  split
  · rename_i hc
    simp only [Bool.and_eq_true, decide_eq_true_eq, all_eq_true] at hc
    constructor
    · intro h; cases h
    · rintro (h | ⟨m, hm, hv⟩)
      · exact absurd hc.1 h
      · rw [hc.2 m hm] at hv; cases hv
  · rename_i hc
    simp only [Bool.and_eq_true, decide_eq_true_eq, all_eq_true, not_and] at hc
    constructor
    · intro _
      by_cases hn : (ms.map (·.selector)).Nodup
      · right
        apply Classical.byContradiction
        intro hne
        apply hc hn
        intro x hx
        cases hvx : valid x with
        | true => rfl
        | false => exact absurd ⟨x, hx, hvx⟩ hne
      · exact Or.inl hn
    · intro _; rfl

example : allMethodSettings (fun _ => true) [⟨"a.S.M".toList, false, ["request_id".toList]⟩, ⟨"a.S.N".toList, true, []⟩] =
    some [("a.S.M".toList, ⟨"a.S.M".toList, false, ["request_id".toList]⟩), ("a.S.N".toList, ⟨"a.S.N".toList, true, []⟩)] := by decide

/-- **`Generator.get_response`**: the files of the response are listed in the order in which their NAMES
are first produced — samples, then template after template; a name produced twice keeps its first place. -/
theorem response_file_order {C : Type} (sample : List (Str × C)) (perTemplate : List (List (Str × C))) :
    (responseFiles sample perTemplate).keys = dedup (sample.map (·.1) ++ perTemplate.flatMap (·.map (·.1))) := by
  unfold responseFiles
  have gen : ∀ (ts : List (List (Str × C))) (a : OMap C) (x : List Str), a.keys = dedup x →
      (ts.foldl OMap.update a).keys = dedup (x ++ ts.flatMap (·.map (·.1))) := by
    intro ts
    induction ts with
    | nil => intro a x h; simpa using h
    | cons t ts ih =>
      intro a x h
      have hn : a.keys.Nodup := h ▸ Lemmas.C10Dicts.nodup_dedup x
      rw [foldl_cons, ih (a.update t) (x ++ t.map (·.1))]
      · simp [append_assoc]
      · rw [keys_update_nodup _ _ hn, h, dedup_append_dedup_left]
  exact gen perTemplate _ _ (keys_ofPairs sample)

example : (responseFiles [("samples/a.py".toList, 0)] [[("x/__init__.py".toList, 1), ("x/a.py".toList, 2)],
    [("x/__init__.py".toList, 3)]]).keys = ["samples/a.py".toList, "x/__init__.py".toList, "x/a.py".toList] := by decide

/-- **`API.services` / `API.messages` / `API.enums`** (ChainMaps over the protos' dicts, iterated by
`for service in api.services.values()`): the keys of the LAST proto first, each key at its first occurrence. -/
theorem chain_map_key_order (maps : List (List Str)) : chainMapKeys maps = dedup (maps.reverse.flatten) := by
  rw [chainMapKeys, response_file_order]
  simp only [map_nil, nil_append, flatMap_map, map_map, Function.comp_def, map_id', flatten_eq_flatMap]
  rfl

example : chainMapKeys [[], ["a.S".toList, "a.T".toList], ["a.sub.U".toList]] = ["a.sub.U".toList, "a.S".toList, "a.T".toList] := by
  decide

/-- **`d|dictsort`**: when the keys are distinct up to case the result does not depend on the insertion
order of the dict (otherwise the stable sort keeps the insertion order among the case-equal keys, and
that order is the declaration order — an ordered input). -/
theorem dictsort_insertion_order_free {V : Type} (d d' : OMap V) (h : d.Perm d')
    (hinj : ∀ a ∈ d, ∀ b ∈ d, lower a.1 = lower b.1 → a = b) : dictsort d = dictsort d' := by
  unfold dictsort jinjaSortAttr
  exact sort_by_key_perm_invariant (fun a => lower a.1) d d' h hinj

example : ([("beta".toList, 1), ("Alpha".toList, 2)] : OMap Nat).Perm [("Alpha".toList, 2), ("beta".toList, 1)] ∧
    (∀ a ∈ ([("beta".toList, 1), ("Alpha".toList, 2)] : OMap Nat), ∀ b ∈ ([("beta".toList, 1), ("Alpha".toList, 2)] : OMap Nat),
      lower a.1 = lower b.1 → a = b) := ⟨Perm.swap _ _ _, by decide⟩

/-- **the seed6 change is order-dependent**: collecting the mixin methods by walking the SET
`methods.keys() & rules.keys()` yields a key order that follows the set's iteration order. -/
theorem mixin_methods_via_set_counterexample :
    ∃ s s' : List Str, s.Perm s' ∧
      (methodsFromServiceViaSet exTables.ops exRules s).keys ≠ (methodsFromServiceViaSet exTables.ops exRules s').keys :=
  ⟨["google.longrunning.Operations.GetOperation".toList, "google.longrunning.Operations.ListOperations".toList],
   ["google.longrunning.Operations.ListOperations".toList, "google.longrunning.Operations.GetOperation".toList],
   Perm.swap _ _ _, by decide⟩

end Dicts

/-! ## Link to the function translated from /repo's source (harness/pyfun2lean.py) -/

section Translated

theorem splitOn_exists (sep : Char) (s : Str) : ∃ h t, Model.Determinism.splitOn sep s = h :: t := by
  cases s with
  | nil => exact ⟨[], [], rfl⟩
  | cons c cs =>
    simp only [Model.Determinism.splitOn]
    split
    · exact ⟨_, _, rfl⟩
    · split <;> exact ⟨_, _, rfl⟩

theorem splitAux_eq (sep : Char) (s cur h : Str) (t : List Str)
    (e : Model.Determinism.splitOn sep s = h :: t) :
    PyRt.splitAux [sep] 0 cur s = (cur.reverse ++ h) :: t := by
  induction s generalizing cur h t with
  | nil =>
    simp only [Model.Determinism.splitOn, cons.injEq] at e
    simp [PyRt.splitAux, ← e.1, ← e.2]
  | cons c cs ih =>
    obtain ⟨h', t', e'⟩ := splitOn_exists sep cs
    by_cases hc : c = sep
    · subst hc
      simp only [Model.Determinism.splitOn, if_true, cons.injEq] at e
      have := ih [] h' t' e'
      simp [PyRt.splitAux, List.isPrefixOf, this, ← e.1, ← e.2, e']
    · simp only [Model.Determinism.splitOn, hc, if_false, e', cons.injEq] at e
      have := ih (c :: cur) h' t' e'
      have hc' : ¬ sep = c := fun e => hc e.symm
      simp [PyRt.splitAux, List.isPrefixOf, hc', this, ← e.1, ← e.2]

theorem split_eq (s : Str) : PyRt.split s ['\n'] = Model.Determinism.splitOn '\n' s := by
  obtain ⟨h, t, e⟩ := splitOn_exists '\n' s
  rw [PyRt.split, splitAux_eq '\n' s [] h t e, e]
  simp

theorem strip_eq (s : Str) : PyRt.strip s = strip PyRt.isWs s := rfl

theorem join_eq (xs : List Str) : PyRt.join ['\n'] xs = joinNl xs := by
  induction xs with
  | nil => rfl
  | cons a xs ih =>
    cases xs with
    | nil => rfl
    | cons b r => simp [PyRt.join, joinNl, ih]

theorem ltStr_eq (a b : Str) : PyRt.ltStr a b = !leStr b a := by
  induction a generalizing b with
  | nil => cases b <;> simp [PyRt.ltStr, leStr]
  | cons x xs ih =>
    cases b with
    | nil => simp [PyRt.ltStr, leStr]
    | cons y ys =>
      simp only [PyRt.ltStr, leStr]
      by_cases h1 : x.toNat < y.toNat
      · have : ¬ y.toNat < x.toNat := by omega
        simp [h1, this]
      · by_cases h2 : y.toNat < x.toNat
        · simp [h1, h2]
        · simp [h1, h2, ih]

theorem insertStr_perm (x : Str) (ys : List Str) : (PyRt.insertStr x ys).Perm (x :: ys) := by
  induction ys with
  | nil => exact Perm.refl _
  | cons y ys ih =>
    simp only [PyRt.insertStr]
    split
    · exact (ih.cons y).trans (Perm.swap x y ys)
    · exact Perm.refl _

theorem sortStr_perm (xs : List Str) : (PyRt.sortStr xs).Perm xs := by
  induction xs with
  | nil => exact Perm.refl _
  | cons x xs ih => exact (insertStr_perm x _).trans (ih.cons x)

theorem insertStr_pairwise (x : Str) (ys : List Str) (h : ys.Pairwise (fun a b => leStr a b = true)) :
    (PyRt.insertStr x ys).Pairwise (fun a b => leStr a b = true) := by
  induction ys with
  | nil => simp [PyRt.insertStr]
  | cons y ys ih =>
    have hy := pairwise_cons.mp h
    simp only [PyRt.insertStr]
    by_cases hlt : PyRt.ltStr y x = true
    · simp only [hlt, if_true]
      have hyx : leStr y x = true := by
        have := leStr_total y x
        rw [ltStr_eq] at hlt
        simp at hlt
        simpa [hlt] using this
      refine pairwise_cons.mpr ⟨?_, ih hy.2⟩
      intro z hz
      rcases mem_cons.mp ((insertStr_perm x ys).mem_iff.mp hz) with rfl | hz'
      · exact hyx
      · exact hy.1 z hz'
    · simp only [hlt]
      have hxy : leStr x y = true := by
        rw [ltStr_eq] at hlt
        simpa using hlt
      refine pairwise_cons.mpr ⟨?_, h⟩
      intro z hz
      rcases mem_cons.mp hz with rfl | hz'
      · exact hxy
      · exact leStr_trans _ _ _ hxy (hy.1 z hz')

theorem sortStr_pairwise (xs : List Str) : (PyRt.sortStr xs).Pairwise (fun a b => leStr a b = true) := by
  induction xs with
  | nil => simp [PyRt.sortStr]
  | cons x xs ih => exact insertStr_pairwise x _ ih

/-- the translator's insertion sort and the model's merge sort are the same function -/
theorem sortStr_eq (xs : List Str) : PyRt.sortStr xs = sortedStr xs := by
  apply Perm.eq_of_pairwise (le := fun a b => leStr a b = true)
  · intro a b _ _ hab hba
    exact leStr_antisymm a b hab hba
  · exact sortStr_pairwise xs
  · exact sortBy_pairwise id xs
  · exact (sortStr_perm xs).trans (sortBy_perm id xs).symm

theorem nodup_eraseDups (xs : List Str) : xs.eraseDups.Nodup := by
  generalize hn : xs.length = n
  induction n using Nat.strongRecOn generalizing xs with
  | _ n ih =>
    cases xs with
    | nil => simp
    | cons a as =>
      rw [eraseDups_cons]
      refine nodup_cons.mpr ⟨?_, ?_⟩
      · intro hm
        have := (mem_filter.mp (mem_eraseDups.mp hm)).2
        simp at this
      · have hl : (as.filter fun b => !b == a).length < n := by
          have := List.length_filter_le (fun b => !b == a) as
          simp at hn; omega
        exact ih _ hl _ rfl

theorem eraseDups_isSetOf (xs : List Str) : IsSetOf (PyRt.dedup xs) xs :=
  ⟨nodup_eraseDups xs, fun _ => mem_eraseDups⟩

theorem startswith_eq (text : Str) : PyRt.startswith text ['\n'] = (text.head? == some '\n') := by
  cases text with
  | nil => rfl
  | cons c cs => simp [PyRt.startswith, List.isPrefixOf, Bool.beq_comm]

theorem endswith_eq (text : Str) : PyRt.endswith text ['\n'] = (text.getLast? == some '\n') := by
  simp only [PyRt.endswith, List.isSuffixOf, ← head?_reverse]
  cases text.reverse with
  | nil => rfl
  | cons c cs => simp [List.isPrefixOf, Bool.beq_comm]

/-- **Link to the translated source.** The hand-written `sortLines` (instantiated with CPython's
`str.isspace` table, as the driver does) IS the function the translator reads off
`gapic/utils/lines.py: sort_lines` — for every text and both values of `dedupe`.  The two differ in
the sorting algorithm (merge vs. insertion sort) and in the chosen iteration order of `set(lines)`
(`dedup` vs. `List.eraseDups`); both differences vanish because a sort by a total antisymmetric order
does not see them (`sorted_perm_invariant`). -/
theorem sort_lines_translated (text : Str) (dedupe : Bool) :
    sortLines PyRt.isWs text dedupe = Pinned.Funcs.sort_lines text dedupe := by
  have hlines : ((PyRt.split (PyRt.strip text) ['\n']).filter fun i_ => PyRt.truthy (PyRt.strip i_)).map (fun i_ => i_)
      = linesOf PyRt.isWs text := by
    simp [linesOf, split_eq, strip_eq, PyRt.truthy]
  have hnl : Char.ofNat 10 = '\n' := rfl
  cases dedupe with
  | true =>
    simp only [Pinned.Funcs.sort_lines, hnl, hlines, if_true, sortLines, sortLinesFrom, startswith_eq, endswith_eq,
      join_eq, sortStr_eq]
    rw [sorted_perm_invariant _ _ (isSetOf_perm_of_perm (eraseDups_isSetOf _) (dedup_isSetOf (linesOf PyRt.isWs text)) (Perm.refl _))]
  | false =>
    simp only [Pinned.Funcs.sort_lines, hnl, hlines, sortLines, sortLinesFrom, startswith_eq, endswith_eq,
      join_eq, sortStr_eq]
    cases (text.head? == some '\n') <;> cases (text.getLast? == some '\n') <;> simp

end Translated
end GapicModel.Props.C10
