import GapicModel.Model.Emit
import GapicModel.Model.NamingOptions
import GapicModel.Model.Layout
import GapicModel.Lemmas.RegexCaps
import GapicModel.Lemmas.ValidFilename
/-
C11 — the emitted file set is well-formed and placed by package-derived naming.
Theorems about the segment-wise model of `_get_filename` / `_render_template`, instantiated on the
bridged template lists of both template sets.
-/
namespace GapicModel.Props.C11
open GapicModel GapicModel.Model.Emit

def templatesDefault : List Str := Pinned.templatesChars
def templatesAds : List Str := Pinned.adsTemplatesChars

/-- a normalised path segment: non-empty, no `/`, not `.` or `..` -/
def CleanSeg (s : Str) : Prop := s ≠ [] ∧ '/' ∉ s ∧ s ≠ ['.'] ∧ s ≠ ['.', '.']

/-- a value that may vanish (empty) but is otherwise a clean segment -/
def CleanOpt (s : Str) : Prop := s = [] ∨ CleanSeg s

/-- what protoc and `Naming` guarantee about the substituted values -/
structure CleanCtx (c : Ctx) : Prop where
  ns : ∀ s ∈ c.naming.nsSegs, CleanOpt s
  sub : ∀ s ∈ c.sub, CleanOpt s
  name : CleanSeg c.naming.name
  versioned : CleanSeg c.naming.versioned
  version : CleanOpt c.naming.version
  service : CleanSeg (c.service.getD ['%', 's', 'e', 'r', 'v', 'i', 'c', 'e'])
  proto : CleanSeg (c.proto.getD ['%', 'p', 'r', 'o', 't', 'o'])

/-- "anchor" characters: a literal containing one of them can be neither empty, `.` nor `..` -/
def isAnchor (ch : Char) : Bool := ch ≠ '.' && ch ≠ '/'

/-- shape of a template segment for which the output is provably clean:
a lone `%namespace` / `%sub`, or no `%namespace`/`%sub` inside, no `/` in literals, and either some
literal with an anchor character or the segment is exactly one variable -/
def noSlashNoMulti (p : Part) : Bool :=
  match p with
  | .lit cs => !cs.contains '/'
  | .var v => v != .ns && v != .sub

def hasAnchor (p : Part) : Bool :=
  match p with
  | .lit cs => cs.any isAnchor
  | .var _ => false

def isSingleVar : List Part → Bool
  | [.var _] => true
  | _ => false

def goodTSeg (parts : List Part) : Bool :=
  parts == [.var .ns] || parts == [.var .sub] ||
  (parts.all noSlashNoMulti && (parts.any hasAnchor || isSingleVar parts))

section Aux

theorem cleanSeg_of_anchor (s : Str) (hs : '/' ∉ s) (ch : Char) (hc : ch ∈ s) (ha : isAnchor ch = true) : CleanSeg s := by
  simp only [isAnchor, Bool.and_eq_true, bne_iff_ne, ne_eq, decide_eq_true_eq] at ha
  refine ⟨?_, hs, ?_, ?_⟩
  · intro h; rw [h] at hc; simp at hc
  · intro h; rw [h] at hc; simp at hc; exact ha.1 hc
  · intro h; rw [h] at hc; simp at hc; exact ha.1 hc

theorem varText_clean (c : Ctx) (hc : CleanCtx c) (v : Var) (hv : v ≠ .ns ∧ v ≠ .sub) : CleanOpt (varText c v) := by
  cases v with
  | ns => exact absurd rfl hv.1
  | sub => exact absurd rfl hv.2
  | nameVersion => exact Or.inr hc.versioned
  | name => exact Or.inr hc.name
  | version => exact hc.version
  | service => exact Or.inr hc.service
  | proto => exact Or.inr hc.proto

theorem cleanOpt_no_slash {s : Str} (h : CleanOpt s) : '/' ∉ s := by
  rcases h with h | h
  · rw [h]; simp
  · exact h.2.1

theorem filter_clean (l : Path) (h : ∀ s ∈ l, CleanOpt s) : ∀ s ∈ l.filter (· ≠ []), CleanSeg s := by
  intro s hs
  simp only [List.mem_filter, decide_eq_true_eq] at hs
  rcases h s hs.1 with h0 | h1
  · exact absurd h0 hs.2
  · exact h1

theorem flatten_no_slash (c : Ctx) (hc : CleanCtx c) (parts : List Part)
    (hp : parts.all noSlashNoMulti = true) : '/' ∉ (parts.map (partText c)).flatten := by
  induction parts with
  | nil => simp
  | cons p ps ih =>
    simp only [List.all_cons, Bool.and_eq_true] at hp
    simp only [List.map_cons, List.flatten_cons, List.mem_append, not_or]
    refine ⟨?_, ih hp.2⟩
    cases p with
    | lit cs => simpa [partText, noSlashNoMulti] using hp.1
    | var v =>
      have hv : v ≠ .ns ∧ v ≠ .sub := by simpa [noSlashNoMulti] using hp.1
      exact cleanOpt_no_slash (varText_clean c hc v hv)

end Aux

/-! ## Property theorems -/

/-- **Every output segment is normalised** whenever the template segment has a good shape and the
substituted values are clean: no empty, `.` or `..` segment, no `/` inside a segment. -/
theorem segOut_clean (c : Ctx) (hc : CleanCtx c) (parts : List Part) (hg : goodTSeg parts = true) :
    ∀ s ∈ segOut c parts, CleanSeg s := by
  unfold segOut
  by_cases h1 : parts = [.var .ns]
  · simp only [h1, if_true]; exact filter_clean _ hc.ns
  by_cases h2 : parts = [.var .sub]
  · simp only [h1, h2, if_true, if_false]; exact filter_clean _ hc.sub
  simp only [h1, h2, if_false]
  have hg' : (parts.all noSlashNoMulti && (parts.any hasAnchor || isSingleVar parts)) = true := by
    simp only [goodTSeg, Bool.or_eq_true, beq_iff_eq, h1, h2, false_or] at hg
    exact hg
  simp only [Bool.and_eq_true, Bool.or_eq_true] at hg'
  obtain ⟨hall, hany⟩ := hg'
  have hns := flatten_no_slash c hc parts hall
  intro s hs
  by_cases he : (parts.map (partText c)).flatten = []
  · simp [he] at hs
  · simp only [he, if_false, List.mem_singleton] at hs
    subst hs
    rcases hany with hany | hone
    · obtain ⟨p, hp, hpa⟩ := List.any_eq_true.mp hany
      cases p with
      | var v => simp [hasAnchor] at hpa
      | lit cs =>
        obtain ⟨ch, hch, hanch⟩ := List.any_eq_true.mp (by simpa [hasAnchor] using hpa)
        refine cleanSeg_of_anchor _ hns ch ?_ hanch
        simp only [List.mem_flatten, List.mem_map]
        exact ⟨cs, ⟨.lit cs, hp, rfl⟩, hch⟩
    · match parts, hone, hall, he with
      | [.var v], _, hall, he =>
        have hv : v ≠ .ns ∧ v ≠ .sub := by simpa [noSlashNoMulti] using hall
        rcases varText_clean c hc v hv with h0 | hcl
        · simp [partText, h0] at he
        · simpa [partText] using hcl

/-- every segment of every template of BOTH bridged template sets has a good shape (whole tables) -/
theorem all_template_segments_good :
    (∀ t ∈ templatesDefault, ∀ seg ∈ parseTemplate t, goodTSeg seg = true) ∧
    (∀ t ∈ templatesAds, ∀ seg ∈ parseTemplate t, goodTSeg seg = true) := by decide +kernel

/-- **Names are relative and normalised**: for every template of both sets and every clean context,
each segment of the output file name is clean (so the name has no empty, `.` or `..` segment and,
being a list of segments, no leading `/`). -/
theorem names_relative_normalised (c : Ctx) (hc : CleanCtx c) (t : Str)
    (ht : t ∈ templatesDefault ∨ t ∈ templatesAds) : ∀ s ∈ getFilename c (parseTemplate t), CleanSeg s := by
  intro s hs
  simp only [getFilename, List.mem_flatten, List.mem_map] at hs
  obtain ⟨l, ⟨seg, hseg, rfl⟩, hsl⟩ := hs
  have hg : goodTSeg seg = true := by
    rcases ht with ht | ht
    · exact all_template_segments_good.1 t ht seg hseg
    · exact all_template_segments_good.2 t ht seg hseg
  exact segOut_clean c hc seg hg s hsl

/-- substitution is segment-wise: the output directory of a template directory is the image of that
directory, so two templates in one template directory land in one output directory -/
theorem getFilename_append (c : Ctx) (d rest : TPath) :
    getFilename c (d ++ rest) = getFilename c d ++ getFilename c rest := by
  simp [getFilename]

/-- **Python sources live under `<namespace>/<name>_<version>/`**: a template below
`%namespace/%name_%version/` is emitted below the namespace segments followed by the versioned module name -/
theorem python_under_package_root (c : Ctx) (rest : TPath) :
    getFilename c ([.var .ns] :: [.var .nameVersion] :: rest) =
      c.naming.nsSegs.filter (· ≠ []) ++ (if c.naming.versioned = [] then [] else [c.naming.versioned]) ++ getFilename c rest := by
  simp [getFilename, segOut, partText, varText]

/-- a template directory with the `%sub` segment removed (`%sub` is empty for the root view) -/
def dirKey (segs : Path) : Path := segs.filter (· ≠ ['%', 's', 'u', 'b'])

/-- template-level closure: for every non-private `.py` template below `root` and every directory
between `root` and it, some `__init__.py.j2` template has that directory (up to `%sub`) -/
def initAncestorsPresent (ts : List Str) (root : Str) : Bool :=
  let inits := (ts.filter fun t => baseName t = ['_', '_', 'i', 'n', 'i', 't', '_', '_', '.', 'p', 'y', '.', 'j', '2']).map fun t => dirKey (splitSlash t).dropLast
  ts.all fun t =>
    if startsWith root t && ['.', 'p', 'y', '.', 'j', '2'].isSuffixOf t && !isPrivate t then
      let segs := (splitSlash t).dropLast
      let nroot := (splitSlash root).length - 1          -- `root` ends with "/"
      (List.range (segs.length + 1 - nroot)).all fun k => inits.contains (dirKey (segs.take (nroot + k)))
    else true

/-- **`__init__.py` closure at template level** (whole tables, both template sets) -/
theorem templates_init_closed :
    initAncestorsPresent templatesDefault ['%', 'n', 'a', 'm', 'e', 's', 'p', 'a', 'c', 'e', '/', '%', 'n', 'a', 'm', 'e', '_', '%', 'v', 'e', 'r', 's', 'i', 'o', 'n', '/'] = true ∧
    initAncestorsPresent templatesDefault ['%', 'n', 'a', 'm', 'e', 's', 'p', 'a', 'c', 'e', '/', '%', 'n', 'a', 'm', 'e', '/'] = true ∧
    initAncestorsPresent templatesAds ['%', 'n', 'a', 'm', 'e', 's', 'p', 'a', 'c', 'e', '/', '%', 'n', 'a', 'm', 'e', '/'] = true := by decide +kernel

/-- `__init__.py.j2` templates are never filtered by the transport / async gates, whatever the options -/
theorem init_templates_never_gated (o : Opts) :
    ∀ t ∈ templatesDefault ++ templatesAds, baseName t = ['_', '_', 'i', 'n', 'i', 't', '_', '_', '.', 'p', 'y', '.', 'j', '2'] → serviceGate t o = true := by
  intro t ht hb
  have key : ∀ t ∈ templatesDefault ++ templatesAds, baseName t = ['_', '_', 'i', 'n', 'i', 't', '_', '_', '.', 'p', 'y', '.', 'j', '2'] →
      containsSub ['_', '_', 'i', 'n', 'i', 't', '_', '_'] t = true ∧ containsSub ['a', 's', 'y', 'n', 'c', '_', 'c', 'l', 'i', 'e', 'n', 't'] t = false ∧
      containsSub ['r', 'e', 's', 't', '_', 'a', 's', 'y', 'n', 'c', 'i', 'o'] t = false ∧ containsSub ['r', 'e', 's', 't', '_', 'b', 'a', 's', 'e'] t = false := by decide +kernel
  obtain ⟨h1, h2, h3, h4⟩ := key t ht hb
  unfold serviceGate isDesiredTransport
  rw [h2, h3, h4]
  simp only [List.any_append, List.any_cons, h1, Bool.true_or, Bool.not_true, Bool.and_false, Bool.false_and,
    Bool.or_false, Bool.not_false]

/-- **Underscore-prefixed templates are not emitted** (and `__init__.py.j2` is not one of them) -/
theorem private_templates_skipped (o : Opts) (sh : Shape) (ts : List Str) (p : Path)
    (hp : p ∈ renders o sh ts) : ∃ t ∈ ts, isPrivate t = false ∧ p ∈ renderTemplate o sh t := by
  simp only [renders, List.mem_flatMap, List.mem_filter, Bool.and_eq_true, Bool.not_eq_true'] at hp
  obtain ⟨t, ⟨ht, hpriv, _⟩, hpt⟩ := hp
  exact ⟨t, ht, hpriv, hpt⟩

/-- `gapic_metadata.json` is emitted only with the `metadata` option -/
theorem metadata_gate (o : Opts) (sh : Shape) (t : Str) (hm : o.metadata = false)
    (ht : ['g', 'a', 'p', 'i', 'c', '_', 'm', 'e', 't', 'a', 'd', 'a', 't', 'a', '.', 'j', 's', 'o', 'n', '.', 'j', '2'].isSuffixOf t = true) : renderTemplate o sh t = [] := by
  simp [renderTemplate, hm, ht]

/-- nothing is emitted per dependency file: `%proto` templates range over the target protos of the shape only -/
theorem proto_files_only_for_target_protos (o : Opts) (nm : Naming) (tname : Str) (t : TPath) (view : Path)
    (services protos : List Str) (h : hasVar t .proto = true) :
    renderView o nm tname t view services protos = protos.map fun p => getFilename ⟨nm, view, none, some p⟩ t := by
  simp [renderView, h]

/-! ## Non-vacuity -/

example : CleanCtx ⟨⟨[['a', 'c', 'm', 'e'], ['c', 'l', 'o', 'u', 'd']], ['l', 'i', 'b'], ['v', '1'], ['l', 'i', 'b', '_', 'v', '1']⟩, [], some ['l', 'i', 'b', 'r', 'a', 'r', 'y'], none⟩ :=
  { ns := by intro s hs; simp at hs; rcases hs with h | h <;> (subst h; right; simp [CleanSeg])
    sub := by intro s hs; simp at hs
    name := by simp [CleanSeg]
    versioned := by simp [CleanSeg]
    version := by right; simp [CleanSeg]
    service := by simp [CleanSeg]
    proto := by simp [CleanSeg] }

example : getFilename ⟨⟨[['a', 'c', 'm', 'e']], ['l', 'i', 'b'], ['v', '1'], ['l', 'i', 'b', '_', 'v', '1']⟩, [], some ['l', 'i', 'b', 'r', 'a', 'r', 'y'], none⟩
    (parseTemplate ['%', 'n', 'a', 'm', 'e', 's', 'p', 'a', 'c', 'e', '/', '%', 'n', 'a', 'm', 'e', '_', '%', 'v', 'e', 'r', 's', 'i', 'o', 'n', '/', '%', 's', 'u', 'b', '/', 's', 'e', 'r', 'v', 'i', 'c', 'e', 's', '/', '%', 's', 'e', 'r', 'v', 'i', 'c', 'e', '/', 't', 'r', 'a', 'n', 's', 'p', 'o', 'r', 't', 's', '/', 'g', 'r', 'p', 'c', '.', 'p', 'y', '.', 'j', '2'])
    = [['a', 'c', 'm', 'e'], ['l', 'i', 'b', '_', 'v', '1'], ['s', 'e', 'r', 'v', 'i', 'c', 'e', 's'], ['l', 'i', 'b', 'r', 'a', 'r', 'y'], ['t', 'r', 'a', 'n', 's', 'p', 'o', 'r', 't', 's'], ['g', 'r', 'p', 'c', '.', 'p', 'y']] := by decide


/-! ## Options are parsed permissively; package root derived from the proto package -/

section OptionsNaming
open GapicModel.Model.NamingOptions

theorem splitOn_ne_nil (sep : Char) (a : List Char) : splitOn sep a ≠ [] := by
  cases a with
  | nil => simp [splitOn]
  | cons c cs =>
    simp only [splitOn]
    split
    · simp
    · split <;> simp

theorem splitOn_append (sep : Char) (a b : List Char) :
    splitOn sep (a ++ sep :: b) = splitOn sep a ++ splitOn sep b := by
  induction a with
  | nil =>
    simp only [List.nil_append, splitOn]
    cases h : splitOn sep b with
    | nil => exact absurd h (splitOn_ne_nil sep b)
    | cons x xs => simp
  | cons c a ih =>
    simp only [List.cons_append, splitOn, ih]
    cases ha : splitOn sep a with
    | nil => exact absurd ha (splitOn_ne_nil sep a)
    | cons x xs =>
      simp only [List.cons_append]
      split <;> rfl

/-- **Unknown options are ignored**: appending `,<opt>` to the parameter string leaves what `Options.build`
reads unchanged whenever the option's key (the text before the first `=`, blanks stripped) is neither a
known flag nor carries the `python-gapic-` prefix.  Any option string, any value (including values with
further `=` signs, see the `fix:` commit 3b10480). -/
theorem unknown_options_ignored (flags : List (List Char)) (s opt : List Char)
    (hflag : flags.contains (keyValue (strip opt)).1 = false)
    (hpre : prefixGapic.isPrefixOf (keyValue (strip opt)).1 = false)
    (hcomma : ',' ∉ opt) :
    parseOpts flags (s ++ ',' :: opt) = parseOpts flags s := by
  unfold parseOpts
  rw [splitOn_append, List.flatMap_append]
  have hone : splitOn ',' opt = [opt] := by
    clear hflag hpre
    induction opt with
    | nil => rfl
    | cons c cs ih =>
      have hc : c ≠ ',' := by intro h; apply hcomma; simp [h]
      have hcs : ',' ∉ cs := by intro h; apply hcomma; simp [h]
      simp [splitOn, ih hcs, hc]
  rw [hone]
  have hflag' : (keyValue (strip opt)).1 ∉ flags := by
    intro h; simp at hflag; exact hflag h
  simp [contributes, hflag', hpre]

/-- **A key is ours iff it STARTS with `python-gapic-`**: an option of another plugin whose key merely CONTAINS the
prefix (`legacy-python-gapic-name=hijacked`, `x-python-gapic-namespace=evil.corp`: some non-empty head `w` not
beginning with `p`, then the prefix, then any suffix — also a suffix this plugin knows) contributes nothing to the
parsed options, whether it comes after the genuine options or before them. -/
theorem foreign_key_containing_prefix_ignored (flags : List (List Char)) (s opt w suffix v : List Char) (c : Char)
    (hkv : keyValue (strip opt) = (c :: w ++ prefixGapic ++ suffix, v)) (hc : c ≠ 'p')
    (hflag : flags.contains (c :: w ++ prefixGapic ++ suffix) = false) (hcomma : ',' ∉ opt) :
    parseOpts flags (s ++ ',' :: opt) = parseOpts flags s ∧ parseOpts flags (opt ++ ',' :: s) = parseOpts flags s := by
  have hpre : prefixGapic.isPrefixOf (keyValue (strip opt)).1 = false := by
    rw [hkv]; simp [prefixGapic, List.isPrefixOf, hc.symm]
  have hflag' : flags.contains (keyValue (strip opt)).1 = false := by rw [hkv]; exact hflag
  refine ⟨unknown_options_ignored flags s opt hflag' hpre hcomma, ?_⟩
  have hnone : contributes flags opt = [] := by
    have hm : (keyValue (strip opt)).1 ∉ flags := by
      intro h; simp at hflag'; exact hflag' h
    simp [contributes, hm, hpre]
  unfold parseOpts
  rw [splitOn_append, List.flatMap_append]
  have hone : splitOn ',' opt = [opt] := by
    clear hkv hflag hpre hflag' hnone
    induction opt with
    | nil => rfl
    | cons d ds ih =>
      have hd : d ≠ ',' := by intro h; apply hcomma; simp [h]
      have hds : ',' ∉ ds := by intro h; apply hcomma; simp [h]
      simp [splitOn, ih hds, hd]
  rw [hone]
  simp [hnone]

/-- the hypotheses are met by such options, for every known suffix; and the genuine key IS read -/
example :
    let flags := Pinned.optFlags.map String.toList
    (["name", "namespace", "warehouse-package-name", "transport", "templates", "metadata"].all fun sfx =>
      let opt := ("legacy-python-gapic-" ++ sfx ++ "=hijacked").toList
      keyValue (strip opt) = ('l' :: "egacy-".toList ++ prefixGapic ++ sfx.toList, "hijacked".toList) &&
      !flags.contains ('l' :: "egacy-".toList ++ prefixGapic ++ sfx.toList) &&
      parseOpts flags ("transport=rest,".toList ++ opt) == parseOpts flags "transport=rest".toList) = true ∧
    parseOpts flags "python-gapic-name=shelf".toList = [("name".toList, "shelf".toList)] := by decide +kernel

/-- known flags and prefixed options ARE read (so the theorem above is not vacuous about the parser) -/
example : parseOpts [['m','e','t','a','d','a','t','a'], ['t','r','a','n','s','p','o','r','t']]
    "transport=grpc+rest, metadata,zzz=1,foo=a=b,python-gapic-name=x_y".toList
    = [("transport".toList, "grpc+rest".toList), ("metadata".toList, "true".toList), ("name".toList, "x_y".toList)] := by decide

/-! ### Repeated single-valued keys: which occurrence wins -/

theorem values_append (a b : List (List Char × List Char)) (key : List Char) :
    values (a ++ b) key = values a key ++ values b key := by
  simp [values]

theorem values_none (l : List (List Char × List Char)) (key : List Char) (h : ∀ p ∈ l, p.1 ≠ key) :
    values l key = [] := by
  simp only [values, List.map_eq_nil_iff, List.filter_eq_nil_iff, decide_eq_true_eq]
  exact h

/-- `.pop()`: the LAST occurrence of the key is read, whatever precedes it -/
theorem lastValue_last_wins (pre post : List (List Char × List Char)) (key v dflt : List Char)
    (hpost : ∀ p ∈ post, p.1 ≠ key) : lastValue (pre ++ (key, v) :: post) key dflt = v := by
  have : values (pre ++ (key, v) :: post) key = values pre key ++ [v] := by
    rw [values_append, show (key, v) :: post = [(key, v)] ++ post from rfl, values_append, values_none post key hpost]
    simp [values]
  simp [lastValue, this]

/-- `[0]`: the FIRST occurrence of the key is read, whatever follows it -/
theorem firstValue_first_wins (pre post : List (List Char × List Char)) (key v dflt : List Char)
    (hpre : ∀ p ∈ pre, p.1 ≠ key) : firstValue (pre ++ (key, v) :: post) key dflt = v := by
  have : values (pre ++ (key, v) :: post) key = v :: values post key := by
    rw [values_append, values_none pre key hpre, show (key, v) :: post = [(key, v)] ++ post from rfl, values_append]
    simp [values]
  simp [firstValue, this]

/-- **The last `name` wins**: for every list of parsed options, the name override `Options.build` returns is the value
of the last `name` entry -/
theorem name_override_last_wins (pre post : List (List Char × List Char)) (v : List Char)
    (hpost : ∀ p ∈ post, p.1 ≠ keyName) : (answer (pre ++ (keyName, v) :: post)).name = v :=
  lastValue_last_wins pre post keyName v [] hpost

/-- likewise for `warehouse-package-name` -/
theorem warehouse_name_last_wins (pre post : List (List Char × List Char)) (v : List Char)
    (hpost : ∀ p ∈ post, p.1 ≠ keyWarehouse) : (answer (pre ++ (keyWarehouse, v) :: post)).warehouse = v :=
  lastValue_last_wins pre post keyWarehouse v [] hpost

/-- **The first `transport` wins** -/
theorem transport_first_wins (pre post : List (List Char × List Char)) (v : List Char)
    (hpre : ∀ p ∈ pre, p.1 ≠ keyTransport) : (answer (pre ++ (keyTransport, v) :: post)).transport = splitOn '+' v := by
  show splitOn '+' (firstValue _ keyTransport _) = _
  rw [firstValue_first_wins pre post keyTransport v _ hpre]

/-- **The package directory is derived from the LAST `name` value** (and from all `namespace` values), for every
option list and every inferred naming: `<namespace…>/<module of v>_<version>` -/
theorem package_dir_from_last_name (i : Inferred) (pre post : List (List Char × List Char)) (v : List Char)
    (hpost : ∀ p ∈ post, p.1 ≠ keyName) :
    packageDir i (pre ++ (keyName, v) :: post) =
      nsWith i ((answer (pre ++ (keyName, v) :: post)).nspace.map PyRt.lower) ++ [overriddenVersioned i v] := by
  simp only [packageDir, name_override_last_wins pre post v hpost]

/-! ### Link to the machine-translated functions of `gapic/schema/naming.py` (Pinned/Funcs.lean, bridged to the current source) -/

/-- `naming.module_name` under the name override IS the translated `Naming.module_name` applied to the override text -/
theorem overriddenModule_is_translated (i : Inferred) (nameOv : List Char) :
    overriddenModule i nameOv = Pinned.Funcs.naming_module_name (if nameOv = [] then i.name else nameOverrideText nameOv) := rfl

/-- `naming.versioned_module_name` of the hand model IS the translated `NewNaming.versioned_module_name` -/
theorem overriddenVersioned_is_translated (i : Inferred) (nameOv : List Char) :
    overriddenVersioned i nameOv = Pinned.Funcs.new_naming_versioned_module_name (overriddenModule i nameOv) i.version := by
  unfold overriddenVersioned Pinned.Funcs.new_naming_versioned_module_name PyRt.truthy
  cases i.version <;> simp

/-- without an override (inference only) -/
theorem versionedModule_is_translated (i : Inferred) :
    versionedModule i = Pinned.Funcs.new_naming_versioned_module_name i.name i.version := by
  unfold versionedModule Pinned.Funcs.new_naming_versioned_module_name PyRt.truthy
  cases i.version <;> simp

/-- the namespace DIRECTORIES (`i.lower()` of the namespace, what `_get_filename` joins) are the translated
`Naming.module_namespace` (what the emitted imports join) whenever every segment is a fixed point of
`to_valid_module_name` — i.e. directory path = import path -/
theorem namespace_dirs_are_module_namespace (segs : List (List Char))
    (h : ∀ s ∈ segs, Pinned.Funcs.to_valid_module_name s = s) : Pinned.Funcs.naming_module_namespace segs = segs := by
  unfold Pinned.Funcs.naming_module_namespace
  conv => rhs; rw [← List.map_id segs]
  exact List.map_congr_left (fun s hs => by simp [h s hs])

/-- **`packageDir` in terms of the translated functions**: `module_namespace ++ [versioned_module_name(module_name(name))]` -/
theorem packageDir_is_translated (i : Inferred) (kv : List (List Char × List Char))
    (h : ∀ s ∈ nsWith i ((answer kv).nspace.map PyRt.lower), Pinned.Funcs.to_valid_module_name s = s) :
    packageDir i kv =
      Pinned.Funcs.naming_module_namespace (nsWith i ((answer kv).nspace.map PyRt.lower)) ++
      [Pinned.Funcs.new_naming_versioned_module_name
        (Pinned.Funcs.naming_module_name (if (answer kv).name = [] then i.name else nameOverrideText (answer kv).name)) i.version] := by
  rw [namespace_dirs_are_module_namespace _ h, ← overriddenModule_is_translated, ← overriddenVersioned_is_translated]
  rfl

/-- the fixed-point hypothesis holds for ordinary namespace segments (the regex engine runs the pinned pattern) -/
example : ∀ s ∈ ["google".toList, "cloud".toList, "x_y".toList, "a1".toList], Pinned.Funcs.to_valid_module_name s = s := by
  decide +kernel

theorem splitOn_no_sep (sep : Char) (opt : List Char) (h : sep ∉ opt) : splitOn sep opt = [opt] := by
  induction opt with
  | nil => rfl
  | cons c cs ih =>
    have hc : c ≠ sep := by intro e; apply h; simp [e]
    have hcs : sep ∉ cs := by intro e; apply h; simp [e]
    simp [splitOn, ih hcs, hc]

/-- at the level of the option STRING: appending `,python-gapic-name=<v>` makes `<v>` the name override, whatever
the string held before (earlier `python-gapic-name=` options included) -/
theorem appended_name_wins (flags : List (List Char)) (s opt v : List Char) (hcomma : ',' ∉ opt)
    (hkv : keyValue (strip opt) = (prefixGapic ++ keyName, v))
    (hflag : flags.contains (prefixGapic ++ keyName) = false) :
    (answer (parseOpts flags (s ++ ',' :: opt))).name = v := by
  have hc : contributes flags opt = [(keyName, v)] := by
    simp only [contributes, hkv, hflag]
    simp [prefixGapic, keyName]
  unfold parseOpts
  rw [splitOn_append, List.flatMap_append, splitOn_no_sep ',' opt hcomma]
  simp only [List.flatMap_cons, List.flatMap_nil, List.append_nil, hc]
  exact name_override_last_wins _ [] v (by simp)

/-- the hypotheses are met by real option strings, and the winners are as stated -/
example :
    let kv := parseOpts (Pinned.optFlags.map String.toList)
      "python-gapic-name=lib,transport=rest,zzz=1,python-gapic-name=book_shelf,transport=grpc,python-gapic-namespace=org.acme".toList
    (answer kv).name = "book_shelf".toList ∧ (answer kv).transport = ["rest".toList] ∧
    keyValue (strip "python-gapic-name=book_shelf".toList) = (prefixGapic ++ keyName, "book_shelf".toList) ∧
    (Pinned.optFlags.map String.toList).contains (prefixGapic ++ keyName) = false ∧
    packageDir ⟨"acme".toList, "lib".toList, "v1".toList⟩ kv = ["org".toList, "acme".toList, "book_shelf_v1".toList] := by
  decide +kernel

/-- naming inference on concrete packages, evaluated by the regex engine on the pinned patterns -/
theorem naming_examples :
    infer "acme.cloud.lib.v1".toList = some ⟨"acme.cloud".toList, "lib".toList, "v1".toList⟩ ∧
    infer "lib.v1p1beta1".toList = some ⟨[], "lib".toList, "v1p1beta1".toList⟩ ∧
    infer "acme.lib".toList = some ⟨"acme".toList, "lib".toList, []⟩ ∧
    versionedModule ⟨"acme".toList, "lib".toList, "v1beta1".toList⟩ = "lib_v1beta1".toList ∧
    versionedModule ⟨"acme".toList, "lib".toList, []⟩ = "lib".toList := by decide

end OptionsNaming


/-! ## The inferred package root is made of clean path segments — for EVERY proto package -/

section NamingClean
open GapicModel.Regex GapicModel.Model.NamingOptions

def badName : List Char := ['/', '.']
def badNs : List Char := ['/']

/-- finite facts about the two pinned patterns (`pattern` and `pattern + version`): the `name` group (3) lies
on every path, and the bodies of `namespace` (2), `name` (3) and `version` (4 after concatenation) accept no
`/` (and no `.` for name and version) and, for name and version, consume at least one character -/
theorem pattern_facts :
    (mustCap 3 Pinned.namingPattern.re = true ∧ mustCap 3 fullPattern = true ∧ mustCap 4 fullPattern = true) ∧
    (∀ re ∈ [Pinned.namingPattern.re, fullPattern], ∀ p ∈ groupsOf re,
       (p.1 = 3 → safeRe badName p.2 = true ∧ consumesOne p.2 = true) ∧
       (p.1 = 2 → safeRe badNs p.2 = true) ∧
       (p.1 = 4 → safeRe badName p.2 = true ∧ consumesOne p.2 = true)) := by decide

theorem groups_clean (re : Re) (hre : re ∈ [Pinned.namingPattern.re, fullPattern]) (pkg : List Char) (res : MatchRes)
    (h : pySearch Pinned.classTables re pkg = some res) :
    ((St.group? res.caps 3).getD [] ≠ [] ∧ ∀ c ∈ (St.group? res.caps 3).getD [], c ∉ badName) ∧
    (∀ c ∈ (St.group? res.caps 2).getD [], c ∉ badNs) ∧
    (∀ c ∈ (St.group? res.caps 4).getD [], c ∉ badName) := by
  have hm3 : mustCap 3 re = true := by
    simp only [List.mem_cons, List.mem_nil_iff, or_false] at hre
    rcases hre with rfl | rfl
    · exact pattern_facts.1.1
    · exact pattern_facts.1.2.1
  have hf := pattern_facts.2 re hre
  refine ⟨?_, ?_, ?_⟩
  · have h3 := search_group _ re pkg res h 3
    have hsome := h3.1 hm3
    obtain ⟨w, hw⟩ := Option.isSome_iff_exists.mp hsome
    obtain ⟨body, hb, hmt⟩ := h3.2 w hw
    have hfb := (hf (3, body) hb).1 rfl
    rw [hw]
    exact ⟨Matches.nonempty hmt hfb.2, Matches.safe hmt hfb.1⟩
  · have h2 := search_group _ re pkg res h 2
    cases hw : St.group? res.caps 2 with
    | none => simp
    | some w =>
      obtain ⟨body, hb, hmt⟩ := h2.2 w hw
      exact Matches.safe hmt ((hf (2, body) hb).2.1 rfl)
  · have h4 := search_group _ re pkg res h 4
    cases hw : St.group? res.caps 4 with
    | none => simp
    | some w =>
      obtain ⟨body, hb, hmt⟩ := h4.2 w hw
      exact Matches.safe hmt ((hf (4, body) hb).2.2 rfl).1

/-- **Whatever package the name is inferred from**, the inferred name is non-empty and has no `/` or `.`,
the namespace text has no `/`, the version has no `/` or `.` -/
theorem infer_clean (pkg : List Char) (i : Inferred) (h : infer pkg = some i) :
    (i.name ≠ [] ∧ ∀ c ∈ i.name, c ∉ badName) ∧ (∀ c ∈ i.ns, c ∉ badNs) ∧ (∀ c ∈ i.version, c ∉ badName) := by
  simp only [infer] at h
  split at h
  · simp at h
  · rename_i res hs
    simp only [Option.some.injEq] at h
    have hre : (if (pySearch Pinned.classTables Pinned.namingVersion.re pkg).isSome = true then fullPattern else Pinned.namingPattern.re)
        ∈ [Pinned.namingPattern.re, fullPattern] := by
      split <;> simp
    have hg := groups_clean _ hre pkg res hs
    subst h
    refine ⟨hg.1, hg.2.1, ?_⟩
    simp only
    split
    · exact hg.2.2
    · simp

theorem splitOn_mem (sep : Char) : ∀ (s seg : List Char), seg ∈ splitOn sep s → ∀ c ∈ seg, c ∈ s ∧ c ≠ sep := by
  intro s
  induction s with
  | nil => intro seg h c hc; simp [splitOn] at h; subst h; simp at hc
  | cons d ds ih =>
    intro seg h c hc
    simp only [splitOn] at h
    cases hrec : splitOn sep ds with
    | nil => rw [hrec] at h; simp at h; subst h; simp at hc
    | cons x xs =>
      rw [hrec] at h
      simp only at h
      split at h
      · rcases List.mem_cons.mp h with h | h
        · subst h; simp at hc
        · have := ih seg (by rw [hrec]; exact h) c hc
          exact ⟨List.mem_cons_of_mem _ this.1, this.2⟩
      · rename_i hne
        rcases List.mem_cons.mp h with h | h
        · subst h
          rcases List.mem_cons.mp hc with hc | hc
          · subst hc; exact ⟨by simp, hne⟩
          · have := ih x (by rw [hrec]; simp) c hc
            exact ⟨List.mem_cons_of_mem _ this.1, this.2⟩
        · have := ih seg (by rw [hrec]; exact List.mem_cons_of_mem _ h) c hc
          exact ⟨List.mem_cons_of_mem _ this.1, this.2⟩

/-- **The package root is made of clean segments**: for every proto package from which `Naming.build` infers a
naming, each namespace directory, the module name and the versioned module name are non-empty, contain no `/`
and are neither `.` nor `..` — the hypotheses `CleanCtx` makes about the naming are consequences of the code's
own regular expressions, not assumptions about protoc. -/
theorem inferred_segments_clean (pkg : List Char) (i : Inferred) (h : infer pkg = some i) :
    (∀ s ∈ nsSegments i, CleanSeg s) ∧ CleanSeg i.name ∧ CleanSeg (versionedModule i) := by
  obtain ⟨⟨hne, hname⟩, hns, hver⟩ := infer_clean pkg i h
  have nodot_clean : ∀ s : List Char, s ≠ [] → (∀ c ∈ s, c ≠ '/' ∧ c ≠ '.') → CleanSeg s := by
    intro s hs hc
    refine ⟨hs, fun hm => (hc _ hm).1 rfl, ?_, ?_⟩
    · intro he; subst he; exact (hc '.' (by simp)).2 rfl
    · intro he; subst he; exact (hc '.' (by simp)).2 rfl
  have hname' : ∀ c ∈ i.name, c ≠ '/' ∧ c ≠ '.' := by
    intro c hc; have := hname c hc; simp [badName] at this; exact ⟨this.1, this.2⟩
  have hver' : ∀ c ∈ i.version, c ≠ '/' ∧ c ≠ '.' := by
    intro c hc; have := hver c hc; simp [badName] at this; exact ⟨this.1, this.2⟩
  refine ⟨?_, nodot_clean _ hne hname', ?_⟩
  · intro s hs
    simp only [nsSegments, List.mem_filter, decide_eq_true_eq] at hs
    apply nodot_clean s hs.2
    intro c hc
    have := splitOn_mem '.' i.ns s hs.1 c hc
    have hb := hns c this.1
    simp [badNs] at hb
    exact ⟨hb, this.2⟩
  · simp only [versionedModule]
    split
    · exact nodot_clean _ hne hname'
    · apply nodot_clean
      · simp
      · intro c hc
        rcases List.mem_append.mp hc with hc | hc
        · exact hname' c hc
        · rcases List.mem_cons.mp hc with hc | hc
          · subst hc; decide
          · exact hver' c hc

/-- the theorem is about packages that do occur -/
example : ∃ i, infer ['a','c','m','e','.','l','i','b','.','v','1'] = some i ∧ nsSegments i = [['a','c','m','e']] ∧
    versionedModule i = ['l','i','b','_','v','1'] :=
  ⟨⟨['a','c','m','e'], ['l','i','b'], ['v','1']⟩, by decide, by decide, by decide⟩

/-! ### The namespace override (`python-gapic-namespace`, a repeatable key whose values may be dotted) -/

/-- **Every spelling of the override gives the same namespace**: the segments are the dot-components of each
value, concatenated in order — so `[google.cloud, ads]`, `[google, cloud, ads]` and `[google.cloud.ads]` all
place the package under `google/cloud/ads/`. -/
theorem nsOverride_eq_flatMap (vals : List (List Char)) (h : vals ≠ []) :
    nsOverride vals = vals.flatMap (splitOn '.') := by
  unfold nsOverride
  induction vals with
  | nil => exact absurd rfl h
  | cons a r ih =>
    cases r with
    | nil => simp [joinDots]
    | cons b r' =>
      simp only [joinDots, splitOn_append, List.flatMap_cons]
      rw [ih (by simp)]
      simp [List.flatMap_cons]

/-- the spelling invariance as an equation between two option lists: a dotted value may be replaced by its two
halves given as two repeated keys, anywhere in the list -/
theorem nsOverride_spelling (pre post : List (List Char)) (x y : List Char) :
    nsOverride (pre ++ (x ++ '.' :: y) :: post) = nsOverride (pre ++ x :: y :: post) := by
  rw [nsOverride_eq_flatMap _ (by simp), nsOverride_eq_flatMap _ (by simp)]
  simp [List.flatMap_append, List.flatMap_cons, splitOn_append]

/-- **No namespace directory of the override contains a dot or a slash, none is `.`/`..`**, whenever the
dot-components of the given values are non-empty and slash-free: the directory path `a/b/c` is then exactly
the import path `a.b.c` that the emitted modules use. -/
theorem nsOverride_segments_clean (vals : List (List Char)) (hne : vals ≠ [])
    (hv : ∀ v ∈ vals, ∀ s ∈ splitOn '.' v, s ≠ [] ∧ '/' ∉ s) :
    ∀ s ∈ nsOverride vals, CleanSeg s ∧ '.' ∉ s := by
  intro s hs
  have hdot : '.' ∉ s := fun hm => (splitOn_mem '.' _ s hs '.' hm).2 rfl
  rw [nsOverride_eq_flatMap vals hne] at hs
  obtain ⟨v, hvm, hsv⟩ := List.mem_flatMap.mp hs
  obtain ⟨hn, hsl⟩ := hv v hvm s hsv
  refine ⟨⟨hn, hsl, ?_, ?_⟩, hdot⟩
  · intro he; subst he; exact hdot (by simp)
  · intro he; subst he; exact hdot (by simp)

/-- the hypotheses are met by the usual spellings, and the three spellings agree -/
example : (∀ v ∈ ["google.cloud".toList, "ads".toList], ∀ s ∈ splitOn '.' v, s ≠ [] ∧ '/' ∉ s) ∧
    nsOverride ["google.cloud".toList, "ads".toList] = ["google".toList, "cloud".toList, "ads".toList] ∧
    nsOverride ["google.cloud.ads".toList] = ["google".toList, "cloud".toList, "ads".toList] ∧
    nsOverride ["google".toList, "cloud".toList, "ads".toList] = ["google".toList, "cloud".toList, "ads".toList] := by decide

/-- the override replaces the inferred namespace only when at least one value was given -/
theorem nsWith_cases (i : Inferred) (vals : List (List Char)) :
    nsWith i [] = nsSegments i ∧ (vals ≠ [] → nsWith i vals = vals.flatMap (splitOn '.')) := by
  refine ⟨rfl, fun h => ?_⟩
  cases vals with
  | nil => exact absurd rfl h
  | cons a r => simp only [nsWith, List.isEmpty_cons, Bool.false_eq_true, if_false]; exact nsOverride_eq_flatMap _ h

end NamingClean


/-! ## Response file names are unique (the `OrderedDict` of `get_response`) -/

section Unique
open GapicModel.Model.Emit

theorem mem_dedup (l : List Path) (p : Path) : p ∈ dedup l ↔ p ∈ l := by
  induction l with
  | nil => simp [dedup]
  | cons a t ih =>
    simp only [dedup, List.mem_cons, List.mem_filter, decide_eq_true_eq, ih]
    by_cases h : p = a <;> simp [h]

theorem nodup_dedup (l : List Path) : (dedup l).Nodup := by
  induction l with
  | nil => simp [dedup]
  | cons a t ih =>
    simp only [dedup, List.nodup_cons, List.mem_filter, decide_eq_true_eq]
    exact ⟨fun h => h.2 rfl, ih.filter _⟩

/-- **Every response file name is unique**, and de-duplication loses no name: for every option set, API shape and
template list -/
theorem response_names_unique (o : Opts) (sh : Shape) (ts : List Str) :
    (responseNames o sh ts).Nodup ∧ ∀ p, p ∈ responseNames o sh ts ↔ p ∈ renders o sh ts :=
  ⟨nodup_dedup _, mem_dedup _⟩

/-- the de-duplication is not idle: for an UNVERSIONED package the `%namespace/%name/` alias templates and the
`%namespace/%name_%version/%sub/` templates render the same three names (`__init__.py`, `gapic_version.py`, `py.typed`),
so without it the response would carry duplicates -/
theorem unversioned_renders_have_duplicates :
    ¬ (renders ⟨[['g','r','p','c']], false, false, false⟩
        ⟨⟨[['a','c','m','e']], ['l','i','b'], [], ['l','i','b']⟩, ⟨[], [['l','i','b','r','a','r','y']], [['l','i','b']]⟩, []⟩
        templatesDefault).Nodup := by decide +kernel

end Unique


/-! ## Nested sub-packages: every view of the tree is rendered, every file sits under its own sub-package -/

section Nested
open GapicModel.Model.Emit GapicModel.Model.Layout

theorem mem_prefixes (p v : Path) : v ∈ prefixes p ↔ v ≠ [] ∧ ∃ w, p = v ++ w := by
  induction p generalizing v with
  | nil =>
    simp only [prefixes, List.not_mem_nil, false_iff, not_and, not_exists]
    intro hv w hw
    cases v with
    | nil => exact hv rfl
    | cons a t => simp at hw
  | cons s r ih =>
    simp only [prefixes, List.mem_cons, List.mem_map]
    constructor
    · rintro (h | ⟨u, hu, h⟩)
      · subst h; exact ⟨by simp, r, rfl⟩
      · subst h
        obtain ⟨_, w, hw⟩ := (ih u).mp hu
        exact ⟨by simp, w, by simp [hw]⟩
    · rintro ⟨hv, w, hw⟩
      cases v with
      | nil => exact absurd rfl hv
      | cons a u =>
        simp only [List.cons_append, List.cons.injEq] at hw
        obtain ⟨rfl, hr⟩ := hw
        by_cases hu : u = []
        · left; simp [hu]
        · right; exact ⟨u, (ih u).mpr ⟨hu, w, hr⟩, rfl⟩

/-- the sub-package of every target file is a view, and **the views are closed under non-empty prefixes**: the
intermediate packages between the API package and a deeply nested file are rendered too, whether or not any file
lives there -/
theorem views_closed (subs : List Path) :
    (∀ p ∈ subs, p ≠ [] → p ∈ viewsOf subs) ∧
    (∀ v w, v ++ w ∈ viewsOf subs → v ≠ [] → v ∈ viewsOf subs) := by
  constructor
  · intro p hp hne
    simp only [viewsOf, mem_dedup, List.mem_flatMap]
    exact ⟨p, hp, (mem_prefixes p p).mpr ⟨hne, [], by simp⟩⟩
  · intro v w h hne
    simp only [viewsOf, mem_dedup, List.mem_flatMap] at h ⊢
    obtain ⟨p, hp, hvw⟩ := h
    obtain ⟨_, x, hx⟩ := (mem_prefixes p _).mp hvw
    exact ⟨p, hp, (mem_prefixes p v).mpr ⟨hne, w ++ x, by simp [hx]⟩⟩

/-- no view is visited twice, and only prefixes of target sub-packages are views (nothing is invented) -/
theorem views_exact (subs : List Path) :
    (viewsOf subs).Nodup ∧ ∀ v ∈ viewsOf subs, v ≠ [] ∧ ∃ p ∈ subs, ∃ w, p = v ++ w := by
  refine ⟨nodup_dedup _, ?_⟩
  intro v hv
  simp only [viewsOf, mem_dedup, List.mem_flatMap] at hv
  obtain ⟨p, hp, h⟩ := hv
  obtain ⟨hne, w, hw⟩ := (mem_prefixes p v).mp h
  exact ⟨hne, p, hp, w, hw⟩

/-- the two whole-template gates of `_render_template` -/
def templateOn (o : Opts) (tname : Str) : Prop :=
  ¬ (!o.metadata && ['g', 'a', 'p', 'i', 'c', '_', 'm', 'e', 't', 'a', 'd', 'a', 't', 'a', '.', 'j', 's', 'o', 'n', '.', 'j', '2'].isSuffixOf tname) = true ∧
  ¬ (startsWith ['%', 'n', 'a', 'm', 'e', 's', 'p', 'a', 'c', 'e', '/', '%', 'n', 'a', 'm', 'e', '/'] tname && o.unversionedDisabled) = true

theorem renderTemplate_sub (o : Opts) (sh : Shape) (tname : Str) (hon : templateOn o tname)
    (hs : hasVar (parseTemplate tname) .sub = true) :
    renderTemplate o sh tname =
      (sh.subs.flatMap fun sp => renderView o sh.naming tname (parseTemplate tname) sp.view sp.services sp.protos) ++
      (if sh.subs.isEmpty then renderView o sh.naming tname (parseTemplate tname) [] (allServices sh) (allProtos sh)
       else renderView o sh.naming tname (parseTemplate tname) [] sh.root.services sh.root.protos) := by
  obtain ⟨h1, h2⟩ := hon
  simp only [renderTemplate, h1, h2, hs, if_true, if_false, Bool.false_eq_true]

/-- **One types module per target proto, under the proto's OWN sub-package path** (any depth, any gaps): a
`%sub/.../%proto` template renders, for every target file `p`, the name with `%sub = p.sub`. -/
theorem proto_file_under_own_subpackage (o : Opts) (nm : Naming) (ps : List ProtoAt) (tname : Str)
    (hon : templateOn o tname) (hs : hasVar (parseTemplate tname) .sub = true)
    (hp : hasVar (parseTemplate tname) .proto = true) (p : ProtoAt) (hmem : p ∈ ps) :
    getFilename ⟨nm, p.sub, none, some p.module⟩ (parseTemplate tname) ∈ renderTemplate o (shapeOf nm ps) tname := by
  rw [renderTemplate_sub o _ tname hon hs]
  by_cases hsub : p.sub = []
  · apply List.mem_append_right
    have hroot : p.module ∈ (subPkgAt ps []).protos := by
      simp only [subPkgAt, List.mem_map, List.mem_filter, decide_eq_true_eq]
      exact ⟨p, ⟨hmem, hsub⟩, rfl⟩
    split
    · simp only [renderView, hp, if_true, List.mem_map, allProtos, List.mem_append]
      exact ⟨p.module, Or.inl hroot, by rw [hsub]; rfl⟩
    · simp only [renderView, hp, if_true, List.mem_map]
      exact ⟨p.module, hroot, by rw [hsub]; rfl⟩
  · apply List.mem_append_left
    simp only [List.mem_flatMap, shapeOf, List.mem_map]
    refine ⟨subPkgAt ps p.sub, ⟨p.sub, ?_, rfl⟩, ?_⟩
    · exact (views_closed _).1 p.sub (List.mem_map.mpr ⟨p, hmem, rfl⟩) hsub
    · simp only [renderView, hp, if_true, List.mem_map, subPkgAt, List.mem_filter, decide_eq_true_eq]
      exact ⟨p.module, ⟨p, ⟨hmem, rfl⟩, rfl⟩, rfl⟩

/-- **One service package per service, under the sub-package of the file that defines it** -/
theorem service_file_under_own_subpackage (o : Opts) (nm : Naming) (ps : List ProtoAt) (tname : Str)
    (hon : templateOn o tname) (hs : hasVar (parseTemplate tname) .sub = true)
    (hp : hasVar (parseTemplate tname) .proto = false) (hv : hasVar (parseTemplate tname) .service = true)
    (hg : serviceGate tname o = true) (p : ProtoAt) (hmem : p ∈ ps) (svc : Str) (hsvc : svc ∈ p.services) :
    getFilename ⟨nm, p.sub, some svc, none⟩ (parseTemplate tname) ∈ renderTemplate o (shapeOf nm ps) tname := by
  rw [renderTemplate_sub o _ tname hon hs]
  have hat : svc ∈ (subPkgAt ps p.sub).services := by
    simp only [subPkgAt, List.mem_flatMap, List.mem_filter, decide_eq_true_eq]
    exact ⟨p, ⟨hmem, rfl⟩, hsvc⟩
  by_cases hsub : p.sub = []
  · apply List.mem_append_right
    rw [hsub] at hat
    split
    · simp only [renderView, hp, hv, hg, if_true, if_false, Bool.false_eq_true, List.mem_map, allServices, List.mem_append]
      exact ⟨svc, Or.inl hat, by rw [hsub]; rfl⟩
    · simp only [renderView, hp, hv, hg, if_true, if_false, Bool.false_eq_true, List.mem_map]
      exact ⟨svc, hat, by rw [hsub]; rfl⟩
  · apply List.mem_append_left
    simp only [List.mem_flatMap, shapeOf, List.mem_map]
    refine ⟨subPkgAt ps p.sub, ⟨p.sub, ?_, rfl⟩, ?_⟩
    · exact (views_closed _).1 p.sub (List.mem_map.mpr ⟨p, hmem, rfl⟩) hsub
    · simp only [renderView, hp, hv, hg, if_true, if_false, Bool.false_eq_true, List.mem_map]
      exact ⟨svc, hat, rfl⟩

/-- **`__init__.py` on every directory of a nested import path**: a per-view template (`%sub/__init__.py`,
`%sub/types/__init__.py`, `%sub/services/__init__.py`, …) is rendered for the sub-package of every target file
AND for every package between it and the API package, populated or not. -/
theorem per_view_file_on_every_prefix (o : Opts) (nm : Naming) (ps : List ProtoAt) (tname : Str)
    (hon : templateOn o tname) (hs : hasVar (parseTemplate tname) .sub = true)
    (hp : hasVar (parseTemplate tname) .proto = false) (hv : hasVar (parseTemplate tname) .service = false)
    (p : ProtoAt) (hmem : p ∈ ps) (v w : Path) (hvw : p.sub = v ++ w) :
    getFilename ⟨nm, v, none, none⟩ (parseTemplate tname) ∈ renderTemplate o (shapeOf nm ps) tname := by
  rw [renderTemplate_sub o _ tname hon hs]
  by_cases hnil : v = []
  · apply List.mem_append_right
    subst hnil
    split <;> simp [renderView, hp, hv, shapeOf]
  · apply List.mem_append_left
    simp only [List.mem_flatMap, shapeOf, List.mem_map]
    have hsubne : p.sub ≠ [] := by rw [hvw]; simp [hnil]
    have hin : v ++ w ∈ viewsOf (ps.map (·.sub)) := by
      rw [← hvw]; exact (views_closed _).1 p.sub (List.mem_map.mpr ⟨p, hmem, rfl⟩) hsubne
    refine ⟨subPkgAt ps v, ⟨v, (views_closed _).2 v w hin hnil, rfl⟩, ?_⟩
    simp [renderView, hp, hv, subPkgAt]

/-- the hypotheses hold for the shipped templates, and a file two levels below an EMPTY intermediate package is
placed (and its parents get their `__init__.py`) as stated -/
example :
    let o : Opts := ⟨[['g','r','p','c']], false, false, false⟩
    let nm : Naming := ⟨[['a','c','m','e']], ['l','i','b'], ['v','1'], ['l','i','b','_','v','1']⟩
    let ps : List ProtoAt := [⟨[], "lib".toList, ["library".toList]⟩, ⟨["admin".toList, "audit".toList], "log".toList, []⟩]
    viewsOf (ps.map (·.sub)) = [["admin".toList], ["admin".toList, "audit".toList]] ∧
    "%namespace/%name_%version/%sub/types/%proto.py.j2".toList ∈ templatesDefault ∧
    "%namespace/%name_%version/%sub/__init__.py.j2".toList ∈ templatesDefault ∧
    [["acme".toList, "lib_v1".toList, "admin".toList, "audit".toList, "types".toList, "log.py".toList],
     ["acme".toList, "lib_v1".toList, "types".toList, "lib.py".toList],
     ["acme".toList, "lib_v1".toList, "admin".toList, "__init__.py".toList],
     ["acme".toList, "lib_v1".toList, "admin".toList, "audit".toList, "__init__.py".toList],
     ["acme".toList, "lib_v1".toList, "admin".toList, "audit".toList, "types".toList, "__init__.py".toList]].all
      (fun f => (responseNames o (shapeOf nm ps) templatesDefault).contains f) = true := by decide +kernel

/-! ### Dependency-only files contribute no directory -/

theorem renderView_view (o : Opts) (nm : Naming) (tname : Str) (t : TPath) (view : Path) (services protos : List Str)
    (f : Path) (hf : f ∈ renderView o nm tname t view services protos) :
    ∃ svc proto, f = getFilename ⟨nm, view, svc, proto⟩ t := by
  unfold renderView at hf
  split at hf
  · obtain ⟨p, _, rfl⟩ := List.mem_map.mp hf
    exact ⟨none, some p, rfl⟩
  · split at hf
    · split at hf
      · obtain ⟨sv, _, rfl⟩ := List.mem_map.mp hf
        exact ⟨some sv, none, rfl⟩
      · simp at hf
    · simp only [List.mem_singleton] at hf
      exact ⟨none, none, hf⟩

/-- **Nothing is emitted for dependency-only files — directories included.**  `shapeOf` is built from the TARGET protos
only, and every file any template renders is `getFilename` at a view that is the API package itself (`[]`) or a
non-empty prefix of the sub-package of some TARGET proto: whatever the packages of the dependency files are (longer
than the API package or not), they supply no `%sub` directory. -/
theorem rendered_views_from_targets (o : Opts) (nm : Naming) (ps : List ProtoAt) (tname : Str) (f : Path)
    (hf : f ∈ renderTemplate o (shapeOf nm ps) tname) :
    ∃ v, (v = [] ∨ (v ≠ [] ∧ ∃ p ∈ ps, ∃ w, p.sub = v ++ w)) ∧
      ∃ svc proto, f = getFilename ⟨nm, v, svc, proto⟩ (parseTemplate tname) := by
  unfold renderTemplate at hf
  simp only at hf
  split at hf
  · simp at hf
  · split at hf
    · simp at hf
    · split at hf
      · rcases List.mem_append.mp hf with h | h
        · obtain ⟨sp, hsp, hin⟩ := List.mem_flatMap.mp h
          simp only [shapeOf, List.mem_map] at hsp
          obtain ⟨v, hv, rfl⟩ := hsp
          obtain ⟨hne, q, hq, w, hw⟩ := (views_exact _).2 v hv
          obtain ⟨p, hp, rfl⟩ := List.mem_map.mp hq
          exact ⟨v, Or.inr ⟨hne, p, hp, w, hw⟩, renderView_view _ _ _ _ _ _ _ f hin⟩
        · split at h <;> exact ⟨[], Or.inl rfl, renderView_view _ _ _ _ _ _ _ f h⟩
      · exact ⟨[], Or.inl rfl, renderView_view _ _ _ _ _ _ _ f hf⟩

/-- e.g. target `lib.v1` with one file: whatever else is in the request, no file of the response lies in a `v1/`
directory below the package root (`google.iam.v1` as a dependency would suggest one) -/
example :
    let o : Opts := ⟨[['g','r','p','c']], false, false, false⟩
    let nm : Naming := ⟨[], ['l','i','b'], ['v','1'], ['l','i','b','_','v','1']⟩
    (responseNames o (shapeOf nm [⟨[], "lib".toList, ["library".toList]⟩]) templatesDefault).all
      (fun f => !(["lib_v1".toList, "v1".toList] <+: f)) = true := by decide +kernel

/-! ### The "private" rule is about TEMPLATE names, never about the names of the files a template yields -/

def typesTemplate : Str := "%namespace/%name_%version/%sub/types/%proto.py.j2".toList

/-- finite facts about the shipped types template: it is in the template list, it is neither private nor the
sample template, it carries `%sub` and `%proto`, no whole-template gate applies to it whatever the options, and its
last path segment is `%proto` followed by `.py` -/
theorem typesTemplate_facts :
    typesTemplate ∈ templatesDefault ∧ isPrivate typesTemplate = false ∧ isSampleTemplate typesTemplate = false ∧
    hasVar (parseTemplate typesTemplate) .sub = true ∧ hasVar (parseTemplate typesTemplate) .proto = true ∧
    ['g', 'a', 'p', 'i', 'c', '_', 'm', 'e', 't', 'a', 'd', 'a', 't', 'a', '.', 'j', 's', 'o', 'n', '.', 'j', '2'].isSuffixOf typesTemplate = false ∧
    startsWith ['%', 'n', 'a', 'm', 'e', 's', 'p', 'a', 'c', 'e', '/', '%', 'n', 'a', 'm', 'e', '/'] typesTemplate = false ∧
    parseTemplate typesTemplate =
      [[.var .ns], [.var .nameVersion], [.var .sub], [.lit "types".toList]] ++ [[.var .proto, .lit ".py".toList]] := by
  decide +kernel

/-- **Every target proto file yields its types module, whatever its name**: for every option set, naming and list of
target protos, the response contains `<root>/<sub-package>/types/<module>.py` for each target proto — also when
`<module>` starts with underscores (`_internal.proto`, `__private.proto`): `isPrivate` looks at the template's own
base name (`%proto.py.j2`), not at the substituted output. -/
theorem every_target_proto_has_types_module (o : Opts) (nm : Naming) (ps : List ProtoAt) (p : ProtoAt) (hmem : p ∈ ps) :
    getFilename ⟨nm, p.sub, none, some p.module⟩ (parseTemplate typesTemplate) ∈ responseNames o (shapeOf nm ps) templatesDefault ∧
    ∃ dir, getFilename ⟨nm, p.sub, none, some p.module⟩ (parseTemplate typesTemplate) = dir ++ [p.module ++ ".py".toList] := by
  obtain ⟨hin, hpriv, hsample, hsub, hproto, hmeta, hunv, hparse⟩ := typesTemplate_facts
  constructor
  · rw [(response_names_unique o _ _).2]
    simp only [renders, List.mem_flatMap, List.mem_filter, Bool.and_eq_true, Bool.not_eq_true']
    refine ⟨typesTemplate, ⟨hin, hpriv, hsample⟩, ?_⟩
    exact proto_file_under_own_subpackage o nm ps typesTemplate ⟨by simp [hmeta], by simp [hunv]⟩ hsub hproto p hmem
  · rw [hparse, getFilename_append]
    refine ⟨getFilename ⟨nm, p.sub, none, some p.module⟩
      [[.var .ns], [.var .nameVersion], [.var .sub], [.lit "types".toList]], ?_⟩
    congr 1
    simp [getFilename, segOut, partText, varText]

/-- e.g. `_internal.proto` next to `lib.proto`, and `__private.proto` in a sub-package -/
example :
    let o : Opts := ⟨[['g','r','p','c']], false, false, false⟩
    let nm : Naming := ⟨[['a','c','m','e']], ['l','i','b'], ['v','1'], ['l','i','b','_','v','1']⟩
    let ps : List ProtoAt := [⟨[], "lib".toList, ["library".toList]⟩, ⟨[], "_internal".toList, []⟩, ⟨["admin".toList], "__private".toList, []⟩]
    [["acme".toList, "lib_v1".toList, "types".toList, "_internal.py".toList],
     ["acme".toList, "lib_v1".toList, "admin".toList, "types".toList, "__private.py".toList]].all
      (fun f => (responseNames o (shapeOf nm ps) templatesDefault).contains f) = true ∧
    (responseNames o (shapeOf nm ps) templatesDefault).all (fun f => f.getLast? ≠ some "_base.py".toList) = true := by decide +kernel

end Nested

section ValidNames
open GapicModel.Lemmas.ValidFilename

/-- **`to_valid_filename`, for every text**: the result consists of `a-z 0-9 . $ _ -` only (proved over the regex engine
running the pinned pattern `[^a-z0-9.$_-]+` on the translation of `gapic/utils/filename.py`) -/
theorem valid_filename_charset (s : Str) : ∀ c ∈ Pinned.Funcs.to_valid_filename s, Allowed c :=
  to_valid_filename_chars s

/-- **`to_valid_module_name`, for every text**: the result consists of `a-z 0-9 . $ _` only; in particular it holds no
`/`, no `-`, no blank and no upper-case letter, whatever the option or package text was -/
theorem valid_module_name_charset (s : Str) : ∀ c ∈ Pinned.Funcs.to_valid_module_name s, Allowed c ∧ c ≠ '-' :=
  to_valid_module_name_chars s

/-- a module name never spans two path segments -/
theorem valid_module_name_no_slash (s : Str) : '/' ∉ Pinned.Funcs.to_valid_module_name s :=
  fun h => allowed_ne_slash (to_valid_module_name_chars s _ h).1 rfl

/-- every directory of `Naming.module_namespace` (the translated property) is one path segment — for every namespace,
inferred or overridden -/
theorem module_namespace_no_slash (segs : List Str) : ∀ s ∈ Pinned.Funcs.naming_module_namespace segs, '/' ∉ s := by
  intro s hs
  unfold Pinned.Funcs.naming_module_namespace at hs
  obtain ⟨x, _, rfl⟩ := List.mem_map.mp hs
  exact valid_module_name_no_slash x

/-- `to_valid_module_name` is idempotent: naming a module twice changes nothing -/
theorem valid_module_name_idempotent (s : Str) :
    Pinned.Funcs.to_valid_module_name (Pinned.Funcs.to_valid_module_name s) = Pinned.Funcs.to_valid_module_name s :=
  to_valid_module_name_idem s

/-- the fixed-point hypothesis of `namespace_dirs_are_module_namespace` / `packageDir_is_translated`, discharged by a
decidable character condition: **a namespace whose segments are made of `a-z 0-9 . $ _` has directory path = import
path** (`i.lower()` joined by `_get_filename` vs `to_valid_module_name(i)` joined by the emitted imports) -/
theorem namespace_dirs_are_module_namespace_of_charset (segs : List Str)
    (h : ∀ s ∈ segs, ∀ c ∈ s, Allowed c ∧ c ≠ '-') : Pinned.Funcs.naming_module_namespace segs = segs :=
  namespace_dirs_are_module_namespace segs (fun s hs => to_valid_module_name_fixed s (h s hs))

/-- and the condition is necessary segment by segment: a segment with any other character is NOT a fixed point
(the directory `_get_filename` makes and the module the imports name then differ — e.g. a namespace override
`Foo-Bar`, whose directory is `foo-bar` and whose import is `foo_bar`) -/
theorem namespace_dir_differs_outside_charset (s : Str) (c : Char) (hc : c ∈ s) (h : ¬ (Allowed c ∧ c ≠ '-')) :
    Pinned.Funcs.to_valid_module_name s ≠ s := by
  intro e
  rw [← e] at hc
  exact h (to_valid_module_name_chars s c hc)

/-- **the package-root directory `<name>_<version>` is one path segment for every name text** — also for a
`python-gapic-name` override that contains `/`, blanks or capitals (the translated `Naming.module_name` /
`NewNaming.versioned_module_name`) — as soon as the version holds no `/` (`inferred_segments_clean`: it is a capture of the
version pattern); with the old naming the segment is `<name>.<version>`, equally slash-free -/
theorem package_root_segment_no_slash (name version : Str) (hv : '/' ∉ version) :
    '/' ∉ Pinned.Funcs.new_naming_versioned_module_name (Pinned.Funcs.naming_module_name name) version ∧
    '/' ∉ Pinned.Funcs.old_naming_versioned_module_name (Pinned.Funcs.naming_module_name name) version := by
  have hn := valid_module_name_no_slash name
  unfold Pinned.Funcs.new_naming_versioned_module_name Pinned.Funcs.old_naming_versioned_module_name
    Pinned.Funcs.naming_module_name
  constructor <;> (cases version <;> simp_all [PyRt.truthy])

/-- the same name text gives a non-empty root segment unless the text itself is empty -/
example : Pinned.Funcs.new_naming_versioned_module_name (Pinned.Funcs.naming_module_name "My/Lib X".toList) "v1".toList
    = "my_lib_x_v1".toList := by decide +kernel

/-- non-vacuity and sharpness: ordinary segments satisfy the condition; `-` and `..` show what the charset theorem
does not exclude (a segment can still be `.`/`..`: that is excluded by protoc's identifier grammar, `CleanCtx`) -/
example : (∀ c ∈ "google_cloud1".toList, Allowed c ∧ c ≠ '-') ∧
    Pinned.Funcs.to_valid_module_name "Foo-Bar Baz/Q".toList = "foo_bar_baz_q".toList ∧
    Pinned.Funcs.to_valid_module_name "..".toList = "..".toList := by
  refine ⟨?_, by decide +kernel, by decide +kernel⟩
  intro c hc
  simp only [String.toList] at hc
  rw [← bad_false_iff]
  revert c
  decide +kernel

end ValidNames

end GapicModel.Props.C11
