import GapicModel.Model.Names
import GapicModel.Pinned.Funcs
import GapicModel.Lemmas.AddressT
import GapicModel.Lemmas.SplitJoin
/-
C12 — reserved-word and colliding names are disambiguated without altering the wire.
-/
namespace GapicModel.Props.C12
open GapicModel GapicModel.Model.Names

/-! ## Finite facts about the (bridged) tables — `decide` over the whole tables -/

theorem keywords_subset_reserved : ∀ w ∈ Pinned.pyKeywords, isReserved w = true := by decide

theorem suffixed_not_reserved_nor_keyword :
    ∀ w ∈ Pinned.reservedNames, isReserved (w ++ "_") = false ∧ isKeyword (w ++ "_") = false := by decide

theorem reserved_no_dot : ∀ w ∈ Pinned.reservedNames, '.' ∉ w.toList := by decide

theorem invalid_module_suffix_valid :
    ∀ w ∈ Pinned.pyKeywords ++ Pinned.invalidModuleExtra, isInvalidModule (w ++ "_") = false := by decide

/-! ## Field attributes -/

theorem isKeyword_imp_reserved (n : String) (h : isKeyword n = true) : isReserved n = true := by
  unfold isKeyword at h
  exact keywords_subset_reserved n (by simpa [List.contains_iff_mem] using h)

/-- the attribute of a field is never a Python keyword, whatever the field is called -/
theorem attr_is_not_keyword (n : String) : isKeyword (fieldAttr n) = false := by
  unfold fieldAttr
  by_cases h : isReserved n = true
  · simp only [h, if_true]
    have hm : n ∈ Pinned.reservedNames := by simpa [isReserved, List.contains_iff_mem] using h
    exact (suffixed_not_reserved_nor_keyword n hm).2
  · rw [if_neg h]
    cases hk : isKeyword n with
    | false => rfl
    | true => exact absurd (isKeyword_imp_reserved n hk) h

/-- exactly one trailing underscore, and exactly for reserved words -/
theorem one_underscore (n : String) :
    (isReserved n = true → fieldAttr n = n ++ "_") ∧ (isReserved n = false → fieldAttr n = n) := by
  unfold fieldAttr; constructor <;> intro h <;> simp [h]

/-- the suffixed attribute is itself not reserved: suffixing happens once and is stable -/
theorem attr_of_reserved_not_reserved (n : String) (h : isReserved n = true) : isReserved (fieldAttr n) = false := by
  have hm : n ∈ Pinned.reservedNames := by simpa [isReserved, List.contains_iff_mem] using h
  simpa [fieldAttr, h] using (suffixed_not_reserved_nor_keyword n hm).1

/-- two different fields get different attributes, unless one of them is literally `<reserved>_`
(`class` and `class_` in one message collide — `attr_collision_counterexample`) -/
theorem attr_injective_partial (a b : String)
    (ha : ∀ r, isReserved r = true → a ≠ r ++ "_") (hb : ∀ r, isReserved r = true → b ≠ r ++ "_")
    (h : fieldAttr a = fieldAttr b) : a = b := by
  unfold fieldAttr at h
  by_cases hra : isReserved a = true <;> by_cases hrb : isReserved b = true
  · simp only [hra, hrb, if_true] at h
    exact (String.append_left_inj "_").mp h
  · simp only [hra, hrb, if_true, if_false] at h
    exact absurd h.symm (hb a hra)
  · simp only [hra, hrb, if_true, if_false] at h
    exact absurd h (ha b hrb)
  · simpa [hra, hrb] using h

theorem attr_collision_counterexample : fieldAttr "class" = fieldAttr "class_" ∧ "class" ≠ "class_" := by decide

/-! ## Positions: does the rendered attribute path reach the field? (`attrPath` is what Python needs) -/

/-- HTTP path variables and body names rewritten by `convert_uri_fieldnames`: always right, any depth -/
theorem uri_variable_resolves (p : Path) : uriVar p = attrPath p := rfl

/-- implicit routing headers (`FieldHeader.disambiguated`): right at any depth since the C12 `fix:`
commit (before it `{book.class=…}` made the client read `request.book.class`, DESIGN §9-F1) -/
theorem header_resolves (p : Path) : headerAttr p = attrPath p := rfl

/-- regression witness for §9-F1 evaluated on the model -/
theorem header_dotted_regression : headerAttr ["book", "class"] = ["book", "class_"] := by decide

/-- flattened parameters: the key `request.<key> = <param>` is right at any depth since the `fix:`
commit (before it `method_signature = "import.name"` gave `request.import.name`, DESIGN §9-F2) -/
theorem flatten_key_resolves (p : Path) : flattenKey p = attrPath p := rfl

theorem flatten_key_regression : flattenKey ["import", "name"] = ["import_", "name"] := by decide

/-- explicit routing parameters read the suffixed attribute path (added by a `fix:` commit; before it a
routing field named `class` gave `request.class`) -/
theorem routing_field_resolves (p : Path) : routingFieldAttr p = attrPath p := rfl

/-- no segment of a resolved attribute path is a keyword, so `request.<path>` always parses -/
theorem attr_path_no_keyword (p : Path) : ∀ s ∈ attrPath p, isKeyword s = false := by
  intro s hs
  simp only [attrPath, List.mem_map] at hs
  obtain ⟨w, _, rfl⟩ := hs
  exact attr_is_not_keyword w

/-- the keyword parameter offered for a flattened field is the suffixed terminal name, never a keyword -/
theorem flatten_param_not_keyword (p : Path) (n : String) (h : flattenParam p = some n) : isKeyword n = false := by
  unfold flattenParam at h
  cases hl : p.getLast? with
  | none => simp [hl] at h
  | some l => simp [hl] at h; subst h; exact attr_is_not_keyword l

/-! ## The wire keeps the original names -/

open GapicModel.Model.Names in
theorem toJsonNameAux_snoc_underscore (up : Bool) (w : List Char) :
    toJsonNameAux up (w ++ ['_']) = toJsonNameAux up w := by
  induction w generalizing up with
  | nil => simp [toJsonNameAux]
  | cons c cs ih =>
    simp only [List.cons_append, toJsonNameAux]
    split <;> simp [ih]

/-- protobuf's lowerCamel JSON name drops a trailing underscore: the JSON key of `word_` is that of `word` -/
theorem json_name_suffix_invariant (w : List Char) : toJsonName (w ++ ['_']) = toJsonName w :=
  toJsonNameAux_snoc_underscore false w

/-- REST, REQUIRED query fields: the transport's table of required fields is keyed by `camel_case(Field.name)`, the
ATTRIBUTE name (already suffixed). For every reserved word without a capital letter that key IS the JSON name of
the field (the suffix is dropped again), so an unset required field goes out under its original name and a set one
is recognised as set: whole table, evaluated through the regex engine -/
theorem required_key_is_json_name_table :
    ∀ w ∈ Pinned.reservedNames, noUpper w = true → toCamelCase (fieldAttr w).toList = toJsonName w.toList := by decide

example : "class" ∈ Pinned.reservedNames ∧ noUpper "class" = true := by decide

/-- the same key for the three capitalised reserved words is lower-cased (`to_snake_case` lower-cases), the JSON
name is not: the table key `none` never meets the JSON key `None` (findings/C12.json, rest-required-query-key-lowercased) -/
theorem required_key_counterexample :
    toCamelCase (fieldAttr "None").toList = "none".toList ∧ toJsonName "None".toList = "None".toList := by decide

/-- multi-word ordinary names: the key is the lowerCamel JSON name -/
theorem required_key_ordinary : toCamelCase "page_size".toList = toJsonName "page_size".toList ∧
    toCamelCase "display_name".toList = "displayName".toList := by decide

/-! ## RPC names -/

/-- an RPC named like a keyword gets exactly one underscore at the client level; other names are kept -/
theorem client_method_name_rule (n : String) :
    (isKeyword (lower n) = true → clientMethodName n = n ++ "_") ∧
    (isKeyword (lower n) = false → clientMethodName n = n) := by
  unfold clientMethodName; constructor <;> intro h <;> simp [h]

/-- for every Python keyword (as written, and capitalised like an RPC name) the emitted method name
`snake_case(client_method_name)` is not a keyword: whole table, evaluated through the regex engine -/
theorem rpc_method_name_not_keyword_table :
    ∀ k ∈ Pinned.pyKeywords,
      isKeyword (String.ofList (toSnakeCase (clientMethodName k).toList)) = false ∧
      isKeyword (String.ofList (toSnakeCase (clientMethodName (String.ofList (match k.toList with
        | c :: cs => upperChar c :: cs | [] => []))).toList)) = false := by decide

/-! ## Proto file names -/

/-- a proto file named by a keyword or a client control parameter gets exactly one underscore
(when that name is free in its directory), and the result is a valid module name -/
theorem file_name_one_underscore (visited : List String) (fuel : Nat) (n : String)
    (hinv : n ∈ Pinned.pyKeywords ++ Pinned.invalidModuleExtra) (hfree : n ++ "_" ∉ visited) :
    disambFile visited (fuel + 1) n = n ++ "_" ∧ isInvalidModule (n ++ "_") = false := by
  have h1 : isInvalidModule n = true := by
    simp only [List.mem_append] at hinv
    simp only [isInvalidModule, Bool.or_eq_true, List.contains_iff_mem]
    exact hinv
  exact ⟨by simp [disambFile, h1, hfree], invalid_module_suffix_valid n hinv⟩

/-- any other free name is left alone -/
theorem file_name_kept (visited : List String) (fuel : Nat) (n : String)
    (h1 : isInvalidModule n = false) (h2 : n ∉ visited) :
    disambFile visited (fuel + 1) n = n := by
  simp [disambFile, h1, h2]

/-! ## A keyword-named file whose word is also a flattened parameter: the module is aliased -/

/-- a proto file named by a keyword `k` becomes module `k_`; a method that flattens the top-level field `k` offers the parameter `k_`,
which would shadow the module inside the method: the module IS imported under its alias in that method's context, whatever else the
service names and the signatures hold -/
theorem keyword_file_flattened_same_word_aliased (k : String) (hk : k ∈ Pinned.pyKeywords)
    (svcNames : List String) (sigFields : List Path) (hsig : [k] ∈ sigFields) :
    isAliased (methodCollisions svcNames sigFields) (disambFile [] 1 k) = true := by
  have hfile : disambFile [] 1 k = k ++ "_" :=
    (file_name_one_underscore [] 0 k (List.mem_append_left _ hk) (by simp)).1
  have hres : isReserved k = true := isKeyword_imp_reserved k (List.contains_iff_mem.mpr hk)
  have hkey : joinDots (flattenKey [k]) = k ++ "_" := by
    simp [flattenKey, fieldAttr, hres, joinDots]
  rw [hfile]
  simp only [isAliased, methodCollisions, Bool.or_eq_true]
  left
  rw [List.contains_iff_mem, List.mem_append]
  right
  exact List.mem_map.mpr ⟨[k], hsig, hkey⟩

example : "class" ∈ Pinned.pyKeywords ∧ ([["parent"], ["class"]] : List Path).contains ["class"] = true := by decide

/-- why the KEYS (suffixed) and not the raw signature names must enter the set: with the raw name the module `class_` is not aliased -/
theorem raw_signature_names_would_not_alias :
    isAliased (["Library", "LibraryClient", "LibraryAsyncClient", "create_item"] ++ ["parent", "class"]) "class_" = false ∧
    isAliased (methodCollisions ["Library", "LibraryClient", "LibraryAsyncClient", "create_item"] [["parent"], ["class"]]) "class_" = true := by
  decide

/-! ## A types module named like a module the service code imports: aliased -/

/-- two referenced types with the same module name from different packages: the module name is in `Service.names`, hence in the
collision set of every method (whatever it flattens), hence aliased -/
theorem shared_module_name_aliased (own methods : List String) (refs : List Ref) (sigFields : List Path)
    (m p₁ p₂ : String) (h₁ : (m, p₁) ∈ refs) (h₂ : (m, p₂) ∈ refs) (hne : p₁ ≠ p₂) :
    isAliased (methodCollisions (serviceNames own methods refs) sigFields) m = true := by
  simp only [isAliased, methodCollisions, serviceNames, collidingModules, Bool.or_eq_true, List.contains_iff_mem]
  left
  simp only [List.mem_append, List.mem_filterMap]
  left; right
  refine ⟨(m, p₁), h₁, ?_⟩
  have hany : refs.any (fun r' => r'.1 == m && r'.2 != p₁) = true :=
    List.any_eq_true.mpr ⟨(m, p₂), h₂, by simp [Ne.symm hne]⟩
  simp [hany]

/-- an API file `operation.proto` of a service with a long-running method: the types module `operation` and
`google.api_core.operation` are both aliased in every method's context (likewise `operation_async`, `pagers`, `extended_operation`) -/
theorem wrapper_module_collision_aliased (own methods : List String) (sigFields : List Path) (rest : List Ref) (pkg svcPkg : String)
    (hpkg : pkg ≠ "google.api_core") (hsvc : pkg ≠ svcPkg) :
    (∀ m ∈ ["operation", "operation_async"],
      isAliased (methodCollisions (serviceNames own methods ((m, pkg) :: wrapperRefs true false false svcPkg ++ rest)) sigFields) m = true) ∧
    isAliased (methodCollisions (serviceNames own methods (("pagers", pkg) :: wrapperRefs false false true svcPkg ++ rest)) sigFields) "pagers" = true ∧
    isAliased (methodCollisions (serviceNames own methods (("extended_operation", pkg) :: wrapperRefs false true false svcPkg ++ rest)) sigFields)
      "extended_operation" = true := by
  refine ⟨?_, ?_, ?_⟩
  · intro m hm
    simp only [List.mem_cons, List.not_mem_nil, or_false] at hm
    rcases hm with rfl | rfl
    · exact shared_module_name_aliased _ _ _ _ _ pkg "google.api_core" (by simp) (by simp [wrapperRefs]) hpkg
    · exact shared_module_name_aliased _ _ _ _ _ pkg "google.api_core" (by simp) (by simp [wrapperRefs]) hpkg
  · exact shared_module_name_aliased _ _ _ _ _ pkg svcPkg (by simp) (by simp [wrapperRefs]) hsvc
  · exact shared_module_name_aliased _ _ _ _ _ pkg "google.api_core" (by simp) (by simp [wrapperRefs]) hpkg

example : ("acme.lib_v1.types" : String) ≠ "google.api_core" ∧ ("acme.lib_v1.types" : String) ≠ "acme.lib_v1.services.library" := by decide

/-- with the wrapper types left out of the count, `operation` is used from one package only and is not aliased -/
theorem wrapper_refs_needed :
    isAliased (methodCollisions (serviceNames ["Library"] ["move_book"] [("operation", "acme.lib_v1.types")]) []) "operation" = false ∧
    isAliased (methodCollisions (serviceNames ["Library"] ["move_book"]
      (("operation", "acme.lib_v1.types") :: wrapperRefs true false false "acme.lib_v1.services.library")) []) "operation" = true := by decide

/-! ## The import statement binds the name the references use -/

/-- for every kind of type (python wrapper, own API, proto-plus dependency, `_pb2` dependency), any module name and any alias (empty or
not): the local name bound by `Address.python_import` is the module part of `str(Address)` that every reference in the emitted code uses -/
theorem import_binds_reference_name (k : ImportKind) (module alias : String) :
    (pythonImport k module alias).bound = referenceModule k module alias := by
  by_cases h : alias = "" <;> cases k <;> simp [pythonImport, PyImport.bound, referenceModule, isProtoPlus, h]

/-- a proto-plus dependency whose module collides (`common` of `acme.dep.v1` next to the API's own `common`) is imported AND referred to
under its package-derived alias; its `_pb2` counterpart needs none -/
theorem plus_dep_alias_reaches_import :
    (pythonImport .plusDep "common" "ad_common").bound = "ad_common" ∧ referenceModule .plusDep "common" "ad_common" = "ad_common" ∧
    (pythonImport .pb2 "common" "ad_common").bound = "common_pb2" ∧ referenceModule .pb2 "common" "ad_common" = "common_pb2" := by decide

/-- why the alias must reach the import of the proto-plus branch: an import without it binds `common`, references say `ad_common` -/
theorem plus_dep_import_without_alias_breaks :
    (PyImport.mk "common" "").bound ≠ referenceModule .plusDep "common" "ad_common" := by decide

/-! ## The module imported for a dependency file is the module the dependency ships -/

/-- a proto-plus dependency file, whatever its name (keyword, control parameter, ordinary): the importing library and the dependency's own
library put the name through the same renaming, so the import names the module that exists (`request.proto` -> `request_` in both) -/
theorem plus_dep_imports_shipped_module (visited : List String) (n : String) :
    importedDepModule visited n true = shippedDepModule visited n true := rfl

/-- a plain `_pb2` dependency file with a valid, free module name: the import names protoc's module -/
theorem pb2_dep_imports_shipped_module (visited : List String) (n : String)
    (h1 : isInvalidModule n = false) (h2 : n ∉ visited) :
    importedDepModule visited n false = shippedDepModule visited n false := by
  simp [importedDepModule, shippedDepModule, file_name_kept visited (visited.length + 1) n h1 h2]

example : isInvalidModule "common" = false ∧ "common" ∉ ([] : List String) := by decide

/-- ... but named by a keyword or a control parameter it is renamed like an own file, and the import names a module protoc never writes
(findings/C12.json, pb2-dependency-file-named-by-invalid-module-name:import) -/
theorem pb2_dep_import_counterexample :
    importedDepModule [] "metadata" false = "metadata__pb2" ∧ shippedDepModule [] "metadata" false = "metadata_pb2" ∧
    importedDepModule [] "import" false = "import__pb2" ∧ shippedDepModule [] "import" false = "import_pb2" := by decide

/-- were dependency files NOT renamed, the proto-plus dependency would be imported under a name its library does not ship -/
theorem plus_dep_unrenamed_import_breaks : ("request" : String) ≠ shippedDepModule [] "request" true := by decide

/-! ## `toSnakeCase` IS the code's current `to_snake_case` (translated by harness/pyfun2lean.py, re-bridged on every run) -/

section Translated
open GapicModel.PyRt

theorem toSnakeCase_is_translated (s : List Char) : toSnakeCase s = Pinned.Funcs.to_snake_case s := by
  simp only [toSnakeCase, Pinned.Funcs.to_snake_case, reSub, PyRt.lower]
  rfl

end Translated

/-! ## `clientMethodName` IS the code's current `Method.client_method_name` (non-internal methods; translated by
harness/pyfun2lean.py from gapic/schema/wrappers.py and re-bridged on every run) -/

section TranslatedMethodName
open GapicModel.PyRt

theorem contains_map_toList (tbl : List String) (w : String) : strIn w.toList (tbl.map String.toList) = tbl.contains w := by
  induction tbl with
  | nil => simp [strIn]
  | cons a t ih =>
    simp only [strIn, List.map_cons, List.contains_cons] at ih ⊢
    rw [ih]
    congr 1
    rw [Bool.eq_iff_iff]
    simp only [beq_iff_eq]
    constructor
    · intro h; exact String.ext (by simpa using h)
    · intro h; rw [h]

theorem clientMethodName_is_translated (w : String) :
    (clientMethodName w).toList = Pinned.Funcs.client_method_name w.toList false := by
  simp only [clientMethodName, Pinned.Funcs.client_method_name, isKeyword]
  have hl : PyRt.lower w.toList = (GapicModel.Model.Names.lower w).toList := by
    simp only [PyRt.lower, GapicModel.Model.Names.lower, String.toList_ofList]
    rfl
  rw [hl, contains_map_toList]
  by_cases h : Pinned.pyKeywords.contains (GapicModel.Model.Names.lower w) = true
  · have h' := List.contains_iff_mem.mp h
    simp [h', String.toList_append]
  · have h' : GapicModel.Model.Names.lower w ∉ Pinned.pyKeywords := fun hm => h (List.contains_iff_mem.mpr hm)
    simp [h']

end TranslatedMethodName

/-! ## HTTP path variables over the code's current `_fix_name_segment` / `_fix_field_path` (gapic/utils/uri_conv.py, translated
by harness/pyfun2lean.py and re-bridged on every run): `uri_variable_resolves` above is about the hand-written `uriVar`; these
say the same of the translated bodies, at every depth -/
section TranslatedUriVariable
open GapicModel.PyRt

/-- the translated `_fix_name_segment` is `fieldAttr`: one trailing underscore exactly for the words of the reserved list -/
theorem translated_name_segment_is_attr (w : String) :
    Pinned.Funcs.fix_name_segment w.toList = (fieldAttr w).toList := by
  unfold Pinned.Funcs.fix_name_segment fieldAttr isReserved
  rw [contains_map_toList]
  by_cases h : Pinned.reservedNames.contains w = true
  · have h' := List.contains_iff_mem.mp h
    simp [h', String.toList_append]
  · have h' : w ∉ Pinned.reservedNames := fun hm => h (List.contains_iff_mem.mpr hm)
    simp [h']

/-- the translated `_fix_field_path` works segment by segment on ANY dotted path: `".".join(p)` becomes
`".".join(_fix_name_segment(s) for s in p)` — for every number of segments (a version that treats only the last one or
two segments, or the whole dotted string, is refuted by this equation) -/
theorem translated_field_path_segmentwise (p : List Str) (hne : p ≠ []) (hd : ∀ s ∈ p, '.' ∉ s) :
    Pinned.Funcs.fix_field_path (join ['.'] p) = join ['.'] (p.map Pinned.Funcs.fix_name_segment) := by
  unfold Pinned.Funcs.fix_field_path
  rw [Lemmas.SplitJoin.split_join '.' p hne hd]

/-- **the variable `convert_uri_fieldnames` writes for a dotted path IS the dotted attribute path** (`attrPath`: what Python
must evaluate on the proto-plus request to reach the field), for every path of field names (no segment holds a `.`) -/
theorem translated_uri_variable_resolves (p : Path) (hne : p ≠ []) (hd : ∀ s ∈ p, '.' ∉ s.toList) :
    Pinned.Funcs.fix_field_path (join ['.'] (p.map String.toList)) = join ['.'] ((attrPath p).map String.toList) := by
  rw [translated_field_path_segmentwise _ (by simpa using hne) (by
    intro s hs
    obtain ⟨w, hw, rfl⟩ := List.mem_map.mp hs
    exact hd w hw)]
  congr 1
  simp only [attrPath, List.map_map]
  exact List.map_congr_left (fun w _ => translated_name_segment_is_attr w)

/-- three segments, reserved words in non-leaf positions (the shape seed13_C12 broke), evaluated on the translated body -/
example : Pinned.Funcs.fix_field_path "entry.import.name".toList = "entry.import_.name".toList ∧
    Pinned.Funcs.fix_field_path "class.b.in.x".toList = "class_.b.in_.x".toList := by decide +kernel

end TranslatedUriVariable

/-! ## `Address` naming over the method bodies translated from the current source (Model/AddressT.lean, Lemmas/AddressT.lean)

These are stated about `Pinned.Funcs.address_*`, the translations of `Address.__str__`, `module_alias`, `python_import`, … as they
stand in /repo (bridged by `rfl` to the translation of the current tree on every run), composed the way the properties call each
other — not about a hand-written model: a change of one of those method bodies breaks the bridge lemma named after it. -/
section TranslatedAddress
open GapicModel.Model.AddressT GapicModel.Lemmas.AddressT GapicModel.PyRt GapicModel.Pinned.Funcs

/-- **the import binds the name the references use**, for every address and naming, in all four import branches -/
theorem translated_import_binds_reference_name (a : Addr) (hm : truthy a.module = true) (hn : NamingInv a.naming) :
    str a = join ['.'] ([bound (pythonImport a)] ++ a.parent ++ [a.name]) :=
  import_binds_str_head a hm hn

/-- there is an alias exactly when the module name collides with a name of the file or is reserved, and it is `<initials>_<module>` -/
theorem translated_alias_iff_collision (m : Str) (c pk : List Str) (v : Str) :
    (address_module_alias m c pk v = [] ∧ (strIn m c || strIn m (Pinned.reservedNames.map String.toList)) = false) ∨
    (∃ ini, address_module_alias m c pk v = ini ++ ['_'] ++ m ∧ (strIn m c || strIn m (Pinned.reservedNames.map String.toList)) = true) :=
  module_alias_shape m c pk v

/-- an alias never equals the module name it replaces -/
theorem translated_alias_frees_the_name (m : Str) (c pk : List Str) (v : Str) (h : address_module_alias m c pk v ≠ []) :
    address_module_alias m c pk v ≠ m :=
  module_alias_ne_module m c pk v h

/-- `module_alias` raises for no input (since a6e34e6; before it the statement was false: `lib_`, `a__b`) -/
theorem translated_alias_never_raises (m : Str) (c pk : List Str) (v : Str) : address_module_alias_ok m c pk v = true :=
  module_alias_never_raises m c pk v

/-- **the clause "two imported modules that share a base name get a package-derived alias (each its own)" fails** on the current source:
the sub-packages `admin` and `audit` of `acme.lib.v1` have the same initials, `common.proto` of both is imported `as ala_common`
(findings/C12.json, `alias-collision:same-initials`; corpus/C12/alias_collision_same_initials.json is this input run for real) -/
theorem translated_alias_not_injective_counterexample :
    address_module_alias "common".toList ["common".toList] ["acme".toList, "lib".toList, "v1".toList, "admin".toList] "v1".toList =
    address_module_alias "common".toList ["common".toList] ["acme".toList, "lib".toList, "v1".toList, "audit".toList] "v1".toList :=
  alias_not_injective_counterexample

/-- what does hold (`_partial`: "different packages ⇒ different aliases" is false, see the counterexample): two colliding modules of the
same base name get different aliases exactly when the initials of their packages differ -/
theorem translated_alias_distinct_iff_initials_partial (m : Str) (c1 c2 pk1 pk2 : List Str) (v : Str)
    (h1 : (strIn m c1 || strIn m (Pinned.reservedNames.map String.toList)) = true)
    (h2 : (strIn m c2 || strIn m (Pinned.reservedNames.map String.toList)) = true) :
    address_module_alias m c1 pk1 v = address_module_alias m c2 pk2 v ↔ initials pk1 v = initials pk2 v :=
  alias_distinct_iff_initials_partial m c1 c2 pk1 pk2 v h1 h2

example : (strIn "common".toList ["common".toList] || strIn "common".toList (Pinned.reservedNames.map String.toList)) = true := by decide

/-- **a proto-plus dependency type in a SUB-package of a versioned package is imported from a path its library does not have**:
`convert_to_versioned_package` recognises the version only as the last segment (`acme.dep.v1.sub` stays as it is, `acme.dep.v1` becomes
`acme.dep_v1`), while the dependency's own library is `acme/dep_v1/sub/types/…` (findings/C12.json, `proto-plus-dep:sub-package-of-versioned`;
corpus/C12/proto_plus_dep_subpackage.json is this input run for real) -/
theorem translated_versioned_package_subpackage_counterexample :
    address_versioned_package ["acme".toList, "dep".toList, "v1".toList, "sub".toList]
      = ["acme".toList, "dep".toList, "v1".toList, "sub".toList] ∧
    address_versioned_package ["acme".toList, "dep".toList, "v1".toList] = ["acme".toList, "dep_v1".toList] :=
  versioned_package_subpackage_counterexample

/-- non-vacuity: a colliding dependency module gets its alias on the import and in the reference; a `_pb2` dependency does not -/
example :
    let n : NamingV := ⟨true, "acme.lib.v1".toList, "v1".toList, ["acme".toList], "lib_v1".toList, ["acme.dep.v1".toList]⟩
    let d : Addr := ⟨"Mark".toList, "common".toList, ["acme".toList, "dep".toList, "v1".toList], [], ["common".toList], n⟩
    let g : Addr := ⟨"Timestamp".toList, "timestamp".toList, ["google".toList, "protobuf".toList], [], [], n⟩
    str d = "ad_common.Mark".toList ∧ bound (pythonImport d) = "ad_common".toList ∧
    (pythonImport d).package = ["acme".toList, "dep_v1".toList, "types".toList] ∧
    str g = "timestamp_pb2.Timestamp".toList ∧ bound (pythonImport g) = "timestamp_pb2".toList := by decide

/-- the text of the emitted import statement binds `bound`: `[from <package> ]import <module>[ as <alias>][  # type: ignore]`
(over the translation of `Import.__str__`) -/
theorem translated_import_line_shape (alias module : Str) (package : List Str) :
    ∃ pre post, import_str alias module package =
        pre ++ "import ".toList ++ module ++ (if truthy alias then " as ".toList ++ alias else []) ++ post ∧
      (pre = [] ∨ pre = "from ".toList ++ join ['.'] package ++ [' ']) ∧
      (post = [] ∨ post = "  # type: ignore".toList) :=
  import_str_shape alias module package

/-- non-vacuity: the three kinds of line -/
example :
    import_str "ad_common".toList "common".toList ["acme".toList, "dep_v1".toList, "types".toList]
      = "from acme.dep_v1.types import common as ad_common".toList ∧
    import_str [] "timestamp_pb2".toList ["google".toList, "protobuf".toList]
      = "from google.protobuf import timestamp_pb2  # type: ignore".toList ∧
    import_str [] "proto".toList [] = "import proto".toList := by decide

end TranslatedAddress

/-! ## The hand-written import model (Model/Names.lean) agrees with the translation of the current source (Model/AddressT.lean)

`Names.pythonImport`, `PyImport.bound`, `isProtoPlus`, `referenceModule` were written by hand (round 8); the statements below tie them to
`Pinned.Funcs.address_python_import / address_str` as composed in Model/AddressT.lean, under the correspondence `Names.kindOf`
(which branch the address takes), module := `a.module`, alias := `moduleAlias a`. -/
section HandVsTranslated
open GapicModel.PyRt GapicModel.Pinned.Funcs

/-- module and alias of the import -/
theorem hand_python_import_is_translated (a : Model.AddressT.Addr) :
    Model.Names.pythonImport (Model.Names.kindOf a) (String.ofList a.module) (String.ofList (Model.AddressT.moduleAlias a)) =
      ⟨String.ofList (Model.AddressT.pythonImport a).module, String.ofList (Model.AddressT.pythonImport a).alias⟩ := by
  unfold Model.Names.kindOf Model.AddressT.pythonImport address_python_import
  by_cases ht : a.naming.truthy = true
  · by_cases hs : startswith (Model.AddressT.protoPackage a) a.naming.protoPackage = true
    · simp [ht, hs, Model.Names.pythonImport]
    · by_cases hp : Model.AddressT.isProtoPlus a = true
      · simp [ht, hs, hp, Model.Names.pythonImport]
      · simp [ht, hs, hp, Model.Names.pythonImport]
  · simp [ht, Model.Names.pythonImport]

theorem hand_bound_is_translated (a : Model.AddressT.Addr) :
    (Model.Names.pythonImport (Model.Names.kindOf a) (String.ofList a.module) (String.ofList (Model.AddressT.moduleAlias a))).bound =
      String.ofList (Model.AddressT.bound (Model.AddressT.pythonImport a)) := by
  rw [hand_python_import_is_translated]
  unfold Model.Names.PyImport.bound Model.AddressT.bound
  by_cases h : (Model.AddressT.pythonImport a).alias = []
  · simp [h, truthy]
  · have : truthy (Model.AddressT.pythonImport a).alias = true := (Lemmas.AddressT.truthy_iff_len _).mpr h
    simp [h, this]

theorem hand_is_proto_plus_is_translated (a : Model.AddressT.Addr) (hn : Lemmas.AddressT.NamingInv a.naming) :
    Model.Names.isProtoPlus (Model.Names.kindOf a) = Model.AddressT.isProtoPlus a := by
  unfold Model.Names.kindOf
  by_cases ht : a.naming.truthy = true
  · by_cases hs : startswith (Model.AddressT.protoPackage a) a.naming.protoPackage = true
    · simp [ht, hs, Model.Names.isProtoPlus, Model.AddressT.isProtoPlus]
    · by_cases hp : Model.AddressT.isProtoPlus a = true
      · simp [ht, hs, hp, Model.Names.isProtoPlus]
      · simp [ht, hs, hp, Model.Names.isProtoPlus]
  · have ht' : a.naming.truthy = false := by simpa using ht
    have := hn ht'
    simp [ht', Model.Names.isProtoPlus, Model.AddressT.isProtoPlus, this, Lemmas.AddressT.startswith_nil]

/-- the module part of a reference: `str a` starts with the hand model's `referenceModule` -/
theorem hand_reference_module_is_translated (a : Model.AddressT.Addr) (hm : truthy a.module = true) (hn : Lemmas.AddressT.NamingInv a.naming) :
    Model.AddressT.str a = join ['.'] ([(Model.Names.referenceModule (Model.Names.kindOf a) (String.ofList a.module)
      (String.ofList (Model.AddressT.moduleAlias a))).toList] ++ a.parent ++ [a.name]) := by
  rw [← import_binds_reference_name, hand_bound_is_translated, String.toList_ofList]
  exact Lemmas.AddressT.import_binds_str_head a hm hn

end HandVsTranslated

end GapicModel.Props.C12
