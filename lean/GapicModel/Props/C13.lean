import GapicModel.Model.Mock
/-
C13 — the emitted unit-test suite passes against the emitted library.
The clause itself is decided by EXECUTION (pytest on the emitted tests/unit of every generated
library of the conventional profile, DESIGN §8).  What is logic is proved here: the sample requests the
test templates rely on instantiate their path templates (so `transcode` finds a binding and routing
regexes match), with fresh values per wildcard.
-/
namespace GapicModel.Props.C13
open GapicModel.Model.Mock

section Aux

theorem digitChar_no_slash (m : Nat) : digitChar m ≠ '/' := by
  unfold digitChar; split <;> decide

theorem decDigitsAux_no_slash : ∀ (f n : Nat) (acc : Str), '/' ∉ acc → '/' ∉ decDigitsAux f n acc := by
  intro f
  induction f with
  | zero => intro n acc h; simpa [decDigitsAux] using h
  | succ f ih =>
    intro n acc h
    simp only [decDigitsAux]
    have h' : '/' ∉ digitChar (n % 10) :: acc := by
      intro hm
      rcases List.mem_cons.mp hm with h1 | h1
      · exact digitChar_no_slash (n % 10) h1.symm
      · exact h h1
    split
    · exact h'
    · exact ih _ _ h'

theorem sampleName_no_slash (n : Nat) : '/' ∉ sampleName n := by
  unfold sampleName decDigits
  intro h
  rcases List.mem_append.mp h with h1 | h1
  · revert h1; decide
  · exact decDigitsAux_no_slash _ _ [] (by simp) h1

theorem sampleName_ne_nil (n : Nat) : sampleName n ≠ [] := by
  simp [sampleName]

end Aux

/-- **The sample value instantiates its template**: every `*` is replaced by a non-empty slash-free
name, every `**` by a non-empty name, literals are kept — for every template and generator state. -/
theorem sample_matches_template : ∀ (toks : List Tok) (k : Nat), Matches toks (sample k toks).1 := by
  intro toks
  induction toks with
  | nil => intro k; exact Matches.nil
  | cons t r ih =>
    intro k
    cases t with
    | lit cs => exact Matches.lit cs r _ (ih k)
    | star => exact Matches.star _ r _ (sampleName_ne_nil _) (sampleName_no_slash _) (ih (k + 1))
    | dstar => exact Matches.dstar _ r _ (sampleName_ne_nil _) (ih (k + 1))

/-- **Fresh values**: the wildcards of one request get the consecutive sample numbers k+1, k+2, …
(strictly increasing, so pairwise distinct), and the generator ends at k + (number of wildcards). -/
theorem sample_names_fresh : ∀ (toks : List Tok) (k : Nat),
    (sample k toks).2.2 = (List.range (toks.filter (· ≠ .lit ([] : Str)) |>.filter (fun t => match t with | .lit _ => false | _ => true) |>.length)).map (· + k + 1) ∧
    (sample k toks).2.1 = k + (toks.filter (fun t => match t with | .lit _ => false | _ => true)).length := by
  intro toks
  induction toks with
  | nil => intro k; simp [sample]
  | cons t r ih =>
    intro k
    cases t with
    | lit cs =>
      obtain ⟨h1, h2⟩ := ih k
      by_cases hc : cs = []
      · subst hc; simp [sample, h2] at h1 ⊢; exact h1
      · simp [sample, h2, hc] at h1 ⊢; exact h1
    | star =>
      obtain ⟨h1, h2⟩ := ih (k + 1)
      simp only [sample, h2]
      constructor
      · simp at h1 ⊢
        rw [h1, List.range_succ_eq_map]
        simp [Function.comp_def]; intros; omega
      · simp; omega
    | dstar =>
      obtain ⟨h1, h2⟩ := ih (k + 1)
      simp only [sample, h2]
      constructor
      · simp at h1 ⊢
        rw [h1, List.range_succ_eq_map]
        simp [Function.comp_def]; intros; omega
      · simp; omega

/-! ## Non-vacuity -/

example : (sample 0 (tokenize 20 [] "shelves/*/books/**".toList)).1 = "shelves/sample1/books/sample2".toList := by decide

end GapicModel.Props.C13
