import GapicModel.Model.Mock
import GapicModel.Lemmas.C13Mock
/-
C13 — the emitted unit-test suite passes against the emitted library.
The clause itself is decided by EXECUTION (pytest on the emitted tests/unit of every generated
library of the conventional profile, DESIGN §8).  What is logic is proved here: the sample requests the
test templates rely on instantiate their path templates (so `transcode` finds a binding and routing
regexes match), with fresh values per wildcard; the sample request of an http rule, written back into the rule,
instantiates the rule's own path template; the mock values have the Python type of the field kind, lie in the
ranges the emitted assertions rely on, always come out of `mock_value_original_type` (the visited set ends the
recursion) and fit the types they are handed to; `mock_value` is the same for every sufficient recursion depth
and has NO value for a message whose first field is a map back to itself (the real generator raises
RecursionError there: finding `generation:RecursionError@mock_value:map-value-cycle-in-flattened-field`).
Helper lemmas: Lemmas/C13Mock.lean.
-/
namespace GapicModel.Props.C13
open GapicModel.Model.Mock GapicModel.Lemmas.C13Mock

deriving instance DecidableEq for Except

section Aux

theorem digitChar_no_slash (m : Nat) : digitChar m ≠ '/' := by
  unfold digitChar; split <;> decide

theorem decDigitsAux_no_slash : ∀ (f n : Nat) (acc : Str), '/' ∉ acc → '/' ∉ decDigitsAux f n acc := by
  intro f
  induction f with
  | zero => intro n acc h; simpa [decDigitsAux] using h
  | succ f ih =>
    intro n acc h
    simp only [decDigitsAux]
    have h' : '/' ∉ digitChar (n % 10) :: acc := by
      intro hm
      rcases List.mem_cons.mp hm with h1 | h1
      · exact digitChar_no_slash (n % 10) h1.symm
      · exact h h1
    split
    · exact h'
    · exact ih _ _ h'

theorem sampleName_no_slash (n : Nat) : '/' ∉ sampleName n := by
  unfold sampleName decDigits
  intro h
  rcases List.mem_append.mp h with h1 | h1
  · revert h1; decide
  · exact decDigitsAux_no_slash _ _ [] (by simp) h1

theorem sampleName_ne_nil (n : Nat) : sampleName n ≠ [] := by
  simp [sampleName]

end Aux

/-- **The sample value instantiates its template**: every `*` is replaced by a non-empty slash-free
name, every `**` by a non-empty name, literals are kept — for every template and generator state. -/
theorem sample_matches_template : ∀ (toks : List Tok) (k : Nat), Matches toks (sample k toks).1 := by
  intro toks
  induction toks with
  | nil => intro k; exact Matches.nil
  | cons t r ih =>
    intro k
    cases t with
    | lit cs => exact Matches.lit cs r _ (ih k)
    | star => exact Matches.star _ r _ (sampleName_ne_nil _) (sampleName_no_slash _) (ih (k + 1))
    | dstar => exact Matches.dstar _ r _ (sampleName_ne_nil _) (ih (k + 1))

/-- **Fresh values**: the wildcards of one request get the consecutive sample numbers k+1, k+2, …
(strictly increasing, so pairwise distinct), and the generator ends at k + (number of wildcards). -/
theorem sample_names_fresh : ∀ (toks : List Tok) (k : Nat),
    (sample k toks).2.2 = (List.range (toks.filter (· ≠ .lit ([] : Str)) |>.filter (fun t => match t with | .lit _ => false | _ => true) |>.length)).map (· + k + 1) ∧
    (sample k toks).2.1 = k + (toks.filter (fun t => match t with | .lit _ => false | _ => true)).length := by
  intro toks
  induction toks with
  | nil => intro k; simp [sample]
  | cons t r ih =>
    intro k
    cases t with
    | lit cs =>
      obtain ⟨h1, h2⟩ := ih k
      by_cases hc : cs = []
      · subst hc; simp [sample, h2] at h1 ⊢; exact h1
      · simp [sample, h2, hc] at h1 ⊢; exact h1
    | star =>
      obtain ⟨h1, h2⟩ := ih (k + 1)
      simp only [sample, h2]
      constructor
      · simp at h1 ⊢
        rw [h1, List.range_succ_eq_map]
        simp [Function.comp_def]; intros; omega
      · simp; omega
    | dstar =>
      obtain ⟨h1, h2⟩ := ih (k + 1)
      simp only [sample, h2]
      constructor
      · simp at h1 ⊢
        rw [h1, List.range_succ_eq_map]
        simp [Function.comp_def]; intros; omega
      · simp; omega

/-! ## Non-vacuity -/

example : (sample 0 (tokenize 20 [] "shelves/*/books/**".toList)).1 = "shelves/sample1/books/sample2".toList := by decide


/-! ## Mock values (Field.primitive_mock, mock_value_original_type) -/

/-- **Mock values are well-typed for the field kind** (primitives): for every Python type of `Field.type`, field
name and suffix the mock is a value of that Python type. -/
theorem primitive_mock_well_typed (t : PyT) (name : Str) (k : Nat) : primFits t (primitiveMock t name k) = true :=
  primFits_primitiveMock t name k

/-- a float mock `n * 10^-len(str(n))` lies in [0.1, 1) whenever the name sum is positive — never 0.0 (so it is truthy
and `x or None` keeps it) and never 1.0 -/
theorem float_mock_in_unit_interval (name : Str) (k : Nat) (h : 0 < ordSum name + k) :
    ∃ n d, primitiveMock .float name k = .dec n d ∧ n < 10 ^ d ∧ 10 ^ d ≤ 10 * n := by
  refine ⟨ordSum name + k, (decDigits (ordSum name + k)).length, rfl, (decDigits_len _).2.1, ?_⟩
  obtain ⟨h1, _, hlb⟩ := decDigits_len (ordSum name + k)
  have hl := hlb (by omega)
  have hp : 10 ^ (decDigits (ordSum name + k)).length = 10 ^ ((decDigits (ordSum name + k)).length - 1) * 10 := by
    have : (decDigits (ordSum name + k)).length = ((decDigits (ordSum name + k)).length - 1) + 1 := by omega
    rw [this, Nat.pow_succ]; simp
  rw [hp]; omega

example : primitiveMock .float "f_float".toList 0 = .dec 731 3 := by decide

/-- an integer mock of a field with an ASCII name stays inside every protobuf integer type (here: below 2^31) as long
as the name is shorter than 16.9 million characters -/
theorem int_mock_fits_int32 (name : Str) (k : Nat) (hascii : ∀ c ∈ name, c.toNat < 128)
    (hlen : 127 * name.length + k < 2 ^ 31) :
    ∃ i : Nat, primitiveMock .int name k = .int (Int.ofNat i) ∧ i < 2 ^ 31 :=
  ⟨ordSum name + k, rfl, by have := ordSum_le name hascii; omega⟩

example : primitiveMock .int "pages".toList 0 = .int 528 := by decide

/-- the items of a repeated primitive mock are never `None` (the suffixes 1 and 2 make every kind truthy) -/
theorem repeated_items_truthy (t : PyT) (name : Str) (k : Nat) (hk : 0 < k) : orNone (primitiveMock t name k) = primitiveMock t name k :=
  orNone_truthy (primitiveMock_suffix_truthy t name k hk)

/-- an enum mock is the number of a declared value, and a non-zero one whenever the enum has one -/
theorem enum_mock_is_member (vals : List (Str × Int)) (n : Int) (h : enumMockNumber vals = some n) :
    (∃ v ∈ vals, v.2 = n) ∧ ((∃ v ∈ vals, v.2 ≠ 0) → n ≠ 0) := by
  refine ⟨enumMockNumber_mem h, ?_⟩
  intro ⟨w, hw, hw0⟩
  cases vals with
  | nil => cases hw
  | cons v0 r =>
    simp only [enumMockNumber, Option.some.injEq] at h
    cases hf : List.find? (fun v => decide (v.2 ≠ 0)) (v0 :: r) with
    | none =>
      have := List.find?_eq_none.mp hf w hw
      simp at this; exact absurd this hw0
    | some x =>
      rw [hf] at h
      have hx := List.find?_some hf
      simp only [Option.getD_some] at h
      rw [← h]; simpa using hx

example : enumMockNumber [("A".toList, 0), ("B".toList, 0), ("C".toList, -3), ("D".toList, 10)] = some (-3) := by decide

/-- **`mock_value_original_type` always ends** within `env.length + 1` levels: every descent into a message adds
that message to the visited set (for every schema protoc can produce: referenced messages exist, enums have a
value).  This is the termination argument of the Python recursion, checked. -/
theorem mock_original_terminates (env : Env) (f : Field) (hc : closed env = true) (hf : fieldOk env f = true) :
    ∃ v, mockOrig env f = .ok v := by
  obtain ⟨v, vis', h, _, _⟩ := mockOrigF_ok (env.length + 1) env [] f hc hf (inv_nil env) (by simp)
  exact ⟨v, by simp [mockOrig, h]⟩

/-- **Mock values are well-typed for the field kind** (all kinds): whatever `mock_value_original_type` returns fits
the field it was computed for — a value of the primitive's Python type or `None`, a declared enum number, a dict
whose keys are fields of the message with fitting values, a list of those for a repeated field — with ONE quirk kept
visible: a repeated message field whose message was already visited gets `{}` instead of a list. -/
theorem mock_original_fits (env : Env) (f : Field) (v : PyVal) (hd : distinctNames env = true)
    (h : mockOrig env f = .ok v) : fits false env v f.ty f.repeated = true := by
  unfold mockOrig at h
  cases hm : mockOrigF (env.length + 1) env [] f with
  | error e => rw [hm] at h; simp at h
  | ok p =>
    obtain ⟨v', vis'⟩ := p
    rw [hm] at h
    simp only [Except.ok.injEq] at h
    subst h
    exact mockOrigF_fits _ env [] f v' vis' hd hm

/-- `Chapter { string title = 1; repeated Chapter sub = 2; }` and a field `repeated Chapter chapters` -/
def chapterEnv : Env := [⟨"Chapter".toList, 0, [⟨"title".toList, 0, .prim .str, false⟩, ⟨"sub".toList, 1, .msg 0, true⟩], false, false⟩]
def chaptersField : Field := ⟨"chapters".toList, 2, .msg 0, true⟩

example : closed chapterEnv = true ∧ fieldOk chapterEnv chaptersField = true ∧ distinctNames chapterEnv = true := by decide

/-- the quirk is real: under the strict reading (a repeated field takes a list) the mock of `chapters` does not fit —
its inner `sub` is `{}`.  Run on the real code: `[{'title': 'title_value', 'sub': {}}]`, which proto-plus accepts. -/
theorem mock_original_strict_counterexample :
    mockOrig chapterEnv chaptersField =
      .ok (.lcons (.dcons "title".toList (.str "title_value".toList) (.dcons "sub".toList .dnil .dnil)) .lnil) ∧
    fits true chapterEnv (.lcons (.dcons "title".toList (.str "title_value".toList) (.dcons "sub".toList .dnil .dnil)) .lnil)
      (.msg 0) true = false := by
  refine ⟨by decide, ?_⟩
  simp [fits, fitsList, fitsOne, fitsDict, chapterEnv, findField]

/-! ## Sample requests of an http rule (HttpRule.sample_request) -/

section AuxSample

theorem getLast_none_of_not_mem (p : Str) : ∀ (l : List (Str × PyVal)), p ∉ l.map (·.1) → getLast p l = none := by
  intro l
  induction l with
  | nil => intro _; rfl
  | cons a r ih =>
    intro h
    obtain ⟨q, v⟩ := a
    simp only [List.map_cons, List.mem_cons, not_or] at h
    simp only [getLast, ih h.2]
    simp [Ne.symm h.1]

theorem sampleRequest_paths : ∀ (vars : List PVar) (k : Nat), (sampleRequest k vars).map (·.1) = vars.map (·.path) := by
  intro vars
  induction vars with
  | nil => intro k; rfl
  | cons v r ih =>
    intro k
    simp only [sampleRequest]
    split <;> simp [ih]

theorem fill_matches (req : Str → Option Str) : ∀ (pieces : List Piece),
    (∀ p t, Piece.var p t ∈ pieces → ∃ s, req p = some s ∧ Matches (tmplToks t) s) →
    ∃ url, fill req pieces = some url ∧ UrlMatches pieces url := by
  intro pieces
  induction pieces with
  | nil => intro _; exact ⟨[], rfl, UrlMatches.nil⟩
  | cons pc r ih =>
    intro h
    obtain ⟨u, hu, hm⟩ := ih (fun p t hp => h p t (by simp [hp]))
    cases pc with
    | lit cs => exact ⟨cs ++ u, by simp [fill, hu], UrlMatches.lit cs r u hm⟩
    | var p t =>
      obtain ⟨s', hs, hms⟩ := h p t (by simp)
      exact ⟨s' ++ u, by simp [fill, hs, hu], UrlMatches.var p t s' r u hms hm⟩

theorem mem_pieceVars : ∀ (pieces : List Piece) (p : Str) (t : Option Str), Piece.var p t ∈ pieces → (p, t) ∈ pieceVars pieces := by
  intro pieces
  induction pieces with
  | nil => intro p t h; cases h
  | cons pc r ih =>
    intro p t h
    cases pc with
    | lit cs =>
      simp only [pieceVars]
      rcases List.mem_cons.mp h with h1 | h1
      · cases h1
      · exact ih p t h1
    | var q u =>
      simp only [pieceVars, List.mem_cons]
      rcases List.mem_cons.mp h with h1 | h1
      · left; cases h1; rfl
      · right; exact ih p t h1

end AuxSample

/-- **What each path variable of a rule receives**: with pairwise distinct variable paths, a string variable holds its own
template instantiated with fresh sample names (the generator state `k'` it saw), every other kind holds the field's
`mock_value_original_type` — and does not consume a sample name. -/
theorem sample_request_lookup : ∀ (vars : List PVar) (k : Nat), (vars.map (·.path)).Nodup → ∀ v ∈ vars,
    (v.isStr = true → ∃ k', getLast v.path (sampleRequest k vars) = some (.str (sample k' (tmplToks v.tmpl)).1)) ∧
    (v.isStr = false → getLast v.path (sampleRequest k vars) = some v.other) := by
  intro vars
  induction vars with
  | nil => intro k _ v hv; cases hv
  | cons w r ih =>
    intro k hnd v hv
    simp only [List.map_cons, List.nodup_cons] at hnd
    rcases List.mem_cons.mp hv with h | h
    · subst h
      have hnone : ∀ k2, getLast v.path (sampleRequest k2 r) = none := fun k2 =>
        getLast_none_of_not_mem _ _ (by rw [sampleRequest_paths]; exact hnd.1)
      constructor
      · intro hs; exact ⟨k, by simp [sampleRequest, hs, getLast, hnone]⟩
      · intro hs; simp [sampleRequest, hs, getLast, hnone]
    · have hne : w.path ≠ v.path := by
        intro he; apply hnd.1; rw [he]; exact List.mem_map.mpr ⟨v, h, rfl⟩
      by_cases hw : w.isStr = true
      · obtain ⟨i1, i2⟩ := ih (sample k (tmplToks w.tmpl)).2.1 hnd.2 v h
        constructor
        · intro hs; obtain ⟨k', hk'⟩ := i1 hs; exact ⟨k', by simp [sampleRequest, hw, getLast, hk']⟩
        · intro hs; simp [sampleRequest, hw, getLast, i2 hs]
      · obtain ⟨i1, i2⟩ := ih k hnd.2 v h
        constructor
        · intro hs; obtain ⟨k', hk'⟩ := i1 hs; exact ⟨k', by simp [sampleRequest, hw, getLast, hk']⟩
        · intro hs; simp [sampleRequest, hw, getLast, i2 hs]

/-- the variables of a rule, all bound to string fields -/
def strVars (pieces : List Piece) : List PVar := (pieceVars pieces).map fun v => ⟨v.1, v.2, true, .none⟩

/-- **The sample request for an http rule matches the rule's own path template**: for every rule whose variables have
pairwise distinct field paths (and are strings), writing the request's values back into the rule succeeds and yields a
URL in which every variable's text matches that variable's own template — so `transcode` selects the binding and
`path_template.validate(rule, url)` holds in the emitted REST tests. -/
theorem http_sample_request_fills_rule (pieces : List Piece) (hnd : ((pieceVars pieces).map (·.1)).Nodup) :
    ∃ url, fill (fun p => strOf (getLast p (sampleRequest 0 (strVars pieces)))) pieces = some url ∧
      UrlMatches pieces url := by
  apply fill_matches
  intro p t hp
  have hmem : (⟨p, t, true, .none⟩ : PVar) ∈ strVars pieces :=
    List.mem_map.mpr ⟨(p, t), mem_pieceVars pieces p t hp, rfl⟩
  have hnd' : ((strVars pieces).map (·.path)).Nodup := by
    simpa [strVars, List.map_map, Function.comp_def] using hnd
  obtain ⟨k', hk'⟩ := (sample_request_lookup (strVars pieces) 0 hnd' _ hmem).1 rfl
  have hk2 : getLast p (sampleRequest 0 (strVars pieces)) = some (.str (sample k' (tmplToks t)).1) := hk'
  refine ⟨(sample k' (tmplToks t)).1, ?_, sample_matches_template _ _⟩
  show strOf (getLast p (sampleRequest 0 (strVars pieces))) = some (sample k' (tmplToks t)).1
  rw [hk2]; rfl

example : parseUri "/v1/{name=shelves/*/books/**}/to/{book.shelf}:move".toList =
    [.lit "/v1/".toList, .var "name".toList (some "shelves/*/books/**".toList), .lit "/to/".toList,
     .var "book.shelf".toList none, .lit ":move".toList] := by decide

example : fill (fun p => strOf (getLast p (sampleRequest 0 (strVars (parseUri "/v1/{name=shelves/*/books/**}/to/{book.shelf}:move".toList)))))
    (parseUri "/v1/{name=shelves/*/books/**}/to/{book.shelf}:move".toList) =
    some "/v1/shelves/sample1/books/sample2/to/sample3:move".toList := by decide

/-- the distinctness hypothesis is needed: a rule that binds one field twice keeps only the LAST value, which does not
match the first template (run on the real `HttpRule.sample_request`: `{'name': 'b/sample2'}`; such a rule is not a
valid google.api.http pattern) -/
theorem http_sample_duplicate_var_counterexample :
    fill (fun p => strOf (getLast p (sampleRequest 0 (strVars (parseUri "/{name=a/*}/{name=b/*}".toList)))))
      (parseUri "/{name=a/*}/{name=b/*}".toList) = some "/b/sample2/b/sample2".toList := by decide

/-! ## `Field.mock_value` (expression form) -/

/-- `message Node { map<string, Node> children = 1; }` as the loader holds it, and a field of type Node -/
def nodeEnv : Env :=
  [⟨"lib.Node".toList, 0, [⟨"children".toList, 0, .msg 1, true⟩], false, false⟩,
   ⟨"lib.Node.ChildrenEntry".toList, 1, [⟨"key".toList, 1, .prim .str, false⟩, ⟨"value".toList, 2, .msg 0, false⟩], true, false⟩]
def nodeField : Field := ⟨"node".toList, 3, .msg 0, false⟩
def nodeKeyField : Field := ⟨"key".toList, 1, .prim .str, false⟩
def nodeValueField : Field := ⟨"value".toList, 2, .msg 0, false⟩

section AuxNode

theorem node_chain (rec : Field → Except MockErr MockExpr)
    (hk : rec nodeKeyField = .error .fuel ∨ ∃ k, rec nodeKeyField = .ok k)
    (hv : rec nodeValueField = .error .fuel) :
    chainF rec nodeEnv (totalFields nodeEnv + 2) [] nodeField = .error .fuel ∧
    chainF rec nodeEnv (totalFields nodeEnv + 2) [] nodeValueField = .error .fuel := by
  have h5 : totalFields nodeEnv + 2 = 5 := by decide
  rw [h5]
  rcases hk with hk | ⟨k, hk⟩ <;>
    simp_all [chainF, nodeEnv, nodeField, nodeKeyField, nodeValueField, findField]

theorem node_key (rec : Field → Except MockErr MockExpr) :
    ∃ k, chainF rec nodeEnv (totalFields nodeEnv + 2) [] nodeKeyField = .ok k := by
  have h5 : totalFields nodeEnv + 2 = 5 := by decide
  rw [h5]
  simp [chainF, nodeKeyField, wrapList]

end AuxNode

/-- **`mock_value` has no value for a message whose first field is a map back to the message** — at every recursion
depth: the map branch of `inner_mock` asks for the `mock_value` of the map's value field with a FRESH visited set.
The real generator raises RecursionError for such a flattened field (finding, corpus/C13/recursive_map_first_field.json). -/
theorem mock_value_self_map_counterexample : ∀ d, mockValueF d nodeEnv nodeField = .error .fuel ∧
    mockValueF d nodeEnv nodeValueField = .error .fuel := by
  intro d
  suffices h : (mockValueF d nodeEnv nodeField = .error .fuel ∧ mockValueF d nodeEnv nodeValueField = .error .fuel) ∧
      (mockValueF d nodeEnv nodeKeyField = .error .fuel ∨ ∃ k, mockValueF d nodeEnv nodeKeyField = .ok k) from h.1
  induction d with
  | zero => exact ⟨⟨rfl, rfl⟩, Or.inl rfl⟩
  | succ d ih =>
    exact ⟨node_chain (mockValueF d nodeEnv) ih.2 ih.1.2, Or.inr (node_key (mockValueF d nodeEnv))⟩

/-- while the original-type mock of the same field ends (the map is cut to `{}`) -/
example : mockOrig nodeEnv nodeField = .ok (.dcons "children".toList .dnil .dnil) := by decide

/-- the loop of `mock_value` on ordinary shapes: constructor chain, enum member, map literal, list -/
example : mockValueF 3
    [⟨"lib.Book".toList, 0, [⟨"author".toList, 0, .msg 1, false⟩], false, false⟩,
     ⟨"lib.Author".toList, 1, [⟨"kind".toList, 1, .enum "lib.Kind".toList [("K0".toList, 0), ("K1".toList, 1)], true⟩], false, false⟩]
    ⟨"book".toList, 2, .msg 0, true⟩ =
    .ok (.list1 (.ctor "lib.Book".toList "author".toList (.ctor "lib.Author".toList "kind".toList
      (.list1 (.enumMember "lib.Kind".toList "K1".toList))))) := by decide

/-- **`mock_value` does not depend on the recursion depth once it has a value**: whatever depth first yields a value,
every larger depth yields the same one (so "the" mock value of a field is well defined, and the interpreter's recursion
limit can only turn a value into a RecursionError, never into another value). -/
theorem mock_value_depth_independent (env : Env) (f : Field) (e : MockExpr) (d : Nat)
    (h : mockValueF d env f = .ok e) : ∀ n, mockValueF (d + n) env f = .ok e := by
  intro n
  induction n with
  | zero => exact h
  | succ n ih => exact mockValueF_mono (d + n) env f e ih

example : mockValueF 1 chapterEnv chaptersField =
    .ok (.list1 (.ctor "Chapter".toList "title".toList (.lit (.str "title_value".toList)))) := by decide

end GapicModel.Props.C13
