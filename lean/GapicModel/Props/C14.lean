import GapicModel.Model.Samples
import GapicModel.Pinned.Regexes
import GapicModel.Pinned.CharClass
import GapicModel.Pinned.Funcs
import GapicModel.Pinned.Tables
/-
C14 — generated samples are valid, executable and consistent with their metadata (DESIGN §7.14).
Property theorems about `Model/Samples.lean` (+ helper lemmas in `section Aux`), non-vacuity examples,
and `_counterexample` theorems at the points where the real code violates the statement
(each of them is replayed on the real generator by harness/props/c14.py).  No Mathlib.
-/
namespace GapicModel.Props.C14
open GapicModel.Regex GapicModel.Model.Samples

/-- the names that go into a region tag contain no `_` (the tag format is not injective otherwise) -/
def NoUs (s : List Char) : Prop := '_' ∉ s

instance (s : List Char) : Decidable (NoUs s) := inferInstanceAs (Decidable ('_' ∉ s))

section Aux

theorem sampleTransports_eq (o : Opts) :
    sampleTransports o = if o.grpc then [.grpc, .grpcAsync] else if o.rest then [.rest] else [] := by
  rcases o with ⟨g, r⟩
  cases g <;> cases r <;> rfl

theorem mem_sampleSpecs {v : List Char} {o : Opts} {svcs : List Service} {sp : Spec} :
    sp ∈ sampleSpecs v o svcs ↔
      ∃ s ∈ svcs, ∃ t ∈ sampleTransports o, ∃ r ∈ s.rpcs, sp = mkSpec v s t r := by
  simp only [sampleSpecs, serviceSpecs, List.mem_flatMap, List.mem_map]
  constructor
  · rintro ⟨s, hs, t, ht, r, hr, rfl⟩
    exact ⟨s, hs, t, ht, r, hr, rfl⟩
  · rintro ⟨s, hs, t, ht, r, hr, rfl⟩
    exact ⟨s, hs, t, ht, r, hr, rfl⟩

/-- splitting at the first `_` is unique when the part before it has none -/
theorem split_us : ∀ (a a' b b' : List Char), NoUs a → NoUs a' →
    a ++ us ++ b = a' ++ us ++ b' → a = a' ∧ b = b' := by
  intro a
  induction a with
  | nil =>
    intro a' b b' _ ha' h
    cases a' with
    | nil => simpa [us] using h
    | cons c cs =>
      simp only [us, List.nil_append, List.cons_append, List.cons.injEq] at h
      exact absurd (by simp [← h.1]) ha'
  | cons c cs ih =>
    intro a' b b' ha ha' h
    cases a' with
    | nil =>
      simp only [us, List.nil_append, List.cons_append, List.cons.injEq] at h
      exact absurd (by simp [h.1]) ha
    | cons c' cs' =>
      simp only [List.cons_append, List.cons.injEq] at h
      have hcs : NoUs cs := fun hh => ha (List.mem_cons_of_mem _ hh)
      have hcs' : NoUs cs' := fun hh => ha' (List.mem_cons_of_mem _ hh)
      obtain ⟨h1, h2⟩ := ih cs' b b' hcs hcs' h.2
      exact ⟨by rw [h.1, h1], h2⟩

theorem tail_inj (t1 t2 : Transport) (i1 i2 : Bool)
    (h : syncOrAsync t1 ++ (if i1 then "_internal".toList else []) =
         syncOrAsync t2 ++ (if i2 then "_internal".toList else [])) :
    syncOrAsync t1 = syncOrAsync t2 ∧ i1 = i2 := by
  cases t1 <;> cases t2 <;> cases i1 <;> cases i2 <;> simp [syncOrAsync] at h ⊢

theorem noUs_generated : NoUs "generated".toList := by decide

/-- the region-tag format is injective on `_`-free components -/
theorem regionTag_inj {sh1 sh2 v s1 s2 r1 r2 : List Char} {t1 t2 : Transport} {i1 i2 : Bool}
    (hsh1 : NoUs sh1) (hsh2 : NoUs sh2) (hv : NoUs v) (hs1 : NoUs s1) (hs2 : NoUs s2)
    (hr1 : NoUs r1) (hr2 : NoUs r2)
    (h : regionTag sh1 v s1 r1 t1 i1 = regionTag sh2 v s2 r2 t2 i2) :
    sh1 = sh2 ∧ s1 = s2 ∧ r1 = r2 ∧ syncOrAsync t1 = syncOrAsync t2 ∧ i1 = i2 := by
  unfold regionTag at h
  obtain ⟨e1, h⟩ := split_us _ _ _ _ hsh1 hsh2 h
  obtain ⟨_, h⟩ := split_us _ _ _ _ hv hv h
  obtain ⟨_, h⟩ := split_us _ _ _ _ noUs_generated noUs_generated h
  obtain ⟨e2, h⟩ := split_us _ _ _ _ hs1 hs2 h
  obtain ⟨e3, h⟩ := split_us _ _ _ _ hr1 hr2 h
  obtain ⟨e4, e5⟩ := tail_inj _ _ _ _ h
  exact ⟨e1, e2, e3, e4, e5⟩

theorem sampleTransports_sync_inj (o : Opts) (t1 t2 : Transport)
    (h1 : t1 ∈ sampleTransports o) (h2 : t2 ∈ sampleTransports o)
    (h : syncOrAsync t1 = syncOrAsync t2) : t1 = t2 := by
  rcases o with ⟨g, r⟩
  cases g <;> cases r <;> cases t1 <;> cases t2 <;>
    simp_all [sampleTransports, clients, syncOrAsync]

theorem sampleTransports_nodup (o : Opts) : (sampleTransports o).Nodup := by
  rcases o with ⟨g, r⟩
  cases g <;> cases r <;> decide

/-- among rpcs with pairwise distinct names, filtering by the name of a member returns that member -/
theorem filter_rpc (v : List Char) (s : Service) (t : Transport) (p : Spec → Bool) (r : Rpc) :
    ∀ (rpcs : List Rpc), (rpcs.map (·.name)).Nodup → r ∈ rpcs →
    (∀ r' : Rpc, p (mkSpec v s t r') = decide (r'.name = r.name)) →
    (rpcs.map (mkSpec v s t)).filter p = [mkSpec v s t r] := by
  intro rpcs
  induction rpcs with
  | nil => intro _ h; cases h
  | cons a rest ih =>
    intro hnd hmem hp
    simp only [List.map_cons, List.nodup_cons, List.mem_map, not_exists, not_and] at hnd
    simp only [List.map_cons, List.filter_cons, hp a]
    by_cases ha : a.name = r.name
    · simp only [ha, decide_true, if_true]
      have hrest : (rest.map (mkSpec v s t)).filter p = [] := by
        rw [List.filter_eq_nil_iff]
        intro x hx
        simp only [List.mem_map] at hx
        obtain ⟨r', hr', rfl⟩ := hx
        rw [hp r']
        simp only [decide_eq_true_eq]
        intro hh
        exact hnd.1 r' hr' (by rw [hh, ha])
      have har : a = r := by
        rcases List.mem_cons.mp hmem with h | h
        · exact h.symm
        · exact absurd ha.symm (fun hh => hnd.1 r h hh)
      rw [hrest, har]
    · have hr : r ∈ rest := by
        rcases List.mem_cons.mp hmem with h | h
        · exact absurd (by rw [h]) ha
        · exact h
      simp only [ha, decide_false, Bool.false_eq_true, if_false]
      exact ih hnd.2 hr hp

end Aux

/-! ### sample specs -/

/-- `specs_exact`: for every RPC of every service, the specs generated for it carry exactly the
    transports `grpc, grpc-async` when gRPC is enabled, only `rest` for a REST-only library, and
    nothing otherwise — one synchronous sample and, with gRPC, one asyncio sample. -/
theorem specs_exact (v : List Char) (o : Opts) (svcs : List Service)
    (hs : (svcs.map (·.name)).Nodup) (s : Service) (hmem : s ∈ svcs)
    (hr : (s.rpcs.map (·.name)).Nodup) (r : Rpc) (hrm : r ∈ s.rpcs) :
    ((sampleSpecs v o svcs).filter (fun sp => decide (sp.service = s.name ∧ sp.rpc = r.name))).map (·.transport)
      = if o.grpc then [.grpc, .grpcAsync] else if o.rest then [.rest] else [] := by
  rw [← sampleTransports_eq]
  generalize hp : (fun sp : Spec => decide (sp.service = s.name ∧ sp.rpc = r.name)) = p
  have hp' : ∀ sp, p sp = decide (sp.service = s.name ∧ sp.rpc = r.name) := fun sp => by rw [← hp]
  -- the specs of the service itself
  have own : ∀ ts : List Transport,
      ((ts.flatMap fun t => s.rpcs.map (mkSpec v s t)).filter p).map (·.transport) = ts := by
    intro ts
    induction ts with
    | nil => rfl
    | cons t ts ih =>
      simp only [List.flatMap_cons, List.filter_append, List.map_append]
      rw [filter_rpc v s t p r s.rpcs hr hrm (fun r' => by simp [hp', mkSpec]), ih]
      rfl
  -- the specs of a service with another name
  have other : ∀ s' : Service, s'.name ≠ s.name → (serviceSpecs v o s').filter p = [] := by
    intro s' hne
    rw [List.filter_eq_nil_iff]
    intro x hx
    simp only [serviceSpecs, List.mem_flatMap, List.mem_map] at hx
    obtain ⟨t, _, r', _, rfl⟩ := hx
    simp [hp', mkSpec, hne]
  unfold sampleSpecs
  induction svcs with
  | nil => cases hmem
  | cons a rest ih =>
    simp only [List.map_cons, List.nodup_cons, List.mem_map, not_exists, not_and] at hs
    simp only [List.flatMap_cons, List.filter_append, List.map_append]
    rcases List.mem_cons.mp hmem with h | h
    · subst h
      have hrest : (rest.flatMap (serviceSpecs v o)).filter p = [] := by
        rw [List.filter_flatMap]
        simp only [List.flatMap_eq_nil_iff]
        intro s' hs'
        exact other s' (fun hh => hs.1 s' hs' hh)
      rw [hrest]
      simp only [List.map_nil, List.append_nil]
      exact own (sampleTransports o)
    · have hne : a.name ≠ s.name := fun hh => hs.1 s h hh.symm
      rw [other a hne]
      simp only [List.map_nil, List.nil_append]
      exact ih hs.2 h

example : (sampleSpecs "v1".toList ⟨true, true⟩ [⟨"Library".toList, "lib".toList, [⟨"GetBook".toList, false⟩]⟩]).map
    (fun sp => (sp.transport, sp.regionTag))
    = [(.grpc, "lib_v1_generated_Library_GetBook_sync".toList),
       (.grpcAsync, "lib_v1_generated_Library_GetBook_async".toList)] := by
  decide +kernel

/-- `region_tag_format`: every generated spec carries
    `<host shortname>_<version>_generated_<Service>_<Rpc>_<sync|async>` (`_internal` appended for
    selectively-hidden methods), and the last component is `async` exactly for the asyncio transport. -/
theorem region_tag_format (v : List Char) (o : Opts) (svcs : List Service) (sp : Spec)
    (h : sp ∈ sampleSpecs v o svcs) :
    ∃ s ∈ svcs, ∃ r ∈ s.rpcs, sp.service = s.name ∧ sp.rpc = r.name ∧
      sp.regionTag = s.shortname ++ us ++ v ++ us ++ "generated".toList ++ us ++ s.name ++ us ++ r.name ++ us ++
        (if sp.transport = .grpcAsync then "async".toList else "sync".toList) ++
        (if r.internal then "_internal".toList else []) := by
  obtain ⟨s, hs, t, _, r, hr, rfl⟩ := mem_sampleSpecs.mp h
  refine ⟨s, hs, r, hr, rfl, rfl, ?_⟩
  cases t <;> simp only [mkSpec, regionTag, syncOrAsync, List.append_assoc, reduceCtorEq, ↓reduceIte]

/-- `region_tags_unique`: when host short names, the version, service and RPC names contain no `_`,
    service names are pairwise distinct and so are the RPC names of each service, no two samples of
    the API share a region tag. -/
theorem region_tags_unique (v : List Char) (o : Opts) (svcs : List Service)
    (hv : NoUs v)
    (hnames : ∀ s ∈ svcs, NoUs s.shortname ∧ NoUs s.name ∧ ∀ r ∈ s.rpcs, NoUs r.name)
    (hs : (svcs.map (·.name)).Nodup)
    (hr : ∀ s ∈ svcs, (s.rpcs.map (·.name)).Nodup) :
    ((sampleSpecs v o svcs).map (·.regionTag)).Nodup := by
  unfold List.Nodup
  rw [List.pairwise_map]
  unfold sampleSpecs
  rw [List.pairwise_flatMap]
  constructor
  · -- inside one service
    intro s hsm
    obtain ⟨hsh, hsn, hrn⟩ := hnames s hsm
    unfold serviceSpecs
    rw [List.pairwise_flatMap]
    constructor
    · intro t _
      rw [List.pairwise_map]
      have := hr s hsm
      unfold List.Nodup at this
      rw [List.pairwise_map] at this
      refine List.Pairwise.imp_of_mem ?_ this
      intro a b ha hb hab htag
      simp only [mkSpec] at htag
      exact hab (regionTag_inj hsh hsh hv hsn hsn (hrn a ha) (hrn b hb) htag).2.2.1
    · have := sampleTransports_nodup o
      unfold List.Nodup at this
      refine List.Pairwise.imp_of_mem ?_ this
      intro t1 t2 ht1 ht2 hne x hx y hy htag
      simp only [List.mem_map] at hx hy
      obtain ⟨r1, hr1, rfl⟩ := hx
      obtain ⟨r2, hr2, rfl⟩ := hy
      simp only [mkSpec] at htag
      have := (regionTag_inj hsh hsh hv hsn hsn (hrn r1 hr1) (hrn r2 hr2) htag).2.2.2.1
      exact hne (sampleTransports_sync_inj o t1 t2 ht1 ht2 this)
  · -- across services
    unfold List.Nodup at hs
    rw [List.pairwise_map] at hs
    refine List.Pairwise.imp_of_mem ?_ hs
    intro s1 s2 hs1 hs2 hne x hx y hy htag
    simp only [serviceSpecs, List.mem_flatMap, List.mem_map] at hx hy
    obtain ⟨t1, _, r1, hr1, rfl⟩ := hx
    obtain ⟨t2, _, r2, hr2, rfl⟩ := hy
    obtain ⟨hsh1, hsn1, hrn1⟩ := hnames s1 hs1
    obtain ⟨hsh2, hsn2, hrn2⟩ := hnames s2 hs2
    simp only [mkSpec] at htag
    exact hne (regionTag_inj hsh1 hsh2 hv hsn1 hsn2 (hrn1 r1 hr1) (hrn2 r2 hr2) htag).2.1

example : NoUs "v1".toList ∧ NoUs "lib".toList ∧ NoUs "Library".toList ∧ NoUs "GetBook".toList := by decide

/-- without the `_`-freeness hypothesis the format is not injective: service `A_B` with RPC `C` and
    service `A` with RPC `B_C` get the same tag (replayed on the real generator: two metadata entries
    with the same regionTag, files disambiguated by a hash suffix). -/
theorem region_tags_unique_counterexample :
    ¬ ((sampleSpecs "v1".toList ⟨true, false⟩
          [⟨"A_B".toList, "lib".toList, [⟨"C".toList, false⟩]⟩,
           ⟨"A".toList, "lib".toList, [⟨"B_C".toList, false⟩]⟩]).map (·.regionTag)).Nodup := by
  decide

/-! ### calling form -/

/-- `calling_form_total`: `CallingForm.method_default` is a total decision list — LRO first, then
    paged, then the three streaming forms, else plain unary; every method gets exactly one form. -/
theorem calling_form_total (m : MethodShape) :
    (callingForm m = .longRunningRequestPromise ↔ m.lro = true) ∧
    (callingForm m = .requestPagedAll ↔ m.lro = false ∧ m.paged = true) ∧
    (callingForm m = .requestStreamingBidi ↔
        m.lro = false ∧ m.paged = false ∧ m.clientStreaming = true ∧ m.serverStreaming = true) ∧
    (callingForm m = .requestStreamingClient ↔
        m.lro = false ∧ m.paged = false ∧ m.clientStreaming = true ∧ m.serverStreaming = false) ∧
    (callingForm m = .requestStreamingServer ↔
        m.lro = false ∧ m.paged = false ∧ m.clientStreaming = false ∧ m.serverStreaming = true) ∧
    (callingForm m = .request ↔
        m.lro = false ∧ m.paged = false ∧ m.clientStreaming = false ∧ m.serverStreaming = false) := by
  rcases m with ⟨a, b, c, d⟩
  cases a <;> cases b <;> cases c <;> cases d <;> decide

/-! ### segments -/

section Aux

theorem go_append (a b : List Kind) : ∀ (i : Nat) (s : Segs),
    go i (a ++ b) s = go (i + a.length) b (go i a s) := by
  induction a with
  | nil => intro i s; simp [go]
  | cons k ks ih =>
    intro i s
    simp only [List.cons_append, go, List.length_cons]
    rw [ih]
    congr 1
    omega

/-- lines that are not START/END tags leave FULL and SHORT alone -/
theorem go_noTag (ks : List Kind) : ∀ (i : Nat) (s : Segs), (∀ k ∈ ks, k.isTag = false) →
    (go i ks s).full = s.full ∧ (go i ks s).short = s.short := by
  induction ks with
  | nil => intro i s _; simp [go]
  | cons k ks ih =>
    intro i s h
    have hk := h k (List.mem_cons_self)
    have := ih (i + 1) (step i k s) (fun k' hk' => h k' (List.mem_cons_of_mem _ hk'))
    simp only [go]
    rw [this.1, this.2]
    cases k <;> simp_all [step, Kind.isTag]

/-- lines that are not marker comments leave the four inner segments alone -/
theorem go_noMarker (ks : List Kind) : ∀ (i : Nat) (s : Segs), (∀ k ∈ ks, k.isMarker = false) →
    (go i ks s).clientInit = s.clientInit ∧ (go i ks s).requestInit = s.requestInit ∧
    (go i ks s).requestExec = s.requestExec ∧ (go i ks s).responseHandling = s.responseHandling := by
  induction ks with
  | nil => intro i s _; simp [go]
  | cons k ks ih =>
    intro i s h
    have hk := h k (List.mem_cons_self)
    have := ih (i + 1) (step i k s) (fun k' hk' => h k' (List.mem_cons_of_mem _ hk'))
    simp only [go]
    rw [this.1, this.2.1, this.2.2.1, this.2.2.2]
    cases k <;> simp_all [step, Kind.isMarker]

theorem pySlice_mid {α} (pre body post : List α) :
    pySlice (pre ++ body ++ post) (pre.length : Int) ((pre.length + body.length : Nat) : Int) = body := by
  unfold pySlice pyBound
  have h1 : ¬ ((pre.length : Int) < 0) := by omega
  have h2 : ¬ (((pre.length + body.length : Nat) : Int) < 0) := by omega
  simp only [h1, h2, if_false, Int.toNat_natCast, List.length_append]
  have e1 : min pre.length (pre.length + body.length + post.length) = pre.length := by omega
  have e2 : min (pre.length + body.length) (pre.length + body.length + post.length) = pre.length + body.length := by omega
  rw [e1, e2, List.append_assoc, List.drop_left' rfl]
  have : pre.length + body.length - pre.length = body.length := by omega
  rw [this, List.take_left' rfl]

end Aux

/-- FULL (and SHORT) of a sample with one START line and one END line: the line after the START tag
    to the line before the END tag (kind level). -/
theorem full_segment (pre body post : List Kind)
    (hpre : ∀ k ∈ pre, k.isTag = false) (hbody : ∀ k ∈ body, k.isTag = false)
    (hpost : ∀ k ∈ post, k.isTag = false) :
    let s := parseKinds (pre ++ .start :: body ++ .stop :: post)
    s.full = ⟨pre.length + 2, pre.length + body.length + 1⟩ ∧ s.short = s.full := by
  intro s
  have hs : s = go 1 (pre ++ ([Kind.start] ++ (body ++ ([Kind.stop] ++ post))))
      (initSegs (pre ++ .start :: body ++ .stop :: post).length) := by
    simp [s, parseKinds]
  rw [hs, go_append, go_append, go_append, go_append]
  generalize initSegs _ = s0
  obtain ⟨p1, p2⟩ := go_noTag pre 1 s0 hpre
  generalize hs1 : go 1 pre s0 = s1 at p1 p2
  have q : go (1 + pre.length) [Kind.start] s1 = step (1 + pre.length) .start s1 := rfl
  rw [q]
  generalize hs2 : step (1 + pre.length) .start s1 = s2
  have f2 : s2.full.start = pre.length + 2 ∧ s2.short.start = pre.length + 2 := by
    rw [← hs2]; simp [step]; omega
  obtain ⟨b1, b2⟩ := go_noTag body (1 + pre.length + [Kind.start].length) s2 hbody
  generalize hs3 : go (1 + pre.length + [Kind.start].length) body s2 = s3 at b1 b2
  have q2 : go (1 + pre.length + [Kind.start].length + body.length) [Kind.stop] s3
      = step (1 + pre.length + [Kind.start].length + body.length) .stop s3 := rfl
  rw [q2]
  generalize hs4 : step (1 + pre.length + [Kind.start].length + body.length) .stop s3 = s4
  obtain ⟨c1, c2⟩ := go_noTag post (1 + pre.length + [Kind.start].length + body.length + [Kind.stop].length) s4 hpost
  rw [c1, c2, ← hs4]
  simp only [step, List.length_cons, List.length_nil]
  rw [b1, b2]
  constructor
  · rcases hf : s2.full with ⟨a, b⟩
    rw [hf] at f2
    simp only at f2
    simp only [Seg.mk.injEq]
    omega
  · rw [f2.1, f2.2]

/-- `full_snippet_between_tags`: for a sample with exactly one `# [START` line and one `# [END` line
    (START first), `Snippet.full_snippet` — the text embedded into the client method's docstring —
    is exactly the lines strictly between the two tag lines. -/
theorem full_snippet_between_tags (t : ClassTables) (mk : Markers)
    (pre body post : List (List Char)) (sl el : List Char)
    (hsl : classify t mk sl = .start) (hel : classify t mk el = .stop)
    (hpre : ∀ l ∈ pre, (classify t mk l).isTag = false)
    (hbody : ∀ l ∈ body, (classify t mk l).isTag = false)
    (hpost : ∀ l ∈ post, (classify t mk l).isTag = false) :
    let lines := pre ++ sl :: body ++ el :: post
    fullSnippetLines lines (parseSegments t mk lines) = body ∧
    fullSnippet lines (parseSegments t mk lines) = body.flatten := by
  intro lines
  have key : fullSnippetLines lines (parseSegments t mk lines) = body := by
    have hk : lines.map (classify t mk) =
        pre.map (classify t mk) ++ .start :: body.map (classify t mk) ++ .stop :: post.map (classify t mk) := by
      simp [lines, hsl, hel]
    have hf := (full_segment (pre.map (classify t mk)) (body.map (classify t mk)) (post.map (classify t mk))
      (by simpa using hpre) (by simpa using hbody) (by simpa using hpost)).1
    unfold fullSnippetLines parseSegments
    rw [hk, hf]
    simp only [List.length_map]
    have e : lines = (pre ++ [sl]) ++ body ++ (el :: post) := by simp [lines]
    have i1 : ((pre.length + 2 : Nat) : Int) - 1 = (((pre ++ [sl]).length : Nat) : Int) := by
      simp only [List.length_append, List.length_cons, List.length_nil]; omega
    have i2 : ((pre.length + body.length + 1 : Nat) : Int) = (((pre ++ [sl]).length + body.length : Nat) : Int) := by
      simp only [List.length_append, List.length_cons, List.length_nil]; omega
    rw [e, i1, i2]
    exact pySlice_mid (pre ++ [sl]) body (el :: post)
  exact ⟨key, by unfold fullSnippet; rw [key]⟩

/-- `segments_ordered_contiguous`: when the four marker comments appear once each and in the order the
    sample template emits them, the four inner segments are consecutive, ordered, each starts at its
    marker line, and RESPONSE_HANDLING runs to the LAST LINE OF THE FILE (`len(sample_lines)`, i.e. it
    includes the END tag line and whatever follows it — the model follows the code). -/
theorem segments_ordered_contiguous (l0 l1 l2 l3 l4 : List Kind)
    (h0 : ∀ k ∈ l0, k.isMarker = false) (h1 : ∀ k ∈ l1, k.isMarker = false)
    (h2 : ∀ k ∈ l2, k.isMarker = false) (h3 : ∀ k ∈ l3, k.isMarker = false)
    (h4 : ∀ k ∈ l4, k.isMarker = false) :
    let ks := l0 ++ .clientInit :: l1 ++ .requestInit :: l2 ++ .requestExec :: l3 ++ .responseHandling :: l4
    let s := parseKinds ks
    s.clientInit = ⟨l0.length + 1, l0.length + l1.length + 1⟩ ∧
    s.requestInit = ⟨l0.length + l1.length + 2, l0.length + l1.length + l2.length + 2⟩ ∧
    s.requestExec = ⟨l0.length + l1.length + l2.length + 3, l0.length + l1.length + l2.length + l3.length + 3⟩ ∧
    s.responseHandling = ⟨l0.length + l1.length + l2.length + l3.length + 4, ks.length⟩ := by
  intro ks s
  have hs : s = go 1 (l0 ++ ([Kind.clientInit] ++ (l1 ++ ([Kind.requestInit] ++ (l2 ++ ([Kind.requestExec] ++
      (l3 ++ ([Kind.responseHandling] ++ l4)))))))) (initSegs ks.length) := by
    simp [s, ks, parseKinds]
  rw [hs]
  simp only [go_append]
  generalize hn : ks.length = n
  obtain ⟨a1, a2, a3, a4⟩ := go_noMarker l0 1 (initSegs n) h0
  generalize go 1 l0 (initSegs n) = s1 at a1 a2 a3 a4
  have q1 : go (1 + l0.length) [Kind.clientInit] s1 = step (1 + l0.length) .clientInit s1 := rfl
  rw [q1]
  generalize hs2 : step (1 + l0.length) .clientInit s1 = s2
  obtain ⟨b1, b2, b3, b4⟩ := go_noMarker l1 (1 + l0.length + [Kind.clientInit].length) s2 h1
  generalize hs3 : go (1 + l0.length + [Kind.clientInit].length) l1 s2 = s3 at b1 b2 b3 b4
  have q2 : ∀ i, go i [Kind.requestInit] s3 = step i .requestInit s3 := fun _ => rfl
  rw [q2]
  generalize hs4 : step (1 + l0.length + [Kind.clientInit].length + l1.length) .requestInit s3 = s4
  obtain ⟨c1, c2, c3, c4⟩ := go_noMarker l2 (1 + l0.length + [Kind.clientInit].length + l1.length + [Kind.requestInit].length) s4 h2
  generalize hs5 : go (1 + l0.length + [Kind.clientInit].length + l1.length + [Kind.requestInit].length) l2 s4 = s5 at c1 c2 c3 c4
  have q3 : ∀ i, go i [Kind.requestExec] s5 = step i .requestExec s5 := fun _ => rfl
  rw [q3]
  generalize hs6 : step (1 + l0.length + [Kind.clientInit].length + l1.length + [Kind.requestInit].length + l2.length) .requestExec s5 = s6
  obtain ⟨d1, d2, d3, d4⟩ := go_noMarker l3 (1 + l0.length + [Kind.clientInit].length + l1.length + [Kind.requestInit].length + l2.length + [Kind.requestExec].length) s6 h3
  generalize hs7 : go (1 + l0.length + [Kind.clientInit].length + l1.length + [Kind.requestInit].length + l2.length + [Kind.requestExec].length) l3 s6 = s7 at d1 d2 d3 d4
  have q4 : ∀ i, go i [Kind.responseHandling] s7 = step i .responseHandling s7 := fun _ => rfl
  rw [q4]
  generalize hs8 : step (1 + l0.length + [Kind.clientInit].length + l1.length + [Kind.requestInit].length + l2.length + [Kind.requestExec].length + l3.length) .responseHandling s7 = s8
  obtain ⟨e1, e2, e3, e4⟩ := go_noMarker l4 (1 + l0.length + [Kind.clientInit].length + l1.length + [Kind.requestInit].length + l2.length + [Kind.requestExec].length + l3.length + [Kind.responseHandling].length) s8 h4
  rw [e1, e2, e3, e4]
  subst hs8 hs6 hs4 hs2
  simp only [step, List.length_cons, List.length_nil] at *
  simp only [d1, d2, d3, d4, c1, c2, c3, c4, b1, b2, b3, b4, a1, a2, a3, a4, initSegs, Seg.mk.injEq]
  repeat' apply And.intro
  all_goals first | omega | trivial

/-- A sample WITHOUT a `# Handle the response` line (what the template emits for a void method):
    REQUEST_EXECUTION gets a start but never an end (it stays 0, the proto default), and
    RESPONSE_HANDLING gets no start but `end = len(sample_lines)` — the two ranges in the emitted
    metadata are not line ranges of the file.  Replayed on the real generator (known finding). -/
theorem void_sample_segments_counterexample (l0 l1 l2 l3 : List Kind)
    (h0 : ∀ k ∈ l0, k.isMarker = false) (h1 : ∀ k ∈ l1, k.isMarker = false)
    (h2 : ∀ k ∈ l2, k.isMarker = false) (h3 : ∀ k ∈ l3, k.isMarker = false) :
    let ks := l0 ++ .clientInit :: l1 ++ .requestInit :: l2 ++ .requestExec :: l3
    let s := parseKinds ks
    s.requestExec = ⟨l0.length + l1.length + l2.length + 3, 0⟩ ∧ s.responseHandling = ⟨0, ks.length⟩ := by
  intro ks s
  have hs : s = go 1 (l0 ++ ([Kind.clientInit] ++ (l1 ++ ([Kind.requestInit] ++ (l2 ++ ([Kind.requestExec] ++ l3))))))
      (initSegs ks.length) := by
    simp [s, ks, parseKinds]
  rw [hs]
  simp only [go_append]
  generalize hn : ks.length = n
  obtain ⟨a1, a2, a3, a4⟩ := go_noMarker l0 1 (initSegs n) h0
  generalize go 1 l0 (initSegs n) = s1 at a1 a2 a3 a4
  have q1 : go (1 + l0.length) [Kind.clientInit] s1 = step (1 + l0.length) .clientInit s1 := rfl
  rw [q1]
  generalize hs2 : step (1 + l0.length) .clientInit s1 = s2
  obtain ⟨b1, b2, b3, b4⟩ := go_noMarker l1 (1 + l0.length + [Kind.clientInit].length) s2 h1
  generalize hs3 : go (1 + l0.length + [Kind.clientInit].length) l1 s2 = s3 at b1 b2 b3 b4
  have q2 : ∀ i, go i [Kind.requestInit] s3 = step i .requestInit s3 := fun _ => rfl
  rw [q2]
  generalize hs4 : step (1 + l0.length + [Kind.clientInit].length + l1.length) .requestInit s3 = s4
  obtain ⟨c1, c2, c3, c4⟩ := go_noMarker l2 (1 + l0.length + [Kind.clientInit].length + l1.length + [Kind.requestInit].length) s4 h2
  generalize hs5 : go (1 + l0.length + [Kind.clientInit].length + l1.length + [Kind.requestInit].length) l2 s4 = s5 at c1 c2 c3 c4
  have q3 : ∀ i, go i [Kind.requestExec] s5 = step i .requestExec s5 := fun _ => rfl
  rw [q3]
  generalize hs6 : step (1 + l0.length + [Kind.clientInit].length + l1.length + [Kind.requestInit].length + l2.length) .requestExec s5 = s6
  obtain ⟨d1, d2, d3, d4⟩ := go_noMarker l3 (1 + l0.length + [Kind.clientInit].length + l1.length + [Kind.requestInit].length + l2.length + [Kind.requestExec].length) s6 h3
  rw [d3, d4]
  subst hs6 hs4 hs2
  simp only [step, List.length_cons, List.length_nil] at *
  simp only [c3, c4, b3, b4, a3, a4, initSegs, Seg.mk.injEq]
  repeat' apply And.intro
  all_goals first | omega | trivial

/-- the four extracted regexes of snippet_index.py, as pinned by the T1 translator -/
def pinnedMarkers : Markers :=
  ⟨Pinned.clientInit.re, Pinned.requestInit.re, Pinned.requestExec.re, Pinned.responseHandling.re⟩

/-- the lines of a (shortened) emitted sample, as `str.splitlines(keepends=True)` gives them -/
def demoLines : List (List Char) :=
  ["# Generated code. DO NOT EDIT!\n", "\n", "# [START lib_v1_generated_Library_GetBook_sync]\n",
   "from acme import lib_v1\n", "\n", "\n", "def sample_get_book():\n", "    # Create a client\n",
   "    client = lib_v1.LibraryClient()\n", "\n", "    # Initialize request argument(s)\n",
   "    request = lib_v1.GetBookRequest(\n", "    )\n", "\n", "    # Make the request\n",
   "    response = client.get_book(request=request)\n", "\n", "    # Handle the response\n",
   "    print(response)\n", "\n", "# [END lib_v1_generated_Library_GetBook_sync]\n"].map String.toList

/-- non-vacuity: the pinned regexes classify the lines of a real sample as the hypotheses of the
    segment theorems require, and the computed segments are the ones the generator emits. -/
example : demoLines.map (classify Pinned.classTables pinnedMarkers) =
    [.other, .other, .start, .other, .other, .other, .other, .clientInit, .other, .other, .requestInit,
     .other, .other, .other, .requestExec, .other, .other, .responseHandling, .other, .other, .stop] := by
  decide +kernel

example : parseSegments Pinned.classTables pinnedMarkers demoLines =
    ⟨⟨4, 20⟩, ⟨4, 20⟩, ⟨8, 10⟩, ⟨11, 14⟩, ⟨15, 17⟩, ⟨18, 21⟩⟩ := by
  decide +kernel

example : fullSnippetLines demoLines (parseSegments Pinned.classTables pinnedMarkers demoLines)
    = (demoLines.drop 3).take 17 := by
  decide +kernel

/-! ### default request construction -/

section Aux

theorem fieldsEntries_mem_of_ok (env : Env) (recur) (f : Field) (pre : List (List Char)) (here : List Entry) :
    ∀ (fs : List Field) (es : List Entry), f ∈ fs → fieldEntries env recur f pre = .ok here →
      fieldsEntries env recur fs pre = .ok es → ∀ e ∈ here, e ∈ es := by
  intro fs
  induction fs with
  | nil => intro _ h; cases h
  | cons g gs ih =>
    intro es hmem hf hok e he
    simp only [fieldsEntries] at hok
    cases hg : fieldEntries env recur g pre with
    | error x => simp [hg] at hok
    | ok hereg =>
      simp only [hg] at hok
      cases hr : fieldsEntries env recur gs pre with
      | error x => simp [hr] at hok
      | ok rest =>
        simp only [hr, Except.ok.injEq] at hok
        subst hok
        rcases List.mem_cons.mp hmem with h | h
        · subst h
          rw [hf] at hg
          cases hg
          exact List.mem_append_left _ he
        · exact List.mem_append_right _ (ih rest h hf hr e he)

/-- every entry stems from one of the request fields and its path extends `pre ++ [field name]` -/
theorem fieldsEntries_paths (env : Env) (recur)
    (hrec : ∀ sub p es, recur sub p = .ok es → ∀ e ∈ es, ∃ tail, e.path = p ++ tail)
    (pre : List (List Char)) :
    ∀ (fs : List Field) (es : List Entry), fieldsEntries env recur fs pre = .ok es →
      ∀ e ∈ es, ∃ f ∈ fs, ∃ tail, e.path = pre ++ f.name :: tail := by
  intro fs
  induction fs with
  | nil => intro es h e he; simp [fieldsEntries] at h; subst h; cases he
  | cons g gs ih =>
    intro es hok e he
    simp only [fieldsEntries] at hok
    cases hg : fieldEntries env recur g pre with
    | error x => simp [hg] at hok
    | ok hereg =>
      simp only [hg] at hok
      cases hr : fieldsEntries env recur gs pre with
      | error x => simp [hr] at hok
      | ok rest =>
        simp only [hr, Except.ok.injEq] at hok
        subst hok
        rcases List.mem_append.mp he with h | h
        · refine ⟨g, List.mem_cons_self, ?_⟩
          unfold fieldEntries at hg
          split at hg
          · simp only [Except.ok.injEq] at hg; subst hg
            simp only [List.mem_singleton] at h; subst h
            exact ⟨[], by simp⟩
          · split at hg
            · cases hg
            · simp only [Except.ok.injEq] at hg; subst hg
              simp only [List.mem_singleton] at h; subst h
              exact ⟨[], by simp⟩
          · split at hg
            · cases hg
            · obtain ⟨tail, ht⟩ := hrec _ _ _ hg e h
              exact ⟨tail, by rw [ht]; simp⟩
        · obtain ⟨f, hf, tail, ht⟩ := ih rest hr e h
          exact ⟨f, List.mem_cons_of_mem _ hf, tail, ht⟩

theorem requestObject_paths (env : Env) : ∀ (fuel : Nat) (m : Msg) (pre : List (List Char)) (es : List Entry),
    requestObject env fuel m pre = .ok es →
      ∀ e ∈ es, ∃ f ∈ requestFields m, ∃ tail, e.path = pre ++ f.name :: tail := by
  intro fuel
  induction fuel with
  | zero => intro m pre es h; simp [requestObject] at h
  | succ n ih =>
    intro m pre es h e he
    simp only [requestObject] at h
    refine fieldsEntries_paths env (requestObject env n) ?_ pre (requestFields m) es h e he
    intro sub p es' h' e' he'
    obtain ⟨f, _, tail, ht⟩ := ih sub p es' h' e' he'
    exact ⟨f.name :: tail, ht⟩

/-- the members of the real oneof `o` that `selectedOneofs` keeps -/
def inOneof (o : List Char) (f : Field) : Bool := f.oneof == some o && !f.proto3Optional

theorem selectedOneofs_filter (o : List Char) : ∀ (fs : List Field) (seen : List (List Char)),
    (selectedOneofs seen fs).filter (inOneof o) =
      if seen.contains o then [] else ((fs.find? (inOneof o)).toList) := by
  intro fs
  induction fs with
  | nil => intro seen; simp [selectedOneofs]
  | cons f fs ih =>
    intro seen
    unfold selectedOneofs
    cases hfo : f.oneof with
    | none =>
      simp only [ih seen]
      have : inOneof o f = false := by simp [inOneof, hfo]
      simp [this]
    | some o' =>
      simp only
      by_cases hp : f.proto3Optional = true
      · simp only [hp, if_true, ih seen]
        have : inOneof o f = false := by simp [inOneof, hp]
        simp [this]
      · have hp' : f.proto3Optional = false := by simpa using hp
        simp only [hp', Bool.false_eq_true, if_false]
        by_cases hs : seen.contains o' = true
        · have hm : o' ∈ seen := by simpa using hs
          simp only [hs, if_true, ih seen]
          by_cases ho : o' = o
          · subst ho; simp [hm]
          · have : inOneof o f = false := by
              simp only [inOneof, hfo, hp', Bool.not_false, Bool.and_true]
              simpa using ho
            simp [this]
        · have hs' : seen.contains o' = false := by simpa using hs
          have hm : ¬ o' ∈ seen := by simpa using hs'
          simp only [hs', Bool.false_eq_true, if_false, List.filter_cons, ih (o' :: seen)]
          by_cases ho : o' = o
          · subst ho
            have : inOneof o' f = true := by simp [inOneof, hfo, hp']
            simp [this, hm]
          · have : inOneof o f = false := by
              simp only [inOneof, hfo, hp', Bool.not_false, Bool.and_true]
              simpa using ho
            have hne : ¬ o = o' := fun h => ho h.symm
            simp [this, hne]

theorem requiredNonOneof_filter (o : List Char) (fs : List Field) :
    (requiredNonOneof fs).filter (inOneof o) = [] := by
  rw [List.filter_eq_nil_iff]
  intro f hf
  simp only [requiredNonOneof, List.mem_filter, Bool.and_eq_true, Bool.or_eq_true, Option.isNone_iff_eq_none] at hf
  rcases hf.2.2 with h | h
  · simp [inOneof, h]
  · simp [inOneof, h]

end Aux

/-- `request_has_required`: every REQUIRED field outside a real oneof (proto3-`optional` fields included,
    fix 1704548) is handled according to its type —
    a scalar gets exactly its mock value under its own name; an enum its last value; a message-typed
    field gets EXACTLY the default request of its message, prefixed with the field name (all of its
    entries are entries of the request).  So a required message field is populated iff the default
    request of its message is non-empty (`required_message_unpopulated_counterexample` is the other case). -/
theorem request_has_required (env : Env) (fuel : Nat) (m : Msg) (pre : List (List Char))
    (es : List Entry) (h : requestObject env (fuel + 1) m pre = .ok es)
    (f : Field) (hf : f ∈ m.fields) (hreq : f.required = true)
    (hone : f.oneof = none ∨ f.proto3Optional = true) :
    (∀ t, f.kind = .prim t → ⟨pre ++ [f.name], primMockValue f t⟩ ∈ es) ∧
    (∀ vs v, f.kind = .enum vs → vs.getLast? = some v →
        ⟨pre ++ [f.name], if f.repeated then .many [.str v] else .one (.str v)⟩ ∈ es) ∧
    (∀ tn sub, f.kind = .msg tn → env.get tn = some sub →
        ∃ ses, requestObject env fuel sub (pre ++ [f.name]) = .ok ses ∧ (∀ e ∈ ses, e ∈ es) ∧
          (∀ e ∈ ses, ∃ tail, e.path = pre ++ f.name :: tail)) := by
  have hmem : f ∈ requestFields m := by
    unfold requestFields requiredNonOneof
    apply List.mem_append_right
    rcases hone with hone | hone <;> simp [List.mem_filter, hf, hreq, hone]
  simp only [requestObject] at h
  refine ⟨?_, ?_, ?_⟩
  · intro t hk
    have : fieldEntries env (requestObject env fuel) f pre = .ok [⟨pre ++ [f.name], primMockValue f t⟩] := by
      simp [fieldEntries, hk]
    exact fieldsEntries_mem_of_ok env _ f pre _ _ es hmem this h _ (List.mem_singleton.mpr rfl)
  · intro vs v hk hv
    have : fieldEntries env (requestObject env fuel) f pre =
        .ok [⟨pre ++ [f.name], if f.repeated then .many [.str v] else .one (.str v)⟩] := by
      simp [fieldEntries, hk, hv]
    exact fieldsEntries_mem_of_ok env _ f pre _ _ es hmem this h _ (List.mem_singleton.mpr rfl)
  · intro tn sub hk hsub
    have hfe : fieldEntries env (requestObject env fuel) f pre = requestObject env fuel sub (pre ++ [f.name]) := by
      simp [fieldEntries, hk, hsub]
    -- the field's own entries cannot have failed, otherwise the whole request would have
    cases hs : requestObject env fuel sub (pre ++ [f.name]) with
    | error x =>
      exfalso
      rw [hs] at hfe
      have : ∀ (fs : List Field) (es' : List Entry), f ∈ fs →
          fieldsEntries env (requestObject env fuel) fs pre ≠ .ok es' := by
        intro fs
        induction fs with
        | nil => intro _ hm; cases hm
        | cons g gs ih =>
          intro es' hm hok
          simp only [fieldsEntries] at hok
          rcases List.mem_cons.mp hm with hh | hh
          · subst hh
            simp [hfe] at hok
          · cases hg : fieldEntries env (requestObject env fuel) g pre with
            | error y => simp [hg] at hok
            | ok hereg =>
              simp only [hg] at hok
              cases hr : fieldsEntries env (requestObject env fuel) gs pre with
              | error y => simp [hr] at hok
              | ok rest => exact ih rest hh hr
      exact this _ es hmem h
    | ok ses =>
      refine ⟨ses, rfl, ?_, ?_⟩
      · intro e he
        rw [hs] at hfe
        exact fieldsEntries_mem_of_ok env _ f pre ses _ es hmem hfe h e he
      · intro e he
        obtain ⟨g, _, tail, ht⟩ := requestObject_paths env fuel sub (pre ++ [f.name]) ses hs e he
        exact ⟨g.name :: tail, by rw [ht]; simp⟩

example : (requestObject [("Book".toList, ⟨[⟨"pages".toList, .prim .int, false, true, none, false⟩]⟩)] 5
    ⟨[⟨"book".toList, .msg "Book".toList, false, true, none, false⟩]⟩ []).toOption
    = some [⟨["book".toList, "pages".toList], .one (.int 528)⟩] := by decide +kernel

/-- mock values are never a type's default value (so a populated scalar is visible on the wire):
    for a field name made of non-NUL characters every primitive mock is truthy. -/
theorem mock_values_non_default (name : List Char) (t : PyType) (suffix : Nat)
    (hne : name ≠ []) (hch : ∀ c ∈ name, c.toNat ≠ 0) :
    (primitiveMock name t suffix).truthy = true := by
  have hsum : ordSum name ≠ 0 := by
    cases name with
    | nil => exact absurd rfl hne
    | cons c cs =>
      have := hch c List.mem_cons_self
      simp only [ordSum, List.map_cons, List.sum_cons]
      omega
  cases t with
  | bool => rfl
  | str =>
    simp only [primitiveMock]
    split
    · decide
    · cases name with
      | nil => exact absurd rfl hne
      | cons c cs => simp only [List.cons_append, Scalar.truthy, List.isEmpty_cons, Bool.not_false]
  | bytes =>
    cases name with
    | nil => exact absurd rfl hne
    | cons c cs => simp only [primitiveMock, List.cons_append, Scalar.truthy, List.isEmpty_cons, Bool.not_false]
  | int =>
    simp only [primitiveMock, Scalar.truthy, bne_iff_ne, ne_eq]
    omega
  | float =>
    simp only [primitiveMock, Scalar.truthy, bne_iff_ne, ne_eq]
    omega

example : (primitiveMock "pages".toList .int 0) = .int 528 := by decide

/-- `request_one_member_per_oneof`: among the fields the default request is built from, each real
    (non-synthetic) oneof of the message is represented by exactly one member — the first declared —
    and by none if the message has no such oneof. -/
theorem request_one_member_per_oneof (m : Msg) (o : List Char) :
    (requestFields m).filter (inOneof o) = (m.fields.find? (inOneof o)).toList := by
  unfold requestFields
  rw [List.filter_append, selectedOneofs_filter, requiredNonOneof_filter]
  simp

/-- every entry of the default request starts (below the prefix) with the name of one of those
    request fields: nothing else of the message is populated. -/
theorem entries_come_from_request_fields (env : Env) (fuel : Nat) (m : Msg) (pre : List (List Char))
    (es : List Entry) (h : requestObject env fuel m pre = .ok es) :
    ∀ e ∈ es, ∃ f ∈ requestFields m, ∃ tail, e.path = pre ++ f.name :: tail :=
  requestObject_paths env fuel m pre es h

/-- `ReqPath env m p`: `p` is a field path from message `m` down to a scalar/enum leaf along which every step is
    a field the default request is built from (a REQUIRED field outside a real oneof, or the first member of a
    real oneof: `requestFields`) — read off the descriptors alone.  The same message type may occur on any number
    of such paths (sibling fields of one type, the same type at two depths). -/
inductive ReqPath (env : Env) : Msg → List (List Char) → Prop where
  | prim (m : Msg) (f : Field) (t : PyType) : f ∈ requestFields m → f.kind = .prim t → ReqPath env m [f.name]
  | enum (m : Msg) (f : Field) (vs : List (List Char)) (v : List Char) :
      f ∈ requestFields m → f.kind = .enum vs → vs.getLast? = some v → ReqPath env m [f.name]
  | step (m : Msg) (f : Field) (tn : List Char) (sub : Msg) (p : List (List Char)) :
      f ∈ requestFields m → f.kind = .msg tn → env.get tn = some sub → ReqPath env sub p → ReqPath env m (f.name :: p)

section Aux

/-- a request field's own entries are entries of the whole request (which cannot be `ok` if the field's are not) -/
theorem fieldsEntries_field_ok (env : Env) (recur) (f : Field) (pre : List (List Char)) :
    ∀ (fs : List Field) (es : List Entry), f ∈ fs → fieldsEntries env recur fs pre = .ok es →
      ∃ here, fieldEntries env recur f pre = .ok here ∧ ∀ e ∈ here, e ∈ es := by
  intro fs
  induction fs with
  | nil => intro _ h; cases h
  | cons g gs ih =>
    intro es hmem hok
    simp only [fieldsEntries] at hok
    cases hg : fieldEntries env recur g pre with
    | error x => simp [hg] at hok
    | ok hereg =>
      simp only [hg] at hok
      cases hr : fieldsEntries env recur gs pre with
      | error x => simp [hr] at hok
      | ok rest =>
        simp only [hr, Except.ok.injEq] at hok
        subst hok
        rcases List.mem_cons.mp hmem with h | h
        · subst h
          exact ⟨hereg, hg, fun e he => List.mem_append_left _ he⟩
        · obtain ⟨here, hh, hin⟩ := ih rest h hr
          exact ⟨here, hh, fun e he => List.mem_append_right _ (hin e he)⟩

end Aux

/-- `request_has_every_required_path`: whenever default request construction returns (on acyclic types it does:
    `request_object_terminates`), EVERY required leaf path of the request type — through required message fields
    and first oneof members, at any depth, however often a message type is used — has an entry in the generated
    request, under exactly that dotted path.  (A `visited`-list shared by the whole traversal would break this at
    the second use of a type: `second_use_of_a_type_is_populated` is the smallest such request.) -/
theorem request_has_every_required_path (env : Env) (m : Msg) (p : List (List Char)) (hp : ReqPath env m p) :
    ∀ (fuel : Nat) (pre : List (List Char)) (es : List Entry), requestObject env fuel m pre = .ok es →
      ∃ e ∈ es, e.path = pre ++ p := by
  induction hp with
  | prim m f t hf hk =>
    intro fuel pre es h
    cases fuel with
    | zero => simp [requestObject] at h
    | succ n =>
      simp only [requestObject] at h
      obtain ⟨here, hh, hin⟩ := fieldsEntries_field_ok env _ f pre _ es hf h
      simp only [fieldEntries, hk, Except.ok.injEq] at hh
      subst hh
      exact ⟨_, hin _ (List.mem_singleton.mpr rfl), rfl⟩
  | enum m f vs v hf hk hv =>
    intro fuel pre es h
    cases fuel with
    | zero => simp [requestObject] at h
    | succ n =>
      simp only [requestObject] at h
      obtain ⟨here, hh, hin⟩ := fieldsEntries_field_ok env _ f pre _ es hf h
      simp only [fieldEntries, hk, hv, Except.ok.injEq] at hh
      subst hh
      exact ⟨_, hin _ (List.mem_singleton.mpr rfl), rfl⟩
  | step m f tn sub p hf hk hsub _ ih =>
    intro fuel pre es h
    cases fuel with
    | zero => simp [requestObject] at h
    | succ n =>
      simp only [requestObject] at h
      obtain ⟨here, hh, hin⟩ := fieldsEntries_field_ok env _ f pre _ es hf h
      simp only [fieldEntries, hk, hsub] at hh
      obtain ⟨e, he, hpath⟩ := ih n (pre ++ [f.name]) here hh
      exact ⟨e, hin e he, by rw [hpath]; simp⟩

/-- `MoveBookRequest{name, Shelf source_shelf, Shelf destination_shelf}` (all REQUIRED, `Shelf.name` REQUIRED) -/
def shelfEnv : Env := [("Shelf".toList, ⟨[⟨"name".toList, .prim .str, false, true, none, false⟩]⟩)]
def moveBookMsg : Msg := ⟨[⟨"name".toList, .prim .str, false, true, none, false⟩,
  ⟨"source_shelf".toList, .msg "Shelf".toList, false, true, none, false⟩,
  ⟨"destination_shelf".toList, .msg "Shelf".toList, false, true, none, false⟩]⟩

example : ReqPath shelfEnv moveBookMsg ["destination_shelf".toList, "name".toList] :=
  .step _ ⟨"destination_shelf".toList, .msg "Shelf".toList, false, true, none, false⟩ "Shelf".toList
    ⟨[⟨"name".toList, .prim .str, false, true, none, false⟩]⟩ _ (by decide) rfl (by decide)
    (.prim _ ⟨"name".toList, .prim .str, false, true, none, false⟩ .str (by decide) rfl)

/-- the second sibling of the same message type is built like the first -/
theorem second_use_of_a_type_is_populated :
    (requestObject shelfEnv 5 moveBookMsg []).toOption = some [
      ⟨["name".toList], .one (.str "name_value".toList)⟩,
      ⟨["source_shelf".toList, "name".toList], .one (.str "name_value".toList)⟩,
      ⟨["destination_shelf".toList, "name".toList], .one (.str "name_value".toList)⟩] := by
  decide +kernel

/-- a message with a oneof {a:int32, b:string} and a required string -/
def demoMsg : Msg := ⟨[
  ⟨"name".toList, .prim .str, false, true, none, false⟩,
  ⟨"a".toList, .prim .int, false, false, some "kind".toList, false⟩,
  ⟨"b".toList, .prim .str, false, false, some "kind".toList, false⟩,
  ⟨"t".toList, .prim .int, false, false, some "_t".toList, true⟩]⟩

example : (requestObject [] 1 demoMsg []).toOption = some [⟨["a".toList], .one (.int 97)⟩,
    ⟨["name".toList], .one (.str "name_value".toList)⟩] := by decide +kernel

example : (requestFields demoMsg).filter (inOneof "kind".toList) = [demoMsg.fields[1]] := by decide +kernel

/-! #### termination -/

/-- `NoRequiredCycle`: a rank on message names that strictly decreases along every message-typed
    request field (required non-oneof field, or first member of a real oneof). -/
def Ranked (env : Env) (rank : List Char → Nat) : Prop :=
  ∀ n m, env.get n = some m → ∀ f ∈ requestFields m, ∀ tn, f.kind = .msg tn → rank tn < rank n

section Aux

theorem fieldsEntries_no_recursion (env : Env) (recur)
    (fs : List Field) (pre : List (List Char))
    (h : ∀ f ∈ fs, ∀ tn sub, f.kind = .msg tn → env.get tn = some sub → ∀ p, recur sub p ≠ .error .recursion) :
    fieldsEntries env recur fs pre ≠ .error .recursion := by
  induction fs with
  | nil => simp [fieldsEntries]
  | cons g gs ih =>
    have ihh := ih (fun f hf => h f (List.mem_cons_of_mem _ hf))
    simp only [fieldsEntries]
    cases hg : fieldEntries env recur g pre with
    | error x =>
      simp only
      intro hx
      simp only [Except.error.injEq] at hx
      subst hx
      unfold fieldEntries at hg
      split at hg
      · cases hg
      · split at hg <;> cases hg
      · rename_i tn hk
        split at hg
        · cases hg
        · rename_i sub hsub
          exact h g List.mem_cons_self tn sub hk hsub _ hg
    | ok hereg =>
      simp only
      cases hr : fieldsEntries env recur gs pre with
      | error x =>
        simp only
        intro hx
        simp only [Except.error.injEq] at hx
        subst hx
        exact ihh hr
      | ok rest => simp

end Aux

/-- `request_object_terminates`: if the message graph restricted to request fields has no cycle
    (`Ranked`), `generate_request_object` on a message of the API never exhausts a recursion budget
    larger than the message's rank. -/
theorem request_object_terminates (env : Env) (rank : List Char → Nat) (hr : Ranked env rank) :
    ∀ (fuel : Nat) (n : List Char) (m : Msg) (pre : List (List Char)),
      env.get n = some m → rank n < fuel → requestObject env fuel m pre ≠ .error .recursion := by
  intro fuel
  induction fuel with
  | zero => intro n m pre _ h; omega
  | succ k ih =>
    intro n m pre hget hlt
    simp only [requestObject]
    apply fieldsEntries_no_recursion
    intro f hf tn sub hk hsub p
    have := hr n m hget f hf tn hk
    exact ih tn sub p hsub (by omega)

/-- a `Node` whose required field `child` is a `Node` -/
def recEnv : Env := [("Node".toList, ⟨[⟨"child".toList, .msg "Node".toList, false, true, none, false⟩]⟩)]
def recMsg : Msg := ⟨[⟨"child".toList, .msg "Node".toList, false, true, none, false⟩]⟩

example : Ranked [("A".toList, ⟨[⟨"b".toList, .msg "B".toList, false, true, none, false⟩]⟩),
                  ("B".toList, ⟨[⟨"x".toList, .prim .int, false, true, none, false⟩]⟩)]
    (fun n => if n = "A".toList then 1 else 0) := by
  intro n m hget f hf tn hk
  simp only [Env.get, List.find?_cons] at hget
  split at hget
  · simp only [Option.map_some, Option.some.injEq] at hget
    subst hget
    simp only [requestFields, selectedOneofs, requiredNonOneof, List.filter_cons, List.nil_append] at hf
    simp at hf
    subst hf
    simp at hk
    subst hk
    rename_i h
    simp at h
    simp [h]
  · split at hget
    · simp only [Option.map_some, Option.some.injEq] at hget
      subst hget
      simp only [requestFields, selectedOneofs, requiredNonOneof, List.filter_cons, List.nil_append] at hf
      simp at hf
      subst hf
      simp at hk
    · simp at hget

/-- WITHOUT the hypothesis (§9-F6): on a message whose required field is of its own type the recursion
    never ends, whatever the budget — the real function raises RecursionError and the generator
    produces no response at all (replayed on the real generator; known finding). -/
theorem request_object_diverges_counterexample :
    ∀ fuel pre, requestObject recEnv fuel recMsg pre = .error .recursion := by
  intro fuel
  induction fuel with
  | zero => intro pre; rfl
  | succ n ih =>
    intro pre
    have hget : recEnv.get "Node".toList = some recMsg := by decide
    have hf : requestFields recMsg = [⟨"child".toList, .msg "Node".toList, false, true, none, false⟩] := by decide
    simp only [requestObject, hf, fieldsEntries, fieldEntries, hget, ih]

/-- a REQUIRED message-typed field whose message has no required field and no oneof contributes
    nothing: the default request leaves the required field unset (replayed; known finding). -/
theorem required_message_unpopulated_counterexample :
    (requestObject [("Book".toList, ⟨[⟨"title".toList, .prim .str, false, false, none, false⟩]⟩)] 5
      ⟨[⟨"book".toList, .msg "Book".toList, false, true, none, false⟩]⟩ []).toOption = some [] := by
  decide +kernel

/-- a oneof whose first member is such a message gets no member at all (replayed; known finding). -/
theorem oneof_first_member_message_unpopulated_counterexample :
    (requestObject [("Book".toList, ⟨[⟨"title".toList, .prim .str, false, false, none, false⟩]⟩)] 5
      ⟨[⟨"book".toList, .msg "Book".toList, false, false, some "kind".toList, false⟩,
        ⟨"isbn".toList, .prim .str, false, false, some "kind".toList, false⟩]⟩ []).toOption = some [] := by
  decide +kernel

/-- regression (fix 1704548; before it the result was `[]`): a REQUIRED proto3-`optional` field — which sits
    in a synthetic oneof — is populated with its mock value. -/
theorem required_proto3_optional_populated :
    (requestObject [] 5 ⟨[⟨"etag".toList, .prim .str, false, true, some "_etag".toList, true⟩]⟩ []).toOption
      = some [⟨["etag".toList], .one (.str "etag_value".toList)⟩] := by
  decide +kernel

/-! ### request transformation -/

section Aux

theorem groups_add_keys (g : Groups) (b : List Char) (a) :
    (g.add b a).map (·.1) = if b ∈ g.map (·.1) then g.map (·.1) else g.map (·.1) ++ [b] := by
  induction g with
  | nil => simp [Groups.add]
  | cons x r ih =>
    obtain ⟨k, as⟩ := x
    simp only [Groups.add]
    by_cases hk : k = b
    · subst hk; simp
    · have hk' : ¬ b = k := fun h => hk h.symm
      simp only [hk, if_false, List.map_cons, ih, List.mem_cons, hk', false_or]
      split <;> simp

theorem groups_add_nodup (g : Groups) (b : List Char) (a) (h : (g.map (·.1)).Nodup) :
    ((g.add b a).map (·.1)).Nodup := by
  rw [groups_add_keys]
  split
  · exact h
  · rename_i hb
    rw [List.nodup_append]
    exact ⟨h, by simp, by intro x hx y hy; simp at hy; subst hy; intro hxy; subst hxy; exact hb hx⟩

theorem groupEntries_nodup : ∀ (es : List Entry) (g g' : Groups), (g.map (·.1)).Nodup →
    groupEntries es g = .ok g' → (g'.map (·.1)).Nodup := by
  intro es
  induction es with
  | nil => intro g g' h hok; simp [groupEntries] at hok; subst hok; exact h
  | cons e es ih =>
    intro g g' h hok
    unfold groupEntries at hok
    split at hok
    · cases hok
    · split at hok
      · cases hok
      · exact ih _ _ (groups_add_nodup g _ _ h) hok
    · exact ih _ _ (groups_add_nodup g _ _ h) hok

end Aux

/-- the transformed request has one block per top-level field: the keyword arguments of
    `request = <Type>(base=…, …)` in the rendered sample are pairwise distinct. -/
theorem transform_bases_nodup (es : List Entry) (ts : List TReq) (h : transform es = .ok ts) :
    (ts.map (·.base)).Nodup := by
  unfold transform at h
  cases hg : groupEntries es [] with
  | error e => simp [hg, bind, Except.bind] at h
  | ok g =>
    simp only [hg, bind, Except.bind, pure, Except.pure, Except.ok.injEq] at h
    subst h
    have := groupEntries_nodup es [] g (by simp) hg
    have e : (g.map fun x => buildT x.1 x.2).map (·.base) = g.map (·.1) := by
      simp only [List.map_map]
      apply List.map_congr_left
      intro x _
      obtain ⟨b, as⟩ := x
      simp only [Function.comp, buildT]
      split <;> rfl
    rw [e]
    exact this

example : (transform [⟨["a".toList], .one (.int 97)⟩, ⟨["book".toList, "pages".toList], .one (.int 528)⟩,
                     ⟨["book".toList, "isbn".toList], .one (.str "x".toList)⟩]).toOption =
    some [⟨"a".toList, .single (.one (.int 97))⟩,
         ⟨"book".toList, .body [(["pages".toList], .one (.int 528)), (["isbn".toList], .one (.str "x".toList))]⟩] := by
  decide +kernel

/-! ### raw render vs emitted file -/

/-- `segments_depend_only_on_kinds`: the metadata is computed on the RAW render while the emitted file
    is `fix_whitespace(raw)`.  The segments are a function of the per-line classification only, so the
    metadata describes the emitted file whenever post-processing keeps the sequence of line kinds
    (the harness checks exactly this on every sample, with the machine-translated `fix_whitespace`). -/
theorem segments_depend_only_on_kinds (t : ClassTables) (mk : Markers) (raw emitted : List (List Char))
    (h : raw.map (classify t mk) = emitted.map (classify t mk)) :
    parseSegments t mk raw = parseSegments t mk emitted := by
  unfold parseSegments
  rw [h]

/-- …and it does NOT when a line disappears: dropping one blank line in front of the markers moves
    every later boundary by one (the slip of seeded round 4). -/
theorem blank_line_removed_shifts_segments_counterexample :
    parseKinds [.start, .other, .other, .clientInit, .requestInit, .requestExec, .responseHandling, .stop] ≠
    parseKinds [.start, .other, .clientInit, .requestInit, .requestExec, .responseHandling, .stop] := by
  decide

example : demoLines.map (classify Pinned.classTables pinnedMarkers) =
    (demoLines.map fun l => l).map (classify Pinned.classTables pinnedMarkers) := by simp

/-! ### ids, file names, called method -/

section Aux

theorem filter_tag_singleton (sp : Spec) : ∀ (all : List Spec), (all.map (·.regionTag)).Nodup → sp ∈ all →
    (all.filter fun x => x.regionTag == sp.regionTag).length = 1 := by
  intro all
  induction all with
  | nil => intro _ h; cases h
  | cons a rest ih =>
    intro hnd hmem
    simp only [List.map_cons, List.nodup_cons, List.mem_map, not_exists, not_and] at hnd
    simp only [List.filter_cons]
    by_cases ha : a.regionTag = sp.regionTag
    · have hrest : (rest.filter fun x => x.regionTag == sp.regionTag) = [] := by
        rw [List.filter_eq_nil_iff]
        intro x hx
        simp only [beq_iff_eq]
        intro hh
        exact hnd.1 x hx (by rw [hh, ha])
      simp [ha, hrest]
    · have : sp ∈ rest := by
        rcases List.mem_cons.mp hmem with h | h
        · exact absurd (by rw [h]) ha
        · exact h
      have hb : (a.regionTag == sp.regionTag) = false := by simpa using ha
      simp only [hb, Bool.false_eq_true, if_false]
      exact ih hnd.2 this

end Aux

/-- `ids_are_tags_when_unique`: when no two specs share a region tag, every sample id — hence the
    START/END tag written into the file and (through `to_snake_case`) the file name — is the region tag
    recorded in the metadata; no hash suffix appears. -/
theorem ids_are_tags_when_unique (hash : Spec → List Char) (all : List Spec)
    (h : (all.map (·.regionTag)).Nodup) (sp : Spec) (hm : sp ∈ all) :
    sampleId hash all sp = sp.regionTag := by
  unfold sampleId
  rw [filter_tag_singleton sp all h hm]
  simp

/-- combined with `region_tags_unique`: under the no-underscore / distinct-names hypotheses the ids of
    all generated specs are their region tags. -/
theorem sample_ids_equal_region_tags (hash : Spec → List Char) (v : List Char) (o : Opts) (svcs : List Service)
    (hv : NoUs v)
    (hnames : ∀ s ∈ svcs, NoUs s.shortname ∧ NoUs s.name ∧ ∀ r ∈ s.rpcs, NoUs r.name)
    (hs : (svcs.map (·.name)).Nodup)
    (hr : ∀ s ∈ svcs, (s.rpcs.map (·.name)).Nodup) :
    ∀ sp ∈ sampleSpecs v o svcs, sampleId hash (sampleSpecs v o svcs) sp = sp.regionTag :=
  fun sp hm => ids_are_tags_when_unique hash _ (region_tags_unique v o svcs hv hnames hs hr) sp hm

/-- on the colliding names the id carries the hash suffix: the file's tag differs from `regionTag`. -/
theorem sample_id_collision_counterexample :
    let specs := sampleSpecs "v1".toList ⟨true, false⟩
          [⟨"A_B".toList, "lib".toList, [⟨"C".toList, false⟩]⟩, ⟨"A".toList, "lib".toList, [⟨"B_C".toList, false⟩]⟩]
    ∀ sp ∈ specs, sampleId (fun _ => "8cb92ea9".toList) specs sp = sp.regionTag ++ "_8cb92ea9".toList := by
  decide +kernel

/-- `called_method_matches_client` (unconditional since fix cb7ea26): for every RPC that is not hidden by
    selective generation — keyword names included — the method the sample calls is the method the metadata
    names and the client defines. -/
theorem called_method_matches_client (snake : List Char → List Char) (cmn : List Char → Bool → List Char)
    (rpc : List Char) :
    calledMethod snake cmn rpc false = metadataMethod snake cmn rpc false := rfl

/-- regression (§9-F8, fix cb7ea26; before it the sample called `client.import`): for `Import` both the call
    and the client method are `import_`, through the translated `to_snake_case` / `client_method_name`. -/
theorem keyword_rpc_called_method :
    calledMethod Pinned.Funcs.to_snake_case Pinned.Funcs.client_method_name "Import".toList false = "import_".toList ∧
    metadataMethod Pinned.Funcs.to_snake_case Pinned.Funcs.client_method_name "Import".toList false = "import_".toList := by
  decide +kernel

/-- hidden (internal) methods are still called as `_<snake(rpc)>`; for non-keyword names that is the
    client's method too (the keyword + internal combination is the remaining gap of `render_method_name`). -/
example : calledMethod Pinned.Funcs.to_snake_case Pinned.Funcs.client_method_name "GetBook".toList true =
    metadataMethod Pinned.Funcs.to_snake_case Pinned.Funcs.client_method_name "GetBook".toList true := by
  decide +kernel

example : sampleFile Pinned.Funcs.to_snake_case "lib_v1_generated_Library_GetIAMPolicy2_sync".toList
    = "lib_v1_generated_library_get_iam_policy2_sync.py".toList := by decide +kernel

/-- `metadata_params_shape`: the parameter list is `request` + the flattened fields (or only `requests`
    for client streaming) followed by exactly `retry, timeout, metadata`. -/
theorem metadata_params_shape (cs : Bool) (it : List Char) (fl : List Param) :
    (metadataParams cs it fl).map (·.name) =
      (if cs then ["requests".toList] else "request".toList :: fl.map (·.name)) ++
        ["retry".toList, "timeout".toList, "metadata".toList] := by
  cases cs <;> simp [metadataParams, tailParams]

/-- `metadata_flattened_names_are_leaf_names`: for a method signature with dotted paths the metadata lists, after
    `request`, the LEAF field names (reserved words suffixed) in signature order — the names of the emitted client
    method's keyword parameters — then `retry, timeout, metadata`. -/
theorem metadata_flattened_names_are_leaf_names (reserved : List Char → Bool) (it : List Char)
    (sig : List (List (List Char) × List Char)) :
    (metadataParams false it (flattenedParams reserved sig)).map (·.name) =
      "request".toList :: sig.map (fun e => flattenedName reserved e.1) ++
        ["retry".toList, "timeout".toList, "metadata".toList] := by
  simp [metadataParams, tailParams, flattenedParams, List.map_map, Function.comp_def]

section Aux
theorem dot_mem_joinDots (a b : List Char) (rest : List (List Char)) : '.' ∈ joinDots (a :: b :: rest) := by
  simp [joinDots]

theorem suffixed_no_dot (reserved : List Char → Bool) (seg : List Char) (h : '.' ∉ seg) : '.' ∉ suffixed reserved seg := by
  unfold suffixed
  split
  · simp [h]
  · exact h
end Aux

/-- the leaf name is never the key once the path is dotted (field names contain no `.`): a metadata entry that wrote the
    mapping key would name a parameter the client method does not have; for a top-level entry the two coincide -/
theorem flattened_name_ne_key (reserved : List Char → Bool) (a b : List Char) (rest : List (List Char))
    (hnd : ∀ seg ∈ a :: b :: rest, '.' ∉ seg) :
    flattenedName reserved (a :: b :: rest) ≠ flattenedKey reserved (a :: b :: rest) := by
  intro h
  have hk : '.' ∈ flattenedKey reserved (a :: b :: rest) := by
    simp only [flattenedKey, List.map_cons]
    exact dot_mem_joinDots _ _ _
  have hlast : ∃ seg ∈ a :: b :: rest, (a :: b :: rest).getLast?.getD [] = seg := by
    cases hl : (a :: b :: rest).getLast? with
    | none => simp at hl
    | some x => exact ⟨x, List.mem_of_getLast? hl, rfl⟩
  obtain ⟨seg, hm, he⟩ := hlast
  have hn : '.' ∉ flattenedName reserved (a :: b :: rest) := by
    unfold flattenedName
    rw [he]
    exact suffixed_no_dot reserved seg (hnd seg hm)
  exact hn (h ▸ hk)

theorem flattened_name_eq_key_top_level (reserved : List Char → Bool) (a : List Char) :
    flattenedName reserved [a] = flattenedKey reserved [a] := by
  simp [flattenedName, flattenedKey, joinDots]

example : let res := fun s => decide (s ∈ GapicModel.Pinned.reservedNames.map String.toList)
    (flattenedKey res ["book".toList, "class".toList] = "book.class_".toList ∧
     flattenedName res ["book".toList, "class".toList] = "class_".toList ∧
     flattenedKey res ["folio".toList, "next".toList, "note".toList] = "folio.next_.note".toList ∧
     flattenedName res ["folio".toList, "next".toList, "note".toList] = "note".toList) := by
  decide +kernel

/-! ### result type of the metadata entry -/

section Aux
theorem ne_wrapped (pre suf t : List Char) (h : 0 < pre.length) : t ≠ pre ++ t ++ suf := by
  intro e
  have := congrArg List.length e
  simp at this
  omega
end Aux

/-- `metadata_result_type_stream_iff`: for an RPC that is neither LRO nor paginated and is not void, the
    metadata's `resultType` is `Iterable[<output>]` exactly when the calling form is server-streaming or
    bidi-streaming — the two forms whose emitted client method returns a response stream and whose sample
    iterates `for response in stream`; for plain and client-streaming calls it is the bare output type. -/
theorem metadata_result_type_stream_iff (m : MethodShape) (t : List Char) (hl : m.lro = false) (hp : m.paged = false) :
    streamShaped t (metadataResultType false m.serverStreaming t) = (callingForm m).yieldsStream := by
  rcases m with ⟨lro, paged, cs, ss⟩
  simp only at hl hp
  subst hl hp
  have hne : ¬ t = "Iterable[".toList ++ t ++ "]".toList := ne_wrapped "Iterable[".toList "]".toList t (by decide)
  cases cs <;> cases ss <;> simp [streamShaped, metadataResultType, callingForm, CallingForm.yieldsStream] <;>
    (intro e; exact hne (by simpa using e))

example : (⟨false, false, true, true⟩ : MethodShape).lro = false ∧ (⟨false, false, true, true⟩ : MethodShape).paged = false ∧
    metadataResultType false true "acme.chat_v1.types.Reply".toList = some "Iterable[acme.chat_v1.types.Reply]".toList ∧
    callingForm ⟨false, false, true, true⟩ = .requestStreamingBidi := by decide

/-- a void RPC has no result type, whatever its streaming shape -/
theorem metadata_result_type_void (ss : Bool) (t : List Char) : metadataResultType true ss t = none := by
  simp [metadataResultType]

/-- LRO and paginated calls never yield a stream (their result types are the operation / pager classes) -/
theorem lro_paged_not_stream (m : MethodShape) (h : m.lro = true ∨ m.paged = true) : (callingForm m).yieldsStream = false := by
  rcases m with ⟨lro, paged, cs, ss⟩
  cases lro <;> cases paged <;> simp_all [callingForm, CallingForm.yieldsStream]

example : (⟨false, true, false, false⟩ : MethodShape).lro = true ∨ (⟨false, true, false, false⟩ : MethodShape).paged = true := by decide

/-! ### snippet index -/

section Aux

theorem upd_any_service (svc rpc : List Char) (f : IxEntry → IxEntry) (hf : ∀ e, (f e).service = e.service) (q : List Char) :
    ∀ ix : Index, (Index.upd svc rpc f ix).any (fun e => decide (e.service = q)) = ix.any (fun e => decide (e.service = q)) := by
  intro ix
  induction ix with
  | nil => rfl
  | cons e es ih =>
    simp only [Index.upd]
    split
    · simp [List.any_cons, hf]
    · simp only [List.any_cons, ih]

theorem upd_find_same (svc rpc : List Char) (f : IxEntry → IxEntry)
    (hf : ∀ e, (f e).service = e.service ∧ (f e).rpc = e.rpc) :
    ∀ ix : Index, (Index.upd svc rpc f ix).find svc rpc = (ix.find svc rpc).map f := by
  intro ix
  induction ix with
  | nil => rfl
  | cons e es ih =>
    simp only [Index.upd]
    by_cases h : e.service = svc ∧ e.rpc = rpc
    · simp [h, Index.find, List.find?_cons, hf]
    · simp only [h, if_false]
      simp only [Index.find, List.find?_cons, h, decide_false] at ih ⊢
      exact ih

theorem upd_find_other (svc rpc : List Char) (f : IxEntry → IxEntry)
    (hf : ∀ e, (f e).service = e.service ∧ (f e).rpc = e.rpc) (svc2 rpc2 : List Char) (hne : ¬ (svc2 = svc ∧ rpc2 = rpc)) :
    ∀ ix : Index, (Index.upd svc rpc f ix).find svc2 rpc2 = ix.find svc2 rpc2 := by
  intro ix
  induction ix with
  | nil => rfl
  | cons e es ih =>
    simp only [Index.upd]
    by_cases h : e.service = svc ∧ e.rpc = rpc
    · have h2 : ¬ (e.service = svc2 ∧ e.rpc = rpc2) := by
        intro h3; exact hne ⟨by rw [← h3.1, h.1], by rw [← h3.2, h.2]⟩
      obtain ⟨h1, h1r⟩ := h
      subst h1 h1r
      have hk := hf e
      by_cases a : e.service = svc2 <;> by_cases b : e.rpc = rpc2 <;>
        simp_all [Index.find, List.find?_cons]
    · simp only [h, if_false]
      simp only [Index.find, List.find?_cons] at ih ⊢
      rw [ih]

theorem put_keys (s : Snip) (e : IxEntry) : (e.put s).service = e.service ∧ (e.put s).rpc = e.rpc := by
  unfold IxEntry.put; split <;> simp

end Aux

/-- `get_add_own_flavour`: after `add_snippet(s)`, `get_snippet(service, rpc, sync = not s.async)` returns `s` — for
    EVERY region tag (`…_async_internal` of a selectively-internal RPC included): the slot is chosen by the
    metadata's `async` flag alone. -/
theorem get_add_own_flavour (ix ix2 : Index) (s : Snip) (h : ix.addSnippet s = .ok ix2) :
    ix2.getSnippet s.service s.rpc (!s.isAsync) = .ok (some s) := by
  unfold Index.addSnippet at h
  cases hl : ix.locate s.service s.rpc with
  | error x => simp [hl] at h
  | ok e0 =>
    simp only [hl, Except.ok.injEq] at h
    subst h
    unfold Index.locate at hl
    split at hl
    · rename_i hany
      cases hfind : ix.find s.service s.rpc with
      | none => simp [hfind] at hl
      | some e =>
        unfold Index.getSnippet Index.locate
        rw [upd_any_service _ _ _ (fun e => (put_keys s e).1), hany, upd_find_same _ _ _ (put_keys s), hfind]
        cases hs : s.isAsync <;> simp [IxEntry.put, hs]
    · cases hl

/-- the other flavour's slot of the same RPC is left alone (the asyncio snippet never replaces the sync one) -/
theorem add_keeps_other_flavour (ix ix2 : Index) (s : Snip) (h : ix.addSnippet s = .ok ix2) :
    ix2.getSnippet s.service s.rpc s.isAsync = ix.getSnippet s.service s.rpc s.isAsync := by
  unfold Index.addSnippet at h
  cases hl : ix.locate s.service s.rpc with
  | error x => simp [hl] at h
  | ok e0 =>
    simp only [hl, Except.ok.injEq] at h
    subst h
    have hl2 := hl
    unfold Index.locate at hl
    split at hl
    · rename_i hany
      cases hfind : ix.find s.service s.rpc with
      | none => simp [hfind] at hl
      | some e =>
        unfold Index.getSnippet
        rw [hl2]
        unfold Index.locate
        rw [upd_any_service _ _ _ (fun e => (put_keys s e).1), hany, upd_find_same _ _ _ (put_keys s), hfind]
        simp only [hfind, Except.ok.injEq] at hl
        subst hl
        cases hs : s.isAsync <;> simp [IxEntry.put, hs]
    · cases hl

/-- and so are the slots of every other RPC -/
theorem add_keeps_other_methods (ix ix2 : Index) (s : Snip) (h : ix.addSnippet s = .ok ix2)
    (svc rpc : List Char) (hne : ¬ (svc = s.service ∧ rpc = s.rpc)) (b : Bool) :
    ix2.getSnippet svc rpc b = ix.getSnippet svc rpc b := by
  unfold Index.addSnippet at h
  cases hl : ix.locate s.service s.rpc with
  | error x => simp [hl] at h
  | ok e0 =>
    simp only [hl, Except.ok.injEq] at h
    subst h
    unfold Index.getSnippet Index.locate
    rw [upd_any_service _ _ _ (fun e => (put_keys s e).1), upd_find_other _ _ _ (put_keys s) _ _ hne]

/-- the asyncio snippet of an internal RPC (tag `…_async_internal`) is what the asyncio client's docstring gets,
    the sync client's docstring gets the sync one — in either order of insertion -/
def ixA : Snip := ⟨"Things".toList, "RenameThing".toList, true, "thing_v1_generated_Things_RenameThing_async_internal".toList⟩
def ixB : Snip := ⟨"Things".toList, "RenameThing".toList, false, "thing_v1_generated_Things_RenameThing_sync_internal".toList⟩
def ixInit : Index := Index.init [("Things".toList, "GetThing".toList), ("Things".toList, "RenameThing".toList)]

theorem internal_async_snippet_filed_async :
    ((ixInit.addAll [ixA, ixB]).toOption.map fun ix2 =>
      ((ix2.getSnippet ixA.service ixA.rpc false).toOption, (ix2.getSnippet ixA.service ixA.rpc true).toOption))
      = some (some (some ixA), some (some ixB)) ∧
    ((ixInit.addAll [ixB, ixA]).toOption.map fun ix2 =>
      ((ix2.getSnippet ixA.service ixA.rpc false).toOption, (ix2.getSnippet ixA.service ixA.rpc true).toOption))
      = some (some (some ixA), some (some ixB)) := by
  decide +kernel

example : ∃ ix2, ixInit.addSnippet ixA = .ok ix2 := ⟨_, rfl⟩

end GapicModel.Props.C14
